package main

import (
	"fmt"
	"time"
	"github.com/criyle/go-sandbox/container"
)

func init() {
	helpers["dbg-time"] = func(args []string) {
		t := time.Now()
		for i := 0; i < 10; i++ {
			r, out := runPtraceProbe(RunSpec{Script: "exit 3"})
			if i == 0 {
				fmt.Println("ptrace", r, out)
			}
		}
		fmt.Println("ptrace x10", time.Since(t))
		t = time.Now()
		for i := 0; i < 10; i++ {
			r, out := runUnshareProbe(RunSpec{Script: "exit 3"}, "", nil)
			if i == 0 {
				fmt.Println("unshare", r, out)
			}
		}
		fmt.Println("unshare x10", time.Since(t))
		t = time.Now()
		env, err := newEnv(container.Builder{})
		fmt.Println("env build", time.Since(t), err)
		t = time.Now()
		for i := 0; i < 10; i++ {
			r, out := env.runProbe(RunSpec{Script: "exit 3"}, false)
			if i == 0 {
				fmt.Println("container", r, out)
			}
		}
		fmt.Println("container x10", time.Since(t))
		env.Close()
	}
}
