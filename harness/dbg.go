package main

import (
	"fmt"
	"github.com/criyle/go-sandbox/container"
	"time"
)

func init() {
	helpers["dbg-time"] = func(args []string) {
		t := time.Now()
		for i := 0; i < 10; i++ {
			r, out := runPtraceProbe(RunSpec{Script: "exit 3"})
			if i == 0 {
				fmt.Println("ptrace", r, out)
			}
		}
		fmt.Println("ptrace x10", time.Since(t))
		t = time.Now()
		for i := 0; i < 10; i++ {
			r, out := runUnshareProbe(RunSpec{Script: "exit 3"}, "", nil)
			if i == 0 {
				fmt.Println("unshare", r, out)
			}
		}
		fmt.Println("unshare x10", time.Since(t))
		t = time.Now()
		env, err := newEnv(container.Builder{})
		fmt.Println("env build", time.Since(t), err)
		t = time.Now()
		for i := 0; i < 10; i++ {
			r, out := env.runProbe(RunSpec{Script: "exit 3"}, false)
			if i == 0 {
				fmt.Println("container", r, out)
			}
		}
		fmt.Println("container x10", time.Since(t))
		env.Close()
	}
}

func init() {
	helpers["dbg-daemon"] = func(args []string) {
		before := childPids()
		env, err := newEnv(container.Builder{})
		fmt.Println("env", err)
		initPid := 0
		for p := range childPids() {
			if !before[p] {
				initPid = p
			}
		}
		for _, sc := range []string{"daemon;sleep 30000;exit 0", "fork;setsid;sleep 30000;endfork;fork;setpgid;ignore 15;sleep 30000;endfork;sleep 40;exit 0"} {
			t := time.Now()
			r, out := env.runProbe(RunSpec{Script: sc, Timeout: 5 * time.Second}, false)
			fmt.Println("run", r, out, time.Since(t))
			time.Sleep(100 * time.Millisecond)
			fmt.Println("init", initPid, "children", childrenOf(initPid), "ping", env.Ping())
		}
		env.Close()
	}
}

func init() {
	// dbg-script <ptrace|unshare|container> <script>: run one probe script and print the result
	helpers["dbg-script"] = func(args []string) {
		switch args[0] {
		case "ptrace":
			r, out := runPtraceProbe(RunSpec{Script: args[1], Filter: tracingFilter(), Timeout: 20 * time.Second})
			fmt.Println(r, out)
		case "unshare":
			r, out := runUnshareProbe(RunSpec{Script: args[1], Timeout: 20 * time.Second}, "", nil)
			fmt.Println(r, out)
		default:
			env, err := newEnv(container.Builder{})
			if err != nil {
				fmt.Println(err)
				return
			}
			r, out := env.runProbe(RunSpec{Script: args[1], Timeout: 20 * time.Second}, false)
			fmt.Println(r, out)
			env.Close()
		}
	}
}
