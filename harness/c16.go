package main

import (
	"bufio"
	"context"
	"fmt"
	"os"
	"os/exec"
	"strconv"
	"strings"
	"syscall"
	"time"

	"github.com/criyle/go-sandbox/container"
	"github.com/criyle/go-sandbox/pkg/forkexec"
	"github.com/criyle/go-sandbox/pkg/mount"
	"github.com/criyle/go-sandbox/pkg/unixsocket"
	"github.com/criyle/go-sandbox/ptracer"
	"github.com/criyle/go-sandbox/runner"
	"github.com/criyle/go-sandbox/runner/ptrace"
	"github.com/criyle/go-sandbox/runner/unshare"
)

func init() {
	props["C16"] = runC16
	helpers["c16-controller"] = c16Controller
}

// c16Controller is the victim: a controlling process that the harness kills.
func c16Controller(args []string) {
	mode := args[0]
	switch mode {
	case "ptrace":
		// a traced program with signal-ignoring descendants
		runPtraceProbe(RunSpec{Script: "ignore 15;ignore 1;fork;ignore 15;fork;sleep 30000;endfork;sleep 30000;endfork;sleep 30000;exit 0", Filter: tracingFilter(), Timeout: 40 * time.Second,
			SyncFunc: func(pid int) error { fmt.Printf("PROG %d\n", pid); os.Stdout.Sync(); return nil }})
	case "ptrace-untraced-clone":
		// the program creates a child with clone(CLONE_UNTRACED|SIGCHLD): the kernel does not attach it to the tracer
		runPtraceProbe(RunSpec{Script: "ignore 15;ignore 1;sys 56 0x800011 0 0 0 0;sleep 30000;exit 0", Filter: tracingFilter(), Timeout: 40 * time.Second,
			SyncFunc: func(pid int) error { fmt.Printf("PROG %d\n", pid); os.Stdout.Sync(); return nil }})
	case "ptrace-insync", "unshare-insync":
		// the controller is killed DURING the synchronisation: the launched child waits for the answer of the callback.
		// The program's descriptors are the controller's own 0,1,2, so that the descriptor shuffle needs no scratch numbers
		// (nothing of the launcher's table is overwritten by accident)
		pf := openProbe()
		sync := func(pid int) error {
			fmt.Printf("PROG %d\n", pid)
			os.Stdout.Sync()
			time.Sleep(40 * time.Second)
			return nil
		}
		ctx, cancel := context.WithTimeout(context.Background(), 40*time.Second)
		defer cancel()
		if mode == "ptrace-insync" {
			(&ptrace.Runner{Args: []string{"probe", "sleep 30000;exit 0"}, Env: []string{}, ExecFile: pf.Fd(), Files: []uintptr{0, 1, 2}, Seccomp: tracingFilter(), Handler: allowHandler{}, Limit: bigLimit, SyncFunc: sync}).Run(ctx)
		} else {
			(&unshare.Runner{Args: []string{"probe", "sleep 30000;exit 0"}, Env: []string{}, ExecFile: pf.Fd(), Files: []uintptr{0, 1, 2}, Limit: bigLimit, SyncFunc: sync}).Run(ctx)
		}
	case "tracer-noseccomp", "tracer-seccomp":
		// the tracer used directly on a launcher with ptrace and WITHOUT a seccomp filter (the tracee's first stop is then
		// the trap of its exec, not its own SIGSTOP); the program ignores signals and has forked descendants
		pf := openProbe()
		devnull, _ := os.Open(os.DevNull)
		fr := &forkexec.Runner{Args: []string{"probe", "ignore 15;ignore 1;fork;ignore 15;fork;sleep 30000;endfork;sleep 30000;endfork;sleep 30000;exit 0"}, Env: []string{},
			ExecFile: pf.Fd(), Files: []uintptr{devnull.Fd(), devnull.Fd(), devnull.Fd()}, Ptrace: true}
		if mode == "tracer-seccomp" {
			fr.Seccomp = allowAll().SockFprog()
		}
		t := ptracer.Tracer{Handler: c16Allow{}, Runner: c16Announce{fr}, Limit: runner.Limit{TimeLimit: time.Hour, MemoryLimit: 1 << 40}}
		t.Trace(context.Background())
	case "build-initcmd":
		// the init runs a long init command during conf: it is not reading its socket meanwhile
		newEnv(container.Builder{InitCommand: []string{"/bin/sleep", "30"},
			Mounts: mount.NewDefaultBuilder().WithTmpfs("w", "").WithTmpfs("tmp", "").WithBind("/dev/null", "dev/null", false).FilterNotExist().Mounts})
		time.Sleep(40 * time.Second)
	default:
		before := childPids()
		// container variants: "-cred" = the container runs programs under a user id of its own (CredGenerator) and has
		// served file operations before the run ("for all operations in progress", in every configuration)
		bld := container.Builder{}
		withCred := strings.HasSuffix(mode, "-cred")
		if withCred {
			bld.CredGenerator = c16Cred{}
			mode = strings.TrimSuffix(mode, "-cred")
		}
		env, err := newEnv(bld)
		if err != nil {
			fmt.Println("ERROR", err)
			return
		}
		if withCred {
			rs, _ := env.Open([]container.OpenCmd{{Path: "/w/warm", Flag: os.O_CREATE | os.O_RDWR, Perm: 0644}})
			for _, r := range rs {
				if r.File != nil {
					r.File.Close()
				}
			}
			env.Symlink([]container.SymbolicLink{{LinkPath: "/w/wl", Target: "/w/warm"}})
			env.Delete("/w/wl")
			env.Ping()
		}
		for p := range childPids() {
			if !before[p] {
				ns, _ := os.Readlink(fmt.Sprintf("/proc/%d/ns/pid_for_children", p))
				if l, e := os.Readlink(fmt.Sprintf("/proc/%d/ns/pid", p)); e == nil {
					ns = l
				}
				fmt.Printf("INIT %d %s\n", p, ns)
			}
		}
		fmt.Println("ROOT", env.root)
		os.Stdout.Sync()
		switch mode {
		case "idle":
			time.Sleep(40 * time.Second)
		case "execve", "execve-syncafter":
			// the main process of the program ends after 300 ms (so that the kill meets every phase of a call), in the
			// "-cred" variant it never ends by itself
			mainSleep := "300"
			if withCred {
				mainSleep = "30000"
			}
			for {
				env.runProbe(RunSpec{Script: "ignore 15;ignore 1;fork;ignore 15;fork;sleep 30000;endfork;sleep 30000;endfork;sleep " + mainSleep + ";exit 0", Timeout: 40 * time.Second,
					SyncFunc: func(pid int) error { fmt.Printf("PROG %d\n", pid); os.Stdout.Sync(); return nil }}, mode == "execve-syncafter")
			}
		case "fileops":
			for {
				rs, _ := env.Open([]container.OpenCmd{{Path: "/w/a", Flag: os.O_CREATE | os.O_RDWR, Perm: 0644}})
				for _, r := range rs {
					if r.File != nil {
						r.File.Close()
					}
				}
				env.Symlink([]container.SymbolicLink{{LinkPath: "/w/l", Target: "/w/a"}})
				env.Delete("/w/l")
				env.Reset()
				env.Ping()
			}
		}
	}
}

type c16Cred struct{}

func (c16Cred) Get() syscall.Credential { return syscall.Credential{Uid: 10000, Gid: 10000} }

type c16Allow struct{}

func (c16Allow) Handle(*ptracer.Context) ptracer.TraceAction { return ptracer.TraceAllow }
func (c16Allow) Debug(v ...interface{})                      {}

// c16Announce reports the pid of the launched program as soon as the launcher returns
type c16Announce struct{ r *forkexec.Runner }

func (a c16Announce) Start() (int, error) {
	pid, err := a.r.Start()
	fmt.Printf("PROG %d\n", pid)
	os.Stdout.Sync()
	return pid, err
}

func procsInPidNs(ns string) []int {
	var out []int
	ents, _ := os.ReadDir("/proc")
	for _, e := range ents {
		pid, err := strconv.Atoi(e.Name())
		if err != nil {
			continue
		}
		if l, err := os.Readlink(fmt.Sprintf("/proc/%d/ns/pid", pid)); err == nil && l == ns {
			if pidAlive(pid) {
				out = append(out, pid)
			}
		}
	}
	return out
}

func procsInGroup(pgid int) []int {
	var out []int
	ents, _ := os.ReadDir("/proc")
	for _, e := range ents {
		pid, err := strconv.Atoi(e.Name())
		if err != nil {
			continue
		}
		b, err := os.ReadFile(fmt.Sprintf("/proc/%d/stat", pid))
		if err != nil {
			continue
		}
		s := string(b)
		i := strings.LastIndex(s, ")")
		f := strings.Fields(s[i+1:])
		if len(f) > 2 && f[0] != "Z" {
			if g, _ := strconv.Atoi(f[2]); g == pgid {
				out = append(out, pid)
			}
		}
	}
	return out
}

func runC16(res *Result, d *Driver, tier string, seed uint64) {
	res.Rule = "a helper controller process (this binary) builds a container / starts a traced program whose descendants ignore signals, reports the init pid, its pid namespace and the program pid; the harness SIGKILLs the controller when it announces a protocol point (verif delay-point announcements on its stderr: host.execve.sent, host.waitForDone, container.started via the init's stderr) and at random instants, for idle / Execve (sync before and after exec) / file operations / ptrace, also for containers that run programs under their own user id and have served file operations before; during the synchronisation callback of a ptrace and of a namespace launch; for the tracer used directly on a launcher with and without a seccomp filter; and for a program that creates a child with clone(CLONE_UNTRACED) (open known finding); " +
		"afterwards no process of the container's pid namespace, resp. of the traced program's process group, may be alive within the bound. non-trivial = every case; distinct = (mode, kill point)."
	rng := NewRng(seed, "C16", 1)
	// the rule the model rests on ("a receive on the closed, empty control socket is end of file"), on the real socket
	// pair of an environment: one end is closed (the controller is gone), a receive blocked on the other end — and one
	// started afterwards — must return promptly
	for variant := 0; variant < 2; variant++ {
		a, b, err := unixsocket.NewSocketPair()
		if err != nil {
			fatal("socketpair: %v", err)
		}
		got := make(chan error, 1)
		if variant == 0 {
			go func() { _, _, e := b.RecvMsg(make([]byte, 64)); got <- e }()
			time.Sleep(20 * time.Millisecond)
			a.Close()
		} else {
			a.Close()
			go func() { _, _, e := b.RecvMsg(make([]byte, 64)); got <- e }()
		}
		res.Case(fmt.Sprintf("eof on the control socket pair, variant %d", variant), true, "socket-eof")
		select {
		case e := <-got:
			if e == nil {
				res.Mismatch(Mismatch{Kind: "oracle", What: "a receive on the control socket whose peer is closed reports it (C16_container_dies_by_eof: the init leaves serve on end of file)", Input: "unixsocket.NewSocketPair(); close one end; RecvMsg on the other", Impl: "a message was delivered", Oracle: "violates"})
			}
		case <-time.After(5 * time.Second):
			res.Mismatch(Mismatch{Kind: "oracle", What: "a receive on the control socket whose peer is closed returns (end of file): an init whose controller died before the parent-death signal was armed leaves only this way (C16_container_dies_by_eof)", Input: fmt.Sprintf("unixsocket.NewSocketPair(); %s; RecvMsg on the other end", []string{"RecvMsg blocked, then the peer is closed", "the peer is closed, then RecvMsg"}[variant]), Impl: "RecvMsg still blocked after 5 s", Oracle: "violates"})
		}
		b.Close()
	}
	self, _ := os.Executable()
	type kc struct{ mode, point string }
	var cases []kc
	for _, m := range []string{"idle", "execve", "execve-syncafter", "fileops", "ptrace"} {
		cases = append(cases, kc{m, "random"})
	}
	cases = append(cases, kc{"build-initcmd", "random"})
	// the tracer is killed shortly AFTER the synchronisation: the child is then between the sync and its first ptrace stop
	// (where PTRACE_O_EXITKILL is set) — the window of the repaired "stopped launcher left behind" defect
	for k := 0; k < 8; k++ {
		cases = append(cases, kc{"ptrace", "after-sync"})
	}
	for k := 0; k < 2; k++ {
		cases = append(cases, kc{"ptrace-insync", "in-sync"}, kc{"unshare-insync", "in-sync"}, kc{"tracer-noseccomp", "after-start"}, kc{"tracer-seccomp", "after-start"})
	}
	cases = append(cases, kc{"ptrace-untraced-clone", "after-start"})
	for _, p := range []string{"host.execve.sent", "host.waitForDone"} {
		cases = append(cases, kc{"execve", p}, kc{"execve-syncafter", p})
	}
	cases = append(cases, kc{"execve-cred", "random"}, kc{"execve-cred", "host.waitForDone"}, kc{"execve-syncafter-cred", "host.waitForDone"}, kc{"idle-cred", "random"}, kc{"fileops-cred", "random"})
	reps := 1
	if tier == "thorough" {
		reps = 20
	}
	const bound = 10 * time.Second
	for rep := 0; rep < reps; rep++ {
		for _, c := range cases {
			isPt := strings.HasPrefix(c.mode, "ptrace") || strings.HasSuffix(c.mode, "-insync") || strings.HasPrefix(c.mode, "tracer-")
			cmd := exec.Command(self, "c16-controller", c.mode)
			cmd.Env = append(os.Environ(), "VERIF_ANNOUNCE=1")
			so, _ := cmd.StdoutPipe()
			se, _ := cmd.StderrPipe()
			if err := cmd.Start(); err != nil {
				fatal("controller: %v", err)
			}
			lines := make(chan string, 1000)
			for _, rd := range []*bufio.Scanner{bufio.NewScanner(so), bufio.NewScanner(se)} {
				go func(sc *bufio.Scanner) {
					for sc.Scan() {
						select {
						case lines <- sc.Text():
						default:
						}
					}
				}(rd)
			}
			var initPid, progPid int
			var ns string
			deadline := time.After(5 * time.Second)
			randomKill := time.After(time.Duration(20+rng.Intn(200)) * time.Millisecond)
			killed := false
			seenProg := 0
			for !killed {
				select {
				case l := <-lines:
					f := strings.Fields(l)
					switch {
					case len(f) >= 3 && f[0] == "INIT":
						initPid, _ = strconv.Atoi(f[1])
						ns = f[2]
					case len(f) == 2 && f[0] == "PROG":
						progPid, _ = strconv.Atoi(f[1])
						seenProg++
					case len(f) == 2 && f[0] == "VP" && f[1] == c.point && (initPid > 0 || isPt):
						if rng.Chance(50) || seenProg > 1 {
							time.Sleep(time.Duration(rng.Intn(3000)) * time.Microsecond)
							cmd.Process.Kill()
							killed = true
						}
					}
				case <-randomKill:
					if c.mode == "build-initcmd" {
						// Build has not returned: find the init among the controller's children
						time.Sleep(150 * time.Millisecond)
						for _, p := range childrenOf(cmd.Process.Pid) {
							if l, e := os.Readlink(fmt.Sprintf("/proc/%d/ns/pid", p)); e == nil {
								self, _ := os.Readlink("/proc/self/ns/pid")
								if l != self {
									initPid, ns = p, l
								}
							}
						}
						cmd.Process.Kill()
						killed = true
					} else if c.point == "in-sync" && progPid > 0 {
						time.Sleep(time.Duration(rng.Intn(20)) * time.Millisecond)
						cmd.Process.Kill()
						killed = true
					} else if c.point == "after-start" && progPid > 0 {
						time.Sleep(time.Duration(200+rng.Intn(200)) * time.Millisecond) // the descendants exist by then
						cmd.Process.Kill()
						killed = true
					} else if c.point == "in-sync" || c.point == "after-start" {
						randomKill = time.After(5 * time.Millisecond)
					} else if c.point == "after-sync" && progPid > 0 {
						time.Sleep(time.Duration(rng.Intn(1500)) * time.Microsecond)
						cmd.Process.Kill()
						killed = true
					} else if c.point == "random" && (initPid > 0 || progPid > 0 || isPt) {
						cmd.Process.Kill()
						killed = true
					} else if c.point == "random" {
						randomKill = time.After(20 * time.Millisecond)
					}
				case <-deadline:
					cmd.Process.Kill()
					killed = true
				}
			}
			cmd.Wait()
			// drain a few more lines (the program pid may have been reported just before the kill)
			t0 := time.Now()
			var left []int
			caseBound := bound
			if c.mode == "ptrace-untraced-clone" {
				caseBound = 3 * time.Second // the recorded finding: nothing will kill that child, no need to wait long
			}
			for time.Since(t0) < caseBound {
				left = nil
				if ns != "" {
					left = append(left, procsInPidNs(ns)...)
				}
				if initPid > 0 && pidAlive(initPid) {
					left = append(left, initPid)
				}
				if progPid > 0 && isPt {
					left = append(left, procsInGroup(progPid)...)
					if pidAlive(progPid) && !containsInt(left, progPid) {
						left = append(left, progPid)
					}
				}
				if len(left) == 0 {
					break
				}
				time.Sleep(5 * time.Millisecond)
			}
			key := fmt.Sprintf("%s kill@%s", c.mode, c.point)
			res.Case(key+itoa(rep), true, key)
			res.Traces++
			if len(left) > 0 {
				// what is it that survived? a launcher child that never reached exec (still the controller's image, stopped) is a
				// different thing from a running program
				var desc []string
				allLauncher := c.mode == "ptrace"
				for _, p := range left {
					exe, _ := os.Readlink(fmt.Sprintf("/proc/%d/exe", p))
					st, _ := os.ReadFile(fmt.Sprintf("/proc/%d/stat", p))
					state := "?"
					if i := strings.LastIndex(string(st), ") "); i >= 0 && len(st) > i+2 {
						state = string(st[i+2 : i+3])
					}
					desc = append(desc, fmt.Sprintf("%d exe=%s state=%s", p, exe, state))
					if exe != self || (state != "T" && state != "t") {
						allLauncher = false
					}
				}
				mkey := ""
				if allLauncher {
					mkey = "tracer-killed-before-first-stop"
				}
				if c.mode == "ptrace-untraced-clone" && !containsInt(left, progPid) {
					// the traced main process died with the tracer; what is left is the child it created outside the tracer's reach
					mkey = "clone-untraced-child"
				}
				res.Mismatch(Mismatch{Kind: "oracle", What: "controller killed: sandboxed processes still alive after the bound (C16)", Input: key, Impl: fmt.Sprintf("alive %v (init %d ns %s prog %d)", desc, initPid, ns, progPid), Oracle: "violates", Key: mkey})
				for _, p := range left {
					syscall.Kill(p, syscall.SIGKILL)
				}
			}
			if (initPid == 0 && !isPt) || (isPt && progPid == 0) {
				res.Note("controller %s was killed before it reported its pids (case counted as trivial)", key)
			}
		}
	}
	res.Sample("execve kill@host.waitForDone: controller SIGKILLed while a program with signal-ignoring descendants runs => pid namespace empty within the bound")
	_ = d
}

func containsInt(l []int, x int) bool {
	for _, v := range l {
		if v == x {
			return true
		}
	}
	return false
}
