package main

import (
	"fmt"
	"os"
	"path/filepath"
	"sort"
	"strings"

	"github.com/criyle/go-sandbox/ptracer"
	"github.com/criyle/go-sandbox/runner/ptrace/filehandler"
)

func init() { props["C18"] = runC18 }

// independent oracle: does entry e cover path p (property statement, not the model)?
func c18Covers(e, p string) bool {
	if e == p {
		return true
	}
	if strings.HasSuffix(e, "/") {
		d := e[:len(e)-1]
		if p == d || strings.HasPrefix(p, d+"/") {
			return true
		}
	}
	if strings.HasSuffix(e, "/*") {
		d := e[:len(e)-2]
		if strings.HasPrefix(p, d+"/") && !strings.Contains(p[len(d)+1:], "/") {
			return true
		}
	}
	return false
}

func c18Admitted(entries []string, root bool, p string) bool {
	for _, e := range entries {
		if c18Covers(e, p) {
			return true
		}
	}
	return p == "/" && root
}

func c18Paths(depth int) []string {
	var out []string
	var rec func(prefix string, d int)
	rec = func(prefix string, d int) {
		if d == 0 {
			return
		}
		for _, n := range []string{"a", "b"} {
			p := prefix + "/" + n
			out = append(out, p)
			rec(p, d-1)
		}
	}
	rec("", depth)
	return out
}

func setKeys(m map[string]bool) []string {
	var l []string
	for k, v := range m {
		if v {
			l = append(l, k)
		}
	}
	sort.Strings(l)
	return l
}

func actName(a ptracer.TraceAction) string {
	switch a {
	case ptracer.TraceAllow:
		return "allow"
	case ptracer.TraceBan:
		return "ban"
	case ptracer.TraceKill:
		return "kill"
	}
	return fmt.Sprintf("?%d", int(a))
}

func runC18(res *Result, d *Driver, tier string, seed uint64) {
	res.Rule = "part A: exhaustive sets of <=K entries (forms p, p/, p/*, plus '/' and '/*' and system-root flag) over the 2-letter path alphabet of depth<=3, " +
		"queried with every path of depth<=4 (+ '', '/', trailing-slash and double-slash variants); K=2 quick, 3 thorough. " +
		"part B: random FileSets built through Add/AddRange/AddFilePermission and queried through Handler.Check{Read,Write,Stat} on a real temp forest with symlinks (realPath given to the model); " +
		"part C: random counter tables and CheckSyscall histories. A case is non-trivial when at least one entry is present and the answer was reached past the direct-membership test; distinct = distinct (set,path) / (sets,query) / (table,history) keys."
	// ---- part A ----
	dirs := append([]string{""}, c18Paths(3)...)
	var entries []string
	for _, dname := range dirs {
		if dname != "" {
			entries = append(entries, dname)
		}
		entries = append(entries, dname+"/", dname+"/*")
	}
	queries := append([]string{"", "/"}, c18Paths(4)...)
	for _, p := range c18Paths(2) {
		queries = append(queries, p+"/", strings.Replace(p, "/", "//", 1))
	}
	qline := hxl(queries)
	K := 2
	if tier == "thorough" {
		K = 3
	}
	checkSet := func(es []string, root bool) {
		fs := filehandler.NewFileSet()
		for _, e := range es {
			fs.Set[e] = true
		}
		fs.SystemRoot = root
		ans := strings.Split(d.Ask("c18.inset "+b01(root)+" "+hxl(es)+" "+qline), ",")
		for i, q := range queries {
			impl := fs.IsInSetSmart(q)
			key := strings.Join(es, "|") + b01(root) + "?" + q
			direct := fs.Set[q]
			res.Case(key, len(es) > 0 && !direct, map[bool]string{true: "admit", false: "refuse"}[impl])
			orc := c18Admitted(es, root, q)
			if b01(impl) != ans[i] {
				m := Mismatch{Kind: "differential", What: "FileSet.IsInSetSmart vs Model.FileSet.inSetSmart",
					Input: fmt.Sprintf("set=%q root=%v path=%q", es, root, q), Impl: b01(impl), Model: ans[i]}
				if impl && !orc {
					m.Oracle = "violates"
					m.Note = "implementation admits a path no entry covers"
				} else {
					m.Oracle = "holds"
				}
				res.Mismatch(m)
			} else if impl && !orc {
				res.Mismatch(Mismatch{Kind: "oracle", What: "admitted implies covered (C18_sound)",
					Input: fmt.Sprintf("set=%q root=%v path=%q", es, root, q), Impl: "1", Model: ans[i], Oracle: "violates"})
			}
		}
	}
	var rec func(start int, cur []string)
	nsets := 0
	rec = func(start int, cur []string) {
		for _, root := range []bool{false, true} {
			checkSet(cur, root)
			nsets++
		}
		if len(cur) == K {
			return
		}
		for i := start; i < len(entries); i++ {
			rec(i+1, append(append([]string{}, cur...), entries[i]))
		}
	}
	rec(0, nil)
	res.Exhaustive = true
	res.Extra["partA_sets"] = nsets
	res.Extra["partA_queries_per_set"] = len(queries)
	res.Sample(fmt.Sprintf("c18.inset root=0 set=%q paths=%q...", entries[3:5], queries[:5]))
	// random deep cases (depth up to 8, sets up to 6)
	rng := NewRng(seed, "C18", 1)
	nrand := 300
	if tier == "thorough" {
		nrand = 20000
	}
	comp := []string{"a", "b", "usr", "lib", "x.y", "*", ".", ".."}
	mkPath := func() string {
		n := rng.Intn(8)
		p := ""
		for i := 0; i < n; i++ {
			p += "/" + rng.Pick(comp)
		}
		if rng.Chance(10) {
			p += "/"
		}
		return p
	}
	for i := 0; i < nrand; i++ {
		var es []string
		for j := rng.Intn(6); j > 0; j-- {
			p := mkPath()
			switch rng.Intn(3) {
			case 1:
				p += "/"
			case 2:
				p += "/*"
			}
			es = append(es, p)
		}
		fs := filehandler.NewFileSet()
		for _, e := range es {
			fs.Set[e] = true
		}
		root := rng.Bool()
		fs.SystemRoot = root
		var qs []string
		for j := 0; j < 12; j++ {
			if len(es) > 0 && rng.Chance(50) {
				e := strings.TrimSuffix(strings.TrimSuffix(rng.Pick(es), "*"), "/")
				for k := rng.Intn(3); k > 0; k-- {
					e += "/" + rng.Pick(comp)
				}
				qs = append(qs, e)
			} else {
				qs = append(qs, mkPath())
			}
		}
		ans := strings.Split(d.Ask("c18.inset "+b01(root)+" "+hxl(setKeys(fs.Set))+" "+hxl(qs)), ",")
		for j, q := range qs {
			impl := fs.IsInSetSmart(q)
			res.Case("R"+strings.Join(es, "|")+"?"+q, len(es) > 0 && !fs.Set[q], "random-"+b01(impl))
			orc := c18Admitted(setKeys(fs.Set), root, q)
			if b01(impl) != ans[j] || (impl && !orc) {
				m := Mismatch{Kind: "differential", What: "FileSet.IsInSetSmart vs Model.FileSet.inSetSmart (random)",
					Input: fmt.Sprintf("set=%q root=%v path=%q", setKeys(fs.Set), root, q), Impl: b01(impl), Model: ans[j], Oracle: "holds"}
				if impl && !orc {
					m.Oracle = "violates"
				}
				res.Mismatch(m)
			}
		}
	}

	// ---- part B: Handler over a real forest ----
	tmp, err := os.MkdirTemp("", "verif-c18-")
	if err != nil {
		fatal("mkdtemp: %v", err)
	}
	defer os.RemoveAll(tmp)
	tmp, _ = filepath.EvalSymlinks(tmp)
	os.MkdirAll(tmp+"/w/sub", 0755)
	os.MkdirAll(tmp+"/r/deep/er", 0755)
	os.MkdirAll(tmp+"/s", 0755)
	os.WriteFile(tmp+"/w/f", nil, 0644)
	os.WriteFile(tmp+"/r/f", nil, 0644)
	os.WriteFile(tmp+"/r/deep/g", nil, 0644)
	os.Symlink(tmp+"/w", tmp+"/lw")         // link into writable
	os.Symlink("../r/deep", tmp+"/w/lr")    // relative link writable -> readable
	os.Symlink(tmp+"/nowhere", tmp+"/dang") // dangling
	os.Symlink(tmp+"/r/f", tmp+"/s/lf")
	forestPaths := []string{"", "/", tmp, tmp + "/w", tmp + "/w/f", tmp + "/w/sub", tmp + "/w/sub/new", tmp + "/lw", tmp + "/lw/f", tmp + "/lw/sub/x",
		tmp + "/w/lr", tmp + "/w/lr/g", tmp + "/r", tmp + "/r/f", tmp + "/r/deep", tmp + "/r/deep/g", tmp + "/r/deep/er", tmp + "/s", tmp + "/s/lf", tmp + "/dang", tmp + "/dang/x", tmp + "/none", "/etc/passwd"}
	entryPool := []string{tmp + "/w/", tmp + "/w/*", tmp + "/w", tmp + "/r/", tmp + "/r/*", tmp + "/r/deep/", tmp + "/r/f", tmp + "/s/", tmp + "/s/*", tmp + "/", tmp + "/*", "/", "/*", tmp + "/lw/", tmp + "/w/lr/*", "/etc/"}
	// the library's own realPath (unexported) observed through the exported GetExtraSet
	realp := func(p string) string { return filehandler.GetExtraSet([]string{p}, nil)[0] }
	nB := 400
	if tier == "thorough" {
		nB = 20000
	}
	for i := 0; i < nB; i++ {
		fss := filehandler.NewFileSets()
		for _, s := range []*filehandler.FileSet{&fss.Writable, &fss.Readable, &fss.Statable, &fss.SoftBan} {
			for j := rng.Intn(4); j > 0; j-- {
				if rng.Chance(70) {
					s.Add(rng.Pick(entryPool))
				} else {
					s.AddRange([]string{rng.Pick(entryPool), "rel" + itoa(rng.Intn(2))}, tmp+"/w")
				}
			}
		}
		if rng.Chance(30) {
			fss.AddFilePermission(rng.Pick(forestPaths[2:]), filehandler.FilePerm(1+rng.Intn(3)))
		}
		h := &filehandler.Handler{FileSet: fss, SyscallCounter: filehandler.NewSyscallCounter()}
		var qs, impls []string
		for j := 0; j < 10; j++ {
			p := rng.Pick(forestPaths)
			c := rng.Pick([]string{"w", "r", "s"})
			var a ptracer.TraceAction
			switch c {
			case "w":
				a = h.CheckWrite(p)
			case "r":
				a = h.CheckRead(p)
			default:
				a = h.CheckStat(p)
			}
			qs = append(qs, c+":"+hx(p)+":"+hx(realp(p)))
			impls = append(impls, actName(a))
			// property oracle on the implementation's own answer
			chain := map[string][]*filehandler.FileSet{"w": {&fss.Writable}, "r": {&fss.Writable, &fss.Readable}, "s": {&fss.Writable, &fss.Readable, &fss.Statable}}[c]
			cov := func(sets []*filehandler.FileSet) bool {
				for _, s := range sets {
					if c18Admitted(setKeys(s.Set), s.SystemRoot, p) || c18Admitted(setKeys(s.Set), s.SystemRoot, realp(p)) {
						return true
					}
				}
				return false
			}
			desc := fmt.Sprintf("class=%s path=%q realPath=%q W=%q R=%q S=%q Ban=%q", c, p, realp(p), setKeys(fss.Writable.Set), setKeys(fss.Readable.Set), setKeys(fss.Statable.Set), setKeys(fss.SoftBan.Set))
			if a == ptracer.TraceAllow && !cov(chain) {
				key := "allow-uncovered"
				if p == "" {
					key = "empty-path-admitted"
				}
				res.Mismatch(Mismatch{Kind: "oracle", What: "allow implies covered by the class chain (C18_cascade) [" + key + "]", Input: desc, Impl: "allow", Oracle: "violates"})
			}
			if a == ptracer.TraceBan && !cov([]*filehandler.FileSet{&fss.SoftBan}) {
				res.Mismatch(Mismatch{Kind: "oracle", What: "ban implies soft-ban set covers (C18_refusal_kind)", Input: desc, Impl: "ban", Oracle: "violates"})
			}
		}
		line := "c18.check " + b01(fss.Writable.SystemRoot) + b01(fss.Readable.SystemRoot) + b01(fss.Statable.SystemRoot) + b01(fss.SoftBan.SystemRoot) +
			" " + hxl(setKeys(fss.Writable.Set)) + " " + hxl(setKeys(fss.Readable.Set)) + " " + hxl(setKeys(fss.Statable.Set)) + " " + hxl(setKeys(fss.SoftBan.Set)) + " " + jl(qs)
		ans := strings.Split(d.Ask(line), ",")
		for j := range qs {
			res.Case("B"+line+qs[j], true, "check-"+impls[j])
			if impls[j] != ans[j] {
				res.Mismatch(Mismatch{Kind: "differential", What: "Handler.Check* vs Model.FileSet.check", Input: line + " #" + itoa(j), Impl: impls[j], Model: ans[j]})
			}
		}
		if i == 0 {
			res.Sample(line)
		}
	}

	// ---- part B2: the file system changes between two checks of one handler ("for all call histories"): links and
	// directories a program controls are re-pointed / replaced; every answer must be right for the tree as it is at
	// that moment. The resolution used by the oracle is computed here (filepath.EvalSymlinks), not taken from the library.
	{
		indep := func(p string) string {
			if p == "" {
				return ""
			}
			f, err := filepath.EvalSymlinks(p)
			if err != nil {
				return ""
			}
			return f
		}
		nH := 60
		if tier == "thorough" {
			nH = 3000
		}
		targets := []string{tmp + "/w/f", tmp + "/r/f", tmp + "/r/deep/g", tmp + "/s", tmp + "/w/sub", tmp + "/r/deep", "/etc/passwd", tmp + "/nowhere"}
		for i := 0; i < nH; i++ {
			fss := filehandler.NewFileSets()
			for _, s := range []*filehandler.FileSet{&fss.Writable, &fss.Readable, &fss.Statable, &fss.SoftBan} {
				for j := rng.Intn(3); j > 0; j-- {
					s.Add(rng.Pick(entryPool))
				}
			}
			h := &filehandler.Handler{FileSet: fss, SyscallCounter: filehandler.NewSyscallCounter()}
			// names that are in no set themselves and are admitted only through what they resolve to
			os.MkdirAll(tmp+"/run", 0755)
			links := []string{tmp + "/run/cur", tmp + "/run/dirlink"}
			var hist []string
			for step := 0; step < 8; step++ {
				l := rng.Pick(links)
				if rng.Chance(50) || step == 0 {
					t := rng.Pick(targets)
					os.Remove(l)
					os.Symlink(t, l)
					hist = append(hist, fmt.Sprintf("relink %s -> %s", filepath.Base(l), strings.TrimPrefix(t, tmp)))
				}
				q := l
				if rng.Chance(40) {
					q = l + "/" + rng.Pick([]string{"g", "f", "er", "x"})
				}
				c := rng.Pick([]string{"w", "r", "s"})
				var a ptracer.TraceAction
				switch c {
				case "w":
					a = h.CheckWrite(q)
				case "r":
					a = h.CheckRead(q)
				default:
					a = h.CheckStat(q)
				}
				rq := indep(q)
				hist = append(hist, fmt.Sprintf("check %s %s (now %q)", c, strings.TrimPrefix(q, tmp), strings.TrimPrefix(rq, tmp)))
				chain := map[string][]*filehandler.FileSet{"w": {&fss.Writable}, "r": {&fss.Writable, &fss.Readable}, "s": {&fss.Writable, &fss.Readable, &fss.Statable}}[c]
				cov := func(sets []*filehandler.FileSet) bool {
					for _, s := range sets {
						if c18Admitted(setKeys(s.Set), s.SystemRoot, q) || c18Admitted(setKeys(s.Set), s.SystemRoot, rq) {
							return true
						}
					}
					return false
				}
				// what the hand model answers for this name with the resolution as it is NOW
				line := "c18.check " + b01(fss.Writable.SystemRoot) + b01(fss.Readable.SystemRoot) + b01(fss.Statable.SystemRoot) + b01(fss.SoftBan.SystemRoot) +
					" " + hxl(setKeys(fss.Writable.Set)) + " " + hxl(setKeys(fss.Readable.Set)) + " " + hxl(setKeys(fss.Statable.Set)) + " " + hxl(setKeys(fss.SoftBan.Set)) + " " + jl([]string{c + ":" + hx(q) + ":" + hx(rq)})
				want := strings.Split(d.Ask(line), ",")[0]
				res.Case("B2 "+strings.Join(hist, ";"), true, "relink-"+want)
				violates := (a == ptracer.TraceAllow && !cov(chain)) || (a == ptracer.TraceBan && !cov([]*filehandler.FileSet{&fss.SoftBan}))
				if actName(a) != want || violates {
					oracle := "unknown"
					if violates {
						oracle = "violates"
					}
					res.Mismatch(Mismatch{Kind: "oracle", What: "a check after the tree changed must be answered for the tree as it is now: allow only if a set of the class chain covers the name or what it resolves to now, ban only when the soft-ban set does (C18_cascade / C18_refusal_kind over call histories; hand model with the present resolution)",
						Input: fmt.Sprintf("W=%q R=%q S=%q Ban=%q history: %s", setKeys(fss.Writable.Set), setKeys(fss.Readable.Set), setKeys(fss.Statable.Set), setKeys(fss.SoftBan.Set), strings.Join(hist, "; ")),
						Impl: actName(a), Model: want, Oracle: oracle})
					break
				}
			}
			os.RemoveAll(tmp + "/run")
		}
	}

	// ---- part C: counters ----
	names := []string{"fork", "clone", "execve", "vfork", "kill"}
	nC := 400
	if tier == "thorough" {
		nC = 20000
	}
	for i := 0; i < nC; i++ {
		sc := filehandler.NewSyscallCounter()
		var tbl []string
		for _, n := range names {
			if rng.Chance(60) {
				v := rng.Intn(7) - 1
				sc.Add(n, v)
				tbl = append(tbl, hx(n)+"="+itoa(v))
			}
		}
		h := &filehandler.Handler{FileSet: filehandler.NewFileSets(), SyscallCounter: sc}
		var hist, impls []string
		allowed := map[string]int{}
		refused := map[string]bool{}
		cfg := map[string]int{}
		for k, v := range sc {
			cfg[k] = v
		}
		for j := rng.Intn(40); j > 0; j-- {
			n := rng.Pick(names)
			a := h.CheckSyscall(n)
			hist = append(hist, n)
			impls = append(impls, actName(a))
			// property oracle on the implementation's own answers
			if c, counted := cfg[n]; counted {
				if a == ptracer.TraceAllow {
					allowed[n]++
					if allowed[n] > c || refused[n] {
						res.Mismatch(Mismatch{Kind: "oracle", What: "counter budget (C18_counter)", Input: fmt.Sprintf("table=%v hist=%v", cfg, hist), Impl: actName(a), Oracle: "violates"})
					}
				} else {
					refused[n] = true
				}
			} else if a != ptracer.TraceBan {
				res.Mismatch(Mismatch{Kind: "oracle", What: "uncounted is soft-banned (C18_uncounted_banned)", Input: fmt.Sprintf("table=%v hist=%v", cfg, hist), Impl: actName(a), Oracle: "violates"})
			}
		}
		line := "c18.counter " + jl(tbl) + " " + hxl(hist)
		ans := d.Ask(line)
		res.Case("C"+line, len(tbl) > 0 && len(hist) > 0, "counter")
		if ans != jl(impls) {
			res.Mismatch(Mismatch{Kind: "differential", What: "Handler.CheckSyscall history vs Model.FileSet.checkSyscall", Input: line, Impl: jl(impls), Model: ans})
		}
		if i == 0 {
			res.Sample(line + " => " + ans)
		}
	}
}
