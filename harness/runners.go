package main

import (
	"bytes"
	"context"
	"fmt"
	"io"
	"os"
	"path/filepath"
	"sync"
	"time"

	"github.com/criyle/go-sandbox/container"
	"github.com/criyle/go-sandbox/pkg/mount"
	"github.com/criyle/go-sandbox/pkg/rlimit"
	"github.com/criyle/go-sandbox/pkg/seccomp"
	"github.com/criyle/go-sandbox/pkg/seccomp/libseccomp"
	"github.com/criyle/go-sandbox/ptracer"
	"github.com/criyle/go-sandbox/runner"
	"github.com/criyle/go-sandbox/runner/ptrace"
	"github.com/criyle/go-sandbox/runner/unshare"
)

func init() {
	// the harness binary doubles as the container init (re-executed as `/proc/self/exe container_init`)
	if err := container.Init(); err != nil {
		fmt.Fprintln(os.Stderr, "container init:", err)
		os.Exit(1)
	}
}

func buildDir() string {
	if d := os.Getenv("VERIF_BUILD"); d != "" {
		return d
	}
	return "/verif/.build"
}

func probePath() string { return filepath.Join(buildDir(), "probe") }

func openProbe() *os.File {
	f, err := os.Open(probePath())
	if err != nil {
		fatal("probe binary missing (%v): run bin/setup", err)
	}
	return f
}

// capture collects what the program writes to stdout/stderr through a pipe
type capture struct {
	r, w *os.File
	buf  bytes.Buffer
	wg   sync.WaitGroup
}

func newCapture() *capture {
	r, w, err := os.Pipe()
	if err != nil {
		fatal("pipe: %v", err)
	}
	c := &capture{r: r, w: w}
	c.wg.Add(1)
	go func() { io.Copy(&c.buf, r); c.wg.Done() }()
	return c
}
func (c *capture) done() string {
	c.w.Close()
	c.wg.Wait()
	c.r.Close()
	return c.buf.String()
}

type RunSpec struct {
	Script   string
	Timeout  time.Duration
	Limit    runner.Limit
	RLimits  []rlimit.RLimit
	Filter   seccomp.Filter
	Handler  ptrace.Handler
	Ctx      context.Context
	SyncFunc func(int) error
	WorkDir  string
	// NoCapture: the program's output goes to /dev/null and the call does not wait for the end of the output
	// (processes the program left behind keep the pipe open until they are gone)
	NoCapture bool
}

var bigLimit = runner.Limit{TimeLimit: time.Hour, MemoryLimit: runner.Size(1 << 40)}

func (s *RunSpec) fill() (context.Context, context.CancelFunc) {
	if s.Timeout == 0 {
		s.Timeout = 20 * time.Second
	}
	if s.Limit.TimeLimit == 0 {
		s.Limit = bigLimit
	}
	base := s.Ctx
	if base == nil {
		base = context.Background()
	}
	return context.WithTimeout(base, s.Timeout)
}

var allowAllFilter seccomp.Filter

func allowAll() seccomp.Filter {
	if allowAllFilter == nil {
		f, err := (&libseccomp.Builder{Default: libseccomp.ActionAllow}).Build()
		if err != nil {
			fatal("build allow-all filter: %v", err)
		}
		allowAllFilter = f
	}
	return allowAllFilter
}

type allowHandler struct{}

func (allowHandler) CheckRead(string) ptracer.TraceAction    { return ptracer.TraceAllow }
func (allowHandler) CheckWrite(string) ptracer.TraceAction   { return ptracer.TraceAllow }
func (allowHandler) CheckStat(string) ptracer.TraceAction    { return ptracer.TraceAllow }
func (allowHandler) CheckSyscall(string) ptracer.TraceAction { return ptracer.TraceAllow }

// runPtraceProbe runs the probe script under the ptrace runner.
func runPtraceProbe(s RunSpec) (runner.Result, string) {
	ctx, cancel := s.fill()
	defer cancel()
	pf := openProbe()
	defer pf.Close()
	out := newCapture()
	devnull, _ := os.Open(os.DevNull)
	defer devnull.Close()
	if s.Filter == nil {
		s.Filter = allowAll()
	}
	if s.Handler == nil {
		s.Handler = allowHandler{}
	}
	r := &ptrace.Runner{
		Args:     []string{"probe", s.Script},
		Env:      []string{"PATH=/usr/bin:/bin"},
		ExecFile: pf.Fd(),
		WorkDir:  s.WorkDir,
		Files:    []uintptr{devnull.Fd(), out.w.Fd(), out.w.Fd()},
		RLimits:  s.RLimits,
		Limit:    s.Limit,
		Seccomp:  s.Filter,
		Handler:  s.Handler,
		SyncFunc: s.SyncFunc,
	}
	res := r.Run(ctx)
	return res, out.done()
}

// runUnshareProbe runs the probe script under the namespace runner (no pivot root unless mounts given).
func runUnshareProbe(s RunSpec, root string, mounts []mount.SyscallParams) (runner.Result, string) {
	ctx, cancel := s.fill()
	defer cancel()
	pf := openProbe()
	defer pf.Close()
	out := newCapture()
	devnull, _ := os.Open(os.DevNull)
	defer devnull.Close()
	r := &unshare.Runner{
		Args:     []string{"probe", s.Script},
		Env:      []string{"PATH=/usr/bin:/bin"},
		ExecFile: pf.Fd(),
		WorkDir:  s.WorkDir,
		Files:    []uintptr{devnull.Fd(), out.w.Fd(), out.w.Fd()},
		RLimits:  s.RLimits,
		Limit:    s.Limit,
		Seccomp:  s.Filter,
		Root:     root,
		Mounts:   mounts,
		SyncFunc: s.SyncFunc,
	}
	res := r.Run(ctx)
	return res, out.done()
}

// ---- container environments ----

type Env struct {
	container.Environment
	root string
}

func newEnv(b container.Builder) (*Env, error) {
	root, err := os.MkdirTemp("", "verif-ct-")
	if err != nil {
		return nil, err
	}
	b.Root = root
	if b.Stderr == nil && os.Getenv("VERIF_CT_STDERR") != "" {
		b.Stderr = os.Stderr
	}
	e, err := b.Build()
	if err != nil {
		os.RemoveAll(root)
		return nil, err
	}
	return &Env{e, root}, nil
}

func (e *Env) Close() {
	e.Destroy()
	os.RemoveAll(e.root)
}

func (e *Env) runProbe(s RunSpec, syncAfter bool) (runner.Result, string) {
	ctx, cancel := s.fill()
	defer cancel()
	pf := openProbe()
	defer pf.Close()
	devnull, _ := os.Open(os.DevNull)
	defer devnull.Close()
	if s.NoCapture {
		return e.Execve(ctx, container.ExecveParam{
			Args:          []string{"/bin/true", s.Script},
			Env:           []string{"PATH=/usr/bin:/bin"},
			Files:         []uintptr{devnull.Fd(), devnull.Fd(), devnull.Fd()},
			ExecFile:      pf.Fd(),
			RLimits:       s.RLimits,
			Seccomp:       s.Filter,
			SyncFunc:      s.SyncFunc,
			SyncAfterExec: syncAfter,
		}), ""
	}
	out := newCapture()
	res := e.Execve(ctx, container.ExecveParam{
		Args:          []string{"/bin/true", s.Script},
		Env:           []string{"PATH=/usr/bin:/bin"},
		Files:         []uintptr{devnull.Fd(), out.w.Fd(), out.w.Fd()},
		ExecFile:      pf.Fd(),
		RLimits:       s.RLimits,
		Seccomp:       s.Filter,
		SyncFunc:      s.SyncFunc,
		SyncAfterExec: syncAfter,
	})
	return res, out.done()
}

// runPtraceManyFiles runs the probe under the ptrace runner with a long descriptor list, which lengthens the
// child's path between clone and setsid.
func runPtraceManyFiles(s RunSpec, n int) runner.Result {
	ctx, cancel := s.fill()
	defer cancel()
	pf := openProbe()
	defer pf.Close()
	devnull, _ := os.Open(os.DevNull)
	defer devnull.Close()
	files := make([]uintptr, n)
	for i := range files {
		files[i] = devnull.Fd()
	}
	r := &ptrace.Runner{
		Args:     []string{"probe", s.Script},
		Env:      []string{"PATH=/usr/bin:/bin"},
		ExecFile: pf.Fd(),
		Files:    files,
		Limit:    bigLimit,
		Seccomp:  allowAll(),
		Handler:  allowHandler{},
		SyncFunc: s.SyncFunc,
	}
	return r.Run(ctx)
}
