package main

import (
	"bufio"
	"encoding/hex"
	"encoding/json"
	"fmt"
	"os"
	"os/exec"
	"sort"
	"strconv"
	"strings"
	"time"
)

// ---------- deterministic PRNG (splitmix64) ----------

type Rng struct{ s uint64 }

func NewRng(seed uint64, prop string, stream uint64) *Rng {
	h := seed*0x9E3779B97F4A7C15 + stream*0xBF58476D1CE4E5B9
	for _, c := range []byte(prop) {
		h = (h ^ uint64(c)) * 0x100000001b3
	}
	return &Rng{h}
}

func (r *Rng) Next() uint64 {
	r.s += 0x9E3779B97F4A7C15
	z := r.s
	z = (z ^ (z >> 30)) * 0xBF58476D1CE4E5B9
	z = (z ^ (z >> 27)) * 0x94D049BB133111EB
	return z ^ (z >> 31)
}
func (r *Rng) Intn(n int) int {
	if n <= 0 {
		return 0
	}
	return int(r.Next() % uint64(n))
}
func (r *Rng) Bool() bool             { return r.Next()&1 == 1 }
func (r *Rng) Chance(p int) bool      { return r.Intn(100) < p }
func (r *Rng) Pick(l []string) string { return l[r.Intn(len(l))] }

// ---------- model driver client ----------

type Driver struct {
	cmd *exec.Cmd
	in  *bufio.Writer
	out *bufio.Reader
	N   int
}

func StartDriver() *Driver {
	path := os.Getenv("VERIF_DRIVER")
	if path == "" {
		path = "/verif/lean/.lake/build/bin/driver"
	}
	cmd := exec.Command(path)
	cmd.Stderr = os.Stderr
	w, _ := cmd.StdinPipe()
	r, _ := cmd.StdoutPipe()
	if err := cmd.Start(); err != nil {
		fatal("cannot start model driver %s: %v", path, err)
	}
	return &Driver{cmd: cmd, in: bufio.NewWriterSize(w, 1<<20), out: bufio.NewReaderSize(r, 1<<20)}
}

// Ask sends one request line and returns the answer without the "ok " prefix.
// A "bad-op" answer is fatal for the harness (never a default).
func (d *Driver) Ask(line string) string {
	d.N++
	d.in.WriteString(line)
	d.in.WriteByte('\n')
	d.in.Flush()
	ans, err := d.out.ReadString('\n')
	if err != nil {
		fatal("model driver died on %q: %v", line, err)
	}
	ans = strings.TrimRight(ans, "\n")
	if ans == "bad-op" {
		fatal("model driver rejected request %q", line)
	}
	return strings.TrimPrefix(ans, "ok ")
}

func (d *Driver) Close() {
	d.in.Flush()
	d.cmd.Process.Kill()
	d.cmd.Wait()
}

// ---------- protocol encoding ----------

func hx(s string) string { return "x" + hex.EncodeToString([]byte(s)) }
func hxl(l []string) string {
	if len(l) == 0 {
		return "-"
	}
	o := make([]string, len(l))
	for i, s := range l {
		o[i] = hx(s)
	}
	return strings.Join(o, ",")
}
func jl(l []string) string {
	if len(l) == 0 {
		return "-"
	}
	return strings.Join(l, ",")
}
func b01(b bool) string {
	if b {
		return "1"
	}
	return "0"
}
func itoa(i int) string { return strconv.Itoa(i) }

// ---------- result collection ----------

type Mismatch struct {
	Kind   string `json:"kind"`  // "differential" | "oracle"
	What   string `json:"what"`  // which correspondence / oracle
	Input  string `json:"input"` // protocol line or description
	Impl   string `json:"impl"`
	Model  string `json:"model"`
	Oracle string `json:"oracle,omitempty"` // "violates" | "holds" | ""
	Key    string `json:"key,omitempty"`    // class of a known finding, if the case falls in one
	Note   string `json:"note,omitempty"`
}

type Result struct {
	Property    string          `json:"property"`
	Tier        string          `json:"tier"`
	Seed        uint64          `json:"seed"`
	Evaluations int             `json:"evaluations"`
	Distinct    map[string]bool `json:"-"`
	DistinctN   int             `json:"distinct_nontrivial"`
	Rule        string          `json:"rule"`
	Samples     []string        `json:"samples"`
	Dist        map[string]int  `json:"input_distribution"`
	Mismatches  []Mismatch      `json:"mismatches"`
	Known       []string        `json:"known_findings_seen"`
	Notes       []string        `json:"notes"`
	Traces      int             `json:"traces_validated_against_impl"`
	Exhaustive  bool            `json:"exhaustive"`
	Extra       map[string]any  `json:"extra,omitempty"`
	WallS       float64         `json:"wall_s"`
	start       time.Time
}

func NewResult(prop, tier string, seed uint64) *Result {
	return &Result{Property: prop, Tier: tier, Seed: seed, Distinct: map[string]bool{}, Dist: map[string]int{},
		Extra: map[string]any{}, start: time.Now()}
}

// Case records one evaluated case. `key` identifies it for distinctness; nontrivial says whether it
// reached a non-default branch by the property's rule.
func (r *Result) Case(key string, nontrivial bool, branch string) {
	r.Evaluations++
	if branch != "" {
		r.Dist[branch]++
	}
	if nontrivial {
		r.Distinct[key] = true
	}
}
func (r *Result) Sample(s string) {
	if len(r.Samples) < 6 {
		r.Samples = append(r.Samples, s)
	}
}
func (r *Result) Mismatch(m Mismatch) {
	// keep at most 40 plain disagreements, but always room for (up to 40) concrete property violations
	n := 0
	for _, x := range r.Mismatches {
		if (x.Oracle == "violates") == (m.Oracle == "violates") {
			n++
		}
	}
	if n < 40 {
		r.Mismatches = append(r.Mismatches, m)
	}
}
func (r *Result) KnownSeen(s string) {
	for _, k := range r.Known {
		if k == s {
			return
		}
	}
	r.Known = append(r.Known, s)
}
func (r *Result) Note(f string, a ...any) { r.Notes = append(r.Notes, fmt.Sprintf(f, a...)) }

func (r *Result) Write(path string) {
	r.DistinctN = len(r.Distinct)
	r.WallS = time.Since(r.start).Seconds()
	sort.Strings(r.Known)
	b, _ := json.MarshalIndent(r, "", " ")
	if err := os.WriteFile(path, b, 0644); err != nil {
		fatal("write result: %v", err)
	}
}

func fatal(f string, a ...any) {
	fmt.Fprintf(os.Stderr, "harness: "+f+"\n", a...)
	os.Exit(3)
}
