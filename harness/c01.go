package main

import (
	"encoding/binary"
	"fmt"
	"sort"
	"strings"
	"syscall"

	"github.com/criyle/go-sandbox/cmd/runprog/config"
	"github.com/criyle/go-sandbox/pkg/seccomp"
	"github.com/criyle/go-sandbox/pkg/seccomp/libseccomp"
	"github.com/elastic/go-seccomp-bpf/arch"
	"golang.org/x/net/bpf"
	"golang.org/x/sys/unix"
)

func init() { props["C01"] = runC01 }

// the default action word per the property statement (independent of ToSeccompAction)
func c01DefaultRet(a libseccomp.Action) uint32 {
	switch uint32(a) & 0xffff {
	case 1:
		return unix.SECCOMP_RET_ALLOW
	case 2:
		return unix.SECCOMP_RET_ERRNO | uint32(syscall.EPERM)
	case 3:
		return unix.SECCOMP_RET_TRACE
	}
	return unix.SECCOMP_RET_KILL_PROCESS
}

func progString(f seccomp.Filter) string {
	var parts []string
	for _, i := range f {
		parts = append(parts, fmt.Sprintf("%d:%d:%d:%d", i.Code, i.Jt, i.Jf, i.K))
	}
	return jl(parts)
}

func nums(l []int) string {
	var parts []string
	for _, n := range l {
		parts = append(parts, itoa(n))
	}
	return jl(parts)
}

func runC01(res *Result, d *Driver, tier string, seed uint64) {
	res.Rule = "part A: real libseccomp.Builder.Build() on generated policies (disjoint allow/trace subsets of the amd64 table: sizes 0..|table|, biased to 250-300 names per group so that long jumps occur, all single-name and everything-but-one policies in thorough; every default action 0..6 and values with high bits; for a third of the small policies also the policies that list the same names with the allow/trace boundary elsewhere, in another order, with another default, and the same policy again, in the same process) -> the []SockFilter handed to the kernel is validated by the verified validator (Model.SeccompValidate.validate, theorem C01_validator_sound) against the policy oracle; " +
		"part B: the cBPF machine of the model vs golang.org/x/net/bpf's VM on the real programs and random seccomp_data; part C: cleanTrace on random overlapping lists (trace-listed names traced, the rest allowed, no duplicates) and GetConf for every program type (allow/trace disjoint, execve stays traced); part D: filters built earlier are re-validated after later Builds (no shared storage). non-trivial = non-empty policy; distinct = distinct (allow,trace,default)."
	rng := NewRng(seed, "C01", 1)
	info, err := arch.GetInfo("")
	if err != nil {
		fatal("arch: %v", err)
	}
	var names []string
	for n := range info.SyscallNames {
		names = append(names, n)
	}
	sort.Strings(names)
	const x32Bit = 0x40000000
	x32Ret := uint32(unix.SECCOMP_RET_ERRNO) | uint32(syscall.ENOSYS)
	type pol struct {
		allow, trace []string
		def          libseccomp.Action
	}
	validateOne := func(p pol, tag string) (seccomp.Filter, bool) {
		b := libseccomp.Builder{Allow: p.allow, Trace: p.trace, Default: p.def}
		f, err := b.Build()
		key := fmt.Sprintf("%s|%s|%d", strings.Join(p.allow, ","), strings.Join(p.trace, ","), p.def)
		res.Case(key, len(p.allow)+len(p.trace) > 0, tag)
		if err != nil {
			res.Mismatch(Mismatch{Kind: "oracle", What: "Builder.Build fails on an expressible policy", Input: key[:min(len(key), 300)], Impl: err.Error(), Oracle: "violates"})
			return nil, false
		}
		var an, tn []int
		for _, n := range p.allow {
			an = append(an, info.SyscallNames[n])
		}
		for _, n := range p.trace {
			tn = append(tn, info.SyscallNames[n])
		}
		line := fmt.Sprintf("c01.validate %d %d %d %d %d %d %s %s %s", c01DefaultRet(p.def), uint32(info.ID), uint32(unix.SECCOMP_RET_ALLOW), uint32(unix.SECCOMP_RET_TRACE), x32Bit, x32Ret, nums(an), nums(tn), progString(f))
		ans := d.Ask(line)
		if ans != "valid" {
			short := fmt.Sprintf("allow=%d names trace=%d names default=%d (%s)", len(p.allow), len(p.trace), p.def, key[:min(len(key), 200)])
			res.Mismatch(Mismatch{Kind: "oracle", What: "the filter handed to the kernel does not implement the policy (validator, C01_validator_sound): " + ans, Input: short, Impl: ans, Model: "valid", Oracle: "violates", Note: line[:min(len(line), 4000)]})
			return f, false
		}
		return f, true
	}
	nA := 80
	if tier == "thorough" {
		nA = 6000
	}
	defaults := []libseccomp.Action{0, 1, 2, 3, 4, 5, 6, 0x10003, 0x7fff0001, 0xffff0000, 0x20002}
	// the corner of the quantifier: a policy that lists nothing (every call gets the default action), nil and empty lists
	for _, def := range defaults {
		if f, ok := validateOne(pol{def: def}, "empty-policy"); ok && len(f) == 0 {
			res.Mismatch(Mismatch{Kind: "oracle", What: "a policy that lists no syscall compiles to no filter at all: nothing would be loaded and every call would run unfiltered", Input: fmt.Sprintf("allow=[] trace=[] default=%d", def), Impl: "Build returned an empty program", Oracle: "violates"})
		}
		validateOne(pol{allow: []string{}, trace: []string{}, def: def}, "empty-policy")
	}
	var lastFilter, prevFilter, prevSnap seccomp.Filter
	var prevKey string
	for i := 0; i < nA; i++ {
		perm := append([]string{}, names...)
		for j := len(perm) - 1; j > 0; j-- {
			k := rng.Intn(j + 1)
			perm[j], perm[k] = perm[k], perm[j]
		}
		var na, nt int
		switch rng.Intn(6) {
		case 0:
			na, nt = rng.Intn(4), rng.Intn(4)
		case 1:
			na, nt = 250+rng.Intn(50), rng.Intn(30) // long jumps
		case 2:
			na, nt = rng.Intn(30), 250+rng.Intn(50)
		case 3:
			na = rng.Intn(len(perm))
			nt = rng.Intn(len(perm) - na + 1)
		default:
			na, nt = rng.Intn(80), rng.Intn(40)
		}
		if na+nt > len(perm) {
			nt = len(perm) - na
		}
		p := pol{allow: perm[:na], trace: perm[na : na+nt], def: defaults[rng.Intn(len(defaults))]}
		f, _ := validateOne(p, fmt.Sprintf("policy-%s", map[bool]string{true: "long", false: "short"}[na > 255 || nt > 255 || na+nt > 240]))
		// part D: the filter validated for the previous policy is still the same program after this Build
		if prevFilter != nil {
			same := len(prevFilter) == len(prevSnap)
			for k := 0; same && k < len(prevSnap); k++ {
				same = prevFilter[k] == prevSnap[k]
			}
			res.Case(fmt.Sprintf("rebuild-%d", i), true, "earlier-filter-after-later-build")
			if !same {
				res.Mismatch(Mismatch{Kind: "oracle", What: "a filter built earlier no longer implements its policy once a later policy has been built (C01: the program handed to the kernel)", Input: fmt.Sprintf("history: Build(%s) then Build(policy %d); the first filter compared with its validated copy", prevKey[:min(len(prevKey), 200)], i),
					Impl: fmt.Sprintf("first filter now: %s", progString(prevFilter)[:min(len(progString(prevFilter)), 400)]), Model: fmt.Sprintf("validated: %s", progString(prevSnap)[:min(len(progString(prevSnap)), 400)]), Oracle: "violates"})
			}
		}
		// policies related to the one just built, in the same process ("for every policy": also for policies that differ
		// from an earlier one only in where a name is listed, in the order of the names, or in the default action)
		if rng.Chance(35) && na+nt > 0 && na+nt < 40 {
			all := perm[:na+nt]
			for _, cut := range []int{0, (na + nt) / 2, na + nt, maxInt(na-1, 0), minInt(na+1, na+nt)} {
				if cut == na {
					continue
				}
				validateOne(pol{allow: all[:cut], trace: all[cut:], def: p.def}, "policy-resplit")
			}
			rev := append([]string{}, perm[:na]...)
			for a, b := 0, len(rev)-1; a < b; a, b = a+1, b-1 {
				rev[a], rev[b] = rev[b], rev[a]
			}
			validateOne(pol{allow: rev, trace: perm[na : na+nt], def: p.def}, "policy-reordered")
			validateOne(pol{allow: perm[:na], trace: perm[na : na+nt], def: defaults[rng.Intn(len(defaults))]}, "policy-other-default")
			validateOne(p, "policy-again")
		}
		if f != nil {
			lastFilter = f
			prevFilter, prevSnap = f, append(seccomp.Filter{}, f...)
			prevKey = fmt.Sprintf("allow=%d names trace=%d names default=%d", na, nt, p.def)
		}
		if i == 0 {
			res.Sample(fmt.Sprintf("Builder{Allow:%d names, Trace:%d names, Default:%d} -> %d instructions -> valid", na, nt, p.def, len(f)))
		}
	}
	if tier == "thorough" {
		for _, n := range names {
			validateOne(pol{allow: []string{n}, def: libseccomp.ActionKill}, "single-allow")
			validateOne(pol{trace: []string{n}, def: libseccomp.ActionErrno}, "single-trace")
		}
		for i, n := range names {
			if i%7 != 0 {
				continue
			}
			var rest []string
			for _, m := range names {
				if m != n {
					rest = append(rest, m)
				}
			}
			validateOne(pol{allow: rest, def: libseccomp.ActionKill}, "all-but-one")
		}
	}

	// ---- part B: BPF machine vs x/net/bpf VM ----
	if lastFilter != nil {
		var ins []bpf.Instruction
		for _, s := range lastFilter {
			ins = append(ins, bpf.RawInstruction{Op: s.Code, Jt: s.Jt, Jf: s.Jf, K: s.K}.Disassemble())
		}
		vm, err := bpf.NewVM(ins)
		if err != nil {
			res.Note("x/net/bpf VM refused the program: %v", err)
		} else {
			ps := progString(lastFilter)
			nB := 300
			if tier == "thorough" {
				nB = 5000
			}
			for i := 0; i < nB; i++ {
				var nr, ar uint32
				switch rng.Intn(4) {
				case 0:
					nr = uint32(rng.Intn(400))
				case 1:
					nr = uint32(rng.Next())
				case 2:
					nr = x32Bit + uint32(rng.Intn(400))
				default:
					nr = lastFilter[rng.Intn(len(lastFilter))].K + uint32(rng.Intn(3)) - 1
				}
				ar = uint32(info.ID)
				if rng.Chance(30) {
					ar = []uint32{0x40000003, 0xc00000b7, uint32(rng.Next()), uint32(info.ID) + 1}[rng.Intn(4)]
				}
				data := make([]byte, 64)
				binary.BigEndian.PutUint32(data[0:], nr) // the VM loads big-endian; seccomp loads native words
				binary.BigEndian.PutUint32(data[4:], ar)
				v, err := vm.Run(data)
				impl := fmt.Sprint(uint32(v))
				if err != nil {
					impl = "error"
				}
				model := d.Ask(fmt.Sprintf("c01.run %d %d %s", nr, ar, ps))
				res.Case(fmt.Sprintf("vm %d %d", nr, ar), true, "vm")
				if impl != model {
					res.Mismatch(Mismatch{Kind: "differential", What: "Kernel.BPF.exec vs x/net/bpf VM", Input: fmt.Sprintf("nr=%d arch=%d", nr, ar), Impl: impl, Model: model})
				}
			}
		}
	}

	// ---- part C0: cleanTrace on overlapping lists: every trace-listed name is traced, the rest of allow is allowed ----
	nCT := 200
	if tier == "thorough" {
		nCT = 5000
	}
	for i := 0; i < nCT; i++ {
		var al, tr []string
		for k := rng.Intn(12); k > 0; k-- {
			al = append(al, names[rng.Intn(20)])
		}
		for k := rng.Intn(12); k > 0; k-- {
			tr = append(tr, names[rng.Intn(20)])
		}
		ao, to := config.VerifCleanTrace(append([]string{}, al...), append([]string{}, tr...))
		res.Case(fmt.Sprintf("cleantrace %v %v", al, tr), len(al)+len(tr) > 0, "cleantrace")
		inT := map[string]bool{}
		for _, t := range tr {
			inT[t] = true
		}
		wantA := map[string]bool{}
		for _, a := range al {
			if !inT[a] {
				wantA[a] = true
			}
		}
		gotA, gotT := map[string]bool{}, map[string]bool{}
		for _, a := range ao {
			gotA[a] = true
		}
		for _, t := range to {
			gotT[t] = true
		}
		okc := len(gotA) == len(wantA) && len(gotT) == len(inT) && len(ao) == len(gotA) && len(to) == len(gotT)
		for a := range wantA {
			okc = okc && gotA[a]
		}
		for t := range inT {
			okc = okc && gotT[t]
		}
		if !okc {
			res.Mismatch(Mismatch{Kind: "oracle", What: "cleanTrace: TRACE exactly for the trace-listed names (trace wins over allow), ALLOW for the rest, no duplicates", Input: fmt.Sprintf("allow=%v trace=%v", al, tr), Impl: fmt.Sprintf("allow=%v trace=%v", ao, to), Oracle: "violates"})
		}
	}
	// ---- part C: cleanTrace / GetConf ----
	for _, pt := range []string{"default", "python2.7", "python3", "compiler", "unknown-type"} {
		for _, ap := range []bool{false, true} {
			_, allow, trace, _ := config.GetConf(pt, "/w", []string{"/bin/true"}, nil, nil, ap)
			res.Case(fmt.Sprintf("getconf %s %v", pt, ap), true, "getconf")
			tset := map[string]bool{}
			for _, t := range trace {
				if tset[t] {
					res.Mismatch(Mismatch{Kind: "oracle", What: "cleanTrace: duplicate in trace", Input: pt, Impl: t, Oracle: "violates"})
				}
				tset[t] = true
			}
			if !tset["execve"] {
				res.Mismatch(Mismatch{Kind: "oracle", What: "GetConf: execve is trace-listed by the defaults and must stay traced for every profile (trace takes precedence over an allow entry)", Input: fmt.Sprintf("%s allowProc=%v", pt, ap), Impl: fmt.Sprintf("trace=%v", trace), Oracle: "violates"})
			}
			aset := map[string]bool{}
			for _, a := range allow {
				if tset[a] || aset[a] {
					res.Mismatch(Mismatch{Kind: "oracle", What: "cleanTrace: allow and trace not disjoint (trace must take precedence)", Input: pt, Impl: a, Oracle: "violates"})
				}
				aset[a] = true
			}
			// and the resulting policy builds and validates for both runner kinds
			for _, def := range []libseccomp.Action{libseccomp.ActionKill, libseccomp.ActionTrace} {
				var a2, t2 []string
				for _, n := range allow {
					if _, ok := info.SyscallNames[n]; ok {
						a2 = append(a2, n)
					}
				}
				for _, n := range trace {
					if _, ok := info.SyscallNames[n]; ok {
						t2 = append(t2, n)
					}
				}
				validateOne(pol{allow: a2, trace: t2, def: def}, "shipped")
			}
		}
	}
}

func maxInt(a, b int) int {
	if a > b {
		return a
	}
	return b
}
func minInt(a, b int) int {
	if a < b {
		return a
	}
	return b
}
