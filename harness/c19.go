package main

import (
	"bytes"
	"fmt"
	"os"
	"runtime"
	"strings"
	"sync"
	"sync/atomic"
	"syscall"
	"time"

	"github.com/criyle/go-sandbox/container"
	"github.com/criyle/go-sandbox/pkg/forkexec"
	"github.com/criyle/go-sandbox/pkg/unixsocket"
)

func init() { props["C19"] = runC19 }

func runC19(res *Result, d *Driver, tier string, seed uint64) {
	res.Rule = "real SOCK_SEQPACKET socketpairs through pkg/unixsocket: interleaved send/receive histories with payload sizes 0,1,..,buffer±1,64 KiB, descriptor counts 0,1,2,16,252,253,254, with/without credentials (own and, as root, other), receive buffers smaller/equal/larger than the message; compared per operation with Model.Socket (driver): bytes, identity (dev,ino) and FD_CLOEXEC of received descriptors, Ucred, error-or-delivery, and the process' descriptor count after every rejected message; receives with a full descriptor table (0, 1, n-1, n free slots for n = 1,2,5,16,100 descriptors): rejected unless all fit, nothing leaked; full-duplex exchanges (both ends send and receive at once on one Socket value, descriptors checked by identity and position); " +
		"gob-framed layer (container.socket through the verif hook): typed messages with first use of a type at every position, payloads around the 32 KiB cap. non-trivial = message with descriptors/credentials or not fitting the buffer; distinct = (history prefix, op)."
	rng := NewRng(seed, "C19", 1)
	n := 60
	if tier == "thorough" {
		n = 3000
	}
	sizes := []int{0, 1, 2, 100, 4095, 4096, 4097, 32767, 32768, 32769, 65536}
	fdCounts := []int{0, 0, 1, 2, 16, 252, 253, 254}
	devnull, _ := os.Open(os.DevNull)
	defer devnull.Close()
	tmp, _ := os.CreateTemp("", "verif-c19-")
	defer os.Remove(tmp.Name())
	var stNull, stTmp syscall.Stat_t
	syscall.Fstat(int(devnull.Fd()), &stNull)
	syscall.Fstat(int(tmp.Fd()), &stTmp)
	for it := 0; it < n; it++ {
		a, b, err := unixsocket.NewSocketPair()
		if err != nil {
			fatal("socketpair: %v", err)
		}
		b.SetPassCred(1)
		time.Sleep(time.Millisecond)
		base := fdCount(os.Getpid())
		var hist []string
		for step := 0; step < 1+rng.Intn(8); step++ {
			// one send followed by one receive with a chosen buffer (the model runs the same pair)
			sz := sizes[rng.Intn(len(sizes))]
			nf := fdCounts[rng.Intn(len(fdCounts))]
			payload := bytes.Repeat([]byte{byte('a' + step)}, sz)
			var fds []int
			for i := 0; i < nf; i++ {
				if i%2 == 0 {
					fds = append(fds, int(devnull.Fd()))
				} else {
					fds = append(fds, int(tmp.Fd()))
				}
			}
			var cred *syscall.Ucred
			credStr := "-"
			if rng.Chance(40) {
				cred = &syscall.Ucred{Pid: int32(os.Getpid()), Uid: uint32(rng.Intn(3) * 1000), Gid: uint32(rng.Intn(2) * 500)}
				credStr = fmt.Sprintf("%d.%d.%d", cred.Pid, cred.Uid, cred.Gid)
			}
			sendErr := a.SendMsg(payload, unixsocket.Msg{Fds: fds, Cred: cred})
			bufSz := []int{sz, sz + 1, sz - 1, 65536, 4096}[rng.Intn(5)]
			if bufSz < 1 {
				bufSz = 1
			}
			op := fmt.Sprintf("send(%d bytes,%d fds,cred=%s) recv(buf %d)", sz, nf, credStr, bufSz)
			hist = append(hist, op)
			// model: descriptors fit the 4 KiB control buffer? (cmsg space: 16 + 4*n, credentials 32)
			fcap := (4096 - 16 - 32) / 4
			line := fmt.Sprintf("c19.pair %d %d %s %d %d", sz, nf, credStr, bufSz, fcap)
			model := d.Ask(line)
			var impl string
			if sendErr != nil {
				impl = "send-rejected"
			} else {
				buf := make([]byte, bufSz)
				b.SetReadDeadline(time.Now().Add(500 * time.Millisecond))
				got, msg, rerr := b.RecvMsg(buf)
				switch {
				case rerr != nil && strings.Contains(rerr.Error(), "truncated"):
					impl = "truncated"
				case rerr != nil:
					impl = "recv-error:" + rerr.Error()
				default:
					okc := "-"
					if msg.Cred != nil {
						okc = fmt.Sprintf("%d.%d.%d", msg.Cred.Pid, msg.Cred.Uid, msg.Cred.Gid)
					}
					idOk := len(msg.Fds) == nf && got <= len(buf) && bytes.Equal(buf[:min(got, len(buf))], payload)
					for i, fd := range msg.Fds {
						var st syscall.Stat_t
						syscall.Fstat(fd, &st)
						want := stNull
						if i%2 == 1 {
							want = stTmp
						}
						fl, _, _ := syscall.Syscall(syscall.SYS_FCNTL, uintptr(fd), syscall.F_GETFD, 0)
						if st.Dev != want.Dev || st.Ino != want.Ino || fl&syscall.FD_CLOEXEC == 0 {
							idOk = false
						}
						syscall.Close(fd)
					}
					impl = fmt.Sprintf("msg %d %d %s intact=%s", got, len(msg.Fds), okc, b01(idOk))
				}
			}
			// with SO_PASSCRED the kernel attaches the sender's own credentials when none were given
			if credStr == "-" && strings.HasPrefix(impl, "msg") {
				impl = strings.Replace(impl, fmt.Sprintf(" %d.0.0 ", os.Getpid()), " - ", 1)
			}
			res.Case(strings.Join(hist, ";"), nf > 0 || cred != nil || bufSz < sz, strings.Fields(impl)[0])
			if impl != model {
				m := Mismatch{Kind: "differential", What: "unixsocket SendMsg/RecvMsg vs Model.Socket", Input: op, Impl: impl, Model: model, Oracle: "holds"}
				if strings.HasPrefix(impl, "msg") && !strings.HasSuffix(impl, "intact=1") {
					m.Oracle = "violates"
					m.Note = "a delivered message is not intact"
				}
				if strings.HasPrefix(impl, "msg") && strings.HasPrefix(model, "msg") && m.Oracle != "violates" {
					m.Oracle = "violates"
					m.Note = "a message was delivered that is not the message sent (length, descriptor count or sender-specified credentials)"
				}
				if sz == 0 {
					// net.UnixConn pads an empty payload that carries control data with one dummy byte, and an empty
					// SEQPACKET payload without control data reads as EOF: recorded as an open known finding
					m.Oracle = "violates"
					m.Key = "zero-length-payload"
				}
				res.Mismatch(m)
			}
			// ledger: nothing from this socket stays open once the operation is over
			if !settle(func() bool { return fdCount(os.Getpid()) == base }) {
				res.Mismatch(Mismatch{Kind: "oracle", What: "descriptors that arrived with a rejected or delivered message are not leaked (C19_no_fd_leak)", Input: strings.Join(hist, "; "),
					Impl: fmt.Sprintf("descriptor count %d, baseline %d after %s", fdCount(os.Getpid()), base, impl), Oracle: "violates"})
				base = fdCount(os.Getpid())
			}
			if it == 0 && step == 0 {
				res.Sample(line + " => " + model)
			}
		}
		a.Close()
		b.Close()
	}

	// ---- close-on-exec ON ARRIVAL: programs are launched by other goroutines of the receiving process while messages
	// that carry many descriptors are being received; no launched program may find one of those files open ----
	{
		tf, err := os.CreateTemp("", "verif-c19-arrival-")
		if err != nil {
			fatal("tmp: %v", err)
		}
		defer os.Remove(tf.Name())
		defer tf.Close()
		var tst syscall.Stat_t
		syscall.Fstat(int(tf.Fd()), &tst)
		a, b, err := unixsocket.NewSocketPair()
		if err != nil {
			fatal("socketpair: %v", err)
		}
		stop := make(chan struct{})
		var wg sync.WaitGroup
		var received int64
		wg.Add(2)
		go func() { // sender: one message in flight at a time
			defer wg.Done()
			fds := make([]int, 200)
			for i := range fds {
				fds[i] = int(tf.Fd())
			}
			for {
				select {
				case <-stop:
					return
				default:
				}
				if a.SendMsg([]byte("m"), unixsocket.Msg{Fds: fds}) != nil {
					return
				}
				for atomic.LoadInt64(&received)%2 == 0 {
					select {
					case <-stop:
						return
					default:
						runtime.Gosched()
					}
				}
				atomic.AddInt64(&received, 1)
			}
		}()
		go func() { // receiver
			defer wg.Done()
			buf := make([]byte, 16)
			for {
				b.SetReadDeadline(time.Now().Add(200 * time.Millisecond))
				_, msg, rerr := b.RecvMsg(buf)
				if rerr == nil {
					for _, fd := range msg.Fds {
						syscall.Close(fd)
					}
					atomic.AddInt64(&received, 1)
				}
				select {
				case <-stop:
					return
				default:
				}
			}
		}()
		nL := 60
		if tier == "thorough" {
			nL = 600
		}
		rdir, _ := os.MkdirTemp("", "verif-c19-rep-")
		defer os.RemoveAll(rdir)
		pf := openProbe()
		devnull2, _ := os.Open(os.DevNull)
		want := fmt.Sprintf("%d.%d", tst.Dev, tst.Ino)
		for it := 0; it < nL; it++ {
			report := fmt.Sprintf("%s/r%d", rdir, it)
			r := &forkexec.Runner{Args: []string{"probe", "report fds " + report + ";exit 0"}, Env: []string{}, ExecFile: pf.Fd(), Files: []uintptr{devnull2.Fd(), devnull2.Fd(), devnull2.Fd()}}
			pid, err := r.Start()
			var ws syscall.WaitStatus
			if err == nil {
				syscall.Wait4(pid, &ws, 0, nil)
			}
			res.Case("arrival "+itoa(it), true, "cloexec-on-arrival")
			data, _ := os.ReadFile(report)
			os.Remove(report)
			if strings.Contains(string(data), ":"+want+":") {
				res.Mismatch(Mismatch{Kind: "oracle", What: "descriptors received with a message are close-on-exec on arrival: a program launched by another goroutine while messages are being received must not inherit them (C19)", Input: fmt.Sprintf("program %d of %d launched while messages of 200 descriptors are received on a socket pair (%d messages so far)", it, nL, atomic.LoadInt64(&received)/2), Impl: "the program has the file of the messages open: " + strings.TrimSpace(string(data))[:min(len(strings.TrimSpace(string(data))), 300)], Oracle: "violates"})
				break
			}
		}
		pf.Close()
		devnull2.Close()
		close(stop)
		a.Close()
		b.Close()
		wg.Wait()
	}

	// ---- a receiver that keeps what it received: several messages with descriptors are received one after the other on
	// one socket and looked at only afterwards; every kept message must still carry exactly the descriptors of its sender
	// (a Msg is a value handed to the caller; a later receive must not change an earlier one) ----
	{
		nk := 25
		if tier == "thorough" {
			nk = 400
		}
		var files []*os.File
		var ids []syscall.Stat_t
		for i := 0; i < 8; i++ {
			f, err := os.CreateTemp("", "verif-c19-keep-")
			if err != nil {
				fatal("tmp: %v", err)
			}
			defer os.Remove(f.Name())
			defer f.Close()
			var st syscall.Stat_t
			syscall.Fstat(int(f.Fd()), &st)
			files = append(files, f)
			ids = append(ids, st)
		}
		for it := 0; it < nk; it++ {
			a, b, err := unixsocket.NewSocketPair()
			if err != nil {
				fatal("socketpair: %v", err)
			}
			time.Sleep(time.Millisecond)
			base := fdCount(os.Getpid())
			nm := 2 + rng.Intn(4)
			var sentIdx [][]int
			var kept []unixsocket.Msg
			var desc []string
			bad := ""
			for m := 0; m < nm; m++ {
				nf := rng.Intn(4) // some messages without descriptors in between
				var idx, fds []int
				for j := 0; j < nf; j++ {
					k := rng.Intn(len(files))
					idx = append(idx, k)
					fds = append(fds, int(files[k].Fd()))
				}
				if err := a.SendMsg([]byte{byte('a' + m)}, unixsocket.Msg{Fds: fds}); err != nil {
					bad = "send: " + err.Error()
					break
				}
				sentIdx = append(sentIdx, idx)
				desc = append(desc, fmt.Sprintf("msg%d(files %v)", m, idx))
				// half of the histories receive right after each send, the others after all sends
				if it%2 == 0 {
					buf := make([]byte, 16)
					b.SetReadDeadline(time.Now().Add(time.Second))
					_, msg, rerr := b.RecvMsg(buf)
					if rerr != nil {
						bad = "recv: " + rerr.Error()
						break
					}
					kept = append(kept, msg)
				}
			}
			for m := len(kept); m < len(sentIdx) && bad == ""; m++ {
				buf := make([]byte, 16)
				b.SetReadDeadline(time.Now().Add(time.Second))
				_, msg, rerr := b.RecvMsg(buf)
				if rerr != nil {
					bad = "recv: " + rerr.Error()
					break
				}
				kept = append(kept, msg)
			}
			// only now look at what was received
			seen := map[int]bool{}
			for m, msg := range kept {
				if len(msg.Fds) != len(sentIdx[m]) && bad == "" {
					bad = fmt.Sprintf("message %d kept with %d descriptors, sent with %d", m, len(msg.Fds), len(sentIdx[m]))
				}
				for j, fd := range msg.Fds {
					var st syscall.Stat_t
					if err := syscall.Fstat(fd, &st); err != nil && bad == "" {
						bad = fmt.Sprintf("message %d descriptor %d (number %d): %v", m, j, fd, err)
					} else if j < len(sentIdx[m]) && (st.Dev != ids[sentIdx[m][j]].Dev || st.Ino != ids[sentIdx[m][j]].Ino) && bad == "" {
						bad = fmt.Sprintf("message %d descriptor %d (number %d) is not file %d its sender attached", m, j, fd, sentIdx[m][j])
					}
					if seen[fd] && bad == "" {
						bad = fmt.Sprintf("descriptor number %d appears in two kept messages", fd)
					}
					seen[fd] = true
				}
			}
			for fd := range seen {
				syscall.Close(fd)
			}
			res.Case("keep "+strings.Join(desc, ";"), true, "kept-messages")
			if bad == "" && !settle(func() bool { return fdCount(os.Getpid()) == base }) && fdCount(os.Getpid()) > base {
				bad = fmt.Sprintf("after closing every descriptor of every kept message the process has %d descriptors, %d before", fdCount(os.Getpid()), base)
			}
			if bad != "" {
				res.Mismatch(Mismatch{Kind: "oracle", What: "messages kept by the receiver and inspected after later receives: each carries exactly the descriptors attached by its sender, nothing is leaked (C19_whole_or_rejected / C19_no_fd_leak)", Input: strings.Join(desc, "; ") + map[bool]string{true: " [receive after each send]", false: " [receive after all sends]"}[it%2 == 0], Impl: bad, Oracle: "violates"})
			}
			a.Close()
			b.Close()
		}
	}

	// ---- the receiving process cannot install all descriptors (descriptor table full): the kernel hands over a
	// prefix and flags the control data as cut; the message must be rejected, never delivered with fewer descriptors ----
	{
		var oldLim syscall.Rlimit
		syscall.Getrlimit(syscall.RLIMIT_NOFILE, &oldLim)
		hi := 0
		ents, _ := os.ReadDir("/proc/self/fd")
		for _, e := range ents {
			var k int
			fmt.Sscan(e.Name(), &k)
			if k > hi {
				hi = k
			}
		}
		reps := 1
		if tier == "thorough" {
			reps = 20
		}
		for rep := 0; rep < reps && hi < 200; rep++ {
			for _, nf := range []int{1, 2, 5, 16, 100} {
				for _, free := range []int{0, 1, nf - 1, nf} {
					if free < 0 || (free == 1 && nf == 1) || (free == nf-1 && nf <= 2) {
						continue
					}
					a, b, err := unixsocket.NewSocketPair()
					if err != nil {
						fatal("socketpair: %v", err)
					}
					var fds []int
					for i := 0; i < nf; i++ {
						fds = append(fds, int(devnull.Fd()))
					}
					payload := []byte("table-full")
					if err := a.SendMsg(payload, unixsocket.Msg{Fds: fds}); err != nil {
						fatal("send: %v", err)
					}
					base := fdCount(os.Getpid())
					lim := oldLim
					lim.Cur = 512
					syscall.Setrlimit(syscall.RLIMIT_NOFILE, &lim)
					var fill []int
					for {
						x, e := syscall.Dup(int(devnull.Fd()))
						if e != nil {
							break
						}
						fill = append(fill, x)
					}
					for i := 0; i < free && len(fill) > 0; i++ {
						syscall.Close(fill[len(fill)-1])
						fill = fill[:len(fill)-1]
					}
					buf := make([]byte, 64)
					b.SetReadDeadline(time.Now().Add(500 * time.Millisecond))
					got, msg, rerr := b.RecvMsg(buf)
					for _, x := range fill {
						syscall.Close(x)
					}
					syscall.Setrlimit(syscall.RLIMIT_NOFILE, &oldLim)
					key := fmt.Sprintf("send(%d bytes,%d fds) recv with %d free descriptor slots", len(payload), nf, free)
					res.Case(key+itoa(rep), true, "table-full")
					res.Traces++
					var bad string
					switch {
					case rerr != nil && free >= nf:
						bad = "rejected although every descriptor could be installed: " + rerr.Error()
					case rerr == nil && len(msg.Fds) != nf:
						bad = fmt.Sprintf("delivered without error with %d of %d descriptors (%d payload bytes)", len(msg.Fds), nf, got)
					case rerr == nil && free < nf:
						bad = "harness: table was not full"
					}
					for _, x := range msg.Fds {
						syscall.Close(x)
					}
					if bad == "" && !settle(func() bool { return fdCount(os.Getpid()) <= base }) {
						bad = fmt.Sprintf("descriptors of the rejected message leaked: count %d, before the receive %d", fdCount(os.Getpid()), base)
					}
					if bad != "" && !strings.HasPrefix(bad, "harness") {
						res.Mismatch(Mismatch{Kind: "oracle", What: "a message whose descriptors cannot all be installed is rejected, not delivered truncated (C19)", Input: key, Impl: bad, Oracle: "violates"})
					} else if bad != "" {
						res.Note("%s: %s", key, bad)
					}
					a.Close()
					b.Close()
				}
			}
		}
	}

	// ---- both directions at once on one Socket (what the container's send and receive loops do): every message
	// still carries exactly its own descriptors, in order, and nothing is leaked ----
	{
		nd := 3000
		if tier == "thorough" {
			nd = 60000
		}
		a, b, err := unixsocket.NewSocketPair()
		if err != nil {
			fatal("socketpair: %v", err)
		}
		runtime.GC()
		base := fdCount(os.Getpid())
		held := openFdSet() // a "received" descriptor with one of these numbers is not a received descriptor: never close it
		for fd := range held { // (the listing's own directory descriptor is in the listing and closed by now)
			if _, _, e := syscall.Syscall(syscall.SYS_FCNTL, uintptr(fd), syscall.F_GETFD, 0); e != 0 {
				delete(held, fd)
			}
		}
		var mu sync.Mutex
		var bad []string
		note := func(f string, x ...any) {
			mu.Lock()
			if len(bad) < 5 {
				bad = append(bad, fmt.Sprintf(f, x...))
			}
			mu.Unlock()
		}
		var wg sync.WaitGroup
		send := func(s *unixsocket.Socket, tag byte) {
			defer wg.Done()
			for k := 0; k < nd; k++ {
				nf := 1 + k%3
				var fds []int
				for i := 0; i < nf; i++ {
					if (k+i)%2 == 0 {
						fds = append(fds, int(devnull.Fd()))
					} else {
						fds = append(fds, int(tmp.Fd()))
					}
				}
				payload := []byte{tag, byte(k), byte(k >> 8), byte(k >> 16)}
				if err := s.SendMsg(payload, unixsocket.Msg{Fds: fds}); err != nil {
					note("send %c #%d: %v", tag, k, err)
					return
				}
			}
		}
		recv := func(s *unixsocket.Socket, tag byte) {
			defer wg.Done()
			buf := make([]byte, 64)
			for k := 0; k < nd; k++ {
				s.SetReadDeadline(time.Now().Add(10 * time.Second))
				n, msg, err := s.RecvMsg(buf)
				if err != nil {
					note("recv of %c #%d: %v", tag, k, err)
					return
				}
				nf := 1 + k%3
				okm := n == 4 && buf[0] == tag && int(buf[1])|int(buf[2])<<8|int(buf[3])<<16 == k && len(msg.Fds) == nf
				for i, fd := range msg.Fds {
					if held[fd] {
						okm = false
						note("message %c #%d reports descriptor number %d, which this process held before the exchange (not a received descriptor)", tag, k, fd)
						continue
					}
					var st syscall.Stat_t
					if syscall.Fstat(fd, &st) != nil {
						okm = false
						continue
					}
					want := stNull
					if (k+i)%2 == 1 {
						want = stTmp
					}
					if st.Dev != want.Dev || st.Ino != want.Ino {
						okm = false
					}
					syscall.Close(fd)
				}
				if !okm {
					note("message %c #%d arrived as %d bytes %v with %d descriptors (wanted %d, identities by position)", tag, k, n, buf[:min(n, 4)], len(msg.Fds), nf)
				}
			}
		}
		wg.Add(4)
		go send(a, 'a')
		go send(b, 'b')
		go recv(a, 'b')
		go recv(b, 'a')
		done := make(chan struct{})
		go func() { wg.Wait(); close(done) }()
		select {
		case <-done:
		case <-time.After(30 * time.Second):
			note("duplex exchange did not finish within 30 s")
		}
		res.Case(fmt.Sprintf("duplex %d messages each way, 1..3 descriptors", nd), true, "duplex")
		res.Traces++
		if len(bad) == 0 && !settle(func() bool { return fdCount(os.Getpid()) <= base }) {
			note("descriptors leaked: count %d, before the exchange %d", fdCount(os.Getpid()), base)
		}
		if len(bad) > 0 {
			res.Mismatch(Mismatch{Kind: "oracle", What: "send and receive at the same time on one socket: each message carries exactly the descriptors attached by its sender (C19)", Input: fmt.Sprintf("two sockets, each sending %d messages with 1..3 descriptors while receiving the peer's", nd), Impl: strings.Join(bad, "; "), Oracle: "violates"})
		}
		a.Close()
		b.Close()
	}

	// ---- gob-framed layer ----
	// both message types of the protocol (command, reply) on one socket, first use of each type at every
	// position, payloads around the 32 KiB cap, receives interleaved with sends (several messages in flight),
	// a receive with nothing in flight; every history also goes through Model/Gob.lean (driver `c19.gob`)
	ng := 60
	if tier == "thorough" {
		ng = 2000
	}
	for it := 0; it < ng; it++ {
		a, b, err := unixsocket.NewSocketPair()
		if err != nil {
			fatal("socketpair: %v", err)
		}
		sa, sb := container.VerifNewSocket(a), container.VerifNewSocket(b)
		firstOversize := rng.Chance(25) // an oversize message as the very first use of a type
		type flight struct {
			kind, total int
			cmdKind     int
			paths       []string
		}
		var inflight []flight
		var trace, toks, impl []string
		failedWhat := ""
		nsteps := 2 + rng.Intn(8)
		for step := 0; step < nsteps; step++ {
			doRecv := rng.Chance(35)
			if step == nsteps-1 && len(inflight) > 0 {
				doRecv = true
			}
			if doRecv {
				toks = append(toks, "r")
				if len(inflight) == 0 {
					// nothing in flight: the receive must fail (deadline), not invent a message
					b.SetReadDeadline(time.Now().Add(30 * time.Millisecond))
					_, _, _, rerr := sb.RecvCmd()
					trace = append(trace, "recv(nothing in flight)")
					if rerr == nil {
						impl = append(impl, "G?")
						res.Mismatch(Mismatch{Kind: "oracle", What: "gob layer delivers a message that was never sent", Input: strings.Join(trace, "; "), Impl: "a message", Oracle: "violates"})
					} else {
						impl = append(impl, "0")
					}
					continue
				}
				f := inflight[0]
				inflight = inflight[1:]
				b.SetReadDeadline(time.Now().Add(2 * time.Second))
				var rerr error
				var got []string
				gotKind := f.cmdKind
				if f.kind == 0 {
					gotKind, got, _, rerr = sb.RecvCmd()
				} else {
					got, _, rerr = sb.RecvReply()
				}
				trace = append(trace, fmt.Sprintf("recv(type %d)", f.kind))
				intact := rerr == nil && gotKind == f.cmdKind && strings.Join(got, ",") == strings.Join(f.paths, ",")
				if intact {
					impl = append(impl, fmt.Sprintf("G%d.%d", f.kind, f.total))
				} else {
					impl = append(impl, "E")
					failedWhat = fmt.Sprintf("err=%v kind=%d items=%d", rerr, gotKind, len(got))
					break // the decoder's state after a failed decode is not compared
				}
				continue
			}
			kind := rng.Intn(2)
			np := rng.Intn(4)
			plen := []int{1, 10, 100, 8000, 11000, 40000}[rng.Intn(6)]
			if step == 0 && firstOversize {
				np, plen = 1, 40000
			}
			var paths []string
			for i := 0; i < np; i++ {
				paths = append(paths, strings.Repeat("p", plen))
			}
			total := np * plen
			cmdKind := 1 + rng.Intn(9)
			var serr error
			if kind == 0 {
				serr = sa.SendCmd(cmdKind, paths, nil)
			} else {
				serr = sa.SendReply(paths, nil)
			}
			toks = append(toks, fmt.Sprintf("s%d.%d", kind, total))
			trace = append(trace, fmt.Sprintf("send(type %d, %d strings of %d)", kind, np, plen))
			if serr != nil {
				impl = append(impl, "X")
				if total < container.VerifBufferSize-2000 {
					res.Mismatch(Mismatch{Kind: "oracle", What: "gob layer rejects a message that fits", Input: strings.Join(trace, "; "), Impl: serr.Error(), Oracle: "violates"})
				}
				continue // not sent: nothing to receive
			}
			if total > container.VerifBufferSize {
				res.Mismatch(Mismatch{Kind: "oracle", What: "gob layer sends a message larger than its cap (the receiver's buffer cannot hold it)", Input: strings.Join(trace, "; "), Impl: "sent", Oracle: "violates"})
			}
			impl = append(impl, "S")
			inflight = append(inflight, flight{kind, total, cmdKind, paths})
		}
		// the same history through the model
		want := d.Ask("c19.gob " + strings.Join(toks, " "))
		have := strings.Join(impl, " ")
		wantF := strings.Fields(want)
		if len(wantF) > len(impl) { // the real history stopped at a failed receive
			wantF = wantF[:len(impl)]
		}
		wantCut := strings.Join(wantF, " ")
		switch {
		case strings.TrimSpace(wantCut) != strings.TrimSpace(have):
			// the code and the model disagree; a message that was accepted and then not delivered intact violates C19 outright
			oracle := "unknown"
			if failedWhat != "" {
				oracle = "violates"
			}
			res.Mismatch(Mismatch{Kind: "model", What: "gob-framed layer: outcome of a history differs from Model/Gob.lean (an accepted message not delivered intact, or delivered where the model loses it)", Input: strings.Join(trace, "; "), Impl: have + " " + failedWhat, Model: want, Oracle: oracle})
		case failedWhat != "":
			// code and model agree that this message is lost: the recorded finding (an unsent oversize message was the first
			// use of a type descriptor on this encoder), and only that
			res.Mismatch(Mismatch{Kind: "oracle", What: "gob-framed message not delivered intact after an unsent oversize first use of a type descriptor (the model predicts exactly this loss)", Input: strings.Join(trace, "; "),
				Impl: failedWhat, Model: want, Oracle: "violates", Key: "gob-unsent-oversize-first-use"})
		}
		res.Case(fmt.Sprintf("gob %v", toks), true, map[bool]string{true: "gob-first-oversize", false: "gob"}[firstOversize])
		a.Close()
		b.Close()
	}
}
