package main

import (
	"bytes"
	"fmt"
	"os"
	"runtime"
	"strings"
	"sync"
	"syscall"
	"time"

	"github.com/criyle/go-sandbox/container"
	"github.com/criyle/go-sandbox/pkg/unixsocket"
)

func init() { props["C19"] = runC19 }

func runC19(res *Result, d *Driver, tier string, seed uint64) {
	res.Rule = "real SOCK_SEQPACKET socketpairs through pkg/unixsocket: interleaved send/receive histories with payload sizes 0,1,..,buffer±1,64 KiB, descriptor counts 0,1,2,16,252,253,254, with/without credentials (own and, as root, other), receive buffers smaller/equal/larger than the message; compared per operation with Model.Socket (driver): bytes, identity (dev,ino) and FD_CLOEXEC of received descriptors, Ucred, error-or-delivery, and the process' descriptor count after every rejected message; receives with a full descriptor table (0, 1, n-1, n free slots for n = 1,2,5,16,100 descriptors): rejected unless all fit, nothing leaked; full-duplex exchanges (both ends send and receive at once on one Socket value, descriptors checked by identity and position); " +
		"gob-framed layer (container.socket through the verif hook): typed messages with first use of a type at every position, payloads around the 32 KiB cap. non-trivial = message with descriptors/credentials or not fitting the buffer; distinct = (history prefix, op)."
	rng := NewRng(seed, "C19", 1)
	n := 60
	if tier == "thorough" {
		n = 3000
	}
	sizes := []int{0, 1, 2, 100, 4095, 4096, 4097, 32767, 32768, 32769, 65536}
	fdCounts := []int{0, 0, 1, 2, 16, 252, 253, 254}
	devnull, _ := os.Open(os.DevNull)
	defer devnull.Close()
	tmp, _ := os.CreateTemp("", "verif-c19-")
	defer os.Remove(tmp.Name())
	var stNull, stTmp syscall.Stat_t
	syscall.Fstat(int(devnull.Fd()), &stNull)
	syscall.Fstat(int(tmp.Fd()), &stTmp)
	for it := 0; it < n; it++ {
		a, b, err := unixsocket.NewSocketPair()
		if err != nil {
			fatal("socketpair: %v", err)
		}
		b.SetPassCred(1)
		time.Sleep(time.Millisecond)
		base := fdCount(os.Getpid())
		var hist []string
		for step := 0; step < 1+rng.Intn(8); step++ {
			// one send followed by one receive with a chosen buffer (the model runs the same pair)
			sz := sizes[rng.Intn(len(sizes))]
			nf := fdCounts[rng.Intn(len(fdCounts))]
			payload := bytes.Repeat([]byte{byte('a' + step)}, sz)
			var fds []int
			for i := 0; i < nf; i++ {
				if i%2 == 0 {
					fds = append(fds, int(devnull.Fd()))
				} else {
					fds = append(fds, int(tmp.Fd()))
				}
			}
			var cred *syscall.Ucred
			credStr := "-"
			if rng.Chance(40) {
				cred = &syscall.Ucred{Pid: int32(os.Getpid()), Uid: uint32(rng.Intn(3) * 1000), Gid: uint32(rng.Intn(2) * 500)}
				credStr = fmt.Sprintf("%d.%d.%d", cred.Pid, cred.Uid, cred.Gid)
			}
			sendErr := a.SendMsg(payload, unixsocket.Msg{Fds: fds, Cred: cred})
			bufSz := []int{sz, sz + 1, sz - 1, 65536, 4096}[rng.Intn(5)]
			if bufSz < 1 {
				bufSz = 1
			}
			op := fmt.Sprintf("send(%d bytes,%d fds,cred=%s) recv(buf %d)", sz, nf, credStr, bufSz)
			hist = append(hist, op)
			// model: descriptors fit the 4 KiB control buffer? (cmsg space: 16 + 4*n, credentials 32)
			fcap := (4096 - 16 - 32) / 4
			line := fmt.Sprintf("c19.pair %d %d %s %d %d", sz, nf, credStr, bufSz, fcap)
			model := d.Ask(line)
			var impl string
			if sendErr != nil {
				impl = "send-rejected"
			} else {
				buf := make([]byte, bufSz)
				b.SetReadDeadline(time.Now().Add(500 * time.Millisecond))
				got, msg, rerr := b.RecvMsg(buf)
				switch {
				case rerr != nil && strings.Contains(rerr.Error(), "truncated"):
					impl = "truncated"
				case rerr != nil:
					impl = "recv-error:" + rerr.Error()
				default:
					okc := "-"
					if msg.Cred != nil {
						okc = fmt.Sprintf("%d.%d.%d", msg.Cred.Pid, msg.Cred.Uid, msg.Cred.Gid)
					}
					idOk := len(msg.Fds) == nf && got <= len(buf) && bytes.Equal(buf[:min(got, len(buf))], payload)
					for i, fd := range msg.Fds {
						var st syscall.Stat_t
						syscall.Fstat(fd, &st)
						want := stNull
						if i%2 == 1 {
							want = stTmp
						}
						fl, _, _ := syscall.Syscall(syscall.SYS_FCNTL, uintptr(fd), syscall.F_GETFD, 0)
						if st.Dev != want.Dev || st.Ino != want.Ino || fl&syscall.FD_CLOEXEC == 0 {
							idOk = false
						}
						syscall.Close(fd)
					}
					impl = fmt.Sprintf("msg %d %d %s intact=%s", got, len(msg.Fds), okc, b01(idOk))
				}
			}
			// with SO_PASSCRED the kernel attaches the sender's own credentials when none were given
			if credStr == "-" && strings.HasPrefix(impl, "msg") {
				impl = strings.Replace(impl, fmt.Sprintf(" %d.0.0 ", os.Getpid()), " - ", 1)
			}
			res.Case(strings.Join(hist, ";"), nf > 0 || cred != nil || bufSz < sz, strings.Fields(impl)[0])
			if impl != model {
				m := Mismatch{Kind: "differential", What: "unixsocket SendMsg/RecvMsg vs Model.Socket", Input: op, Impl: impl, Model: model, Oracle: "holds"}
				if strings.HasPrefix(impl, "msg") && !strings.HasSuffix(impl, "intact=1") {
					m.Oracle = "violates"
					m.Note = "a delivered message is not intact"
				}
				if strings.HasPrefix(impl, "msg") && strings.HasPrefix(model, "msg") && m.Oracle != "violates" {
					m.Oracle = "violates"
					m.Note = "a message was delivered that is not the message sent (length, descriptor count or sender-specified credentials)"
				}
				if sz == 0 {
					// net.UnixConn pads an empty payload that carries control data with one dummy byte, and an empty
					// SEQPACKET payload without control data reads as EOF: recorded as an open known finding
					m.Oracle = "violates"
					m.Key = "zero-length-payload"
				}
				res.Mismatch(m)
			}
			// ledger: nothing from this socket stays open once the operation is over
			if !settle(func() bool { return fdCount(os.Getpid()) == base }) {
				res.Mismatch(Mismatch{Kind: "oracle", What: "descriptors that arrived with a rejected or delivered message are not leaked (C19_no_fd_leak)", Input: strings.Join(hist, "; "),
					Impl: fmt.Sprintf("descriptor count %d, baseline %d after %s", fdCount(os.Getpid()), base, impl), Oracle: "violates"})
				base = fdCount(os.Getpid())
			}
			if it == 0 && step == 0 {
				res.Sample(line + " => " + model)
			}
		}
		a.Close()
		b.Close()
	}

	// ---- the receiving process cannot install all descriptors (descriptor table full): the kernel hands over a
	// prefix and flags the control data as cut; the message must be rejected, never delivered with fewer descriptors ----
	{
		var oldLim syscall.Rlimit
		syscall.Getrlimit(syscall.RLIMIT_NOFILE, &oldLim)
		hi := 0
		ents, _ := os.ReadDir("/proc/self/fd")
		for _, e := range ents {
			var k int
			fmt.Sscan(e.Name(), &k)
			if k > hi {
				hi = k
			}
		}
		reps := 1
		if tier == "thorough" {
			reps = 20
		}
		for rep := 0; rep < reps && hi < 200; rep++ {
			for _, nf := range []int{1, 2, 5, 16, 100} {
				for _, free := range []int{0, 1, nf - 1, nf} {
					if free < 0 || (free == 1 && nf == 1) || (free == nf-1 && nf <= 2) {
						continue
					}
					a, b, err := unixsocket.NewSocketPair()
					if err != nil {
						fatal("socketpair: %v", err)
					}
					var fds []int
					for i := 0; i < nf; i++ {
						fds = append(fds, int(devnull.Fd()))
					}
					payload := []byte("table-full")
					if err := a.SendMsg(payload, unixsocket.Msg{Fds: fds}); err != nil {
						fatal("send: %v", err)
					}
					base := fdCount(os.Getpid())
					lim := oldLim
					lim.Cur = 512
					syscall.Setrlimit(syscall.RLIMIT_NOFILE, &lim)
					var fill []int
					for {
						x, e := syscall.Dup(int(devnull.Fd()))
						if e != nil {
							break
						}
						fill = append(fill, x)
					}
					for i := 0; i < free && len(fill) > 0; i++ {
						syscall.Close(fill[len(fill)-1])
						fill = fill[:len(fill)-1]
					}
					buf := make([]byte, 64)
					b.SetReadDeadline(time.Now().Add(500 * time.Millisecond))
					got, msg, rerr := b.RecvMsg(buf)
					for _, x := range fill {
						syscall.Close(x)
					}
					syscall.Setrlimit(syscall.RLIMIT_NOFILE, &oldLim)
					key := fmt.Sprintf("send(%d bytes,%d fds) recv with %d free descriptor slots", len(payload), nf, free)
					res.Case(key+itoa(rep), true, "table-full")
					res.Traces++
					var bad string
					switch {
					case rerr != nil && free >= nf:
						bad = "rejected although every descriptor could be installed: " + rerr.Error()
					case rerr == nil && len(msg.Fds) != nf:
						bad = fmt.Sprintf("delivered without error with %d of %d descriptors (%d payload bytes)", len(msg.Fds), nf, got)
					case rerr == nil && free < nf:
						bad = "harness: table was not full"
					}
					for _, x := range msg.Fds {
						syscall.Close(x)
					}
					if bad == "" && !settle(func() bool { return fdCount(os.Getpid()) <= base }) {
						bad = fmt.Sprintf("descriptors of the rejected message leaked: count %d, before the receive %d", fdCount(os.Getpid()), base)
					}
					if bad != "" && !strings.HasPrefix(bad, "harness") {
						res.Mismatch(Mismatch{Kind: "oracle", What: "a message whose descriptors cannot all be installed is rejected, not delivered truncated (C19)", Input: key, Impl: bad, Oracle: "violates"})
					} else if bad != "" {
						res.Note("%s: %s", key, bad)
					}
					a.Close()
					b.Close()
				}
			}
		}
	}

	// ---- both directions at once on one Socket (what the container's send and receive loops do): every message
	// still carries exactly its own descriptors, in order, and nothing is leaked ----
	{
		nd := 3000
		if tier == "thorough" {
			nd = 60000
		}
		a, b, err := unixsocket.NewSocketPair()
		if err != nil {
			fatal("socketpair: %v", err)
		}
		runtime.GC()
		base := fdCount(os.Getpid())
		held := openFdSet() // a "received" descriptor with one of these numbers is not a received descriptor: never close it
		for fd := range held { // (the listing's own directory descriptor is in the listing and closed by now)
			if _, _, e := syscall.Syscall(syscall.SYS_FCNTL, uintptr(fd), syscall.F_GETFD, 0); e != 0 {
				delete(held, fd)
			}
		}
		var mu sync.Mutex
		var bad []string
		note := func(f string, x ...any) {
			mu.Lock()
			if len(bad) < 5 {
				bad = append(bad, fmt.Sprintf(f, x...))
			}
			mu.Unlock()
		}
		var wg sync.WaitGroup
		send := func(s *unixsocket.Socket, tag byte) {
			defer wg.Done()
			for k := 0; k < nd; k++ {
				nf := 1 + k%3
				var fds []int
				for i := 0; i < nf; i++ {
					if (k+i)%2 == 0 {
						fds = append(fds, int(devnull.Fd()))
					} else {
						fds = append(fds, int(tmp.Fd()))
					}
				}
				payload := []byte{tag, byte(k), byte(k >> 8), byte(k >> 16)}
				if err := s.SendMsg(payload, unixsocket.Msg{Fds: fds}); err != nil {
					note("send %c #%d: %v", tag, k, err)
					return
				}
			}
		}
		recv := func(s *unixsocket.Socket, tag byte) {
			defer wg.Done()
			buf := make([]byte, 64)
			for k := 0; k < nd; k++ {
				s.SetReadDeadline(time.Now().Add(10 * time.Second))
				n, msg, err := s.RecvMsg(buf)
				if err != nil {
					note("recv of %c #%d: %v", tag, k, err)
					return
				}
				nf := 1 + k%3
				okm := n == 4 && buf[0] == tag && int(buf[1])|int(buf[2])<<8|int(buf[3])<<16 == k && len(msg.Fds) == nf
				for i, fd := range msg.Fds {
					if held[fd] {
						okm = false
						note("message %c #%d reports descriptor number %d, which this process held before the exchange (not a received descriptor)", tag, k, fd)
						continue
					}
					var st syscall.Stat_t
					if syscall.Fstat(fd, &st) != nil {
						okm = false
						continue
					}
					want := stNull
					if (k+i)%2 == 1 {
						want = stTmp
					}
					if st.Dev != want.Dev || st.Ino != want.Ino {
						okm = false
					}
					syscall.Close(fd)
				}
				if !okm {
					note("message %c #%d arrived as %d bytes %v with %d descriptors (wanted %d, identities by position)", tag, k, n, buf[:min(n, 4)], len(msg.Fds), nf)
				}
			}
		}
		wg.Add(4)
		go send(a, 'a')
		go send(b, 'b')
		go recv(a, 'b')
		go recv(b, 'a')
		done := make(chan struct{})
		go func() { wg.Wait(); close(done) }()
		select {
		case <-done:
		case <-time.After(30 * time.Second):
			note("duplex exchange did not finish within 30 s")
		}
		res.Case(fmt.Sprintf("duplex %d messages each way, 1..3 descriptors", nd), true, "duplex")
		res.Traces++
		if len(bad) == 0 && !settle(func() bool { return fdCount(os.Getpid()) <= base }) {
			note("descriptors leaked: count %d, before the exchange %d", fdCount(os.Getpid()), base)
		}
		if len(bad) > 0 {
			res.Mismatch(Mismatch{Kind: "oracle", What: "send and receive at the same time on one socket: each message carries exactly the descriptors attached by its sender (C19)", Input: fmt.Sprintf("two sockets, each sending %d messages with 1..3 descriptors while receiving the peer's", nd), Impl: strings.Join(bad, "; "), Oracle: "violates"})
		}
		a.Close()
		b.Close()
	}

	// ---- gob-framed layer ----
	ng := 40
	if tier == "thorough" {
		ng = 1500
	}
	for it := 0; it < ng; it++ {
		a, b, err := unixsocket.NewSocketPair()
		if err != nil {
			fatal("socketpair: %v", err)
		}
		sa, sb := container.VerifNewSocket(a), container.VerifNewSocket(b)
		firstOversize := rng.Chance(25) // an oversize message as the very first use of the command type
		ok := true
		poisoned := false // an unsent oversize message was the first use of the type on this encoder
		sentOnce := false
		var trace []string
		for step := 0; step < 2+rng.Intn(6) && ok; step++ {
			np := rng.Intn(4)
			plen := []int{1, 10, 100, 8000, 11000, 40000}[rng.Intn(6)]
			if step == 0 && firstOversize {
				np, plen = 1, 40000
			}
			var paths []string
			for i := 0; i < np; i++ {
				paths = append(paths, strings.Repeat("p", plen))
			}
			kind := 1 + rng.Intn(9)
			serr := sa.SendCmd(kind, paths, nil)
			total := 0
			for _, p := range paths {
				total += len(p)
			}
			trace = append(trace, fmt.Sprintf("cmd(kind %d, %d paths of %d)", kind, np, plen))
			if serr != nil {
				if total < container.VerifBufferSize-2000 {
					res.Mismatch(Mismatch{Kind: "oracle", What: "gob layer rejects a message that fits", Input: strings.Join(trace, "; "), Impl: serr.Error(), Oracle: "violates"})
				}
				if !sentOnce {
					poisoned = true
				}
				continue // not sent: nothing to receive
			}
			sentOnce = true
			b.SetReadDeadline(time.Now().Add(500 * time.Millisecond))
			k2, p2, _, rerr := sb.RecvCmd()
			if rerr != nil || k2 != kind || strings.Join(p2, ",") != strings.Join(paths, ",") {
				key := ""
				if poisoned {
					key = "gob-unsent-oversize-first-use"
				}
				res.Mismatch(Mismatch{Kind: "oracle", What: "gob-framed message not delivered intact after an unsent oversize first use of its type (known finding) / otherwise a violation", Input: strings.Join(trace, "; "),
					Impl: fmt.Sprintf("err=%v kind=%d paths=%d", rerr, k2, len(p2)), Oracle: "violates", Key: key})
				ok = false
			}
		}
		res.Case(fmt.Sprintf("gob %v %d", trace, it), true, map[bool]string{true: "gob-first-oversize", false: "gob"}[firstOversize])
		a.Close()
		b.Close()
	}
}
