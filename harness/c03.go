package main

import (
	"fmt"
	"os"
	"path/filepath"
	"runtime"
	"sort"
	"strconv"
	"strings"
	"sync"
	"syscall"
	"time"

	"github.com/criyle/go-sandbox/pkg/seccomp"
	"github.com/criyle/go-sandbox/pkg/seccomp/libseccomp"
	"github.com/criyle/go-sandbox/ptracer"
	"github.com/criyle/go-sandbox/runner"
	"github.com/criyle/go-sandbox/runner/ptrace"
	"github.com/elastic/go-seccomp-bpf/arch"
	"golang.org/x/sys/unix"
)

func init() { props["C03"] = runC03 }

var c03Filter seccomp.Filter

var c03NameTraced = []string{"getuid", "getgid", "geteuid"}

// trace the file syscalls and three id getters, kill sethostname (and anything unknown), allow the rest
func c03BuildFilter() seccomp.Filter {
	if c03Filter != nil {
		return c03Filter
	}
	info, err := arch.GetInfo("")
	if err != nil {
		fatal("arch info: %v", err)
	}
	tr := map[string]bool{}
	for _, n := range append(append([]string{}, tracedFileSyscalls...), c03NameTraced...) {
		if _, ok := info.SyscallNames[n]; ok {
			tr[n] = true
		}
	}
	var allow, trace []string
	for n := range info.SyscallNames {
		switch {
		case tr[n]:
			trace = append(trace, n)
		case n == "sethostname":
		default:
			allow = append(allow, n)
		}
	}
	sort.Strings(allow)
	sort.Strings(trace)
	f, err := (&libseccomp.Builder{Allow: allow, Trace: trace, Default: libseccomp.ActionKill}).Build()
	if err != nil {
		fatal("c03 filter: %v", err)
	}
	c03Filter = f
	return f
}

type c03Op struct {
	lineage string // over f v c; "r" = the root process
	id      int
	kind    string // mkdir access name:<syscall> free fkill
	act     string // a b k (what the handler will answer if asked)
}

func (o c03Op) fres() string {
	switch {
	case o.kind == "free":
		return "allow"
	case o.kind == "fkill":
		return "kill"
	}
	return "trace"
}

var c03NameNr = map[string]int{"getuid": 102, "getgid": 104, "geteuid": 107}

func (o c03Op) cmd() string {
	switch o.kind {
	case "mkdir":
		return fmt.Sprintf("sys 258 fdcwd64 s:m%d 493", o.id)
	case "access":
		return fmt.Sprintf("sys 21 s:m%d 0", o.id)
	case "free":
		return "sys 39"
	case "fkill":
		return "sys 170 s:x 1"
	}
	return fmt.Sprintf("sys %d", c03NameNr[strings.TrimPrefix(o.kind, "name:")])
}

func (o c03Op) nr() int {
	switch o.kind {
	case "mkdir":
		return 258
	case "access":
		return 21
	case "free":
		return 39
	case "fkill":
		return 170
	}
	return c03NameNr[strings.TrimPrefix(o.kind, "name:")]
}

// c03Gen builds a random program over a process tree; returns the script and the operations in program order
type c03Gen struct {
	execBias bool // programs in which processes replace their image often
	deferred bool // a forked process of the main process is collected at the end only
	rng     *Rng
	nextID  int
	nameAct map[string]string
	killed  bool
	ops     []c03Op
}

func (g *c03Gen) seq(lineage string, depth, n int) string {
	var parts []string
	for i := 0; i < n; i++ {
		r := g.rng.Intn(10)
		if (r < 3 || (g.execBias && r < 5)) && depth < 2 {
			kind := []string{"fork", "vfork", "thread"}[g.rng.Intn(3)]
			if g.execBias && g.rng.Chance(60) {
				kind = "fork"
			}
			ch := map[string]string{"fork": "f", "vfork": "v", "thread": "c"}[kind]
			lin := ch
			if lineage != "r" {
				lin = lineage + ch
			}
			inner := g.seq(lin, depth+1, 1+g.rng.Intn(3))
			// a forked process may replace its image before it goes on (the rest of its block is run by the new image)
			if kind == "fork" && (g.execBias || g.rng.Chance(35)) {
				inner = "exec; " + inner
			}
			end := map[string]string{"fork": "endfork; wait", "vfork": "endfork; wait", "thread": "endthread; join"}[kind]
			// the main process does not always wait for a forked process at once: the child does its part (within
			// milliseconds) and lingers, the parent goes on after a pause and collects it at the very end — the order
			// of the calls is still the program order
			if kind == "fork" && lineage == "r" && g.execBias && g.rng.Chance(60) {
				inner = inner + "; sleep 400"
				end = "endfork; sleep 120"
				g.deferred = true
			}
			parts = append(parts, kind+"; "+inner+"; "+end)
			continue
		}
		if r == 9 && lineage == "r" && depth == 0 && g.rng.Chance(50) {
			parts = append(parts, "exec") // the main process replaces its image and goes on with the rest of the program
			continue
		}
		o := c03Op{lineage: lineage, id: g.nextID}
		g.nextID++
		switch k := g.rng.Intn(12); {
		case k < 4:
			o.kind = "mkdir"
		case k < 6:
			o.kind = "access"
		case k < 9:
			o.kind = "name:" + c03NameTraced[g.rng.Intn(3)]
		case k < 11:
			o.kind = "free"
		default:
			o.kind = "fkill"
			if g.killed || !g.rng.Chance(30) {
				o.kind = "free"
			} else {
				g.killed = true
			}
		}
		switch {
		case strings.HasPrefix(o.kind, "name:"):
			o.act = g.nameAct[strings.TrimPrefix(o.kind, "name:")]
		case o.kind == "mkdir" || o.kind == "access":
			o.act = []string{"a", "a", "a", "b", "b", "k"}[g.rng.Intn(6)]
			if o.act == "k" && (g.killed || !g.rng.Chance(40)) {
				o.act = "b"
			}
		default:
			o.act = "a"
		}
		g.ops = append(g.ops, o)
		parts = append(parts, o.cmd())
	}
	return strings.Join(parts, "; ")
}

type c03Handler struct {
	delay   bool // take a moment to decide (runs that share the host process with other traced runs)
	mu      sync.Mutex
	byID    map[int]string
	byName  map[string]string
	asked   []string
	workdir string
}

func c03Act(a string) ptracer.TraceAction {
	switch a {
	case "b":
		return ptracer.TraceBan
	case "k":
		return ptracer.TraceKill
	}
	return ptracer.TraceAllow
}

func (h *c03Handler) path(class, p string) ptracer.TraceAction {
	if h.delay {
		time.Sleep(time.Millisecond)
	}
	h.mu.Lock()
	defer h.mu.Unlock()
	h.asked = append(h.asked, class+" "+p)
	b := filepath.Base(p)
	if filepath.Dir(p) == h.workdir && strings.HasPrefix(b, "m") {
		if id, err := strconv.Atoi(b[1:]); err == nil {
			return c03Act(h.byID[id])
		}
	}
	return ptracer.TraceAllow
}
func (h *c03Handler) CheckRead(p string) ptracer.TraceAction  { return h.path("R", p) }
func (h *c03Handler) CheckWrite(p string) ptracer.TraceAction { return h.path("W", p) }
func (h *c03Handler) CheckStat(p string) ptracer.TraceAction  { return h.path("S", p) }
func (h *c03Handler) CheckSyscall(n string) ptracer.TraceAction {
	if h.delay {
		time.Sleep(time.Millisecond)
	}
	h.mu.Lock()
	defer h.mu.Unlock()
	h.asked = append(h.asked, "C "+n)
	if a, ok := h.byName[n]; ok {
		return c03Act(a)
	}
	return ptracer.TraceAllow
}

func runC03(res *Result, d *Driver, tier string, seed uint64) {
	res.Rule = "part A: handleTrap on synthetic stopped tracees: regenerated code vs hand model (driver) on random registers and verdicts; " +
		"part B: random programs over fork/vfork/thread trees (depth <= 2; forked processes and the main process may replace their image by execve in the middle of the program) run by the probe under the REAL ptrace runner with a filter that traces the file syscalls and three id getters, kills sethostname and allows the rest, and a handler whose decision function over {allow, ban, kill} is drawn per call (per name for the getters): the values the program itself recorded for every call, the directories that exist afterwards and Result.Status are compared with Model.Verdict.runOps (driver) using the option set of the regenerated setPtraceOption. " +
		"part C: multi-threaded programs in which one thread makes a filter-killed call while others live on / end the process with exit_group(0) (verdict Disallowed Syscall); bans under every configured BanRet value. non-trivial = program with a ban, a kill or a child process; distinct = script."
	rng := NewRng(seed, "C03", 1)
	// ---- part A ----
	nA := 200
	if tier == "thorough" {
		nA = 5000
	}
	for i := 0; i < nA; i++ {
		act := []string{"a", "b", "k"}[rng.Intn(3)]
		orig := []uint64{2, 257, 258, 437, 59, 0, 1 << 32, rng.Next()}[rng.Intn(8)]
		rax := []uint64{0, ^uint64(37), 5, rng.Next()}[rng.Intn(4)]
		ans := d.Ask(fmt.Sprintf("c03.trap %s %d %d", act, orig, rax))
		want := fmt.Sprintf("%d %d false", orig, rax)
		switch act {
		case "b":
			want = fmt.Sprintf("%d %d false", ^uint64(0), ^uint64(12)) // orig_rax = -1, rax = -EACCES
		case "k":
			want = fmt.Sprintf("%d %d true", orig, rax)
		}
		res.Case("trap "+act+strconv.FormatUint(orig, 16), act != "a", "trap-"+act)
		if ans != want {
			res.Mismatch(Mismatch{Kind: "differential", What: "handleTrap: regenerated code / hand model vs expected registers", Input: fmt.Sprintf("act=%s orig_rax=%#x rax=%#x", act, orig, rax), Model: ans, Impl: want, Oracle: "unknown"})
		}
	}
	// ---- part B ----
	nB := 60
	if tier == "thorough" {
		nB = 2500
	}
	filter := c03BuildFilter()
	// most programs are run while two other traced programs run in the same host process (three tracers at work at
	// once, each handler taking about a millisecond to decide): a verdict must reach the call it was computed for
	type c03Item struct {
		work, script, model string
		g                   *c03Gen
		h                   *c03Handler
		mops                []string
		nontrivial          bool
		r                   runner.Result
		out                 string
	}
	for i := 0; i < nB; {
		k := 1
		if i%4 != 0 {
			k = 3
		}
		var items []*c03Item
		for j := 0; j < k; j++ {
			work, err := os.MkdirTemp("", "verif-c03-")
			if err != nil {
				fatal("mkdtemp: %v", err)
			}
			work, _ = filepath.EvalSymlinks(work)
			g := &c03Gen{rng: rng, nameAct: map[string]string{}, execBias: (i+j)%3 == 2}
			for _, n := range c03NameTraced {
				g.nameAct[n] = []string{"a", "a", "b", "b", "k"}[rng.Intn(5)]
				if g.nameAct[n] == "k" && !rng.Chance(30) {
					g.nameAct[n] = "b"
				}
			}
			script := g.seq("r", 0, 2+rng.Intn(5))
			if g.deferred {
				script += "; wait"
			}
			script += "; exit 0"
			h := &c03Handler{byID: map[int]string{}, byName: g.nameAct, workdir: work}
			var mops []string
			nontrivial := false
			for _, o := range g.ops {
				h.byID[o.id] = o.act
				mops = append(mops, fmt.Sprintf("%s:%d:%s:%s", o.lineage, o.id, o.fres(), o.act))
				if o.act != "a" || o.lineage != "r" || o.kind == "fkill" {
					nontrivial = true
				}
			}
			h.delay = k > 1
			items = append(items, &c03Item{work: work, script: script, model: d.Ask("c03.run " + strings.Join(mops, ",")), g: g, h: h, mops: mops, nontrivial: nontrivial})
		}
		var wg sync.WaitGroup
		for _, it := range items {
			wg.Add(1)
			go func(it *c03Item) {
				defer wg.Done()
				it.r, it.out = runPtraceProbe(RunSpec{Script: it.script, Filter: filter, Handler: it.h, WorkDir: it.work})
			}(it)
		}
		wg.Wait()
		i += k
		for _, it := range items {
		work, script, model, g, mops, nontrivial, r, out := it.work, it.script, it.model, it.g, it.mops, it.nontrivial, it.r, it.out
		if k > 1 {
			script = "[with two other traced runs in the process] " + script
		}
		// what the model expects the program to have recorded
		mEffects, mRets, mStatus := map[int]bool{}, map[int]string{}, ""
		for _, f := range strings.Fields(model) {
			k, v, _ := strings.Cut(f, "=")
			switch k {
			case "effects":
				if v != "-" {
					for _, x := range strings.Split(v, "+") {
						n, _ := strconv.Atoi(x)
						mEffects[n] = true
					}
				}
			case "rets":
				if v != "-" {
					for _, x := range strings.Split(v, "+") {
						a, b, _ := strings.Cut(x, "=")
						n, _ := strconv.Atoi(a)
						mRets[n] = b
					}
				}
			case "status":
				mStatus = v
			}
		}
		var expLines []string
		for _, o := range g.ops {
			switch {
			case mEffects[o.id]:
				switch o.kind {
				case "mkdir":
					expLines = append(expLines, "sys 258 = 0 0")
				case "access":
					expLines = append(expLines, "sys 21 = -1 2")
				case "free":
					expLines = append(expLines, "sys 39 = * 0")
				default:
					expLines = append(expLines, fmt.Sprintf("sys %d = 0 0", o.nr()))
				}
			case mRets[o.id] != "":
				expLines = append(expLines, fmt.Sprintf("sys %d = -1 %s", o.nr(), strings.TrimPrefix(mRets[o.id], "-")))
			}
		}
		var gotLines []string
		for _, ln := range strings.Split(out, "\n") {
			if strings.HasPrefix(ln, "sys ") {
				f := strings.Fields(ln)
				if len(f) == 5 && f[1] == "39" {
					f[3] = "*"
				}
				gotLines = append(gotLines, strings.Join(f, " "))
			}
		}
		var gotDirs, expDirs []string
		ents, _ := os.ReadDir(work)
		for _, e := range ents {
			gotDirs = append(gotDirs, e.Name())
		}
		for _, o := range g.ops {
			if o.kind == "mkdir" && mEffects[o.id] {
				expDirs = append(expDirs, fmt.Sprintf("m%d", o.id))
			}
		}
		sort.Strings(gotDirs)
		sort.Strings(expDirs)
		gotStatus := "normal"
		if r.Status == runner.StatusDisallowedSyscall {
			gotStatus = "disallowed"
		} else if r.Status != runner.StatusNormal {
			gotStatus = r.Status.String() + " " + r.Error
		}
		res.Case(script, nontrivial, "run-"+mStatus)
		for _, o := range g.ops {
			res.Dist["op-"+strings.SplitN(o.kind, ":", 2)[0]+"-"+o.act+"-"+map[bool]string{true: "root", false: "child"}[o.lineage == "r"]]++
		}
		impl := fmt.Sprintf("status=%s dirs=%v lines=%v", gotStatus, gotDirs, gotLines)
		want := fmt.Sprintf("status=%s dirs=%v lines=%v", mStatus, expDirs, expLines)
		if impl != want {
			// which part of the property? a denied call that took effect is a violation outright
			oracle := "violates"
			res.Mismatch(Mismatch{Kind: "oracle", What: "traced run vs Model.Verdict.runOps: values seen by the program, directories created, verdict (C03_effects_were_allowed / C03_kill_ends_run / C03_ban_seen / C03_allowed_executes)", Input: script + " || decisions " + strings.Join(mops, ","), Impl: impl, Model: want, Oracle: oracle, Key: c03Key(g.ops, gotStatus, mStatus)})
		}
		os.RemoveAll(work)
		}
	}
	// a killed call must not execute even when the tracee gets the CPU the moment it is resumed: tracer and tracee share
	// one CPU here, so that a tracee resumed before it is killed runs its syscall first
	{
		nK := 60
		if tier == "thorough" {
			nK = 600
		}
		work, _ := os.MkdirTemp("", "verif-c03k-")
		work, _ = filepath.EvalSymlinks(work)
		executed := 0
		notDisallowed := 0
		doneK := make(chan struct{})
		go func() {
			defer close(doneK)
			runtime.LockOSThread() // the affinity below is this thread's; the tracee inherits it
			var old, one unix.CPUSet
			unix.SchedGetaffinity(0, &old)
			one.Set(0)
			for c := 0; c < 1024; c++ {
				if old.IsSet(c) {
					one.Zero()
					one.Set(c)
					break
				}
			}
			unix.SchedSetaffinity(0, &one)
			defer unix.SchedSetaffinity(0, &old)
			for i := 0; i < nK; i++ {
				h := &c03Handler{byID: map[int]string{0: "k"}, byName: map[string]string{}, workdir: work}
				r, _ := runPtraceProbe(RunSpec{Script: "sys 258 fdcwd64 s:m0 493; exit 0", Filter: filter, Handler: h, WorkDir: work})
				if r.Status != runner.StatusDisallowedSyscall {
					notDisallowed++
				}
				if _, err := os.Stat(filepath.Join(work, "m0")); err == nil {
					executed++
					os.Remove(filepath.Join(work, "m0"))
				}
				res.Case(fmt.Sprintf("kill-race %d", i), true, "kill-race")
			}
		}()
		<-doneK
		os.RemoveAll(work)
		if executed > 0 || notDisallowed > 0 {
			res.Mismatch(Mismatch{Kind: "oracle", What: "a syscall the handler kills took effect (the tracee was resumed before it was killed) or the run did not end as Disallowed Syscall (C03_kill_ends_run)", Input: fmt.Sprintf("%d runs of `sys 258 (mkdirat) m0` with verdict kill, tracer and tracee on one CPU", nK), Impl: fmt.Sprintf("directory created in %d runs; %d runs not Disallowed Syscall", executed, notDisallowed), Model: "never created; always Disallowed Syscall", Oracle: "violates"})
		}
	}
	// a call the filter itself kills ends the RUN, whichever thread makes it and whatever the other threads do afterwards
	{
		work, _ := os.MkdirTemp("", "verif-c03t-")
		work, _ = filepath.EvalSymlinks(work)
		reps := 2
		if tier == "thorough" {
			reps = 40
		}
		for rep := 0; rep < reps; rep++ {
			for _, script := range []string{
				"thread;sleep 150;sys 231 0;endthread;sys 170 s:x 1;sleep 3000;exit 0", // main thread makes the call, another thread later ends the process with exit_group(0)
				"thread;sleep 150;sys 231 7;endthread;thread;sleep 5000;endthread;sys 170 s:x 1;sleep 3000;exit 0",
				"thread;sys 170 s:x 1;sleep 3000;endthread;sleep 150;exit 0",                             // a non-leader thread makes the call, the leader exits 0 afterwards
				"fork;thread;sleep 100;sys 231 0;endthread;sys 170 s:x 1;sleep 3000;endfork;wait;exit 0", // in a child process
			} {
				h := &c03Handler{byID: map[int]string{}, byName: map[string]string{}, workdir: work}
				r, _ := runPtraceProbe(RunSpec{Script: script, Filter: filter, Handler: h, WorkDir: work, Timeout: 20 * time.Second})
				res.Case("filter-kill-threads "+script+itoa(rep), true, "filter-kill-threads")
				res.Traces++
				if r.Status != runner.StatusDisallowedSyscall {
					res.Mismatch(Mismatch{Kind: "oracle", What: "a syscall the filter kills ends the run as Disallowed Syscall, in a multi-threaded program too (C03_kill_ends_run)", Input: script + " (sys 170 = sethostname, not allow-listed, default action kill)",
						Impl: fmt.Sprintf("status=%v exit=%d err=%q", r.Status, r.ExitStatus, r.Error), Model: "Disallowed Syscall", Oracle: "violates"})
				}
			}
		}
		// a banned call returns the error the caller configured at the time of the run
		oldBan := ptrace.BanRet
		for _, e := range []syscall.Errno{syscall.EACCES, syscall.EPERM, syscall.ENOENT, syscall.ENOSYS, syscall.Errno(200)} {
			ptrace.BanRet = e
			h := &c03Handler{byID: map[int]string{0: "b"}, byName: map[string]string{}, workdir: work}
			r, out := runPtraceProbe(RunSpec{Script: "sys 258 fdcwd64 s:m0 493; exit 0", Filter: filter, Handler: h, WorkDir: work})
			res.Case(fmt.Sprintf("ban-return %d", int(e)), true, "ban-return")
			res.Traces++
			want := fmt.Sprintf("sys 258 = -1 %d", int(e))
			_, statErr := os.Stat(filepath.Join(work, "m0"))
			if r.Status != runner.StatusNormal || !strings.Contains(out, want) || statErr == nil {
				res.Mismatch(Mismatch{Kind: "oracle", What: "a banned syscall does not execute and the program sees the configured error return (C03_ban_seen)", Input: fmt.Sprintf("ptrace.BanRet = %d before the run; `sys 258 (mkdirat) m0` banned by the handler", int(e)),
					Impl: fmt.Sprintf("status=%v output=%q directory-created=%v", r.Status, strings.TrimSpace(out), statErr == nil), Model: want, Oracle: "violates"})
			}
			os.Remove(filepath.Join(work, "m0"))
		}
		ptrace.BanRet = oldBan
		os.RemoveAll(work)
	}
	res.Sample("fork; sys 258 fdcwd64 s:m0 493 [ban]; endfork; wait; sys 258 fdcwd64 s:m1 493 [allow]; exit 0 -> lines [sys 258 = -1 13, sys 258 = 0 0] dirs [m1] status normal")
}

// c03Key names the shape of a disagreement (for known findings)
func c03Key(ops []c03Op, got, want string) string {
	for _, o := range ops {
		if o.kind == "fkill" && o.lineage != "r" && strings.ContainsAny(o.lineage, "fv") && want == "disallowed" && got == "normal" {
			return "filter-kill-in-child-process"
		}
	}
	return ""
}
