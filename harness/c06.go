package main

import (
	"context"
	"fmt"
	"io"
	"os"
	"reflect"
	"sort"
	"strconv"
	"strings"
	"sync"
	"sync/atomic"
	"syscall"
	"time"

	"github.com/criyle/go-sandbox/container"
	"github.com/criyle/go-sandbox/pkg/forkexec"
	"github.com/criyle/go-sandbox/pkg/memfd"
	"github.com/criyle/go-sandbox/pkg/unixsocket"
	"github.com/criyle/go-sandbox/runner"
)

func init() { props["C06"] = runC06 }

const closeMarker = ^uintptr(0)

// expected table per the property: fd i = file of files[i], nothing else
func c06Expect(files []uint64) string {
	var parts []string
	for i, f := range files {
		if f != ^uint64(0) {
			parts = append(parts, fmt.Sprintf("%d:%d", i, 1000+f))
		}
	}
	return jl(parts)
}

// openFdSet lists the descriptor numbers under /proc/self/fd (the listing's own, transient directory descriptor included)
func openFdSet() map[int]bool {
	m := map[int]bool{}
	ents, _ := os.ReadDir("/proc/self/fd")
	for _, e := range ents {
		if n, err := strconv.Atoi(e.Name()); err == nil {
			m[n] = true
		}
	}
	return m
}

func runC06(res *Result, d *Driver, tier string, seed uint64) {
	res.Rule = "part A: the regenerated forkAndExecInChild (Go-lite, abstract descriptor table: every open fd k is file 1000+k and close-on-exec) on enumerated layouts: all descriptor lists of length<=L over fds 0..M and the close marker, all placements of the sync socketpair and of the exec descriptor among the open numbers, with and without vfork, checked against the property oracle (fd i = file of Files[i], nothing else; exec descriptor is the caller's file; caller's Runner unchanged); L=3,M=5 quick, L=4,M=7 thorough; " +
		"part B: real forkexec.Runner.Start with engineered layouts (sources dup3'ed to chosen numbers, exec descriptor placed right above / below / inside the list, repeats, close marker, with and without vfork, the same Runner started twice), probe reports fstat identity and FD_CLOEXEC of every open descriptor. non-trivial = list not the identity 0..n-1; distinct = distinct layouts."
	// ---- part A ----
	L, M := 3, 5
	if tier == "thorough" {
		L, M = 4, 7
	}
	vals := []uint64{}
	for v := 0; v <= M; v++ {
		vals = append(vals, uint64(v))
	}
	vals = append(vals, ^uint64(0))
	var lists [][]uint64
	var gen func(cur []uint64)
	gen = func(cur []uint64) {
		lists = append(lists, append([]uint64{}, cur...))
		if len(cur) == L {
			return
		}
		for _, v := range vals {
			gen(append(cur, v))
		}
	}
	gen(nil)
	rng := NewRng(seed, "C06", 1)
	stride := 1
	if tier != "thorough" {
		stride = 1
	}
	nsamples := 0
	for li, files := range lists {
		if li%stride != 0 {
			continue
		}
		// open numbers: every listed source, plus pipe ends and exec fd
		used := map[uint64]bool{}
		for _, f := range files {
			if f != ^uint64(0) {
				used[f] = true
			}
		}
		// candidates for p0,p1,exec: numbers 0..M+3 not among... (they may not coincide with each other; they may lie anywhere)
		for trial := 0; trial < 6; trial++ {
			pick := func(excl ...uint64) uint64 {
				for {
					v := uint64(rng.Intn(M + 4))
					ok := !used[v]
					for _, e := range excl {
						if e == v {
							ok = false
						}
					}
					if ok {
						return v
					}
				}
			}
			p0 := pick()
			p1 := pick(p0)
			exec := uint64(0)
			switch trial % 3 {
			case 1:
				exec = pick(p0, p1)
			case 2: // the slot right above everything the list mentions
				mx := uint64(len(files))
				for f := range used {
					if f > mx {
						mx = f
					}
				}
				exec = mx + 1
				if exec == p0 || exec == p1 {
					exec = 0
				}
			}
			if exec == 0 && trial%3 != 0 {
				continue
			}
			open := []string{}
			seen := map[uint64]bool{}
			for f := range used {
				seen[f] = true
			}
			seen[p0], seen[p1] = true, true
			if exec > 0 {
				seen[exec] = true
			}
			var ks []int
			for k := range seen {
				ks = append(ks, int(k))
			}
			sort.Ints(ks)
			for _, k := range ks {
				open = append(open, itoa(k))
			}
			var fs []string
			for _, f := range files {
				fs = append(fs, strconv.FormatUint(f, 10))
			}
			vf := trial >= 3
			line := fmt.Sprintf("c06.shuffle %s %d %d %d %s %s", jl(fs), p0, p1, exec, jl(open), b01(vf))
			ans := d.Ask(line)
			nontrivial := false
			for i, f := range files {
				if f != uint64(i) {
					nontrivial = true
				}
			}
			res.Case(line, nontrivial || exec > 0, "layout-len"+itoa(len(files)))
			want := c06Expect(files) + " execfile="
			if exec > 0 {
				want += itoa(int(1000 + exec))
			} else {
				want += "-"
			}
			want += fmt.Sprintf(" caller_exec=%d exited=-", exec)
			if !vf {
				// without CLONE_VM the child's writes to the Runner do not reach the caller: not observable
				if i := strings.Index(ans, " caller_exec="); i >= 0 {
					if j := strings.Index(ans[i+1:], " "); j >= 0 {
						ans = ans[:i] + fmt.Sprintf(" caller_exec=%d", exec) + ans[i+1+j:]
					}
				}
			}
			// the driver also says whether the hand model of the shuffle (subject of C06_shuffle_exact) agrees with the regenerated child
			hand := "1"
			if i := strings.Index(ans, " hand="); i >= 0 {
				hand = ans[i+6:]
				ans = ans[:i]
			}
			if hand != "1" {
				res.Mismatch(Mismatch{Kind: "differential", What: "hand model Model/FdShuffle.shuffle vs regenerated forkAndExecInChild (C06_hand_model_tie)", Input: line, Model: "hand=" + hand, Oracle: "unknown"})
			}
			if ans != want {
				key := ""
				res.Mismatch(Mismatch{Kind: "oracle", What: "descriptor table at exec is exactly the caller's list; exec fd preserved; caller unchanged (C06, on the regenerated child)", Input: line, Impl: ans, Model: want, Oracle: "violates", Key: key})
			}
			if nsamples < 2 {
				res.Sample(line + " => " + ans)
				nsamples++
			}
		}
	}
	res.Exhaustive = true
	res.Extra["partA_lists"] = len(lists)

	// ---- part B: real launches ----
	tmp, _ := os.MkdirTemp("", "verif-c06-")
	defer os.RemoveAll(tmp)
	nB := 40
	if tier == "thorough" {
		nB = 2000
	}
	devnull, _ := os.Open(os.DevNull)
	defer devnull.Close()
	// the launcher's side of the contract (stated hypothesis of C06_table_exact): every descriptor of the
	// launching process outside the list is close-on-exec. Go opens everything that way; the process' own
	// stdio is not, so the harness marks it (the container init does the same in closeOnExecAllFds).
	for fd := 0; fd < 3; fd++ {
		syscall.CloseOnExec(fd)
	}
	for it := 0; it < nB; it++ {
		openNow := openFdSet()
		freeNum := func(lo, hi int, taken map[int]bool) int {
			for tries := 0; tries < 200; tries++ {
				v := lo + rng.Intn(hi-lo)
				if !openNow[v] && !taken[v] {
					return v
				}
			}
			return -1
		}
		taken := map[int]bool{}
		nsrc := 1 + rng.Intn(4)
		type src struct {
			fd       int
			dev, ino uint64
		}
		var srcs []src
		ok := true
		for i := 0; i < nsrc; i++ {
			f, err := os.Create(fmt.Sprintf("%s/src-%d-%d", tmp, it, i))
			if err != nil {
				ok = false
				break
			}
			n := freeNum(3, 40, taken)
			if n < 0 {
				ok = false
				f.Close()
				break
			}
			taken[n] = true
			syscall.Dup3(int(f.Fd()), n, syscall.O_CLOEXEC)
			f.Close()
			var st syscall.Stat_t
			syscall.Fstat(n, &st)
			srcs = append(srcs, src{n, st.Dev, st.Ino})
		}
		if !ok {
			continue
		}
		// Files list: random picks of sources (repeats allowed), stdio numbers, the close marker
		nfiles := rng.Intn(6)
		var files []uintptr
		type want struct{ dev, ino uint64 }
		wants := map[int]want{}
		var dnSt syscall.Stat_t
		syscall.Fstat(int(devnull.Fd()), &dnSt)
		for i := 0; i < nfiles; i++ {
			switch r := rng.Intn(10); {
			case r < 6:
				s := srcs[rng.Intn(len(srcs))]
				files = append(files, uintptr(s.fd))
				wants[i] = want{s.dev, s.ino}
			case r < 8:
				files = append(files, devnull.Fd())
				wants[i] = want{dnSt.Dev, dnSt.Ino}
			default:
				files = append(files, closeMarker)
			}
		}
		// exec descriptor: right above the list's maximum (the clobber slot), or anywhere
		pf := openProbe()
		execN := -1
		if rng.Chance(60) {
			mx := len(files)
			for _, f := range files {
				if f != closeMarker && int(f) > mx {
					mx = int(f)
				}
			}
			if !openNow[mx+1] && !taken[mx+1] {
				execN = mx + 1
			}
		}
		if execN < 0 {
			execN = freeNum(3, 60, taken)
		}
		syscall.Dup3(int(pf.Fd()), execN, syscall.O_CLOEXEC)
		pf.Close()
		taken[execN] = true
		// a launcher that itself holds an inheritable descriptor at the number of a slot marked "close" (its own
		// stdio, or anything it inherited): the marker must still leave that slot closed in the program
		var inheritable []int
		for i, f := range files {
			if f != closeMarker || !rng.Chance(60) {
				continue
			}
			switch {
			case i < 3:
				syscall.Syscall(syscall.SYS_FCNTL, uintptr(i), syscall.F_SETFD, 0)
				inheritable = append(inheritable, i)
			case !openNow[i] && !taken[i] && i != execN:
				if syscall.Dup3(int(devnull.Fd()), i, 0) == nil {
					inheritable = append(inheritable, i)
				}
			}
		}
		report := fmt.Sprintf("%s/report-%d", tmp, it)
		vf := rng.Bool()
		r := &forkexec.Runner{Args: []string{"probe", "report fds " + report + ";exit 0"}, Env: []string{}, ExecFile: uintptr(execN), Files: files}
		if !vf {
			r.SyncFunc = func(int) error { return nil }
		}
		before := *r
		beforeFiles := append([]uintptr{}, r.Files...)
		desc := fmt.Sprintf("files=%v exec=%d sources=%v vfork=%v launcher-holds-inheritable=%v", files, execN, srcs, vf, inheritable)
		for round := 0; round < 2; round++ {
			os.Remove(report)
			pid, err := r.Start()
			var ws syscall.WaitStatus
			if err == nil {
				syscall.Wait4(pid, &ws, 0, nil)
			}
			res.Case(desc+itoa(round), true, "real-start")
			res.Traces++
			var bad []string
			if err != nil || !ws.Exited() || ws.ExitStatus() != 0 {
				bad = append(bad, fmt.Sprintf("start round %d failed: %v %v", round, err, ws))
			} else {
				data, _ := os.ReadFile(report)
				got := map[int]string{}
				for _, f := range strings.Fields(strings.TrimPrefix(strings.TrimSpace(string(data)), "fds")) {
					p := strings.Split(f, ":")
					n, _ := strconv.Atoi(p[0])
					got[n] = p[1] + ":" + p[2]
				}
				for i := 0; i < len(files); i++ {
					w, listed := wants[i]
					g, present := got[i]
					if listed != present {
						bad = append(bad, fmt.Sprintf("fd %d: listed=%v present=%v (%s)", i, listed, present, g))
					} else if listed && g != fmt.Sprintf("%d.%d:0", w.dev, w.ino) {
						bad = append(bad, fmt.Sprintf("fd %d is %s want %d.%d:0", i, g, w.dev, w.ino))
					}
				}
				for n, g := range got {
					if n >= len(files) {
						bad = append(bad, fmt.Sprintf("extra descriptor %d (%s) open in the program", n, g))
					}
				}
			}
			after := *r
			after.SyncFunc, before.SyncFunc = nil, nil
			after.Files, before.Files = nil, nil
			if !reflect.DeepEqual(after, before) || fmt.Sprint(r.Files) != fmt.Sprint(beforeFiles) {
				bad = append(bad, fmt.Sprintf("caller's Runner modified by Start: ExecFile %d -> %d", before.ExecFile, after.ExecFile))
			}
			if !vf {
				r.SyncFunc = func(int) error { return nil }
			}
			if len(bad) > 0 {
				res.Mismatch(Mismatch{Kind: "oracle", What: "real Start: program's descriptor table is exactly the caller's list; Runner unchanged; restart behaves identically (C06)", Input: desc + " round=" + itoa(round), Impl: strings.Join(bad, "; "), Oracle: "violates"})
				break
			}
		}
		for n := range taken {
			syscall.Close(n)
		}
		for _, i := range inheritable {
			if i < 3 {
				syscall.CloseOnExec(i)
			} else {
				syscall.Close(i)
			}
		}
	}
	// launches while other goroutines of the launching process create descriptors through the library (the socket pairs of
	// container environments, sealed memfds, pipes): whatever they create must be close-on-exec from the moment it exists
	{
		stop := make(chan struct{})
		var wg sync.WaitGroup
		var created int64
		for g := 0; g < 4; g++ {
			wg.Add(1)
			go func(g int) {
				defer wg.Done()
				for {
					select {
					case <-stop:
						return
					default:
					}
					switch g % 2 {
					case 0:
						if a, b, err := unixsocket.NewSocketPair(); err == nil {
							a.Close()
							b.Close()
						}
					default:
						if f, err := memfd.DupToMemfd("verif-c06", strings.NewReader("x")); err == nil {
							f.Close()
						}
					}
					atomic.AddInt64(&created, 1)
				}
			}(g)
		}
		nL := 120
		if tier == "thorough" {
			nL = 1500
		}
		pf := openProbe()
		for it := 0; it < nL; it++ {
			report := fmt.Sprintf("%s/creport-%d", tmp, it)
			r := &forkexec.Runner{Args: []string{"probe", "report fds " + report + ";exit 0"}, Env: []string{}, ExecFile: pf.Fd(), Files: []uintptr{devnull.Fd(), devnull.Fd(), devnull.Fd()}}
			if it%2 == 1 {
				r.SyncFunc = func(int) error { return nil }
			}
			pid, err := r.Start()
			var ws syscall.WaitStatus
			if err == nil {
				syscall.Wait4(pid, &ws, 0, nil)
			}
			res.Case("concurrent-creators "+itoa(it), true, "real-start-concurrent-creators")
			res.Traces++
			if err != nil || !ws.Exited() || ws.ExitStatus() != 0 {
				res.Mismatch(Mismatch{Kind: "oracle", What: "real Start next to goroutines creating descriptors", Input: fmt.Sprintf("launch %d", it), Impl: fmt.Sprintf("start failed: %v %v", err, ws), Oracle: "unknown"})
				continue
			}
			data, _ := os.ReadFile(report)
			os.Remove(report)
			var extra []string
			for _, f := range strings.Fields(strings.TrimPrefix(strings.TrimSpace(string(data)), "fds")) {
				p := strings.Split(f, ":")
				if n, _ := strconv.Atoi(p[0]); n >= 3 {
					extra = append(extra, f)
				}
			}
			if len(extra) > 0 {
				res.Mismatch(Mismatch{Kind: "oracle", What: "the program's descriptor table is exactly the caller's list also while other goroutines of the launcher create socket pairs and memfds through the library (C06: nothing more)", Input: fmt.Sprintf("launch %d of %d (files = 3 x /dev/null, vfork=%v) next to 4 goroutines looping unixsocket.NewSocketPair / memfd.DupToMemfd (%d created so far)", it, nL, it%2 == 0, atomic.LoadInt64(&created)), Impl: "extra descriptors in the program: " + strings.Join(extra, " "), Oracle: "violates"})
				break
			}
		}
		pf.Close()
		close(stop)
		wg.Wait()
	}
	// the same contract inside a container: the launcher there is the container init, whose own descriptors (its stdio
	// included) must not reach the program — also when the caller lists fewer than three descriptors
	if env, err := newEnv(container.Builder{}); err == nil {
		for nf := 0; nf <= 4; nf++ {
			var files []uintptr
			var keep []*os.File
			var want []string
			for k := 0; k < nf; k++ {
				fh, _ := os.Create(fmt.Sprintf("%s/ct-src-%d-%d", tmp, nf, k))
				keep = append(keep, fh)
				files = append(files, fh.Fd())
				var st syscall.Stat_t
				syscall.Fstat(int(fh.Fd()), &st)
				want = append(want, fmt.Sprintf("%d:%d.%d:0", k, st.Dev, st.Ino))
			}
			pf := openProbe()
			ctx, cancel := context.WithTimeout(context.Background(), 20*time.Second)
			r := env.Execve(ctx, container.ExecveParam{Args: []string{"/bin/true", "report fds /w/rep;exit 0"}, Env: []string{"PATH=/usr/bin:/bin"}, Files: files, ExecFile: pf.Fd()})
			cancel()
			pf.Close()
			for _, fh := range keep {
				fh.Close()
			}
			got := "unreadable"
			if rs, e := env.Open([]container.OpenCmd{{Path: "/w/rep", Flag: os.O_RDONLY}}); e == nil && len(rs) == 1 && rs[0].Err == nil {
				b, _ := io.ReadAll(rs[0].File)
				rs[0].File.Close()
				got = strings.TrimSpace(strings.TrimPrefix(strings.TrimSpace(string(b)), "fds"))
			}
			env.Reset()
			desc := fmt.Sprintf("container Execve with %d listed descriptors", nf)
			res.Case(desc, true, "container-start")
			res.Traces++
			if r.Status != runner.StatusNormal || got != strings.Join(want, " ") {
				res.Mismatch(Mismatch{Kind: "oracle", What: "container: the program's descriptor table is exactly the caller's list (nothing of the container init, its stdio included) (C06)", Input: desc, Impl: fmt.Sprintf("%v %s | table: %s", r.Status, r.Error, got), Model: strings.Join(want, " "), Oracle: "violates"})
			}
		}
		env.Close()
	}
	res.Sample("real: files=[src@23 src@23 closeMarker /dev/null] exec=24 -> probe reports 0,1,3 with the sources' inodes, nothing else")
}
