package main

import (
	"context"
	"fmt"
	"os"
	"strings"
	"syscall"
	"time"

	"github.com/criyle/go-sandbox/container"
	"github.com/criyle/go-sandbox/pkg/forkexec"
	"github.com/criyle/go-sandbox/pkg/rlimit"
	"github.com/criyle/go-sandbox/runner"
	"github.com/criyle/go-sandbox/runner/ptrace"
	"github.com/criyle/go-sandbox/runner/unshare"
	"golang.org/x/sys/unix"
)

func init() { props["C04"] = runC04 }

func parseKV(out, prefix string) map[string]string {
	m := map[string]string{}
	for _, ln := range strings.Split(out, "\n") {
		if strings.HasPrefix(ln, prefix+" ") {
			for _, f := range strings.Fields(ln)[1:] {
				if kv := strings.SplitN(f, "=", 2); len(kv) == 2 {
					m[kv[0]] = kv[1]
				}
			}
		}
	}
	return m
}

func parseNs(out string) map[string]string {
	m := map[string]string{}
	for _, ln := range strings.Split(out, "\n") {
		if strings.HasPrefix(ln, "ns ") {
			for _, f := range strings.Fields(ln)[1:] {
				if kv := strings.SplitN(f, ":", 2); len(kv) == 2 {
					m[kv[0]] = kv[1]
				}
			}
		}
	}
	return m
}

// launch the probe through forkexec.Runner.Start and collect its self-report
func launchProbe(r *forkexec.Runner, script string) (out string, err error, ws syscall.WaitStatus) {
	pf := openProbe()
	defer pf.Close()
	cap := newCapture()
	devnull, _ := os.Open(os.DevNull)
	defer devnull.Close()
	r.Args = []string{"probe", script}
	r.Env = []string{"PATH=/bin"}
	r.ExecFile = pf.Fd()
	r.Files = []uintptr{devnull.Fd(), cap.w.Fd(), cap.w.Fd()}
	pid, err := r.Start()
	if err != nil {
		return cap.done(), err, 0
	}
	syscall.Wait4(pid, &ws, 0, nil)
	return cap.done(), nil, ws
}

func runC04(res *Result, d *Driver, tier string, seed uint64) {
	res.Rule = "part A: for option-set numbers n (29-bit vectors: credential, no-setgroups, gid-mappings, enable-setgroups, drop-caps, nnp, seccomp, ptrace, stop-before-seccomp, sync callback, late cgroup unshare, 7 namespaces, pivot root, clone-into-cgroup, ctty, workdir, host/domain name, groups, mounts, ro-bind, rlimits, exec fd) the labelled syscall trace of GoLite(Gen.ForkChild.forkAndExecInChild) under the abstract kernel must equal Model.ForkSkeleton.skeleton and the clone flags must match (random sample in quick; all 2^20 low-bit sets + sample in thorough); " +
		"part B: real forkexec.Runner.Start launches of the probe for option sets the kernel accepts here (as root), self-report (capget, securebits, no_new_privs, seccomp mode, uids/gids/groups, session, cwd, uname, /proc/self/ns/*) compared with the requested state. non-trivial = at least one option set; distinct = distinct option vectors."
	rng := NewRng(seed, "C04", 1)
	nA := 20000
	if tier == "thorough" {
		nA = 1 << 20
	}
	check := func(n uint64) {
		ans := d.Ask(fmt.Sprintf("c04.labels %d", n))
		f := strings.Fields(ans)
		res.Case(fmt.Sprintf("opt%d", n), n != 0, "skeleton")
		if len(f) != 4 || f[0] != f[1] || f[2] != f[3] {
			m := Mismatch{Kind: "differential", What: "GoLite(Gen.ForkChild.forkAndExecInChild) labelled trace vs Model.ForkSkeleton.skeleton (+ clone flags)", Input: fmt.Sprintf("c04.labels %d (%s)", n, c04Describe(n)), Impl: f[0] + " flags=" + f[2], Model: f[1] + " flags=" + f[3]}
			// classify with the property's own oracle evaluated on the regenerated code's trace
			if len(f) == 4 {
				if bad := c04Oracle(n, strings.Split(f[0], ",")); len(bad) > 0 {
					m.Oracle = "violates"
					m.Note = strings.Join(bad, "; ")
				}
			}
			res.Mismatch(m)
		}
	}
	if tier == "thorough" {
		for n := uint64(0); n < 1<<20; n++ {
			check(n | (rng.Next()&0x1ff)<<20)
		}
	}
	for i := 0; i < nA && tier != "thorough"; i++ {
		check(rng.Next() & (1<<29 - 1))
	}
	res.Sample("c04.labels 1234567 => " + d.Ask("c04.labels 1234567"))

	// ---- part B ----
	selfOut, _, _ := launchProbe(&forkexec.Runner{}, "report ns;report creds;report sec;exit 0")
	hostNs := parseNs(selfOut)
	cwd0, _ := os.Getwd()
	nB := 60
	if tier == "thorough" {
		nB = 1500
	}
	for i := 0; i < nB; i++ {
		bits := rng.Next()
		b := func(k uint) bool { return bits>>k&1 == 1 }
		cred, dropCaps, nnp, secc, syncF, ucas := b(0), b(1), b(2), b(3), b(4), b(5)
		newPid, newNs, newUts, newIpc, newCg := b(6), b(7), b(8), b(9), b(10)
		newNet := b(11) && tier == "thorough" && i%10 == 0
		workdir, hostn := b(12), b(13)
		pivot := b(14) && newNs
		groups := b(15)
		noSetGroups := b(16)
		r := &forkexec.Runner{NoNewPrivs: nnp, DropCaps: dropCaps, UnshareCgroupAfterSync: ucas}
		var flags uintptr
		for _, p := range []struct {
			on bool
			f  uintptr
		}{{newPid, unix.CLONE_NEWPID}, {newNs, unix.CLONE_NEWNS}, {newUts, unix.CLONE_NEWUTS}, {newIpc, unix.CLONE_NEWIPC}, {newCg, unix.CLONE_NEWCGROUP}, {newNet, unix.CLONE_NEWNET}} {
			if p.on {
				flags |= p.f
			}
		}
		r.CloneFlags = flags
		wantGroups := "-"
		if cred {
			r.Credential = &syscall.Credential{Uid: 1234, Gid: 4321, NoSetGroups: noSetGroups}
			if groups {
				r.Credential.Groups = []uint32{7, 8}
			}
			if !noSetGroups {
				if groups {
					wantGroups = "7,8"
				}
			}
		}
		if secc {
			r.Seccomp = allowAll().SockFprog()
		}
		synced := false
		if syncF {
			r.SyncFunc = func(pid int) error { synced = true; return nil }
		}
		wd := cwd0
		if workdir {
			r.WorkDir = "/tmp"
			wd = "/tmp"
		}
		var root string
		if pivot {
			root, _ = os.MkdirTemp("", "verif-c04-root-")
			r.PivotRoot = root
			wd = "/"
			if workdir {
				r.WorkDir = "/"
			}
		}
		wantHost, wantDom := "", ""
		if hostn && newUts {
			// names of different lengths, and each alone: the length passed with one must not come from the other
			pair := [][2]string{{"verifhost", "verifdom"}, {"h", "a-much-longer-domain.example"}, {"", "only-domain.example"}, {"only-a-host-name", ""}, {"samelen1", "samelen2"}}[rng.Intn(5)]
			r.HostName, r.DomainName = pair[0], pair[1]
			wantHost, wantDom = pair[0], pair[1]
		}
		desc := fmt.Sprintf("cred=%v groups=%v nosetgroups=%v dropcaps=%v nnp=%v seccomp=%v sync=%v ucas=%v pid=%v mnt=%v uts=%v ipc=%v cgroup=%v net=%v workdir=%v host=%v pivot=%v",
			cred, groups, noSetGroups, dropCaps, nnp, secc, syncF, ucas, newPid, newNs, newUts, newIpc, newCg, newNet, workdir, hostn && newUts, pivot)
		out, err, ws := launchProbe(r, "report creds;report sec;report ns;report cwd;report uts;exit 0")
		if root != "" {
			os.Remove(root)
		}
		res.Case(desc, true, "launch")
		res.Traces++
		var bad []string
		if err != nil || !ws.Exited() || ws.ExitStatus() != 0 {
			bad = append(bad, fmt.Sprintf("launch failed: err=%v ws=%v out=%q", err, ws, out))
		} else {
			cr, sec, ns, uts := parseKV(out, "creds"), parseKV(out, "sec"), parseNs(out), parseKV(out, "uts")
			if cred || dropCaps {
				if cr["capeff"] != "0" || cr["capprm"] != "0" || cr["capinh"] != "0" || cr["ambient"] != "0" {
					bad = append(bad, "capability sets not empty: "+fmt.Sprint(cr))
				}
				if sb := sec["securebits"]; !strings.HasSuffix(sb, "f") && !strings.HasSuffix(sb, "3") && !strings.HasSuffix(sb, "7") && !strings.HasSuffix(sb, "b") {
					bad = append(bad, "SECBIT_NOROOT(+LOCKED) not set: securebits="+sb)
				}
			}
			if (nnp || secc) != (sec["nnp"] == "1") {
				bad = append(bad, "no_new_privs="+sec["nnp"])
			}
			if secc != (sec["seccomp"] == "2") {
				bad = append(bad, "seccomp mode="+sec["seccomp"])
			}
			if cred {
				if cr["uid"] != "1234,1234,1234" || cr["gid"] != "4321,4321,4321" {
					bad = append(bad, "ids: uid="+cr["uid"]+" gid="+cr["gid"])
				}
				if !noSetGroups && cr["groups"] != wantGroups {
					bad = append(bad, "groups="+cr["groups"]+" want "+wantGroups)
				}
			} else if cr["uid"] != "0,0,0" {
				bad = append(bad, "uid changed without credential: "+cr["uid"])
			}
			if sec["sid"] != "1" {
				bad = append(bad, "not a session leader")
			}
			if !strings.Contains(out, "cwd "+wd+"\n") {
				bad = append(bad, "cwd: want "+wd+" got "+out)
			}
			if wantHost != "" && uts["host"] != wantHost {
				bad = append(bad, fmt.Sprintf("host name %q, requested %q", uts["host"], wantHost))
			}
			if wantDom != "" && uts["domain"] != wantDom {
				bad = append(bad, fmt.Sprintf("domain name %q, requested %q", uts["domain"], wantDom))
			}
			for name, on := range map[string]bool{"pid": false, "mnt": newNs, "uts": newUts, "ipc": newIpc, "cgroup": newCg || ucas, "net": newNet, "user": false} {
				if name == "pid" {
					continue // /proc/self/ns/pid of a new pid ns needs a fresh /proc; checked through getpid==1 below
				}
				if _, readable := ns[name]; !readable {
					continue // no /proc in a pivoted empty root: namespace identity not observable from inside
				}
				if (ns[name] != hostNs[name]) != on {
					bad = append(bad, fmt.Sprintf("namespace %s: new=%v want %v", name, ns[name] != hostNs[name], on))
				}
			}
			if newPid != (sec["pid"] == "1") {
				bad = append(bad, "pid namespace: getpid="+sec["pid"])
			}
			if syncF && !synced {
				bad = append(bad, "sync callback not invoked")
			}
		}
		if len(bad) > 0 {
			res.Mismatch(Mismatch{Kind: "oracle", What: "program starts in the requested security state (C04)", Input: desc, Impl: strings.Join(bad, "; "), Oracle: "violates"})
		}
		if i == 0 {
			res.Sample("launch " + desc + " => " + strings.ReplaceAll(strings.TrimSpace(out), "\n", " | "))
		}
	}
	// user namespace with supplementary groups: either the launch fails loudly (the kernel refuses setgroups when the gid map
	// was written with setgroups denied) or the program has exactly the requested groups — never a silent start without them
	for _, enable := range []bool{false, true} {
		r := &forkexec.Runner{CloneFlags: unix.CLONE_NEWUSER,
			UIDMappings:                []syscall.SysProcIDMap{{ContainerID: 0, HostID: 0, Size: 10}},
			GIDMappings:                []syscall.SysProcIDMap{{ContainerID: 0, HostID: 0, Size: 10}},
			GIDMappingsEnableSetgroups: enable,
			Credential:                 &syscall.Credential{Uid: 1, Gid: 2, Groups: []uint32{3, 4}}}
		out, err, ws := launchProbe(r, "report creds;exit 0")
		desc := fmt.Sprintf("user namespace, gid map with setgroups enabled=%v, Credential{1,2,groups 3,4}", enable)
		res.Case(desc, true, "launch-userns-groups")
		if err == nil && ws.Exited() && ws.ExitStatus() == 0 {
			if g := parseKV(out, "creds")["groups"]; g != "3,4" {
				res.Mismatch(Mismatch{Kind: "oracle", What: "the program started without the requested supplementary groups (a refused step was skipped silently) (C04)", Input: desc, Impl: "groups=" + g + " " + strings.TrimSpace(out), Model: "launch error, or groups=3,4", Oracle: "violates"})
			}
		} else if enable {
			res.Mismatch(Mismatch{Kind: "oracle", What: "launch with allowed setgroups failed", Input: desc, Impl: fmt.Sprint(err, ws, out), Oracle: "unknown"})
		}
	}
	// part B2: launches in ONE container environment, each with its own option set: what a launch asks for is what its
	// program gets -- a filter iff this launch gave one, this launch's limits -- whatever earlier launches asked for
	if env, err := newEnv(container.Builder{}); err == nil {
		nl := 12
		if tier == "thorough" {
			nl = 200
		}
		var own syscall.Rlimit
		syscall.Getrlimit(syscall.RLIMIT_NOFILE, &own)
		var hist []string
		for i := 0; i < nl; i++ {
			withFilter, withLimit := rng.Chance(40), rng.Chance(40)
			spec := RunSpec{Script: "report sec;report rlimits;exit 0"}
			if withFilter {
				spec.Filter = allowAll()
			}
			if withLimit {
				spec.RLimits = []rlimit.RLimit{{Res: syscall.RLIMIT_NOFILE, Rlim: syscall.Rlimit{Cur: 123, Max: 456}}}
			}
			hist = append(hist, fmt.Sprintf("{filter=%v nofile-limit=%v}", withFilter, withLimit))
			r, out := env.runProbe(spec, rng.Bool())
			res.Case("container-sequence "+strings.Join(hist, " "), true, "container-sequence")
			res.Traces++
			wantSec := "seccomp=0"
			if withFilter {
				wantSec = "seccomp=2"
			}
			wantNofile := fmt.Sprintf("nofile=%d:%d", own.Cur, own.Max)
			if withLimit {
				wantNofile = "nofile=123:456"
			}
			if r.Status != runner.StatusNormal || !strings.Contains(out, wantSec+" ") || !strings.Contains(out, wantNofile) {
				res.Mismatch(Mismatch{Kind: "oracle", What: "container launch: a filter is installed iff THIS launch gave one, the limits are THIS launch's (C04, histories of launches in one environment)", Input: "launches so far: " + strings.Join(hist, " "),
					Impl: fmt.Sprintf("%v %q: %s", r.Status, r.Error, strings.TrimSpace(out)), Model: wantSec + " " + wantNofile, Oracle: "violates"})
				break
			}
		}
		env.Close()
	}
	// part C: the runners themselves with the "no filter" option set: a Runner without Seccomp must start the program
	// (without a filter), not crash the caller
	// (the ptrace runner needs a filter to work at all — its tracing is driven by seccomp events; without one it reports
	// Runner Error "child process exit before execve" after the program ran: a misuse, recorded as an observation)
	for _, which := range []string{"unshare"} {
		status, detail := c04NoFilterRun(which)
		res.Case("runner-no-filter "+which, true, "runner-nofilter")
		if status != "Normal/7" {
			res.Mismatch(Mismatch{Kind: "oracle", What: "a runner without a seccomp filter (option set: seccomp off) must run the program without filter (C04: every option set)", Input: which + ".Runner{Seccomp: nil} probe 'report sec; exit 7'", Impl: status + " " + detail, Model: "Normal/7 seccomp mode 0", Oracle: "violates"})
		}
	}
}

// c04NoFilterRun runs the probe under a runner constructed without a filter; a panic of the library is caught and reported
func c04NoFilterRun(which string) (status string, detail string) {
	defer func() {
		if r := recover(); r != nil {
			status, detail = "PANIC", fmt.Sprint(r)
		}
	}()
	pf := openProbe()
	defer pf.Close()
	out := newCapture()
	devnull, _ := os.Open(os.DevNull)
	defer devnull.Close()
	ctx, cancel := context.WithTimeout(context.Background(), 20*time.Second)
	defer cancel()
	var r runner.Result
	switch which {
	case "unshare":
		r = (&unshare.Runner{Args: []string{"probe", "report sec; exit 7"}, ExecFile: pf.Fd(), Files: []uintptr{devnull.Fd(), out.w.Fd(), out.w.Fd()}, Limit: bigLimit}).Run(ctx)
	default:
		r = (&ptrace.Runner{Args: []string{"probe", "report sec; exit 7"}, ExecFile: pf.Fd(), Files: []uintptr{devnull.Fd(), out.w.Fd(), out.w.Fd()}, Limit: bigLimit, Handler: allowHandler{}}).Run(ctx)
	}
	o := out.done()
	st := "Normal"
	if r.Status != runner.StatusNonzeroExitStatus {
		st = r.Status.String()
	}
	return fmt.Sprintf("%s/%d", st, r.ExitStatus), strings.ReplaceAll(strings.TrimSpace(o), "\n", " | ") + " " + r.Error
}

func c04Bit(n uint64, i uint) bool { return n>>i&1 == 1 }

func c04Describe(n uint64) string {
	names := []string{"cred", "noSetGroups", "gidMappings", "enableSetgroups", "dropCaps", "nnp", "seccomp", "ptrace", "stopBefore", "syncFunc", "ucas", "newUser",
		"newPid", "newNs", "newUts", "newIpc", "newNet", "newCgroup", "pivot", "cgroupFd", "ctty", "workdir", "hostname", "domainname", "groups", "mounts", "roBind", "rlimits", "execFile"}
	var on []string
	for i, nm := range names {
		if c04Bit(n, uint(i)) {
			on = append(on, nm)
		}
	}
	return strings.Join(on, "+")
}

// c04Oracle evaluates the property statement on the launch trace of the (regenerated) child for option vector n.
func c04Oracle(n uint64, labels []string) []string {
	cnt := map[string]int{}
	pos := map[string]int{}
	for i, l := range labels {
		cnt[l]++
		pos[l] = i
	}
	cred, dropCaps, nnp, secc := c04Bit(n, 0), c04Bit(n, 4), c04Bit(n, 5), c04Bit(n, 6)
	var bad []string
	want := func(cond bool, label, what string) {
		if cond && cnt[label] == 0 {
			bad = append(bad, what+" requested but step "+label+" is missing")
		}
		if !cond && cnt[label] > 0 {
			bad = append(bad, "step "+label+" executed although "+what+" was not requested")
		}
	}
	want(secc, "seccomp", "a seccomp filter")
	if cnt["seccomp"] > 1 {
		bad = append(bad, "filter loaded more than once")
	}
	if (nnp || secc) && cnt["prctl_nnp"] == 0 {
		bad = append(bad, "no_new_privs not set")
	}
	if secc && cnt["prctl_nnp"] > 0 && cnt["seccomp"] > 0 && pos["prctl_nnp"] > pos["seccomp"] {
		bad = append(bad, "filter loaded before no_new_privs")
	}
	if cred || dropCaps {
		if cnt["capset"] == 0 || cnt["prctl_securebits_noroot"] == 0 {
			bad = append(bad, "capabilities not dropped / NOROOT not set although credential or drop-caps requested")
		}
	}
	want(cred, "setuid", "a credential")
	want(cred, "setgid", "a credential")
	if cnt["setsid"] != 1 {
		bad = append(bad, "setsid not executed exactly once")
	}
	want(c04Bit(n, 21), "chdir_workdir", "a working directory")
	want(c04Bit(n, 22), "sethostname", "a host name")
	want(c04Bit(n, 23), "setdomainname", "a domain name")
	want(c04Bit(n, 18), "pivot_root", "a pivot root")
	last := labels[len(labels)-1]
	if last != "execve" && last != "execveat" {
		bad = append(bad, "the launch does not end in exec: "+last)
	}
	return bad
}
