package main

import (
	"bytes"
	"context"
	"crypto/sha256"
	"fmt"
	"io"
	"os"
	"path/filepath"
	"strings"
	"syscall"
	"time"
	"unsafe"

	"github.com/criyle/go-sandbox/container"
	"github.com/criyle/go-sandbox/pkg/memfd"
	"github.com/criyle/go-sandbox/pkg/mount"
	"github.com/criyle/go-sandbox/runner"
	"golang.org/x/sys/unix"
)

func init() { props["C13"] = runC13 }

// scripts that leave hostile trees in a writable mount M
func c13Trees(M string) []string {
	deep := M
	var mk []string
	for i := 0; i < 40; i++ {
		deep += fmt.Sprintf("/d%d", i)
		mk = append(mk, "mkdir "+deep)
	}
	mk = append(mk, "touch "+deep+"/bottom")
	many := []string{}
	for i := 0; i < 200; i++ {
		many = append(many, fmt.Sprintf("touch %s/many%d", M, i))
	}
	return []string{
		strings.Join(mk, ";") + ";exit 0",
		strings.Join(many, ";") + ";exit 0",
		fmt.Sprintf("touch %[1]s/.hidden;mkdir %[1]s/.hd;touch %[1]s/.hd/.x;mkfifo %[1]s/fifo;mksock %[1]s/sock;symlink %[1]s/loopb %[1]s/loopa;symlink %[1]s/loopa %[1]s/loopb;symlink /etc/passwd %[1]s/tohost;exit 0", M),
		fmt.Sprintf("mkdir %[1]s/locked;touch %[1]s/locked/in;mkdir %[1]s/locked/sub;touch %[1]s/locked/sub/deep;chmod %[1]s/locked/sub 0;chmod %[1]s/locked 0;touch %[1]s/ro;chmod %[1]s/ro 0;exit 0", M),
		fmt.Sprintf("writefile %[1]s/secret topsecret;sys 86 s:%[1]s/secret s:%[1]s/hardlink;exit 0", M),
		// links that lead nowhere at the time of the Reset: dangling, chains ending in nothing, links into the other writable mounts
		fmt.Sprintf("symlink /nonexistent/SECRET %[1]s/dangling;symlink %[1]s/never-existed %[1]s/.dangle;touch %[1]s/file;symlink /w/file %[1]s/tow;symlink /tmp/file %[1]s/totmp;symlink %[1]s/dl2 %[1]s/dl1;symlink %[1]s/dl3 %[1]s/dl2;mkdir %[1]s/dd;symlink /nonexistent %[1]s/dd/inner;exit 0", M),
		// more entries directly under the mount root than any one directory read returns
		fmt.Sprintf("touchmany %[1]s 5000;mkdir %[1]s/sub;touchmany %[1]s/sub 3000;exit 0", M),
	}
}

func listDir(p string) []string {
	ents, err := os.ReadDir(p)
	if err != nil {
		return []string{"<" + err.Error() + ">"}
	}
	var out []string
	for _, e := range ents {
		out = append(out, e.Name())
	}
	return out
}

func runC13(res *Result, d *Driver, tier string, seed uint64) {
	res.Rule = "part A: container histories: hostile probe programs build trees in every writable mount (40-deep paths, 200 entries, 5000 entries directly under the mount root plus 3000 in a sub-directory, hidden names, FIFOs, sockets, symlink loops, dangling links and chains, links into the other writable mounts, links to host paths, hard links, 000-mode directories and files), then Reset, then the host lists the mounts through /proc/<init>/root and a following tenant program lists them from inside: nothing may remain (default mount table and a custom table with an extra tmpfs and a read-only bind); " +
		"part B: memfd.DupToMemfd with sizes 0,1,4095,4096,4097,1 MiB(+64 MiB thorough) of random bytes and readers that return data together with io.EOF / one byte at a time / 7-byte chunks / interleaved (0,nil) reads, files read from offsets 0,1,4,size/2,size-1,size, procfs/sysfs files whose st_size differs from their content: content hash, offset 0, F_GET_SEALS, and every modifying operation attempted through the descriptor, through /proc/self/fd/N, and by a program exec'd from it. non-trivial = every case; distinct = (mount table, tree script) / (size, attack)."
	rng := NewRng(seed, "C13", 1)
	tables := []struct {
		name   string
		b      container.Builder
		mounts []string
	}{
		{"default", container.Builder{}, []string{"w", "tmp"}},
		{"custom", container.Builder{Mounts: mount.NewDefaultBuilder().WithTmpfs("w", "").WithTmpfs("tmp", "").WithTmpfs("scratch/area", "").WithBind("/etc", "etc", true).FilterNotExist().Mounts}, []string{"w", "tmp", "scratch/area"}},
	}
	rounds := 2
	if tier == "thorough" {
		rounds = 40
	}
	for _, tb := range tables {
		before := childPids()
		env, err := newEnv(tb.b)
		if err != nil {
			fatal("container %s: %v", tb.name, err)
		}
		initPid := 0
		for p := range childPids() {
			if !before[p] {
				initPid = p
			}
		}
		root := fmt.Sprintf("/proc/%d/root", initPid)
		for r := 0; r < rounds; r++ {
			for _, m := range tb.mounts {
				scripts := c13Trees("/" + m)
				for si, sc := range scripts {
					if rounds > 2 && rng.Chance(50) {
						continue
					}
					// every way the planting run can end: on its own (synchronised before or after the exec), refused by the
					// caller's synchronisation callback while it is already running and writing, or cancelled
					variant := []int{0, 1, 2, 2, 3}[rng.Intn(5)]
					var rr runner.Result
					var out string
					switch variant {
					case 2:
						rr, out = env.runProbe(RunSpec{Script: sc + ";sleep 5000", SyncFunc: func(int) error { time.Sleep(400 * time.Millisecond); return fmt.Errorf("refused by the caller") }}, true)
					case 3:
						ctx, cancel := context.WithTimeout(context.Background(), 400*time.Millisecond)
						rr, out = env.runProbe(RunSpec{Script: sc + ";sleep 5000", Ctx: ctx}, rng.Bool())
						cancel()
					case 1:
						rr, out = env.runProbe(RunSpec{Script: sc, SyncFunc: func(int) error { return nil }}, true)
					default:
						rr, out = env.runProbe(RunSpec{Script: sc}, false)
					}
					_ = rr
					planted := listDir(filepath.Join(root, m))
					rerr := env.Reset()
					left := listDir(filepath.Join(root, m))
					// a following tenant looks at the mounts from inside — or the next planting run comes right after the Reset
					if rng.Chance(50) {
						_, inside := env.runProbe(RunSpec{Script: "sys 217 0 0 0;report cwd;exit 0"}, false)
						_ = inside
					}
					key := fmt.Sprintf("%s /%s tree%d, the planting run %s", tb.name, m, si, []string{"ends on its own", "ends on its own (synchronised after exec)", "is refused by the synchronisation callback after exec, while it runs", "is cancelled", "ends on its own"}[variant])
					res.Case(key+itoa(r), true, "reset-"+tb.name)
					res.Traces++
					var bad []string
					if len(planted) == 0 && variant != 2 && variant != 3 {
						bad = append(bad, "the tree script planted nothing (harness): "+strings.TrimSpace(out))
					}
					if rerr != nil {
						bad = append(bad, "Reset failed: "+rerr.Error())
					}
					if len(left) > 0 {
						bad = append(bad, fmt.Sprintf("entries left after Reset: %v", left[:min(len(left), 8)]))
					}
					for _, other := range tb.mounts {
						if l := listDir(filepath.Join(root, other)); len(l) > 0 {
							bad = append(bad, fmt.Sprintf("/%s not empty after Reset: %v", other, l[:min(len(l), 5)]))
						}
					}
					if len(bad) > 0 {
						res.Mismatch(Mismatch{Kind: "oracle", What: "Reset leaves no entry of an earlier program in any writable mount (C13)", Input: key, Impl: strings.Join(bad, "; "), Oracle: "violates"})
					}
				}
			}
		}
		env.Close()
	}
	// ---- every place of the container, not only the writable mounts: a hostile tenant (root of its namespace) tries to
	// make the other directories it can see writable and leaves something in each (the root, /proc, the masked
	// directories, a read-only bind); after Reset the next tenant must find none of it ----
	{
		tb := mount.NewDefaultBuilder().WithTmpfs("w", "size=8m").WithTmpfs("tmp", "size=8m").WithProc().WithBind("/dev/null", "dev/null", false).FilterNotExist()
		env, err := newEnv(container.Builder{Mounts: tb.Mounts})
		if err == nil {
			dirs := []string{"/", "/proc", "/proc/acpi", "/proc/scsi", "/proc/asound", "/usr", "/dev"}
			var hostile, look []string
			for _, dd := range dirs {
				hostile = append(hostile, "chmod "+dd+" 777", "touch "+strings.TrimRight(dd, "/")+"/planted-c13", "mkdir "+strings.TrimRight(dd, "/")+"/planted-dir-c13")
				look = append(look, "ls "+dd)
			}
			for round := 0; round < 2; round++ {
				env.runProbe(RunSpec{Script: strings.Join(hostile, ";") + ";exit 0"}, round == 1)
				rerr := env.Reset()
				_, out := env.runProbe(RunSpec{Script: strings.Join(look, ";") + ";exit 0"}, false)
				res.Case(fmt.Sprintf("planted outside the writable mounts, round %d", round), true, "reset-elsewhere")
				res.Traces++
				if rerr != nil || strings.Contains(out, "planted-c13") || strings.Contains(out, "planted-dir-c13") {
					var where []string
					for _, ln := range strings.Split(out, "\n") {
						if strings.Contains(ln, "planted") {
							where = append(where, strings.TrimSpace(ln)[:min(len(strings.TrimSpace(ln)), 120)])
						}
					}
					res.Mismatch(Mismatch{Kind: "oracle", What: "after Reset the next tenant finds nothing an earlier program left, anywhere in the container (C13)", Input: "container{default rootfs, tmpfs w, tmpfs tmp, proc, /dev/null; default masks}: tenant 1: " + strings.Join(hostile[:6], ";") + ";... ; Reset; tenant 2 lists the directories", Impl: fmt.Sprintf("Reset: %v; still there: %s", rerr, strings.Join(where, " | ")), Oracle: "violates"})
					break
				}
			}
			env.Close()
		} else {
			res.Note("container with proc and default masks could not be built: %v", err)
		}
	}
	res.Sample("default /w tree3 (000-mode directories): host view of /proc/<init>/root/w after Reset = []")

	// ---- part B: sealed memfd ----
	sizes := []int{0, 1, 4095, 4096, 4097, 1 << 20}
	if tier == "thorough" {
		sizes = append(sizes, 64<<20)
	}
	for _, sz := range sizes {
		data := make([]byte, sz)
		for i := range data {
			data[i] = byte(rng.Next())
		}
		f, err := memfd.DupToMemfd("verif", bytes.NewReader(data))
		if err != nil {
			fatal("DupToMemfd: %v", err)
		}
		fd := int(f.Fd())
		var bad []string
		if off, _ := f.Seek(0, io.SeekCurrent); off != 0 {
			bad = append(bad, fmt.Sprintf("not positioned at start: %d", off))
		}
		got, _ := io.ReadAll(f)
		if sha256.Sum256(got) != sha256.Sum256(data) || len(got) != sz {
			bad = append(bad, "content differs from the supplied bytes")
		}
		seals, _ := unix.FcntlInt(uintptr(fd), unix.F_GET_SEALS, 0)
		wantSeals := unix.F_SEAL_SEAL | unix.F_SEAL_SHRINK | unix.F_SEAL_GROW | unix.F_SEAL_WRITE
		if seals&wantSeals != wantSeals {
			bad = append(bad, fmt.Sprintf("seals=%#x", seals))
		}
		attack := func(name string, ok bool) {
			res.Case(fmt.Sprintf("memfd %d %s", sz, name), true, "memfd-"+name)
			if ok {
				bad = append(bad, "modifying operation succeeded: "+name)
			}
		}
		_, e := syscall.Pwrite(fd, []byte("x"), 0)
		attack("pwrite", e == nil && sz > 0)
		_, e = syscall.Write(fd, []byte("x"))
		attack("write-append", e == nil)
		attack("ftruncate-shrink", sz > 0 && syscall.Ftruncate(fd, 0) == nil)
		attack("ftruncate-grow", syscall.Ftruncate(fd, int64(sz)+4096) == nil)
		attack("fallocate", unix.Fallocate(fd, 0, 0, int64(sz)+8192) == nil)
		if sz > 0 {
			m, e := syscall.Mmap(fd, 0, min(sz, 4096), syscall.PROT_READ|syscall.PROT_WRITE, syscall.MAP_SHARED)
			attack("mmap-shared-writable", e == nil)
			if e == nil {
				syscall.Munmap(m)
			}
		}
		_, e = unix.FcntlInt(uintptr(fd), unix.F_ADD_SEALS, 0)
		_ = e
		w, e := os.OpenFile(fmt.Sprintf("/proc/self/fd/%d", fd), os.O_WRONLY, 0)
		if e == nil { // re-opening is permitted by the kernel; writing / truncating through the new descriptor must not be
			_, we := w.WriteAt([]byte("x"), 0)
			attack("write-via-reopened", we == nil)
			attack("truncate-via-reopened", sz > 0 && w.Truncate(0) == nil)
			w.Close()
		}
		f.Seek(0, 0)
		got, _ = io.ReadAll(f)
		if sha256.Sum256(got) != sha256.Sum256(data) {
			bad = append(bad, "content changed by the attacks")
		}
		if len(bad) > 0 {
			res.Mismatch(Mismatch{Kind: "oracle", What: "sealed in-memory executable: exact content, offset 0, immutable (C13_sealed)", Input: fmt.Sprintf("size %d", sz), Impl: strings.Join(bad, "; "), Oracle: "violates"})
		}
		f.Close()
	}
	// every reader behaviour the io.Reader contract permits: data together with io.EOF, short reads, (0, nil) reads
	for _, sz := range []int{0, 1, 100, 32767, 32768, 32769, 100000} {
		data := make([]byte, sz)
		for i := range data {
			data[i] = byte(rng.Next())
		}
		for _, kind := range []string{"data-with-eof", "one-byte", "chunk-7", "zero-nil-reads", "eof-with-last-chunk-4096"} {
			f, err := memfd.DupToMemfd("verif", &oddReader{data: data, kind: kind})
			res.Case(fmt.Sprintf("memfd reader %s %d", kind, sz), true, "memfd-reader-"+kind)
			res.Traces++
			if err != nil {
				res.Mismatch(Mismatch{Kind: "oracle", What: "DupToMemfd fails on a legal reader (C13_sealed)", Input: fmt.Sprintf("reader %s, %d bytes", kind, sz), Impl: err.Error(), Oracle: "violates"})
				continue
			}
			got, _ := io.ReadAll(f)
			if !bytes.Equal(got, data) {
				res.Mismatch(Mismatch{Kind: "oracle", What: "sealed in-memory executable contains exactly the supplied bytes (C13_sealed)", Input: fmt.Sprintf("reader %s, %d bytes", kind, sz), Impl: fmt.Sprintf("memfd holds %d bytes, equal prefix %v", len(got), bytes.HasPrefix(data, got)), Oracle: "violates"})
			}
			f.Close()
		}
	}
	// readers that are files: read from the start, from an offset, at the end; files whose st_size says nothing about their content
	{
		tf, _ := os.CreateTemp("", "verif-c13-src-")
		defer os.Remove(tf.Name())
		for _, sz := range []int{0, 1, 100, 4096, 70000} {
			data := make([]byte, sz)
			for i := range data {
				data[i] = byte(rng.Next())
			}
			tf.Truncate(0)
			tf.WriteAt(data, 0)
			for _, off := range []int{0, 1, 4, sz / 2, sz - 1, sz} {
				if off < 0 || off > sz || (off > 0 && off == sz/2 && sz < 4) {
					continue
				}
				tf.Seek(int64(off), io.SeekStart)
				f, err := memfd.DupToMemfd("verif", tf)
				res.Case(fmt.Sprintf("memfd file-reader %d@%d", sz, off), true, "memfd-file-reader")
				res.Traces++
				if err != nil {
					res.Mismatch(Mismatch{Kind: "oracle", What: "DupToMemfd fails on a file reader (C13_sealed)", Input: fmt.Sprintf("*os.File of %d bytes positioned at %d", sz, off), Impl: err.Error(), Oracle: "violates"})
					continue
				}
				got, _ := io.ReadAll(f)
				if !bytes.Equal(got, data[off:]) {
					res.Mismatch(Mismatch{Kind: "oracle", What: "sealed in-memory executable contains exactly the supplied bytes (C13_sealed)", Input: fmt.Sprintf("*os.File of %d bytes positioned at %d (supplies %d bytes)", sz, off, sz-off), Impl: fmt.Sprintf("memfd holds %d bytes, supplied bytes are a prefix: %v", len(got), bytes.HasPrefix(got, data[off:])), Oracle: "violates"})
				}
				f.Close()
			}
		}
		tf.Close()
		for _, path := range []string{"/proc/self/status", "/proc/version", "/sys/kernel/ostype", "/sys/devices/system/cpu/online", "/sys/kernel/mm/transparent_hugepage/enabled"} {
			want, err := os.ReadFile(path)
			if err != nil {
				continue
			}
			sf, err := os.Open(path)
			if err != nil {
				continue
			}
			f, err := memfd.DupToMemfd("verif", sf)
			sf.Close()
			res.Case("memfd file-reader "+path, true, "memfd-pseudo-file")
			res.Traces++
			if err != nil {
				res.Mismatch(Mismatch{Kind: "oracle", What: "DupToMemfd fails on a file reader (C13_sealed)", Input: path, Impl: err.Error(), Oracle: "violates"})
				continue
			}
			got, _ := io.ReadAll(f)
			if path != "/proc/self/status" && !bytes.Equal(got, want) || len(got) == 0 {
				res.Mismatch(Mismatch{Kind: "oracle", What: "sealed in-memory executable contains exactly the supplied bytes (C13_sealed)", Input: fmt.Sprintf("*os.File %s (content %d bytes, st_size says otherwise)", path, len(want)), Impl: fmt.Sprintf("memfd holds %d bytes", len(got)), Oracle: "violates"})
			}
			f.Close()
		}
	}
	// a program exec'd from the sealed memfd tries to modify itself
	{
		pb, _ := os.ReadFile(probePath())
		f, err := memfd.DupToMemfd("probe", bytes.NewReader(pb))
		if err != nil {
			fatal("DupToMemfd(probe): %v", err)
		}
		cap := newCapture()
		devnull, _ := os.Open(os.DevNull)
		attr := &os.ProcAttr{Files: []*os.File{devnull, cap.w, cap.w}}
		// O_WRONLY open of /proc/self/exe, truncate(2) of it, and O_RDWR open of the inherited descriptor path
		p, err := os.StartProcess(fmt.Sprintf("/proc/self/fd/%d", f.Fd()), []string{"probe", "sys 76 s:/proc/self/exe 0;sys 2 s:/proc/self/exe 513;exit 0"}, attr)
		out := ""
		if err == nil {
			p.Wait()
		}
		out = cap.done()
		devnull.Close()
		res.Case("memfd exec self-modify", true, "memfd-exec")
		okLines := 0
		for _, ln := range strings.Split(out, "\n") {
			if strings.HasPrefix(ln, "sys ") && !strings.Contains(ln, "= -1") {
				okLines++
			}
		}
		f.Seek(0, 0)
		got, _ := io.ReadAll(f)
		if err != nil || okLines > 0 || !bytes.Equal(got, pb) {
			res.Mismatch(Mismatch{Kind: "oracle", What: "a program exec'd from the sealed memfd cannot modify it (C13)", Input: "open(/proc/self/exe, O_WRONLY|O_RDWR), truncate", Impl: fmt.Sprintf("start err=%v output=%q unchanged=%v", err, out, bytes.Equal(got, pb)), Oracle: "violates"})
		}
		f.Close()
	}
	_ = unsafe.Sizeof(0)
	_ = d
}

// oddReader delivers data in the ways the io.Reader contract allows
type oddReader struct {
	data []byte
	kind string
	off  int
	tick int
}

func (r *oddReader) Read(p []byte) (int, error) {
	r.tick++
	max := len(p)
	switch r.kind {
	case "one-byte":
		max = 1
	case "chunk-7":
		max = 7
	case "zero-nil-reads":
		if r.tick%2 == 0 && r.off < len(r.data) {
			return 0, nil
		}
		max = 1000
	case "eof-with-last-chunk-4096":
		max = 4096
	}
	if max > len(p) {
		max = len(p)
	}
	n := copy(p[:max], r.data[r.off:])
	r.off += n
	if r.off >= len(r.data) {
		switch r.kind {
		case "data-with-eof", "eof-with-last-chunk-4096":
			return n, io.EOF // the last data together with io.EOF
		}
		if n == 0 {
			return 0, io.EOF
		}
	}
	return n, nil
}
