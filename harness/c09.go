package main

import (
	"context"
	"fmt"
	"os"
	"strings"
	"syscall"
	"time"

	"github.com/criyle/go-sandbox/container"
	"github.com/criyle/go-sandbox/ptracer"
	"github.com/criyle/go-sandbox/runner"
)

func init() { props["C09"] = runC09 }

// the documented table, written independently (README "Result Status")
func c09Table(exited bool, n int) (runner.Status, int) {
	if exited {
		if n == 0 {
			return runner.StatusNormal, 0
		}
		return runner.StatusNonzeroExitStatus, n
	}
	switch syscall.Signal(n) {
	case syscall.SIGXCPU, syscall.SIGKILL:
		return runner.StatusTimeLimitExceeded, n
	case syscall.SIGXFSZ:
		return runner.StatusOutputLimitExceeded, n
	case syscall.SIGSYS:
		return runner.StatusDisallowedSyscall, n
	}
	return runner.StatusSignalled, n
}

func runC09(res *Result, d *Driver, tier string, seed uint64) {
	res.Rule = "part A (in-process, hooks): the real (*ptraceHandle).handle and convertReply∘gob∘convertReplyResult are called on every 16-bit wait-status pattern " +
		"(x main/child pid x execved x already-traced for ptrace; plus ptrace-event stops) and compared with the Go-lite evaluation of the regenerated functions (driver); " +
		"part B2: container programs (and their children) that send each signal 1..64 to pid 1 of their namespace and then exit 116; part B (real processes): `probe exit n` for n=0..255 and `probe raise s` for every terminating signal, under the ptrace runner, the namespace runner and the container (sync before/after exec), " +
		"compared with the documented table. non-trivial = anything but exit 0; distinct = distinct (site, pid role, flags, wait status) or (runner, outcome)."
	const mainPid = 0x3ffffff0 // above pid_max: every ptrace request answers ESRCH
	// ---- part A ----
	var wss []uint32
	for w := 0; w < 65536; w++ {
		wss = append(wss, uint32(w))
	}
	for _, sig := range []int{5, 19, 11, 24, 25} {
		for ev := 1; ev <= 8; ev++ {
			wss = append(wss, uint32(0x7f|sig<<8|ev<<16))
		}
	}
	step := 1
	if tier != "thorough" {
		step = 7 // quick: every 7th pattern + all exits/signals/stops below
	}
	interesting := func(w uint32) bool {
		return w&0xff == 0 || w < 256 || w&0xff == 0x7f || w >= 65536
	}
	for i, w := range wss {
		if i%step != 0 && !interesting(w) {
			continue
		}
		for _, pid := range []int{mainPid, mainPid + 1} {
			for _, ex := range []bool{true, false} {
				for _, tr := range []bool{true, false} {
					st, es, errStr, fin, exAfter := ptracer.VerifHandle(mainPid, pid, w, ex, tr)
					impl := fmt.Sprintf("%d %d %s %s %s", st, es, b01(fin), b01(exAfter), hx(errStr))
					// model parameters for the opaque calls: a non-existent pid makes set-options and get-regs fail
					line := fmt.Sprintf("c09.ptrace %d %d %d %s %s 1 %s", mainPid, pid, w, b01(ex), b01(tr), hx("no such process"))
					model := d.Ask(line)
					res.Case(line, w != 0, "ptrace-handle")
					if impl != model {
						res.Mismatch(Mismatch{Kind: "differential", What: "ptraceHandle.handle vs GoLite(Gen.C09.ptraceHandle)", Input: line, Impl: impl, Model: model})
					}
					// oracle on the implementation: main process, after exec, terminated (exit or signal)
					if pid == mainPid && ex && w < 65536 && w&0x7f != 0x7f {
						exited := w&0x7f == 0
						n := int(w >> 8 & 0xff)
						if !exited {
							n = int(w & 0x7f)
						}
						ws, wn := c09Table(exited, n)
						if int(ws) != st || wn != es || !(fin || st != int(runner.StatusNormal)) {
							res.Mismatch(Mismatch{Kind: "oracle", What: "ptrace classifier vs documented table", Input: line, Impl: impl, Model: fmt.Sprintf("%d %d", ws, wn), Oracle: "violates"})
						}
					}
				}
			}
		}
		if w < 65536 {
			for _, we := range []bool{false, true} {
				st, es, msg := container.VerifConvert(w, we)
				impl := fmt.Sprintf("%d %d %s", st, es, b01(msg != ""))
				line := fmt.Sprintf("c09.container %d %s", w, b01(we))
				model := d.Ask(line)
				res.Case(line, w != 0, "container-convert")
				if impl != model {
					res.Mismatch(Mismatch{Kind: "differential", What: "convertReply∘gob∘convertReplyResult vs GoLite(Gen.C09.convertReply/convertReplyResult)", Input: line, Impl: impl + " " + msg, Model: model})
				}
				// oracle on the implementation
				if !we && (w&0x7f == 0 || (w&0x7f != 0x7f)) {
					exited := w&0x7f == 0
					n := int(w >> 8 & 0xff)
					if !exited {
						n = int(w & 0x7f)
					}
					ws, wn := c09Table(exited, n)
					if int(ws) != st || wn != es {
						res.Mismatch(Mismatch{Kind: "oracle", What: "container classifier vs documented table", Input: line, Impl: impl, Model: fmt.Sprintf("%d %d", ws, wn), Oracle: "violates"})
					}
				}
			}
		}
	}
	res.Sample(fmt.Sprintf("c09.ptrace %d %d 2816 1 1 1 %s => 6 11 0 1 x", mainPid, mainPid, hx("no such process")))

	// ---- part B: real processes ----
	type outcome struct {
		exited bool
		n      int
	}
	var outs []outcome
	for n := 0; n < 256; n++ {
		outs = append(outs, outcome{true, n})
	}
	// signals whose default action terminates (not STOP/TSTP/TTIN/TTOU/CONT/CHLD/URG/WINCH, not 32/33 used by threading libs)
	skip := map[int]bool{17: true, 18: true, 19: true, 20: true, 21: true, 22: true, 23: true, 28: true, 32: true, 33: true}
	for s := 1; s <= 64; s++ {
		if !skip[s] {
			outs = append(outs, outcome{false, s})
		}
	}
	env, err := newEnv(container.Builder{})
	if err != nil {
		fatal("container build: %v", err)
	}
	defer func() { env.Close() }()
	check := func(rn string, o outcome, r runner.Result) {
		if r.RunningTime > 500*time.Millisecond {
			res.Note("slow run: %s exited=%v n=%d took %v -> %v", rn, o.exited, o.n, r.RunningTime, r)
		}
		ws, wn := c09Table(o.exited, o.n)
		key := fmt.Sprintf("%s %v %d", rn, o.exited, o.n)
		res.Case(key, !(o.exited && o.n == 0), "real-"+rn)
		res.Traces++
		// the table defines the exit value for Normal (0), Nonzero Exit (the code) and Signalled (the signal);
		// for the limit / disallowed verdicts only the status is specified
		exitMatters := ws == runner.StatusNormal || ws == runner.StatusNonzeroExitStatus || ws == runner.StatusSignalled
		if r.Status != ws || (exitMatters && r.ExitStatus != wn) {
			res.Mismatch(Mismatch{Kind: "oracle", What: "real run: " + rn + " result vs documented table", Input: key,
				Impl: fmt.Sprintf("status=%d(%v) exit=%d err=%q", int(r.Status), r.Status, r.ExitStatus, r.Error), Model: fmt.Sprintf("status=%d exit=%d", int(ws), wn), Oracle: "violates"})
		}
		if r.Status == runner.StatusRunnerError && r.Error == "" {
			res.Mismatch(Mismatch{Kind: "oracle", What: "Runner Error without explanation", Input: key, Impl: "", Oracle: "violates"})
		}
	}
	stepB := 1
	if tier != "thorough" {
		stepB = 5
	}
	for i, o := range outs {
		if o.exited && o.n > 3 && o.n < 250 && i%stepB != 0 {
			continue
		}
		script := fmt.Sprintf("exit %d", o.n)
		if !o.exited {
			script = fmt.Sprintf("raise %d;sleep 2000;exit 99", o.n)
		}
		// a grandchild that ends differently must not change the verdict
		withChild := "fork;exit 3;endfork;wait;" + script
		r, _ := runPtraceProbe(RunSpec{Script: script})
		check("ptrace", o, r)
		if i%4 == 0 {
			r, _ = runPtraceProbe(RunSpec{Script: withChild})
			check("ptrace+child", o, r)
		}
		// namespace runner: the program is pid 1 of its pid namespace, which the kernel shields from
		// self-sent and default-action signals; only exits, host SIGKILL and forced (fault) signals can end it
		if o.exited {
			r, _ = runUnshareProbe(RunSpec{Script: script}, "", nil)
			check("unshare", o, r)
		} else if flt, ok := map[int]string{11: "segv", 4: "ill", 5: "trap", 8: "fpe"}[o.n]; ok {
			r, _ = runUnshareProbe(RunSpec{Script: "fault " + flt + ";exit 99"}, "", nil)
			check("unshare-fault", o, r)
		} else if o.n == 9 {
			r, _ = runUnshareProbe(RunSpec{Script: "sleep 5000;exit 99", SyncFunc: func(pid int) error {
				go func() { time.Sleep(30 * time.Millisecond); syscall.Kill(pid, syscall.SIGKILL) }()
				return nil
			}}, "", nil)
			check("unshare-hostkill", o, r)
		}
		if flt, ok := map[int]string{11: "segv", 4: "ill", 5: "trap", 8: "fpe"}[o.n]; ok && !o.exited {
			r, _ = runPtraceProbe(RunSpec{Script: "fault " + flt + ";exit 99"})
			check("ptrace-fault", o, r)
			r, _ = env.runProbe(RunSpec{Script: "fault " + flt + ";exit 99"}, false)
			check("container-fault", o, r)
		}
		r, _ = env.runProbe(RunSpec{Script: script}, false)
		check("container", o, r)
		if i%4 == 0 {
			// what children do must not matter: a child that exits 3 first, an orphaned grandchild (double fork,
			// same process group) that exits 7 / is killed while the main process is still running
			orphan := "fork;fork;sleep 20;exit 7;endfork;exit 0;endfork;wait;sleep 80;" + script
			orphanSig := "fork;fork;sleep 20;raise 11;endfork;exit 0;endfork;wait;sleep 80;" + script
			r, _ = env.runProbe(RunSpec{Script: withChild}, false)
			check("container+child", o, r)
			r, _ = env.runProbe(RunSpec{Script: orphan}, i%8 == 0)
			check("container+orphan", o, r)
			r, _ = env.runProbe(RunSpec{Script: orphanSig}, false)
			check("container+orphan-signalled", o, r)
			r, _ = runPtraceProbe(RunSpec{Script: orphan})
			check("ptrace+orphan", o, r)
			if o.exited {
				r, _ = runUnshareProbe(RunSpec{Script: orphan}, "", nil)
				check("unshare+orphan", o, r)
			}
		}
		r, _ = env.runProbe(RunSpec{Script: script, SyncFunc: func(int) error { return nil }}, true)
		check("container-syncafter", o, r)
	}
	// the program (or a child of it) signals pid 1 of its namespace -- the container's init -- and then exits with a code
	// of its own: the verdict is that exit code, and the environment serves the next program
	for sig := 1; sig <= 64; sig++ {
		if sig == 32 || sig == 33 {
			continue // reserved by the threading library, kill(2) with them is refused by libc wrappers only; raw syscall is used, keep them out
		}
		for variant := 0; variant < 2; variant++ {
			script := fmt.Sprintf("sys 62 1 %d;sleep 30;exit 116", sig)
			if variant == 1 {
				if tier != "thorough" && sig%4 != 0 {
					continue
				}
				script = fmt.Sprintf("fork;sys 62 1 %d;exit 0;endfork;wait;sleep 30;exit 116", sig)
			}
			r, _ := env.runProbe(RunSpec{Script: script}, sig%2 == 0)
			r2, _ := env.runProbe(RunSpec{Script: "exit 0"}, false)
			res.Case(fmt.Sprintf("container signal-init %d v%d", sig, variant), true, "container-signal-init")
			res.Traces++
			if r.Status != runner.StatusNonzeroExitStatus || r.ExitStatus != 116 || r2.Status != runner.StatusNormal {
				res.Mismatch(Mismatch{Kind: "oracle", What: "container: a program that sends a signal to pid 1 of its namespace and exits 116 is Nonzero Exit Status 116, and the next program runs (C09 status table; Runner Error only when the runner could not do its job)", Input: script,
					Impl: fmt.Sprintf("status=%v exit=%d err=%q; next program `exit 0`: %v %q", r.Status, r.ExitStatus, r.Error, r2.Status, r2.Error), Model: "Nonzero Exit Status 116; Normal", Oracle: "violates", Key: fmt.Sprintf("signal-init-%d", sig)})
				env.Close()
				if env, err = newEnv(container.Builder{}); err != nil {
					fatal("container build: %v", err)
				}
			}
		}
	}
	// back to back in one environment: a program whose main process ends while children of it are still alive (each holding
	// memory, so that killing and collecting them takes a moment) is followed at once by the next program; both verdicts
	// must be their own (the next program's status must not be collected by the clean-up of the previous run)
	for fi, o := range []outcome{{true, 7}, {true, 0}, {false, 11}, {true, 200}, {false, 6}, {false, 24}} {
		for _, nkids := range []int{4, 12} {
			if tier != "thorough" && fi >= 3 && nkids == 4 {
				continue
			}
			leader := strings.Repeat("fork;mem 48;sleep 60000;endfork;", nkids) + "sleep 200;exit 3"
			follower := fmt.Sprintf("exit %d", o.n)
			if !o.exited {
				follower = fmt.Sprintf("raise %d;exit 99", o.n)
			}
			// the host does not read the leader's output: nothing makes it wait for the children that were left behind
			r1, _ := env.runProbe(RunSpec{Script: leader, NoCapture: true}, fi%2 == 0)
			r2, _ := env.runProbe(RunSpec{Script: follower, NoCapture: true}, false)
			check(fmt.Sprintf("container-leaves-%d-children", nkids), outcome{true, 3}, r1)
			check(fmt.Sprintf("container-right-after-a-run-that-left-%d-children", nkids), o, r2)
		}
	}
	// a cancellation that arrives AFTER the main process ended on its own (but before the tracer collected that event:
	// the tracer is busy answering a child's trapped syscall) must not rewrite the verdict: exit code N stays exit code N
	for _, code := range []int{0, 7, 255} {
		ctx, cancel := context.WithCancel(context.Background())
		mainPid := 0
		h := &c09LateCancel{cancel: cancel, main: &mainPid}
		script := fmt.Sprintf("fork;sys 102;sleep 2000;endfork;sleep 100;exit %d", code)
		r, _ := runPtraceProbe(RunSpec{Script: script, Filter: c03BuildFilter(), Handler: h, Ctx: ctx,
			SyncFunc: func(pid int) error { mainPid = pid; return nil }})
		cancel()
		want := runner.StatusNonzeroExitStatus
		if code == 0 {
			want = runner.StatusNormal
		}
		res.Case(fmt.Sprintf("late-cancel exit %d", code), true, "ptrace-late-cancel")
		if !h.fired {
			res.Note("late-cancel exit %d: the main process was not seen as a zombie in time (case not exercised)", code)
		} else if r.Status != want || r.ExitStatus != code {
			res.Mismatch(Mismatch{Kind: "oracle", What: "ptrace: the program exited on its own before the run was cancelled; the verdict must be its exit (C09 status table)", Input: script + " ; context cancelled while the main process is a zombie", Impl: fmt.Sprintf("%v exit=%d %s", r.Status, r.ExitStatus, r.Error), Model: fmt.Sprintf("%v exit=%d", want, code), Oracle: "violates"})
		}
	}
	res.Sample("real: ptrace/unshare/container/container-syncafter × `probe raise 11;...` expect status=6 exit=11")
	res.Note("signals excluded from part B (default action does not terminate, or reserved by libc): %v", strings.Trim(fmt.Sprint(skip), "map[]"))
}

// c09LateCancel cancels the run from inside the handler of a child's trapped syscall, once the main process has exited
type c09LateCancel struct {
	cancel func()
	main   *int
	fired  bool
}

func (h *c09LateCancel) CheckRead(string) ptracer.TraceAction  { return ptracer.TraceAllow }
func (h *c09LateCancel) CheckWrite(string) ptracer.TraceAction { return ptracer.TraceAllow }
func (h *c09LateCancel) CheckStat(string) ptracer.TraceAction  { return ptracer.TraceAllow }
func (h *c09LateCancel) CheckSyscall(n string) ptracer.TraceAction {
	if n == "getuid" && !h.fired && *h.main > 0 {
		deadline := time.Now().Add(2 * time.Second)
		for time.Now().Before(deadline) {
			st, err := os.ReadFile(fmt.Sprintf("/proc/%d/stat", *h.main))
			if err != nil {
				break
			}
			if i := strings.LastIndex(string(st), ") "); i >= 0 && len(st) > i+2 && st[i+2] == 'Z' {
				h.fired = true
				h.cancel()
				time.Sleep(20 * time.Millisecond) // let the canceller's kill go out while the tracer is still here
				break
			}
			time.Sleep(time.Millisecond)
		}
	}
	return ptracer.TraceAllow
}
