package main

import (
	"syscall"

	"github.com/criyle/go-sandbox/ptracer"
	"github.com/criyle/go-sandbox/runner"
	"golang.org/x/sys/unix"
)

func init() {
	for k, v := range map[string]uint64{
		"runner.StatusInvalid":             uint64(runner.StatusInvalid),
		"runner.StatusNormal":              uint64(runner.StatusNormal),
		"runner.StatusTimeLimitExceeded":   uint64(runner.StatusTimeLimitExceeded),
		"runner.StatusMemoryLimitExceeded": uint64(runner.StatusMemoryLimitExceeded),
		"runner.StatusOutputLimitExceeded": uint64(runner.StatusOutputLimitExceeded),
		"runner.StatusDisallowedSyscall":   uint64(runner.StatusDisallowedSyscall),
		"runner.StatusSignalled":           uint64(runner.StatusSignalled),
		"runner.StatusNonzeroExitStatus":   uint64(runner.StatusNonzeroExitStatus),
		"runner.StatusRunnerError":         uint64(runner.StatusRunnerError),
		"unix.SIGXCPU":                     uint64(unix.SIGXCPU),
		"unix.SIGKILL":                     uint64(unix.SIGKILL),
		"unix.SIGXFSZ":                     uint64(unix.SIGXFSZ),
		"unix.SIGSYS":                      uint64(unix.SIGSYS),
		"unix.SIGTRAP":                     uint64(unix.SIGTRAP),
		"unix.SIGSTOP":                     uint64(unix.SIGSTOP),
		"syscall.SIGXCPU":                  uint64(syscall.SIGXCPU),
		"syscall.SIGKILL":                  uint64(syscall.SIGKILL),
		"syscall.SIGXFSZ":                  uint64(syscall.SIGXFSZ),
		"syscall.SIGSYS":                   uint64(syscall.SIGSYS),
		"unix.PTRACE_EVENT_SECCOMP":        uint64(unix.PTRACE_EVENT_SECCOMP),
		"unix.PTRACE_EVENT_CLONE":          uint64(unix.PTRACE_EVENT_CLONE),
		"unix.PTRACE_EVENT_VFORK":          uint64(unix.PTRACE_EVENT_VFORK),
		"unix.PTRACE_EVENT_FORK":           uint64(unix.PTRACE_EVENT_FORK),
		"unix.PTRACE_EVENT_EXEC":           uint64(unix.PTRACE_EVENT_EXEC),
		"TraceAllow":                       uint64(ptracer.TraceAllow),
		"TraceBan":                         uint64(ptracer.TraceBan),
		"TraceKill":                        uint64(ptracer.TraceKill),
	} {
		constTable[k] = v
	}
}
