package main

import "syscall"

func init() {
	for k, v := range map[string]uint64{
		"syscall.RLIMIT_CPU":    syscall.RLIMIT_CPU,
		"syscall.RLIMIT_DATA":   syscall.RLIMIT_DATA,
		"syscall.RLIMIT_FSIZE":  syscall.RLIMIT_FSIZE,
		"syscall.RLIMIT_STACK":  syscall.RLIMIT_STACK,
		"syscall.RLIMIT_AS":     syscall.RLIMIT_AS,
		"syscall.RLIMIT_NOFILE": syscall.RLIMIT_NOFILE,
		"syscall.RLIMIT_CORE":   syscall.RLIMIT_CORE,
	} {
		constTable[k] = v
	}
}
