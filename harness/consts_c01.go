package main

import (
	"github.com/criyle/go-sandbox/pkg/seccomp/libseccomp"
	elastic "github.com/elastic/go-seccomp-bpf"
)

func init() {
	for k, v := range map[string]uint64{
		"ActionAllow": uint64(libseccomp.ActionAllow), "ActionErrno": uint64(libseccomp.ActionErrno),
		"ActionTrace": uint64(libseccomp.ActionTrace), "ActionKill": uint64(libseccomp.ActionKill),
		"libseccomp.ActionAllow": uint64(elastic.ActionAllow), "libseccomp.ActionErrno": uint64(elastic.ActionErrno),
		"libseccomp.ActionTrace": uint64(elastic.ActionTrace), "libseccomp.ActionKillProcess": uint64(elastic.ActionKillProcess),
		"libseccomp.ActionKillThread": uint64(elastic.ActionKillThread), "libseccomp.ActionLog": uint64(elastic.ActionLog),
		"actTrace": uint64(libseccomp.VerifActTrace()),
	} {
		constTable[k] = v
	}
}
