package main

import (
	"errors"
	"fmt"
	"os"
	"runtime"
	"strings"
	"syscall"
	"time"

	"github.com/criyle/go-sandbox/container"
	"github.com/criyle/go-sandbox/pkg/forkexec"
	"github.com/criyle/go-sandbox/pkg/mount"
	"github.com/criyle/go-sandbox/pkg/rlimit"
	"github.com/criyle/go-sandbox/runner"
	"golang.org/x/sys/unix"
)

func init() { props["C07"] = runC07 }

type faultCase struct {
	name     string
	prep     func(r *forkexec.Runner, tmp string)
	loc      forkexec.ErrorLocation
	index    int
	errno    syscall.Errno
	anyErr   bool // errno not pinned
	nonChild bool // the error is not a ChildError (sync callback's own error)
}

// childPids lists the live or zombie children of this process (all threads).
func childPids() map[int]bool {
	m := map[int]bool{}
	tasks, _ := os.ReadDir("/proc/self/task")
	for _, t := range tasks {
		b, _ := os.ReadFile("/proc/self/task/" + t.Name() + "/children")
		for _, f := range strings.Fields(string(b)) {
			var n int
			fmt.Sscan(f, &n)
			m[n] = true
		}
	}
	return m
}

var baselineChildren map[int]bool

func noChildrenLeft() bool {
	for i := 0; i < 50; i++ {
		extra := false
		for p := range childPids() {
			if !baselineChildren[p] {
				extra = true
			}
		}
		if !extra {
			return true
		}
		time.Sleep(2 * time.Millisecond)
	}
	return false
}

func runC07(res *Result, d *Driver, tier string, seed uint64) {
	res.Rule = "part A: for option-set numbers n, a fault (errno 13) injected at every step k>=1 of the regenerated child (Go-lite, abstract kernel): the child must not exec, must exit with the errno and must have reported (errno, expected location, index) — or, for the documented ignorable steps, continue; " +
		"part B: real forkexec.Runner.Start with failures induced by real inputs at each reachable step (closed fd in Files, bad mount source at index k, mount target under a file, pivot into a missing dir, missing workdir, rlimit soft>hard at index k, invalid filter, missing / non-executable / ENOEXEC executable, failing sync callback, unwritable id map) x configurations (sync callback, late cgroup unshare, user namespace, descriptor layouts that put the error channel 1..3 numbers above the scratch start of the shuffle with more relocations than that, an already-ended uncollected other child of the caller): ChildError fields, marker file absent, no child left; and the callback is invoked before the target runs with the pid of that very process; " +
		"part C: container Execve with SyncFunc before/after exec (pid designates the process in the host's pid namespace). non-trivial = every case; distinct = (option set) / (fault, configuration)."
	rng := NewRng(seed, "C07", 1)
	baselineChildren = childPids() // the model driver
	nA := 3000
	if tier == "thorough" {
		nA = 200000
	}
	steps := 0
	for i := 0; i < nA; i++ {
		n := rng.Next() & (1<<29 - 1)
		line := fmt.Sprintf("c07.fail %d %d", n, []int{13, 1, 22, 12, 5}[i%5])
		ans := strings.Fields(d.Ask(line))
		res.Case(line, true, "fault-sweep")
		if len(ans) >= 1 {
			var k int
			fmt.Sscan(ans[0], &k)
			steps += k - 1
		}
		if len(ans) < 2 || ans[1] != "-" {
			detail := ""
			if len(ans) >= 3 {
				detail = ans[2]
			}
			res.Mismatch(Mismatch{Kind: "oracle", What: "a failing launch step never execs and reports (errno, location, index) (C07, regenerated child)", Input: line, Impl: strings.Join(ans, " "), Model: "no bad step", Oracle: "violates", Note: detail})
		}
	}
	res.Extra["partA_fault_points"] = steps
	res.Sample("c07.fail 1234567 13 => " + d.Ask("c07.fail 1234567 13"))

	// ---- part B ----
	tmp, _ := os.MkdirTemp("", "verif-c07-")
	defer os.RemoveAll(tmp)
	os.WriteFile(tmp+"/afile", []byte("x"), 0644)
	os.WriteFile(tmp+"/noexec", []byte("#!/bin/sh\n"), 0644)
	os.WriteFile(tmp+"/enoexec", []byte("this is not an executable format\n"), 0755)
	os.Mkdir(tmp+"/root", 0755)
	mkMounts := func(ms ...mount.Mount) []mount.SyscallParams {
		var out []mount.SyscallParams
		for _, m := range ms {
			sp, err := m.ToSyscall()
			if err != nil {
				fatal("ToSyscall: %v", err)
			}
			out = append(out, *sp)
		}
		return out
	}
	good := mount.Mount{Source: "tmpfs", Target: tmp + "/root/t1", FsType: "tmpfs"}
	cases := []faultCase{
		{name: "closed-fd-in-Files", prep: func(r *forkexec.Runner, _ string) { r.Files = []uintptr{r.Files[0], 987, r.Files[2]} }, loc: forkexec.LocDup3, errno: syscall.EBADF},
		{name: "bad-mount-source-index1", prep: func(r *forkexec.Runner, t string) {
			r.CloneFlags |= unix.CLONE_NEWNS
			r.Mounts = mkMounts(good, mount.Mount{Source: t + "/missing", Target: t + "/root/t2", Flags: unix.MS_BIND})
		}, loc: forkexec.LocMount, index: 1, errno: syscall.ENOENT},
		{name: "mount-target-under-file-index0", prep: func(r *forkexec.Runner, t string) {
			r.CloneFlags |= unix.CLONE_NEWNS
			r.Mounts = mkMounts(mount.Mount{Source: "tmpfs", Target: t + "/afile/sub", FsType: "tmpfs"})
		}, loc: forkexec.LocMountMkdir, index: 0, errno: syscall.ENOTDIR},
		{name: "pivot-into-missing-dir", prep: func(r *forkexec.Runner, t string) {
			r.CloneFlags |= unix.CLONE_NEWNS
			r.PivotRoot = t + "/nonexistent-root"
		}, loc: forkexec.LocMountTmpfs, errno: syscall.ENOENT},
		{name: "missing-workdir", prep: func(r *forkexec.Runner, t string) { r.WorkDir = t + "/nowhere" }, loc: forkexec.LocChdir, errno: syscall.ENOENT},
		{name: "rlimit-soft-above-hard-index1", prep: func(r *forkexec.Runner, _ string) {
			r.RLimits = []rlimit.RLimit{{Res: syscall.RLIMIT_CORE, Rlim: syscall.Rlimit{Cur: 0, Max: 0}}, {Res: syscall.RLIMIT_NOFILE, Rlim: syscall.Rlimit{Cur: 100, Max: 50}}}
		}, loc: forkexec.LocSetRlimit, index: 1, errno: syscall.EINVAL},
		{name: "invalid-filter", prep: func(r *forkexec.Runner, _ string) {
			bad := []syscall.SockFilter{{Code: 0xffff}}
			r.Seccomp = &syscall.SockFprog{Len: 1, Filter: &bad[0]}
		}, loc: forkexec.LocSeccomp, errno: syscall.EINVAL},
		{name: "missing-executable", prep: func(r *forkexec.Runner, t string) { r.ExecFile = 0; r.Args = []string{t + "/no-such-program"} }, loc: forkexec.LocExecve, errno: syscall.ENOENT},
		{name: "non-executable-file", prep: func(r *forkexec.Runner, t string) { r.ExecFile = 0; r.Args = []string{t + "/noexec"} }, loc: forkexec.LocExecve, errno: syscall.EACCES},
		{name: "exec-format-error", prep: func(r *forkexec.Runner, t string) { r.ExecFile = 0; r.Args = []string{t + "/enoexec"} }, loc: forkexec.LocExecve, errno: syscall.ENOEXEC},
		{name: "unwritable-id-map", prep: func(r *forkexec.Runner, _ string) {
			r.CloneFlags |= unix.CLONE_NEWUSER
			r.UIDMappings = []syscall.SysProcIDMap{{ContainerID: 0, HostID: 0, Size: 1}, {ContainerID: 0, HostID: 1, Size: 1}} // overlapping: write fails EINVAL
		}, loc: forkexec.LocUnshareUserRead, errno: syscall.EINVAL},
		{name: "setgroups-denied-in-userns", prep: func(r *forkexec.Runner, _ string) {
			r.CloneFlags |= unix.CLONE_NEWUSER
			r.Credential = &syscall.Credential{Uid: 0, Gid: 0, Groups: []uint32{5}}
		}, loc: forkexec.LocSetGroups, errno: syscall.EPERM},
		{name: "sync-callback-error", prep: func(r *forkexec.Runner, _ string) {
			r.SyncFunc = func(int) error { return errors.New("callback says no") }
		}, nonChild: true},
	}
	reps := 1
	if tier == "thorough" {
		reps = 10
	}
	for rep := 0; rep < reps; rep++ {
		for _, c := range cases {
			for cfgN := 0; cfgN < 6; cfgN++ {
				withSync, ucas := cfgN&1 == 1, cfgN&2 == 2
				// configurations 4 and 5: ptrace requested without a filter (the child does not stop itself; the parent must
				// still wait for the result of the exec)
				withPtrace := cfgN >= 4
				if withPtrace {
					ucas = false
				}
				marker := fmt.Sprintf("%s/marker-%s-%d", tmp, c.name, cfgN)
				os.Remove(marker)
				pf := openProbe()
				devnull, _ := os.Open(os.DevNull)
				called := false
				r := &forkexec.Runner{Args: []string{"probe", "touch " + marker + ";exit 0"}, Env: []string{}, ExecFile: pf.Fd(),
					Files: []uintptr{devnull.Fd(), devnull.Fd(), devnull.Fd()}, UnshareCgroupAfterSync: ucas}
				if withSync {
					r.SyncFunc = func(int) error { called = true; return nil }
				}
				// descriptor layouts in which the error channel (the socket pair Start creates) lies d numbers above the
				// scratch start of the descriptor shuffle, with more relocations than d: the channel must survive the shuffle
				layout := -1
				cleanupLayout := func() {}
				if !withPtrace && rng.Chance(50) {
					layout = 1 + rng.Intn(3)
					r.Files, cleanupLayout = pipeAbove(layout, devnull)
				}
				// another child of the caller that has already ended and is not yet collected: the failed launch must reap
				// its own child, and this one's status must stay collectible
				bystander := 0
				if !withPtrace && rng.Chance(50) {
					if p, e := os.StartProcess("/bin/true", []string{"true"}, &os.ProcAttr{}); e == nil {
						bystander = p.Pid
						time.Sleep(5 * time.Millisecond)
					}
				}
				c.prep(r, tmp)
				var pid int
				var err error
				if withPtrace {
					if r.Seccomp != nil {
						pf.Close()
						devnull.Close()
						continue // this configuration is about ptrace WITHOUT a filter
					}
					r.Ptrace = true
					done := make(chan struct{})
					go func() {
						runtime.LockOSThread() // ptrace requests must come from the thread that forked
						defer close(done)
						pid, err = r.Start()
						if err == nil { // unexpected success: the tracee is stopped at its exec; kill and reap it
							syscall.Kill(pid, syscall.SIGKILL)
							var ws syscall.WaitStatus
							syscall.Wait4(pid, &ws, syscall.WALL, nil)
						}
					}()
					<-done
				} else {
					pid, err = r.Start()
					if err == nil { // unexpected success: reap
						var ws syscall.WaitStatus
						syscall.Wait4(pid, &ws, 0, nil)
					}
				}
				cleanupLayout()
				pf.Close()
				devnull.Close()
				key := fmt.Sprintf("%s sync=%v ucas=%v ptrace=%v error-channel-above-list=%d uncollected-bystander=%v", c.name, withSync, ucas, withPtrace, layout, bystander != 0)
				res.Case(key, true, "real-fault")
				res.Traces++
				var bad []string
				if bystander != 0 {
					var ws syscall.WaitStatus
					wp, werr := syscall.Wait4(bystander, &ws, 0, nil)
					if wp != bystander || werr != nil || !ws.Exited() || ws.ExitStatus() != 0 {
						bad = append(bad, fmt.Sprintf("the caller's other child (pid %d, exited 0 before the launch) can no longer be collected: wait4 = %d %v %v", bystander, wp, werr, ws))
					}
				}
				var ce forkexec.ChildError
				switch {
				case err == nil:
					bad = append(bad, "Start succeeded")
				case c.nonChild:
					if errors.As(err, &ce) || !strings.Contains(err.Error(), "callback says no") {
						bad = append(bad, "error is not the callback's: "+err.Error())
					}
				case !errors.As(err, &ce):
					bad = append(bad, "not a ChildError: "+err.Error())
				default:
					if ce.Location != c.loc || ce.Index != c.index || (!c.anyErr && ce.Err != c.errno) {
						bad = append(bad, fmt.Sprintf("ChildError{loc=%v(%d) idx=%d err=%v} want loc=%v idx=%d err=%v", ce.Location, int(ce.Location), ce.Index, ce.Err, c.loc, c.index, c.errno))
					}
				}
				if pid != 0 && err != nil {
					bad = append(bad, "pid returned with error")
				}
				if _, e := os.Stat(marker); e == nil {
					bad = append(bad, "the target program ran (marker exists)")
				}
				if !noChildrenLeft() {
					bad = append(bad, "a child was left (not reaped)")
				}
				_ = called
				if len(bad) > 0 {
					res.Mismatch(Mismatch{Kind: "oracle", What: "failed launch: target never runs, error names the step, child reaped (C07)", Input: key, Impl: strings.Join(bad, "; "), Oracle: "violates"})
				}
				os.RemoveAll(tmp + "/root/t1")
			}
		}
	}
	// callback before target, with the right pid
	for i := 0; i < 6*reps; i++ {
		marker := fmt.Sprintf("%s/gate-%d", tmp, i)
		pf := openProbe()
		devnull, _ := os.Open(os.DevNull)
		var bad []string
		var cbPid int
		r := &forkexec.Runner{Args: []string{"probe", "touch " + marker + ";exit 0"}, Env: []string{}, ExecFile: pf.Fd(), Files: []uintptr{devnull.Fd(), devnull.Fd(), devnull.Fd()},
			UnshareCgroupAfterSync: i%2 == 1}
		if i%3 == 2 {
			r.CloneFlags = unix.CLONE_NEWPID
		}
		r.SyncFunc = func(pid int) error {
			cbPid = pid
			time.Sleep(20 * time.Millisecond) // give a runaway child time to run the target
			if _, e := os.Stat(marker); e == nil {
				bad = append(bad, "target ran before the callback returned")
			}
			exe, _ := os.Readlink(fmt.Sprintf("/proc/%d/exe", pid))
			self, _ := os.Readlink("/proc/self/exe")
			if exe != self {
				bad = append(bad, "pid "+itoa(pid)+" is not the un-exec'd child: exe="+exe)
			}
			st, _ := os.ReadFile(fmt.Sprintf("/proc/%d/status", pid))
			if !strings.Contains(string(st), fmt.Sprintf("PPid:\t%d\n", os.Getpid())) {
				bad = append(bad, "pid is not our child")
			}
			return nil
		}
		pid, err := r.Start()
		var ws syscall.WaitStatus
		if err == nil {
			syscall.Wait4(pid, &ws, 0, nil)
		}
		pf.Close()
		devnull.Close()
		res.Case("gate"+itoa(i), true, "gate")
		res.Traces++
		if err != nil || pid != cbPid {
			bad = append(bad, fmt.Sprintf("start err=%v pid=%d callback pid=%d", err, pid, cbPid))
		}
		if _, e := os.Stat(marker); e != nil {
			bad = append(bad, "target did not run after approval")
		}
		if len(bad) > 0 {
			res.Mismatch(Mismatch{Kind: "oracle", What: "callback strictly before the target, with that process' pid (C07)", Input: "gate " + itoa(i), Impl: strings.Join(bad, "; "), Oracle: "violates"})
		}
	}

	// ---- part C: container relay ----
	env, err := newEnv(container.Builder{})
	if err != nil {
		fatal("container: %v", err)
	}
	defer env.Close()
	for i := 0; i < 4*reps; i++ {
		after := i%2 == 1
		fail := i%4 >= 2
		var bad []string
		var cbPid int
		script := "touch /tmp/ran;exit 0"
		if fail {
			script = "sleep 20000;touch /tmp/ran;exit 0" // a refused program must be killed, not left to finish
		}
		t0 := time.Now()
		spec := RunSpec{Script: script, SyncFunc: func(pid int) error {
			cbPid = pid
			st, e := os.ReadFile(fmt.Sprintf("/proc/%d/status", pid))
			if e != nil {
				bad = append(bad, "callback pid does not exist in the host pid namespace: "+itoa(pid))
			} else {
				// which process is it? NSpid lists the pid in every nested pid namespace, innermost last
				inner := ""
				for _, ln := range strings.Split(string(st), "\n") {
					if strings.HasPrefix(ln, "NSpid:") {
						f := strings.Fields(ln)
						inner = f[len(f)-1]
					}
				}
				switch {
				case inner == "":
					bad = append(bad, "no NSpid")
				case after && inner != "1":
					bad = append(bad, "sync after exec: the callback's pid is not the container init (pid "+inner+" inside)")
				case !after && inner == "1":
					bad = append(bad, "sync before exec: the callback's pid is the container init, not the process about to run the target")
				}
			}
			if fail {
				return errors.New("refuse")
			}
			return nil
		}}
		r, _ := env.runProbe(spec, after)
		res.Case(fmt.Sprintf("container after=%v fail=%v", after, fail), true, "container-gate")
		res.Traces++
		rs, _ := env.Open([]container.OpenCmd{{Path: "/tmp/ran", Flag: os.O_RDONLY}})
		ran := len(rs) == 1 && rs[0].Err == nil
		if ran {
			rs[0].File.Close()
		}
		if cbPid == 0 {
			bad = append(bad, "callback not invoked")
		}
		if fail && ran {
			bad = append(bad, "target ran to completion although the callback refused")
		}
		if el := time.Since(t0); fail && el > 10*time.Second {
			bad = append(bad, fmt.Sprintf("refused run returned only after %v: the program was not killed when the call returned", el))
		}
		if fail && r.Status != runner.StatusRunnerError {
			bad = append(bad, "refusal not reported: "+r.String())
		}
		if !fail && r.Status != runner.StatusNormal {
			bad = append(bad, "approved run not Normal: "+r.String())
		}
		if e := env.Ping(); e != nil {
			bad = append(bad, "environment unusable afterwards: "+e.Error())
		}
		env.Reset()
		if len(bad) > 0 {
			res.Mismatch(Mismatch{Kind: "oracle", What: "container sync relay (C07)", Input: fmt.Sprintf("after=%v fail=%v", after, fail), Impl: strings.Join(bad, "; "), Oracle: "violates"})
		}
	}
	res.Sample("real fault: bad-mount-source-index1 sync=true ucas=false => ChildError{mount, index 1, ENOENT}, marker absent, ECHILD")
}

// pipeAbove fills the free descriptor numbers of this process so that the next two descriptors it creates (the socket
// pair of Start) get the numbers T and T+1, and returns a Files list whose scratch start is T+1-d with three entries
// that need relocation. cleanup closes the fillers.
func pipeAbove(d int, devnull *os.File) ([]uintptr, func()) {
	open := openFdSet()
	for fd := range open { // the listing contains its own directory descriptor, closed by now
		if _, _, e := syscall.Syscall(syscall.SYS_FCNTL, uintptr(fd), syscall.F_GETFD, 0); e != 0 {
			delete(open, fd)
		}
	}
	T := 12
	for fd := range open {
		if fd >= T {
			T = fd + 1
		}
	}
	var fill []int
	for n := 3; n < T; n++ {
		if !open[n] {
			if syscall.Dup3(int(devnull.Fd()), n, syscall.O_CLOEXEC) == nil {
				fill = append(fill, n)
			}
		}
	}
	files := []uintptr{uintptr(T - d), 0, 1, 2}
	return files, func() {
		for _, n := range fill {
			syscall.Close(n)
		}
	}
}
