package main

import (
	"github.com/criyle/go-sandbox/pkg/memfd"
	"golang.org/x/sys/unix"
)

func init() {
	for k, v := range map[string]uint64{
		"roSeal": uint64(memfd.VerifRoSeal), "createFlag": uint64(memfd.VerifCreateFlag),
		"unix.F_SEAL_SEAL": unix.F_SEAL_SEAL, "unix.F_SEAL_SHRINK": unix.F_SEAL_SHRINK, "unix.F_SEAL_GROW": unix.F_SEAL_GROW, "unix.F_SEAL_WRITE": unix.F_SEAL_WRITE,
		"unix.F_ADD_SEALS": unix.F_ADD_SEALS, "unix.MFD_CLOEXEC": unix.MFD_CLOEXEC, "unix.MFD_ALLOW_SEALING": unix.MFD_ALLOW_SEALING,
	} {
		constTable[k] = v
	}
}
