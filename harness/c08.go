package main

import (
	"fmt"
	"os"
	"os/exec"
	"strings"
	"syscall"
	"time"

	"github.com/criyle/go-sandbox/container"
	"github.com/criyle/go-sandbox/pkg/pipe"
	"github.com/criyle/go-sandbox/pkg/rlimit"
	"github.com/criyle/go-sandbox/ptracer"
	"github.com/criyle/go-sandbox/runner"
)

func init() { props["C08"] = runC08 }

func rlName(res int) string {
	return map[int]string{syscall.RLIMIT_CPU: "cpu", syscall.RLIMIT_DATA: "data", syscall.RLIMIT_FSIZE: "fsize", syscall.RLIMIT_STACK: "stack",
		syscall.RLIMIT_AS: "as", syscall.RLIMIT_NOFILE: "nofile", syscall.RLIMIT_CORE: "core"}[res]
}

func parseRlimits(out string) map[string]string {
	m := map[string]string{}
	for _, ln := range strings.Split(out, "\n") {
		if strings.HasPrefix(ln, "rlimits ") {
			for _, f := range strings.Fields(ln)[1:] {
				kv := strings.SplitN(f, "=", 2)
				m[kv[0]] = kv[1]
			}
		}
	}
	return m
}

func runC08(res *Result, d *Driver, tier string, seed uint64) {
	res.Rule = "part A: real RLimits.PrepareRLimit and (*Tracer).checkUsage on random records/usages (zero/non-zero masks, values around 2^31, 2^32, 2^63, soft>hard, boundary usages) vs the Go-lite evaluation of the regenerated functions and the hand models; " +
		"part B: probe `report rlimits` under the ptrace runner, the namespace runner and the container for random records (configured = exact pair, unconfigured = the harness' own); " +
		"part C: CPU burner / file grower / memory toucher for the verdict mapping, the measured bounds also for programs that afterwards exit non-zero, abort, fault or are terminated; part D: pipe.NewBuffer(N) with writers of volume 0,N-1,N,N+1,N+2,10N,8MiB. " +
		"non-trivial = at least one configured limit / a usage at a boundary / a volume above the cap; distinct = distinct record, usage tuple, (runner,record), volume."
	rng := NewRng(seed, "C08", 1)
	vals := []uint64{0, 0, 1, 2, 1 << 20, 1<<31 - 1, 1 << 31, 1<<32 - 1, 1 << 32, 1<<32 + 1, 1 << 40, 1<<63 - 1, 1 << 63, ^uint64(0)}
	nA := 400
	if tier == "thorough" {
		nA = 20000
	}
	for i := 0; i < nA; i++ {
		pick := func() uint64 { return vals[rng.Intn(len(vals))] }
		r := rlimit.RLimits{CPU: pick(), CPUHard: pick(), Data: pick(), FileSize: pick(), Stack: pick(), AddressSpace: pick(), OpenFile: pick(), DisableCore: rng.Bool()}
		var impl []string
		for _, e := range r.PrepareRLimit() {
			impl = append(impl, fmt.Sprintf("%d:%d:%d", e.Res, e.Rlim.Cur, e.Rlim.Max))
		}
		line := fmt.Sprintf("c08.prepare %d %d %d %d %d %d %d %s", r.CPU, r.CPUHard, r.Data, r.FileSize, r.Stack, r.AddressSpace, r.OpenFile, b01(r.DisableCore))
		ans := d.Ask(line) // "<gen> <model>"
		res.Case(line, len(impl) > 0, "prepare-"+itoa(len(impl)))
		f := strings.Fields(ans)
		if len(f) != 2 || f[0] != jl(impl) || f[1] != jl(impl) {
			res.Mismatch(Mismatch{Kind: "differential", What: "RLimits.PrepareRLimit vs GoLite(Gen.C08.prepareRLimit) vs Model.RLimit.prepare", Input: line, Impl: jl(impl), Model: ans})
		}
		// oracle on the implementation: every non-zero field has exactly one entry cur=max=v (CPU: max(hard,cpu)); zero fields none
		want := map[int][2]uint64{}
		if r.CPU > 0 {
			want[syscall.RLIMIT_CPU] = [2]uint64{r.CPU, max(r.CPU, r.CPUHard)}
		}
		for res2, v := range map[int]uint64{syscall.RLIMIT_DATA: r.Data, syscall.RLIMIT_FSIZE: r.FileSize, syscall.RLIMIT_STACK: r.Stack, syscall.RLIMIT_AS: r.AddressSpace, syscall.RLIMIT_NOFILE: r.OpenFile} {
			if v > 0 {
				want[res2] = [2]uint64{v, v}
			}
		}
		if r.DisableCore {
			want[syscall.RLIMIT_CORE] = [2]uint64{0, 0}
		}
		got := map[int][2]uint64{}
		dup := false
		for _, e := range r.PrepareRLimit() {
			if _, ok := got[e.Res]; ok {
				dup = true
			}
			got[e.Res] = [2]uint64{e.Rlim.Cur, e.Rlim.Max}
		}
		if dup || fmt.Sprint(got) != fmt.Sprint(want) {
			res.Mismatch(Mismatch{Kind: "oracle", What: "PrepareRLimit yields exactly the configured limits (C08_prepare_exact)", Input: line, Impl: fmt.Sprint(got), Model: fmt.Sprint(want), Oracle: "violates"})
		}
		if i == 0 {
			res.Sample(line + " => " + ans)
		}
	}
	// checkUsage
	for i := 0; i < nA; i++ {
		tl := int64(rng.Intn(5)) * 1000
		ml := int64(rng.Intn(5)) * 1024
		usec := tl/1000 + int64(rng.Intn(3)) - 1
		if usec < 0 {
			usec = 0
		}
		sec := int64(0)
		if rng.Chance(20) {
			sec = int64(rng.Intn(3))
		}
		rss := ml/1024 + int64(rng.Intn(3)) - 1
		if rss < 0 {
			rss = 0
		}
		ut, um, st := ptracer.VerifCheckUsage(sec, usec, rss, time.Duration(tl), runner.Size(ml))
		impl := fmt.Sprintf("%d %d %d", int64(ut), uint64(um), int(st))
		utNs := sec*1e9 + usec*1000
		line := fmt.Sprintf("c08.usage %d %d %d %d", utNs, rss, tl, ml)
		ans := d.Ask(line) // "<gen>|<model>"
		res.Case(line, true, "usage-"+st.String())
		parts := strings.Split(ans, "|")
		if len(parts) != 2 || parts[0] != impl || parts[1] != impl {
			res.Mismatch(Mismatch{Kind: "differential", What: "checkUsage vs GoLite(Gen.C09.checkUsage) vs Model.RLimit.checkUsage", Input: line, Impl: impl, Model: ans})
		}
		wantSt := runner.StatusNormal
		if utNs > tl {
			wantSt = runner.StatusTimeLimitExceeded
		}
		if rss*1024 > ml {
			wantSt = runner.StatusMemoryLimitExceeded
		}
		if st != wantSt || int64(ut) != utNs || uint64(um) != uint64(rss*1024) {
			res.Mismatch(Mismatch{Kind: "oracle", What: "usage above a bound is TLE/MLE with the measured values (C08_usage_verdict)", Input: line, Impl: impl, Oracle: "violates"})
		}
	}

	// ---- part B: limits in force in the program ----
	own := map[string]string{}
	{
		out, _ := exec.Command(probePath(), "report rlimits").Output()
		own = parseRlimits(string(out))
	}
	env, err := newEnv(container.Builder{})
	if err != nil {
		fatal("container: %v", err)
	}
	defer env.Close()
	nB := 12
	if tier == "thorough" {
		nB = 300
	}
	safe := map[string][]uint64{
		"cpu":    {0, 1, 5, 1 << 33},
		"hard":   {0, 2, 7, 1 << 34},
		"data":   {0, 64 << 20, 1<<32 + 4096, 1 << 40},
		"fsize":  {0, 4096, 1 << 20, 1<<32 + 1},
		"stack":  {0, 256 << 10, 8 << 20, 1 << 33},
		"as":     {0, 256 << 20, 1<<32 + 8192, 1 << 42},
		"nofile": {0, 16, 64, 1024},
	}
	for i := 0; i < nB; i++ {
		p := func(k string) uint64 { return safe[k][rng.Intn(len(safe[k]))] }
		r := rlimit.RLimits{CPU: p("cpu"), CPUHard: p("hard"), Data: p("data"), FileSize: p("fsize"), Stack: p("stack"), AddressSpace: p("as"), OpenFile: p("nofile"), DisableCore: rng.Bool()}
		lims := r.PrepareRLimit()
		want := map[string]string{}
		for k, v := range own {
			want[k] = v
		}
		for _, e := range lims {
			want[rlName(e.Res)] = fmt.Sprintf("%d:%d", e.Rlim.Cur, e.Rlim.Max)
		}
		for _, rn := range []string{"ptrace", "unshare", "container"} {
			var rr runner.Result
			var out string
			spec := RunSpec{Script: "report rlimits;exit 0", RLimits: lims}
			switch rn {
			case "ptrace":
				rr, out = runPtraceProbe(spec)
			case "unshare":
				rr, out = runUnshareProbe(spec, "", nil)
			default:
				rr, out = env.runProbe(spec, false)
			}
			got := parseRlimits(out)
			key := fmt.Sprintf("%s %v", rn, r)
			res.Case(key, len(lims) > 0, "inforce-"+rn)
			res.Traces++
			if rr.Status != runner.StatusNormal || fmt.Sprint(got) != fmt.Sprint(want) {
				res.Mismatch(Mismatch{Kind: "oracle", What: "configured limits are in force with exactly the configured pair, others inherited (" + rn + ")", Input: key,
					Impl: fmt.Sprintf("status=%v err=%q %v", rr.Status, rr.Error, got), Model: fmt.Sprint(want), Oracle: "violates"})
			}
		}
		if i == 0 {
			res.Sample(fmt.Sprintf("in force: %v => %v", r, want))
		}
	}

	// a limit the kernel refuses is reported, never silently skipped: (a) fault injection at every step of
	// option sets with rlimits on the regenerated child, errnos EPERM/EINVAL; (b) a real refusal: a soft/hard
	// value above the inherited hard limit in a runner without CAP_SYS_RESOURCE in the initial user namespace
	for i := 0; i < 150; i++ {
		n := rng.Next()&(1<<29-1) | 1<<27
		for _, e := range []int{1, 22} {
			line := fmt.Sprintf("c07.fail %d %d", n, e)
			ans := strings.Fields(d.Ask(line))
			res.Case(line, true, "rlimit-fault")
			if len(ans) < 2 || ans[1] != "-" {
				res.Mismatch(Mismatch{Kind: "oracle", What: "a refused limit (or any failing step) is reported and the program never runs (regenerated child)", Input: line, Impl: strings.Join(ans, " "), Oracle: "violates"})
			}
		}
	}
	{
		var old syscall.Rlimit
		syscall.Getrlimit(syscall.RLIMIT_NOFILE, &old)
		low := syscall.Rlimit{Cur: 512, Max: 512}
		if syscall.Setrlimit(syscall.RLIMIT_NOFILE, &low) == nil {
			lims := (&rlimit.RLimits{OpenFile: 1024}).PrepareRLimit()
			rr, out := runUnshareProbe(RunSpec{Script: "report rlimits;exit 0", RLimits: lims}, "", nil)
			syscall.Setrlimit(syscall.RLIMIT_NOFILE, &old)
			got := parseRlimits(out)["nofile"]
			res.Case("refused-limit unshare", true, "refused-limit")
			res.Traces++
			if !(rr.Status == runner.StatusRunnerError && rr.Error != "") && got != "1024:1024" {
				res.Mismatch(Mismatch{Kind: "oracle", What: "a configured limit the kernel refuses must be reported (or be in force), never silently skipped", Input: "NOFILE 1024:1024 above inherited hard limit 512 in the namespace runner",
					Impl: fmt.Sprintf("status=%v err=%q program saw nofile=%s", rr.Status, rr.Error, got), Oracle: "violates"})
			}
		}
	}

	// ---- part C: verdict mapping ----
	tmpf, _ := os.CreateTemp("", "verif-c08-grow-")
	tmpf.Close()
	defer os.Remove(tmpf.Name())
	type vc struct {
		name, script string
		spec         RunSpec
		want         runner.Status
		runners      []string
		ctScript     string
	}
	cpu1 := (&rlimit.RLimits{CPU: 1, CPUHard: 2}).PrepareRLimit()
	fs := (&rlimit.RLimits{FileSize: 8192}).PrepareRLimit()
	cases := []vc{
		{"rlimit-cpu", "spin 4000;exit 0", RunSpec{RLimits: cpu1}, runner.StatusTimeLimitExceeded, []string{"ptrace", "container"}, ""},
		{"rlimit-fsize", "grow " + tmpf.Name() + " 100000;exit 0", RunSpec{RLimits: fs}, runner.StatusOutputLimitExceeded, []string{"ptrace", "container"}, "grow /tmp/g 100000;exit 0"},
		// the limit is exhausted by another process or thread of the program (each process has the limits of the program;
		// the parent waits and exits like a shell would, with 128+signal): under the tracing runner the verdict is the limit's
		{"rlimit-cpu in a forked child", "fork;spin 4000;exit 0;endfork;wait;exit 152", RunSpec{RLimits: cpu1}, runner.StatusTimeLimitExceeded, []string{"ptrace"}, ""},
		{"rlimit-fsize in a forked child", "fork;grow " + tmpf.Name() + " 100000;exit 0;endfork;wait;exit 153", RunSpec{RLimits: fs}, runner.StatusOutputLimitExceeded, []string{"ptrace"}, ""},
		{"rlimit-fsize in a thread", "thread;grow " + tmpf.Name() + " 100000;endthread;join;exit 0", RunSpec{RLimits: fs}, runner.StatusOutputLimitExceeded, []string{"ptrace"}, ""},
		{"rlimit-cpu in a thread", "thread;spin 4000;endthread;join;exit 0", RunSpec{RLimits: cpu1}, runner.StatusTimeLimitExceeded, []string{"ptrace"}, ""},
		{"usage-time", "spin 300;exit 0", RunSpec{Limit: runner.Limit{TimeLimit: 100 * time.Millisecond, MemoryLimit: 1 << 40}}, runner.StatusTimeLimitExceeded, []string{"ptrace", "unshare"}, ""},
		{"usage-mem", "mem 64;exit 0", RunSpec{Limit: runner.Limit{TimeLimit: time.Hour, MemoryLimit: 16 << 20}}, runner.StatusMemoryLimitExceeded, []string{"ptrace", "unshare"}, ""},
		// the measured bound decides whatever way the program ends afterwards
		{"usage-mem", "mem 64;exit 3", RunSpec{Limit: runner.Limit{TimeLimit: time.Hour, MemoryLimit: 16 << 20}}, runner.StatusMemoryLimitExceeded, []string{"ptrace", "unshare"}, ""},
		{"usage-mem", "mem 64;raise 6", RunSpec{Limit: runner.Limit{TimeLimit: time.Hour, MemoryLimit: 16 << 20}}, runner.StatusMemoryLimitExceeded, []string{"ptrace", "unshare"}, ""},
		{"usage-mem", "mem 64;fault segv", RunSpec{Limit: runner.Limit{TimeLimit: time.Hour, MemoryLimit: 16 << 20}}, runner.StatusMemoryLimitExceeded, []string{"ptrace", "unshare"}, ""},
		{"usage-mem", "mem 64;raise 15", RunSpec{Limit: runner.Limit{TimeLimit: time.Hour, MemoryLimit: 16 << 20}}, runner.StatusMemoryLimitExceeded, []string{"ptrace", "unshare"}, ""},
		{"usage-time", "spin 300;exit 3", RunSpec{Limit: runner.Limit{TimeLimit: 100 * time.Millisecond, MemoryLimit: 1 << 40}}, runner.StatusTimeLimitExceeded, []string{"ptrace", "unshare"}, ""},
		{"usage-time", "spin 300;raise 6", RunSpec{Limit: runner.Limit{TimeLimit: 100 * time.Millisecond, MemoryLimit: 1 << 40}}, runner.StatusTimeLimitExceeded, []string{"ptrace", "unshare"}, ""},
		{"usage-time", "spin 300;fault segv", RunSpec{Limit: runner.Limit{TimeLimit: 100 * time.Millisecond, MemoryLimit: 1 << 40}}, runner.StatusTimeLimitExceeded, []string{"ptrace", "unshare"}, ""},
		{"under-limits", "spin 20;mem 4;exit 0", RunSpec{Limit: runner.Limit{TimeLimit: 5 * time.Second, MemoryLimit: 1 << 30}}, runner.StatusNormal, []string{"ptrace", "unshare", "container"}, ""},
	}
	for _, c := range cases {
		for _, rn := range c.runners {
			spec := c.spec
			spec.Script = c.script
			var rr runner.Result
			switch rn {
			case "ptrace":
				os.Truncate(tmpf.Name(), 0)
				rr, _ = runPtraceProbe(spec)
			case "unshare":
				rr, _ = runUnshareProbe(spec, "", nil)
			default:
				if c.ctScript != "" {
					spec.Script = c.ctScript
				}
				rr, _ = env.runProbe(spec, false)
				env.Reset()
			}
			key := c.name + " " + rn + " `" + c.script + "`"
			res.Case(key, true, "verdict-"+c.name)
			res.Traces++
			bad := rr.Status != c.want
			if c.name == "usage-time" && rr.Time <= 100*time.Millisecond {
				bad = true
			}
			if c.name == "usage-mem" && rr.Memory <= 16<<20 {
				bad = true
			}
			if bad {
				res.Mismatch(Mismatch{Kind: "oracle", What: "limit exhaustion yields the matching verdict with measurements", Input: key,
					Impl: fmt.Sprintf("status=%v exit=%d time=%v mem=%v err=%q", rr.Status, rr.ExitStatus, rr.Time, rr.Memory, rr.Error), Model: c.want.String(), Oracle: "violates"})
			}
		}
	}

	// ---- part D: capped collector ----
	Ns := []int64{0, 1, 4096, 65536}
	if tier == "thorough" {
		Ns = append(Ns, 1<<20, 100000)
	}
	for _, N := range Ns {
		for _, V := range []int64{0, N - 1, N, N + 1, N + 2, 10 * N, 8 << 20} {
			if V < 0 {
				continue
			}
			b, err := pipe.NewBuffer(N)
			if err != nil {
				fatal("NewBuffer: %v", err)
			}
			cmd := exec.Command(probePath(), fmt.Sprintf("out %d;exit 0", V))
			cmd.Stdout = b.W
			var errb strings.Builder
			cmd.Stderr = &errb
			t0 := time.Now()
			runErr := cmd.Run()
			b.W.Close()
			select {
			case <-b.Done:
			case <-time.After(30 * time.Second):
				res.Mismatch(Mismatch{Kind: "oracle", What: "collector Done never closes", Input: fmt.Sprintf("N=%d V=%d", N, V), Oracle: "violates"})
			}
			el := time.Since(t0)
			key := fmt.Sprintf("buffer N=%d V=%d", N, V)
			res.Case(key, V > N, "buffer")
			wantLen := min(V, N+1)
			wrote := fmt.Sprintf("out %d wrote=%d err=0", V, V)
			if runErr != nil || int64(b.Buffer.Len()) != wantLen || !strings.Contains(errb.String(), wrote) || el > 20*time.Second {
				res.Mismatch(Mismatch{Kind: "oracle", What: "capped collector retains min(V,N+1) bytes and never blocks or breaks the writer (C08_buffer_cap)", Input: key,
					Impl: fmt.Sprintf("len=%d writer=%q err=%v elapsed=%v", b.Buffer.Len(), strings.TrimSpace(errb.String()), runErr, el), Model: fmt.Sprintf("len=%d %s", wantLen, wrote), Oracle: "violates"})
			}
			// model: retained length for the same stream
			ans := d.Ask(fmt.Sprintf("c08.collect %d %d", N+1, V))
			if ans != fmt.Sprintf("%d %d", b.Buffer.Len(), V) {
				res.Mismatch(Mismatch{Kind: "differential", What: "Buffer.Len vs Model.RLimit.collect", Input: key, Impl: itoa(b.Buffer.Len()), Model: ans})
			}
		}
	}
	res.Sample("buffer N=4096 V=40960 => len 4097, writer wrote all 40960 bytes")
}
