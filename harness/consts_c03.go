package main

import (
	"github.com/criyle/go-sandbox/runner/ptrace"
)

func init() {
	constTable["ptrace.BanRet"] = uint64(ptrace.BanRet)
}
