package main

import (
	"context"
	"errors"
	"fmt"
	"io"
	"os"
	"runtime"
	"strconv"
	"strings"
	"time"

	"sort"

	"github.com/criyle/go-sandbox/container"
	"github.com/criyle/go-sandbox/pkg/mount"
	"github.com/criyle/go-sandbox/pkg/seccomp"
	"github.com/criyle/go-sandbox/pkg/seccomp/libseccomp"
	"github.com/criyle/go-sandbox/ptracer"
	"github.com/criyle/go-sandbox/runner"
	"github.com/criyle/go-sandbox/runner/ptrace"
	"github.com/criyle/go-sandbox/runner/unshare"
	"github.com/elastic/go-seccomp-bpf/arch"
)

func init() { props["C12"] = runC12 }

func fdCount(pid int) int {
	ents, err := os.ReadDir(fmt.Sprintf("/proc/%d/fd", pid))
	if err != nil {
		return -1
	}
	return len(ents)
}

func childrenOf(pid int) []int {
	var out []int
	tasks, _ := os.ReadDir(fmt.Sprintf("/proc/%d/task", pid))
	for _, t := range tasks {
		b, _ := os.ReadFile(fmt.Sprintf("/proc/%d/task/%s/children", pid, t.Name()))
		for _, f := range strings.Fields(string(b)) {
			n, _ := strconv.Atoi(f)
			out = append(out, n)
		}
	}
	return out
}

func settle(f func() bool) bool {
	for i := 0; i < 200; i++ {
		if f() {
			return true
		}
		time.Sleep(5 * time.Millisecond)
	}
	return false
}

var hostilePrograms = []struct{ name, script string }{
	{"plain", "exit 0"},
	{"orphans", "fork;fork;sleep 30000;endfork;exit 0;endfork;wait;sleep 5;exit 0"},
	{"daemon", "daemon;sleep 30000;exit 0"},
	{"ignore-signals", "ignore 15;ignore 1;ignore 2;fork;ignore 15;ignore 1;sleep 30000;endfork;fork;spin 30000;endfork;sleep 10;exit 0"},
	{"children-outlive", "fork;sleep 30000;endfork;fork;sleep 30000;endfork;fork;sleep 30000;endfork;exit 7"},
	{"deep", "fork;fork;fork;fork;sleep 30000;endfork;sleep 30000;endfork;sleep 30000;endfork;sleep 30000;endfork;sleep 10;exit 0"},
	{"zombies", "fork;exit 1;endfork;fork;exit 2;endfork;fork;exit 3;endfork;sleep 10;exit 0"},
	{"threads", "thread;sleep 30000;endthread;thread;spin 30000;endthread;sleep 10;exit 0"},
	// descendants that have LEFT the process group (new session / own group) before the main process ends
	{"session-leavers", "fork;setsid;sleep 30000;endfork;fork;setpgid;ignore 15;sleep 30000;endfork;sleep 40;exit 0"},
}

func runC12(res *Result, d *Driver, tier string, seed uint64) {
	res.Rule = "histories of runs of hostile programs (orphans via double fork, daemonising, ignoring signals, children outliving the parent, deep trees, zombies, threads; setsid/setpgid in the pid-namespace based runners) in the container (sync before/after exec, cancelled runs, failing runs, file operations in between), the namespace runner and the ptrace runner: " +
		"after every operation the container init must have no children and its descriptor count must be back at baseline; every process of the pid namespace / process group must be dead when a run returns; after the history the host's descriptors, children and goroutines are back at baseline; Build/Destroy cycles return the host to baseline. non-trivial = every case; distinct = (runner, program, variation)."
	rng := NewRng(seed, "C12", 1)
	n := 30
	cycles := 5
	if tier == "thorough" {
		n = 1000
		cycles = 200
	}
	runtime.GC()
	baseFds := fdCount(os.Getpid())
	baseChildren := len(childrenOf(os.Getpid()))
	baseGor := runtime.NumGoroutine()

	before := childPids()
	env, err := newEnv(container.Builder{})
	if err != nil {
		fatal("container: %v", err)
	}
	initPid := 0
	for p := range childPids() {
		if !before[p] {
			initPid = p
		}
	}
	env.Ping()
	time.Sleep(20 * time.Millisecond)
	initFds := fdCount(initPid)
	checkInit := func(key string) {
		okc := settle(func() bool { return len(childrenOf(initPid)) == 0 })
		okf := settle(func() bool { return fdCount(initPid) == initFds })
		if !okc || !okf {
			res.Mismatch(Mismatch{Kind: "oracle", What: "container init keeps children or descriptors after an operation (C12)", Input: key,
				Impl: fmt.Sprintf("children=%v fds=%d baseline fds=%d", childrenOf(initPid), fdCount(initPid), initFds), Oracle: "violates"})
			initFds = fdCount(initPid) // report each leak once
		}
	}
	for i := 0; i < n; i++ {
		p := hostilePrograms[rng.Intn(len(hostilePrograms))]
		script := p.script
		if rng.Chance(30) && p.name != "threads" {
			script = "setsid;" + script
		}
		variation := rng.Intn(5)
		spec := RunSpec{Script: script, Timeout: 20 * time.Second, SyncFunc: func(int) error { return nil }}
		var cancel context.CancelFunc = func() {}
		switch variation {
		case 1:
			var ctx context.Context
			ctx, cancel = context.WithCancel(context.Background())
			spec.Ctx = ctx
			go func(dl time.Duration) { time.Sleep(dl); cancel() }(time.Duration(rng.Intn(15)) * time.Millisecond)
		case 2:
			// refuse late, when the program has already built its process tree (sync after exec)
			spec.SyncFunc = func(int) error { time.Sleep(25 * time.Millisecond); return errors.New("refused") }
		}
		t0 := time.Now()
		r, _ := env.runProbe(spec, rng.Bool())
		cancel()
		key := fmt.Sprintf("container %s var%d", p.name, variation)
		// the main process of every hostile program ends within 50 ms; descendants sleep for 30 s. A run that returns only
		// when they are gone by themselves did not kill them
		if el := time.Since(t0); el > 10*time.Second {
			res.Mismatch(Mismatch{Kind: "oracle", What: "the run returned only after the program's descendants ended on their own: they were not killed when the main process finished (C12)", Input: key + " script=" + script, Impl: fmt.Sprintf("returned after %v", el.Round(time.Millisecond)), Model: "returns as soon as the main process ended and everything was killed", Oracle: "violates"})
		}
		res.Case(key+itoa(i), true, "container-"+p.name)
		res.Traces++
		_ = r
		checkInit(key)
		if rng.Chance(30) {
			rs, _ := env.Open([]container.OpenCmd{{Path: "/w/a", Flag: os.O_CREATE | os.O_RDWR, Perm: 0644}, {Path: "/nonexistent/x", Flag: os.O_RDONLY}})
			for _, x := range rs {
				if x.File != nil {
					x.File.Close()
				}
			}
			env.Delete("/w/a")
			env.Reset()
			checkInit("file operations")
		}
	}
	env.Close()

	// ---- namespace runner and ptrace runner ----
	for i := 0; i < n; i++ {
		p := hostilePrograms[rng.Intn(len(hostilePrograms))]
		for _, rn := range []string{"unshare", "ptrace"} {
			script := p.script
			if rn == "unshare" && rng.Chance(30) && p.name != "threads" {
				script = "setsid;" + script
			}
			var pid int
			var ns string
			spec := RunSpec{Script: script, Timeout: 20 * time.Second, SyncFunc: func(x int) error {
				pid = x
				ns, _ = os.Readlink(fmt.Sprintf("/proc/%d/ns/pid_for_children", x))
				return nil
			}}
			var cancel context.CancelFunc = func() {}
			if rng.Chance(30) {
				var ctx context.Context
				ctx, cancel = context.WithCancel(context.Background())
				spec.Ctx = ctx
				go func(dl time.Duration) { time.Sleep(dl); cancel() }(time.Duration(rng.Intn(15)) * time.Millisecond)
			}
			var r runner.Result
			if rn == "unshare" {
				r, _ = runUnshareProbe(spec, "", nil)
			} else {
				// precondition of the property for the ptrace runner: its policy refuses setsid/setpgid
				// (a tracee that leaves the process group escapes the group kill)
				spec.Filter = noNewSessionFilter()
				spec.Handler = refuseSessionHandler{}
				r, _ = runPtraceProbe(spec)
			}
			cancel()
			_ = r
			key := fmt.Sprintf("%s %s", rn, p.name)
			res.Case(key+itoa(i), true, rn+"-"+p.name)
			res.Traces++
			var left []int
			okd := settle(func() bool {
				left = nil
				if rn == "unshare" && ns != "" {
					self, _ := os.Readlink("/proc/self/ns/pid")
					if ns != self {
						left = procsInPidNs(ns)
					}
				}
				if rn == "ptrace" && pid > 0 {
					left = procsInGroup(pid)
				}
				if pid > 0 && pidAlive(pid) {
					left = append(left, pid)
				}
				return len(left) == 0
			})
			if !okd {
				res.Mismatch(Mismatch{Kind: "oracle", What: "processes of the program alive after the run returned (C12)", Input: key, Impl: fmt.Sprintf("alive %v", left), Oracle: "violates"})
			}
			if !settle(func() bool { return len(childrenOf(os.Getpid())) == baseChildren }) {
				res.Mismatch(Mismatch{Kind: "oracle", What: "zombie or live child left with the host process (C12)", Input: key, Impl: fmt.Sprintf("children %v", childrenOf(os.Getpid())), Oracle: "violates"})
				baseChildren = len(childrenOf(os.Getpid()))
			}
		}
	}

	// ---- nothing of a run is alive once the call has returned: the program leaves a process behind that answers every
	// byte arriving on the run's standard input; the host writes one the moment Execve returns. An answer means that a
	// process of the run was still running after the run had returned ----
	{
		nE := 12
		if tier == "thorough" {
			nE = 150
		}
		envE, err := newEnv(container.Builder{})
		if err == nil {
			answered := 0
			for it := 0; it < nE; it++ {
				inR, inW, _ := os.Pipe()
				outR, outW, _ := os.Pipe()
				pf := openProbe()
				ctx, cancel := context.WithTimeout(context.Background(), 20*time.Second)
				r := envE.Execve(ctx, container.ExecveParam{Args: []string{"/bin/true", "fork;echoer;endfork;sleep 5;exit 0"}, Env: []string{"PATH=/usr/bin:/bin"},
					Files: []uintptr{inR.Fd(), outW.Fd(), outW.Fd()}, ExecFile: pf.Fd(), SyncFunc: func(int) error { return nil }, SyncAfterExec: it%2 == 1})
				inW.Write([]byte("x"))
				t0 := time.Now()
				for time.Since(t0) < 3*time.Millisecond {
				}
				cancel()
				pf.Close()
				inR.Close()
				outW.Close()
				envE.Ping()
				inW.Close()
				outR.SetReadDeadline(time.Now().Add(5 * time.Second))
				data, _ := io.ReadAll(outR)
				outR.Close()
				res.Case("echoer "+itoa(it), true, "alive-after-return")
				res.Traces++
				if r.Status == runner.StatusNormal && strings.Contains(string(data), "E") {
					answered++
				}
			}
			if answered > 0 {
				res.Mismatch(Mismatch{Kind: "oracle", What: "a process of the run is still running after Execve has returned (C12: nothing is left behind when the run returns)", Input: fmt.Sprintf("%d container runs of `fork;echoer;endfork;sleep 5;exit 0`, one byte written to the run's stdin the moment Execve returns", nE), Impl: fmt.Sprintf("%d of %d runs: the process left behind answered", answered, nE), Oracle: "violates"})
			}
			envE.Close()
		}
	}
	// ---- Build/Destroy cycles ----
	for i := 0; i < cycles; i++ {
		e, err := newEnv(container.Builder{})
		if err != nil {
			fatal("container: %v", err)
		}
		if i%2 == 0 {
			e.runProbe(RunSpec{Script: "fork;sleep 30000;endfork;exit 0"}, false)
		}
		e.Close()
		res.Case("cycle"+itoa(i), true, "build-destroy")
	}
	// ---- builds that are refused at each stage (start of the init, configuration: mounts, work directory, init command):
	// a refused Build must leave nothing behind either — no child (zombie or live), no descriptor ----
	{
		runtime.GC()
		time.Sleep(20 * time.Millisecond)
		bChildren, bFds := len(childrenOf(os.Getpid())), fdCount(os.Getpid())
		bad := []struct {
			name string
			b    container.Builder
		}{
			{"bind source does not exist", container.Builder{Mounts: mount.NewBuilder().WithBind("/nonexistent-verif-c12", "x", true).Mounts}},
			{"work directory cannot be created (below a file)", container.Builder{Mounts: mount.NewBuilder().WithBind("/dev/null", "dev/null", false).Mounts, WorkDir: "/dev/null/w"}},
			{"init command fails", container.Builder{Mounts: mount.NewBuilder().WithBind("/dev/null", "dev/null", false).Mounts, InitCommand: []string{"/nonexistent-verif-c12"}}},
			{"container init cannot be started", container.Builder{ExecFile: "/nonexistent-verif-c12"}},
			// the host-side preparation fails after the init has been started and has answered
			{"temporary root directory cannot be made", container.Builder{Root: "/nonexistent-verif-c12", TmpRoot: "ct-*"}},
		}
		reps := 3
		if tier == "thorough" {
			reps = 40
		}
		for r := 0; r < reps; r++ {
			for _, c := range bad {
				var e *Env
				var err error
				if c.b.Root != "" {
					// the root is part of the case: build as given
					var ce container.Environment
					if ce, err = c.b.Build(); err == nil {
						ce.Destroy()
						err = fmt.Errorf("accepted")
					}
				} else {
					e, err = newEnv(c.b)
				}
				res.Case(fmt.Sprintf("refused build %d: %s", r, c.name), true, "build-refused")
				if err == nil {
					// accepted on this machine: an ordinary cycle
					e.Close()
				}
				runtime.GC()
				if !settle(func() bool { return len(childrenOf(os.Getpid())) <= bChildren && fdCount(os.Getpid()) <= bFds }) {
					res.Mismatch(Mismatch{Kind: "oracle", What: "a Build that is refused leaves the host at its baseline: no child of the host (live or zombie) and no descriptor stays behind (C12)", Input: "container.Builder{" + c.name + "}.Build()  -> " + fmt.Sprint(err),
						Impl: fmt.Sprintf("children %v (baseline %d) descriptors %d (baseline %d)", childrenOf(os.Getpid()), bChildren, fdCount(os.Getpid()), bFds), Oracle: "violates"})
					bChildren, bFds = len(childrenOf(os.Getpid())), fdCount(os.Getpid())
				}
			}
		}
	}
	// runs whose context outlives them (context.Background(), or one context shared by many runs): nothing of a finished
	// run may stay behind waiting for that context
	shared, cancelShared := context.WithCancel(context.Background())
	for i := 0; i < 12; i++ {
		ctx := context.Background()
		if i%2 == 1 {
			ctx = shared
		}
		pf := openProbe()
		devnull, _ := os.Open(os.DevNull)
		pr := &ptrace.Runner{Args: []string{"probe", "exit 0"}, ExecFile: pf.Fd(), Files: []uintptr{devnull.Fd(), devnull.Fd(), devnull.Fd()},
			Limit: bigLimit, Seccomp: allowAll(), Handler: allowHandler{}}
		r := pr.Run(ctx)
		ur := &unshare.Runner{Args: []string{"probe", "exit 0"}, ExecFile: pf.Fd(), Files: []uintptr{devnull.Fd(), devnull.Fd(), devnull.Fd()}, Limit: bigLimit}
		r2 := ur.Run(ctx)
		pf.Close()
		devnull.Close()
		res.Case("long-lived-context"+itoa(i), true, "long-lived-context")
		if r.Status != runner.StatusNormal || r2.Status != runner.StatusNormal {
			res.Note("long-lived-context run %d: %v / %v", i, r, r2)
		}
	}
	runtime.GC()
	okLong := settle(func() bool { return runtime.NumGoroutine() <= baseGor })
	if !okLong {
		res.Mismatch(Mismatch{Kind: "oracle", What: "goroutines of finished runs stay behind while the caller's context lives (C12: goroutines return to baseline)", Input: "12 ptrace + 12 namespace runs with context.Background() / one shared context, all finished",
			Impl: fmt.Sprintf("goroutines=%d (baseline %d)", runtime.NumGoroutine(), baseGor), Oracle: "violates"})
	}
	cancelShared()
	runtime.GC()
	okHost := settle(func() bool {
		return fdCount(os.Getpid()) <= baseFds && len(childrenOf(os.Getpid())) == baseChildren && runtime.NumGoroutine() <= baseGor
	})
	res.Extra["host_fds"] = fmt.Sprintf("%d (baseline %d)", fdCount(os.Getpid()), baseFds)
	res.Extra["host_goroutines"] = fmt.Sprintf("%d (baseline %d)", runtime.NumGoroutine(), baseGor)
	if !okHost {
		res.Mismatch(Mismatch{Kind: "oracle", What: "host process does not return to baseline after the history (C12)", Input: "descriptors / children / goroutines after the whole history",
			Impl: fmt.Sprintf("fds=%d (baseline %d) children=%v (baseline %d) goroutines=%d (baseline %d)", fdCount(os.Getpid()), baseFds, childrenOf(os.Getpid()), baseChildren, runtime.NumGoroutine(), baseGor), Oracle: "violates"})
	}
	res.Sample("container orphans var1 (cancelled): init children [] fds back to baseline")
	_ = d
}

var nnsFilter seccomp.Filter

// everything allowed except setsid/setpgid, which are traced and refused by the handler
func noNewSessionFilter() seccomp.Filter {
	if nnsFilter != nil {
		return nnsFilter
	}
	info, _ := arch.GetInfo("")
	var allow []string
	for n := range info.SyscallNames {
		if n != "setsid" && n != "setpgid" {
			allow = append(allow, n)
		}
	}
	sort.Strings(allow)
	f, err := (&libseccomp.Builder{Allow: allow, Trace: []string{"setsid", "setpgid"}, Default: libseccomp.ActionTrace}).Build()
	if err != nil {
		fatal("filter: %v", err)
	}
	nnsFilter = f
	return f
}

type refuseSessionHandler struct{ allowHandler }

func (refuseSessionHandler) CheckSyscall(name string) ptracer.TraceAction {
	if name == "setsid" || name == "setpgid" {
		return ptracer.TraceKill
	}
	return ptracer.TraceAllow
}
