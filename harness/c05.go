package main

import (
	"fmt"
	"os"
	"path/filepath"
	"sort"
	"strings"
	"syscall"

	"github.com/criyle/go-sandbox/container"
	"github.com/criyle/go-sandbox/pkg/mount"
	"github.com/criyle/go-sandbox/runner"
)

func init() { props["C05"] = runC05 }

type c05Entry struct {
	kind   string // b t p
	src    string
	tgt    string
	ro     bool
	isFile bool
	rw     bool // proc
}

func (e c05Entry) enc() string {
	b := func(x bool) string {
		if x {
			return "1"
		}
		return "0"
	}
	switch e.kind {
	case "b":
		return fmt.Sprintf("b:%s:%s:%s:%s", hx(e.src), hx(e.tgt), b(e.ro), b(e.isFile))
	case "t":
		return "t:" + hx(e.tgt)
	}
	return "p:" + b(e.rw)
}

// c05Scratch builds the host side: directories and files that tables bind, and a secret that is never bound
type c05Scratch struct{ dir string }

func newC05Scratch() *c05Scratch {
	d, err := os.MkdirTemp("", "verif-c05-")
	if err != nil {
		fatal("mkdtemp: %v", err)
	}
	d, _ = filepath.EvalSymlinks(d)
	os.Chmod(d, 0755)
	for _, x := range []string{"rodir/sub", "rwdir/inner", "rodir2", "secret"} {
		os.MkdirAll(filepath.Join(d, x), 0777)
	}
	for _, x := range []string{"rodir/a", "rodir/sub/b", "rodir/nested", "rofile", "rwfile", "rodir2/c", "secret/HOSTSECRET", "rwdir/existing"} {
		os.WriteFile(filepath.Join(d, x), []byte("content-of-"+filepath.Base(x)), 0666)
	}
	os.Chmod(filepath.Join(d, "rwdir"), 0777)
	return &c05Scratch{d}
}

func (s *c05Scratch) table(rng *Rng) []c05Entry {
	p := func(x string) string { return filepath.Join(s.dir, x) }
	pool := []c05Entry{
		{kind: "b", src: p("rodir"), tgt: "ro", ro: true},
		{kind: "b", src: p("rwdir"), tgt: "rw"},
		{kind: "b", src: p("rofile"), tgt: "f/rofile", ro: true, isFile: true},
		{kind: "b", src: p("rwfile"), tgt: "rwf", isFile: true},
		{kind: "b", src: p("rofile"), tgt: "ro/nested", ro: true, isFile: true}, // nested in the read-only bind (node exists in the source)
		{kind: "b", src: p("rodir2"), tgt: "rw/inner", ro: true},                // nested in the writable bind
		{kind: "b", src: p("rodir"), tgt: "deep/er/ro2", ro: true},
		{kind: "t", tgt: "w"},
		{kind: "t", tgt: "t/deep/er"},
		{kind: "t", tgt: "ro/sub"}, // a writable tmpfs on top of a directory of the read-only bind
		{kind: "p", rw: false},
		{kind: "p", rw: true},
		{kind: "b", src: p("does-not-exist"), tgt: "ghost", ro: true}, // filtered by FilterNotExist
	}
	// the corners of "every table": nothing configured at all, and a table whose every entry is filtered out
	switch rng.Intn(20) {
	case 0:
		return nil
	case 1:
		return []c05Entry{pool[len(pool)-1]}
	}
	var out []c05Entry
	seen := map[string]bool{}
	for _, e := range pool {
		if rng.Chance(45) && !seen[e.tgt] && !(e.kind == "p" && seen["proc"]) {
			// nested targets need their parent mounted first
			if (e.tgt == "ro/nested" || e.tgt == "ro/sub") && !seen["ro"] {
				continue
			}
			if e.tgt == "rw/inner" && !seen["rw"] {
				continue
			}
			out = append(out, e)
			seen[e.tgt] = true
			if e.kind == "p" {
				seen["proc"] = true
			}
		}
	}
	return out
}

func c05Builder(es []c05Entry) *mount.Builder {
	b := mount.NewBuilder()
	for _, e := range es {
		switch e.kind {
		case "b":
			b.WithBind(e.src, e.tgt, e.ro)
		case "t":
			b.WithTmpfs(e.tgt, "size=4m")
		case "p":
			b.WithProcRW(e.rw)
		}
	}
	return b.FilterNotExist()
}

// mountinfo of a process, as (mount point, kind, ro) in order
func c05MountInfo(pid int) ([]string, error) {
	b, err := os.ReadFile(fmt.Sprintf("/proc/%d/mountinfo", pid))
	if err != nil {
		return nil, err
	}
	var out []string
	for _, ln := range strings.Split(strings.TrimSpace(string(b)), "\n") {
		f := strings.Fields(ln)
		sep := -1
		for i, x := range f {
			if x == "-" {
				sep = i
			}
		}
		if sep < 0 || len(f) < sep+3 {
			continue
		}
		root, mp, opts, fstype := f[3], f[4], f[5], f[sep+1]
		ro := "rw"
		for _, o := range strings.Split(opts, ",") {
			if o == "ro" {
				ro = "ro"
			}
		}
		kind := "host:" + root
		switch {
		case fstype == "proc":
			kind = "proc"
		case fstype == "tmpfs" && root == "/":
			kind = "tmpfs"
		case strings.HasSuffix(root, "/null") && (fstype == "devtmpfs" || fstype == "tmpfs"):
			kind = "devnull"
		}
		out = append(out, mp+"|"+kind+"|"+ro)
	}
	return out, nil
}

func runC05(res *Result, d *Driver, tier string, seed uint64) {
	res.Rule = "random mount tables (read-only/writable binds of directories and files, nested in other binds, tmpfs incl. on top of a read-only bind, proc ro/rw, deep targets, non-existent sources, the empty table and a table whose only entry is filtered out) run through BOTH implementations — runner/unshare with a pivoted root (raw in-child sequence) and a container environment (initFileSystem; default symlinks, masks incl. a directory and a file) — with the probe inside: (1) /proc/<pid>/mountinfo of the sandboxed process read from the host at the sync point vs the model's final namespace (Model.MountNS via driver: mount points in order, kind, per-mount read-only bit); (2) create/write attempts under every mount and create/mkdir in the root vs `writable`; (3) listing of / vs configured targets; old_root, the unbound host secret and the host path of the scratch directory must be unreachable; masked paths empty. non-trivial = table with a read-only or nested entry; distinct = (implementation, table)."
	rng := NewRng(seed, "C05", 1)
	n := 60
	if tier == "thorough" {
		n = 400
	}
	sc := newC05Scratch()
	defer os.RemoveAll(sc.dir)
	for it := 0; it < n; it++ {
		es := sc.table(rng)
		impl := []string{"raw", "container"}[it%2]
		if impl == "container" {
			es = append(es, c05Entry{kind: "b", src: "/dev/null", tgt: "dev/null", isFile: true})
		}
		var live []c05Entry
		for _, e := range es {
			if e.kind == "b" && strings.HasSuffix(e.src, "does-not-exist") {
				continue
			}
			live = append(live, e)
		}
		// probe paths: one fresh name under every mount point and in the root, plus existing files
		var probes []string
		for _, e := range live {
			switch {
			case e.kind == "p" || e.src == "/dev/null":
			case e.isFile:
				probes = append(probes, "/"+e.tgt)
			default:
				probes = append(probes, "/"+e.tgt+"/probe_new")
			}
		}
		probes = append(probes, "/probe_root")
		var encs []string
		for _, e := range live {
			encs = append(encs, e.enc())
		}
		encS := "-"
		if len(encs) > 0 {
			encS = strings.Join(encs, ",")
		}
		// the container adds its default symlinks and these masks
		sl := "-"
		mk := "-"
		maskDir, maskFile := "", ""
		var ctSymlinks []container.SymbolicLink
		if impl == "container" {
			for _, e := range live {
				if e.tgt == "ro" {
					maskDir, maskFile = "/ro/sub", "/ro/a"
				}
			}
			// a tmpfs on /ro/sub and a mask on it would stack: keep the mask only when nothing else is mounted there
			for _, e := range live {
				if e.tgt == "ro/sub" {
					maskDir = ""
				}
			}
			ctSymlinks = []container.SymbolicLink{{LinkPath: "/lnk/fd", Target: "/proc/self/fd"}}
			sl = hx("/lnk/fd") + "=" + hx("/proc/self/fd")
			var m []string
			if maskDir != "" {
				m = append(m, hx(maskDir)+"=d")
			}
			if maskFile != "" {
				m = append(m, hx(maskFile)+"=f")
			}
			if len(m) > 0 {
				mk = strings.Join(m, ",")
			}
		}
		model := d.Ask(fmt.Sprintf("c05.ns %s %s %s %s %s", impl, encS, sl, mk, hxl(probes)))
		nontrivial := false
		for _, e := range live {
			if e.ro || strings.Contains(e.tgt, "/") {
				nontrivial = true
			}
		}
		key := impl + " " + strings.Join(encs, ",")
		res.Case(key, nontrivial, impl)
		if model == "launch-fails" {
			res.Mismatch(Mismatch{Kind: "differential", What: "the model says this table cannot be mounted", Input: key, Model: model, Oracle: "unknown"})
			continue
		}
		if !strings.HasPrefix(model, "split=0 ") {
			// the regenerated code no longer produces the skeleton's sequence: report it and go on to look for a concrete failing run
			res.Mismatch(Mismatch{Kind: "differential", What: "regenerated mount sequence vs hand skeleton opsFor (C05_gen_raw_matches / C05_gen_container_matches)", Input: key, Model: strings.Fields(model)[0], Oracle: "unknown"})
		}
		var mMounts []string
		mW := ""
		mHost := ""
		for _, f := range strings.Fields(model) {
			k, v, _ := strings.Cut(f, "=")
			switch k {
			case "mounts":
				mMounts = strings.Split(v, ";")
			case "w":
				mW = v
			case "host":
				mHost = v
			}
		}
		// the script
		var cmds []string
		for _, p := range probes {
			if strings.HasSuffix(p, "probe_new") || p == "/probe_root" {
				cmds = append(cmds, "touch "+p)
			} else {
				cmds = append(cmds, "writefile "+p+" overwritten")
			}
		}
		cmds = append(cmds, "ls /", "ls /old_root", "readfile "+filepath.Join(sc.dir, "secret", "HOSTSECRET"), "ls "+sc.dir, "mkdir /newdir")
		if maskDir != "" {
			cmds = append(cmds, "ls "+maskDir)
		}
		if maskFile != "" {
			cmds = append(cmds, "readfile "+maskFile)
		}
		script := strings.Join(cmds, "; ") + "; exit 0"
		// should the program ever run on the host's root (a broken pivot), what it plants there is taken away again
		var absent []string
		for _, p := range append([]string{"/newdir"}, probes...) {
			if _, err := os.Lstat(p); err != nil {
				absent = append(absent, p)
			}
		}
		cleanHost := func() {
			for _, p := range absent {
				os.Remove(p)
			}
		}
		var info []string
		var infoErr error
		sync := func(pid int) error {
			info, infoErr = c05MountInfo(pid)
			return nil
		}
		var r runner.Result
		var out string
		if impl == "raw" {
			root, _ := os.MkdirTemp("", "verif-c05-root-")
			mounts, err := c05Builder(es).Build()
			if err != nil {
				fatal("build mounts: %v", err)
			}
			r, out = runUnshareProbe(RunSpec{Script: script, SyncFunc: sync, WorkDir: "/"}, root, mounts)
			os.RemoveAll(root)
		} else {
			env, err := newEnv(container.Builder{Mounts: c05Builder(es).Mounts, WorkDir: "/", SymbolicLinks: ctSymlinks, MaskPaths: c05Masks(maskDir, maskFile)})
			if err != nil {
				res.Mismatch(Mismatch{Kind: "oracle", What: "container with this mount table could not be built", Input: key, Impl: err.Error(), Oracle: "unknown"})
				continue
			}
			r, out = env.runProbe(RunSpec{Script: script, SyncFunc: sync}, false)
			env.Close()
		}
		cleanHost()
		if r.Status != runner.StatusNormal {
			res.Mismatch(Mismatch{Kind: "oracle", What: "sandboxed probe did not run normally", Input: key, Impl: fmt.Sprintf("%v %s %s", r.Status, r.Error, out), Oracle: "unknown"})
			continue
		}
		// (1) mount table
		if infoErr != nil {
			res.Note("mountinfo unreadable: %v", infoErr)
		} else {
			var got []string
			for _, ln := range info {
				got = append(got, c05Normalize(ln, sc.dir))
			}
			var want []string
			for _, ln := range mMounts {
				want = append(want, c05Normalize(ln, sc.dir))
			}
			if strings.Join(got, ";") != strings.Join(want, ";") {
				res.Mismatch(Mismatch{Kind: "oracle", What: "mount namespace of the sandboxed process (host view of /proc/<pid>/mountinfo) differs from the configured table with its read-only bits (C05_namespace)", Input: key, Impl: strings.Join(got, ";"), Model: strings.Join(want, ";"), Oracle: "violates"})
			}
		}
		if mHost != "none" {
			res.Mismatch(Mismatch{Kind: "differential", What: "model: host tree still reachable", Input: key, Model: model, Oracle: "violates"})
		}
		// (2) write probes
		lines := map[string]string{}
		for _, ln := range strings.Split(out, "\n") {
			f := strings.SplitN(ln, " = ", 2)
			if len(f) == 2 {
				lines[f[0]] = f[1]
			}
		}
		for i, p := range probes {
			var got string
			if strings.HasSuffix(p, "probe_new") || p == "/probe_root" {
				got = lines["touch "+p]
			} else {
				got = lines["writefile "+p]
			}
			okW := got != "" && !strings.HasPrefix(got, "-")
			wantW := i < len(mW) && mW[i] == '1'
			res.Dist[map[bool]string{true: "probe-writable", false: "probe-readonly"}[wantW]]++
			if okW != wantW {
				res.Mismatch(Mismatch{Kind: "oracle", What: "a write succeeded where the table says read-only, or failed where it says writable (C05_writable_iff)", Input: key + " path=" + p, Impl: "result " + got, Model: fmt.Sprintf("writable=%v", wantW), Oracle: "violates"})
			}
		}
		// (3) what is visible
		wantTop := map[string]bool{}
		for _, e := range live {
			t := e.tgt
			if e.kind == "p" {
				t = "proc"
			}
			wantTop[strings.Split(t, "/")[0]] = true
		}
		if impl == "container" {
			wantTop["lnk"] = true
		}
		var wl []string
		for k := range wantTop {
			wl = append(wl, k)
		}
		sort.Strings(wl)
		gotLs := lines["ls /"]
		wantLs := fmt.Sprintf("%d:", len(wl))
		if len(wl) > 0 {
			wantLs += " " + strings.Join(wl, " ")
		}
		if gotLs != wantLs {
			res.Mismatch(Mismatch{Kind: "oracle", What: "the root shows something other than the configured mount points and symlinks", Input: key, Impl: gotLs, Model: wantLs, Oracle: "violates"})
		}
		for _, c := range []struct{ cmd, what string }{
			{"ls /old_root", "old_root is still there"},
			{"readfile " + filepath.Join(sc.dir, "secret", "HOSTSECRET"), "an unbound host file is readable"},
			{"ls " + sc.dir, "the host path of the scratch directory is reachable"},
			{"mkdir /newdir", "the root accepts mkdir"},
		} {
			if v := lines[c.cmd]; !strings.HasPrefix(v, "-") {
				res.Mismatch(Mismatch{Kind: "oracle", What: c.what + " (C05_namespace: host detached, root read-only)", Input: key, Impl: c.cmd + " = " + v, Oracle: "violates"})
			}
		}
		if maskDir != "" {
			if v := lines["ls "+maskDir]; v != "0:" {
				res.Mismatch(Mismatch{Kind: "oracle", What: "a masked directory reveals its content", Input: key, Impl: v, Model: "0:", Oracle: "violates"})
			}
		}
		if maskFile != "" {
			if v := lines["readfile "+maskFile]; v != "0 " && v != "0" {
				res.Mismatch(Mismatch{Kind: "oracle", What: "a masked file reveals its content", Input: key, Impl: v, Model: "0", Oracle: "violates"})
			}
		}
		// the writes that were allowed must not have touched read-only host files
		if b, _ := os.ReadFile(filepath.Join(sc.dir, "rofile")); string(b) != "content-of-rofile" {
			res.Mismatch(Mismatch{Kind: "oracle", What: "a host file bound read-only was modified", Input: key, Impl: string(b), Oracle: "violates"})
			os.WriteFile(filepath.Join(sc.dir, "rofile"), []byte("content-of-rofile"), 0666)
		}
		os.Remove(filepath.Join(sc.dir, "rwdir", "probe_new"))
		os.WriteFile(filepath.Join(sc.dir, "rwfile"), []byte("content-of-rwfile"), 0666)
	}
	c05Planted(res, sc, rng, tier)
	c05SeveralConfigurations(res, sc, rng, tier)
	c05Propagation(res, sc)
	// a mask that cannot be applied (its parent is a file): the container must not come up half built (root still writable)
	{
		b := mount.NewBuilder().WithTmpfs("w", "size=1m").WithBind("/dev/null", "dev/null", false)
		env, err := newEnv(container.Builder{Mounts: b.Mounts, WorkDir: "/", MaskPaths: []string{"/dev/null/x"}})
		res.Case("unappliable mask", true, "mask-failure")
		if err == nil {
			r, out := env.runProbe(RunSpec{Script: "touch /probe_root; mkdir /newdir; exit 0"}, false)
			env.Close()
			if r.Status == runner.StatusNormal && (strings.Contains(out, "touch /probe_root = 0") || strings.Contains(out, "mkdir /newdir = 0")) {
				res.Mismatch(Mismatch{Kind: "oracle", What: "a container whose mask could not be applied was built anyway and its root accepts writes (C05_gen_container_failure_is_reported / C05_namespace: root read-only)", Input: "container {tmpfs w, dev/null} MaskPaths=[/dev/null/x]", Impl: strings.ReplaceAll(strings.TrimSpace(out), "\n", " | "), Model: "Build fails, or the root is read-only", Oracle: "violates"})
			}
		}
	}
	c05Findings(res, sc)
	res.Sample("raw [bind rodir->ro (ro), tmpfs w, bind rofile->ro/nested (ro,file)] : mountinfo = / tmpfs ro; /ro host ro; /w tmpfs rw; /ro/nested host ro ; touch /w/probe_new ok, touch /ro/probe_new EROFS, touch /probe_root EROFS; ls / = ro w")
}

func c05Masks(dir, file string) []string {
	var m []string
	if dir != "" {
		m = append(m, dir)
	}
	if file != "" {
		m = append(m, file)
	}
	if len(m) == 0 {
		return []string{"/nonexistent-mask"}
	}
	return m
}

// c05Normalize maps a model line and a mountinfo line to a common form: mount point | class | ro
func c05Normalize(ln, scratch string) string {
	f := strings.Split(ln, "|")
	if len(f) != 3 {
		return ln
	}
	kind := f[1]
	switch {
	case kind == "root" || kind == "tmpfs" || kind == "emptytmpfs":
		kind = "tmpfs"
	case strings.HasPrefix(kind, "host:"):
		// the model names the bind source, mountinfo the path inside its file system: compare the part below the scratch directory
		p := strings.TrimPrefix(kind, "host:")
		if p == "/dev/null" {
			return f[0] + "|devnull|" + f[2]
		}
		if i := strings.Index(p, filepath.Base(scratch)); i >= 0 {
			p = p[i+len(filepath.Base(scratch)):]
		}
		kind = "host:" + p
	}
	return f[0] + "|" + kind + "|" + f[2]
}

// c05Findings exercises the two recorded deviations so that they are reported as known findings (and any change is seen)
func c05Findings(res *Result, sc *c05Scratch) {
	// (a) masks need /dev/null inside the container: without it MaskPaths are silently skipped
	b := mount.NewBuilder().WithBind(filepath.Join(sc.dir, "rodir"), "ro", true)
	env, err := newEnv(container.Builder{Mounts: b.Mounts, WorkDir: "/", MaskPaths: []string{"/ro/sub", "/ro/a"}})
	if err == nil {
		r, out := env.runProbe(RunSpec{Script: "ls /ro/sub; readfile /ro/a; exit 0"}, false)
		env.Close()
		res.Case("finding mask-needs-dev-null", true, "finding")
		if r.Status == runner.StatusNormal && (strings.Contains(out, "ls /ro/sub = 1: b") || strings.Contains(out, "content-of-a")) {
			res.Mismatch(Mismatch{Kind: "oracle", What: "MaskPaths are silently not applied when /dev/null is not present inside the container (bind of /dev/null fails ENOENT, read as 'nothing to mask')", Input: "container {bind rodir->ro (ro)} MaskPaths=[/ro/sub /ro/a], no dev/null in the table", Impl: strings.ReplaceAll(out, "\n", " | "), Model: "masked: ls = 0:, readfile = 0", Oracle: "violates", Key: "mask-needs-dev-null"})
		}
	}
	// (b) a read-only recursive bind whose source carries a writable submount keeps it writable
	sub := filepath.Join(sc.dir, "rodir", "sub")
	if err := syscallMount("tmpfs", sub, "tmpfs", 0, "size=1m"); err == nil {
		defer syscallUnmount(sub)
		mounts, _ := mount.NewBuilder().WithBind(filepath.Join(sc.dir, "rodir"), "ro", true).Build()
		root, _ := os.MkdirTemp("", "verif-c05-root-")
		r, out := runUnshareProbe(RunSpec{Script: "touch /ro/x; touch /ro/sub/x; exit 0", WorkDir: "/"}, root, mounts)
		os.RemoveAll(root)
		res.Case("finding ro-rbind-rw-submount", true, "finding")
		if r.Status == runner.StatusNormal && strings.Contains(out, "touch /ro/sub/x = 0") {
			res.Mismatch(Mismatch{Kind: "oracle", What: "read-only recursive bind: a separately mounted submount of the source stays writable inside the sandbox (the remount only marks the top mount read-only)", Input: "raw {bind rodir->ro (ro)} with a tmpfs mounted on rodir/sub on the host", Impl: strings.ReplaceAll(out, "\n", " | "), Model: "touch /ro/sub/x fails EROFS", Oracle: "violates", Key: "ro-rbind-rw-submount"})
		}
	}
}

func syscallMount(src, tgt, fs string, flags uintptr, data string) error {
	return syscall.Mount(src, tgt, fs, flags, data)
}
func syscallUnmount(tgt string) error { return syscall.Unmount(tgt, syscall.MNT_DETACH) }

// c05Propagation: the host mounts something below a SHARED bind source while the sandbox exists; the mount must not
// appear inside (both implementations make their tree private first). The harness makes its own shared tmpfs.
func c05Propagation(res *Result, sc *c05Scratch) {
	shared := filepath.Join(sc.dir, "shared")
	os.MkdirAll(shared, 0755)
	if err := syscallMount("tmpfs", shared, "tmpfs", 0, "size=1m"); err != nil {
		res.Note("propagation case skipped: %v", err)
		return
	}
	defer syscallUnmount(shared)
	if err := syscallMount("", shared, "", syscall.MS_SHARED, ""); err != nil {
		res.Note("propagation case skipped (make-shared): %v", err)
		return
	}
	os.MkdirAll(filepath.Join(shared, "sub"), 0777)
	os.WriteFile(filepath.Join(shared, "f"), []byte("x"), 0644)
	sub := filepath.Join(shared, "sub")
	for _, impl := range []string{"raw", "container"} {
		mounted := false
		sync := func(pid int) error {
			// the sandbox's mount table is complete; now the host mounts below the bind source
			if err := syscallMount("tmpfs", sub, "tmpfs", 0, "size=1m"); err == nil {
				mounted = true
			}
			return nil
		}
		script := "touch /data/sub/x; touch /data/y; exit 0"
		var r runner.Result
		var out string
		if impl == "raw" {
			root, _ := os.MkdirTemp("", "verif-c05-root-")
			mounts, _ := mount.NewBuilder().WithBind(shared, "data", true).Build()
			r, out = runUnshareProbe(RunSpec{Script: script, SyncFunc: sync, WorkDir: "/"}, root, mounts)
			os.RemoveAll(root)
		} else {
			b := mount.NewBuilder().WithBind(shared, "data", true).WithBind("/dev/null", "dev/null", false)
			env, err := newEnv(container.Builder{Mounts: b.Mounts, WorkDir: "/"})
			if err != nil {
				res.Note("propagation case: container build failed: %v", err)
				continue
			}
			r, out = env.runProbe(RunSpec{Script: script, SyncFunc: sync}, false)
			env.Close()
		}
		_, statErr := os.Stat(filepath.Join(sub, "x"))
		if mounted {
			syscallUnmount(sub)
		}
		res.Case("propagation "+impl, true, "propagation")
		if !mounted {
			res.Note("propagation case %s: the host-side mount could not be made", impl)
			continue
		}
		if r.Status != runner.StatusNormal || strings.Contains(out, "touch /data/sub/x = 0") || statErr == nil {
			res.Mismatch(Mismatch{Kind: "oracle", What: "a mount the host makes below a shared bind source after the sandbox was built appears inside it, writable under a read-only bind (C05_namespace: private namespace)", Input: impl + " {bind <shared tmpfs> -> data (ro)}; host mounts tmpfs on <shared>/sub at the sync point", Impl: fmt.Sprintf("%v %s host file created=%v", r.Status, strings.ReplaceAll(strings.TrimSpace(out), "\n", " | "), statErr == nil), Model: "touch /data/sub/x = -30 (EROFS)", Oracle: "violates"})
		}
	}
}

// c05Planted: "for all file-system states a previous program may have left": a table binds a persistent writable
// host directory and mounts a second entry at a path inside it. Before the sandbox is built that path holds what a
// previous program could have put there — nothing, a file, a directory, a FIFO, a symbolic link to an absolute host
// path, a relative or dangling link. Either the sandbox is refused, or the program's namespace has the configured
// mount at that path with its declared read-only bit and the host object the link names is untouched.
func c05Planted(res *Result, sc *c05Scratch, rng *Rng, tier string) {
	p := func(x string) string { return filepath.Join(sc.dir, x) }
	victim := p("secret/VICTIM")
	type ent struct {
		name string
		e    c05Entry
	}
	ents := []ent{
		{"ro file bind", c05Entry{kind: "b", src: p("rofile"), tgt: "rw/conf/cfg", ro: true, isFile: true}},
		{"rw file bind", c05Entry{kind: "b", src: p("rwfile"), tgt: "rw/conf/cfg", isFile: true}},
		{"ro dir bind", c05Entry{kind: "b", src: p("rodir2"), tgt: "rw/conf/cfg", ro: true}},
		{"tmpfs", c05Entry{kind: "t", tgt: "rw/conf/cfg"}},
	}
	plants := []string{"nothing", "file", "dir", "fifo", "link-abs-file", "link-abs-dir", "link-rel", "link-dangling", "parent-link"}
	for _, impl := range []string{"raw", "container"} {
		for _, en := range ents {
			for _, plant := range plants {
				if tier != "thorough" && !rng.Chance(60) && plant != "link-abs-file" && plant != "link-abs-dir" {
					continue
				}
				os.RemoveAll(p("rwdir/conf"))
				os.RemoveAll(p("rwdir/elsewhere"))
				os.MkdirAll(p("rwdir/conf"), 0777)
				os.WriteFile(victim, []byte("victim"), 0666)
				os.MkdirAll(p("secret/vdir"), 0777)
				at := p("rwdir/conf/cfg")
				switch plant {
				case "file":
					os.WriteFile(at, []byte("old"), 0666)
				case "dir":
					os.Mkdir(at, 0777)
				case "fifo":
					syscall.Mkfifo(at, 0666)
				case "link-abs-file":
					os.Symlink(victim, at)
				case "link-abs-dir":
					os.Symlink(p("secret/vdir"), at)
				case "link-rel":
					os.WriteFile(p("rwdir/conf/other"), []byte("other"), 0666)
					os.Symlink("other", at)
				case "link-dangling":
					os.Symlink("/nonexistent/x", at)
				case "parent-link":
					// the directory above the mount point was replaced by a link to a host directory outside the bind
					os.RemoveAll(p("rwdir/conf"))
					os.Symlink(p("secret/vdir"), p("rwdir/conf"))
				}
				es := []c05Entry{{kind: "b", src: p("rwdir"), tgt: "rw"}, en.e}
				if impl == "container" {
					es = append(es, c05Entry{kind: "b", src: "/dev/null", tgt: "dev/null", isFile: true})
				}
				key := fmt.Sprintf("planted %s: [bind rwdir->rw, %s at rw/conf/cfg] with %s at the mount point", impl, en.name, plant)
				script := "writefile /rw/conf/cfg planted-write; touch /rw/conf/cfg/probe_new; exit 0"
				var info []string
				sync := func(pid int) error {
					info, _ = c05MountInfo(pid)
					return nil
				}
				var r runner.Result
				var out string
				built := true
				if impl == "raw" {
					root, _ := os.MkdirTemp("", "verif-c05-root-")
					mounts, err := c05Builder(es).Build()
					if err != nil {
						fatal("build mounts: %v", err)
					}
					r, out = runUnshareProbe(RunSpec{Script: script, SyncFunc: sync, WorkDir: "/"}, root, mounts)
					os.RemoveAll(root)
					if r.Status != runner.StatusNormal {
						built = false
					}
				} else {
					env, err := newEnv(container.Builder{Mounts: c05Builder(es).Mounts, WorkDir: "/"})
					if err != nil {
						built = false
					} else {
						r, out = env.runProbe(RunSpec{Script: script, SyncFunc: sync}, false)
						env.Close()
						if r.Status != runner.StatusNormal {
							built = false
						}
					}
				}
				res.Case(key, true, map[bool]string{true: "planted-built", false: "planted-refused"}[built])
				// the two recorded deviations (KNOWN_FINDINGS.txt): the raw in-child sequence follows any link at or above a
				// mount point; the in-container sequence checks a file mount point by lstat, but follows a link to a directory
				// at a directory/tmpfs mount point and a link above any mount point. Everything else is a violation.
				kf := ""
				isLink := strings.HasPrefix(plant, "link-") || plant == "parent-link"
				switch {
				case impl == "raw" && isLink:
					kf = "mount-point-link-raw"
				case impl == "container" && (plant == "parent-link" || (plant == "link-abs-dir" && !en.e.isFile)):
					kf = "mount-point-link-container"
				}
				if b, _ := os.ReadFile(victim); string(b) != "victim" {
					res.Mismatch(Mismatch{Kind: "oracle", What: "a host file outside every bind source was written through a link planted at a mount point (C05_namespace)", Input: key, Impl: string(b), Oracle: "violates", Key: kf})
				}
				if l, _ := os.ReadDir(p("secret/vdir")); len(l) != 0 {
					res.Mismatch(Mismatch{Kind: "oracle", What: "a host directory outside every bind source received an entry through a link planted at a mount point (C05_namespace)", Input: key, Impl: fmt.Sprint(len(l), " entries"), Oracle: "violates", Key: kf})
					os.RemoveAll(p("secret/vdir"))
				}
				if !built {
					continue // refused: nothing runs, the property holds
				}
				// the sandbox came up: the configured mount must be there, with its read-only bit
				found := ""
				for _, ln := range info {
					f := strings.Split(ln, "|")
					if len(f) == 3 && f[0] == "/rw/conf/cfg" {
						found = f[2]
					}
				}
				wantRo := map[bool]string{true: "ro", false: "rw"}[en.e.ro]
				if found != wantRo {
					res.Mismatch(Mismatch{Kind: "oracle", What: "the sandbox was built but the configured mount is missing from the program's namespace or has the wrong read-only bit (C05_namespace: exactly the configured entries)", Input: key, Impl: "mountinfo: " + strings.Join(info, ";"), Model: "/rw/conf/cfg mounted " + wantRo, Oracle: "violates", Key: kf})
				}
				if en.e.ro {
					for _, ln := range strings.Split(out, "\n") {
						if (strings.HasPrefix(ln, "writefile /rw/conf/cfg = ") || strings.HasPrefix(ln, "touch /rw/conf/cfg/probe_new = ")) && !strings.Contains(ln, "= -") {
							res.Mismatch(Mismatch{Kind: "oracle", What: "a write succeeded at a mount point declared read-only (C05_writable_iff)", Input: key, Impl: ln, Oracle: "violates"})
						}
					}
				}
			}
		}
	}
	os.RemoveAll(p("rwdir/conf"))
	os.RemoveAll(p("secret/vdir"))
	os.Remove(victim)
	os.WriteFile(p("rofile"), []byte("content-of-rofile"), 0666)
	os.WriteFile(p("rwfile"), []byte("content-of-rwfile"), 0666)
}

// c05SeveralConfigurations: an application prepares several sandbox configurations before it uses any of them (all
// derived from the library's default root file system, or from an empty builder): each sandbox must get the table its own
// builder calls declared, whatever was declared for the others in between.
func c05SeveralConfigurations(res *Result, sc *c05Scratch, rng *Rng, tier string) {
	p := func(x string) string { return filepath.Join(sc.dir, x) }
	n := 4
	if tier == "thorough" {
		n = 40
	}
	for it := 0; it < n; it++ {
		base := func() *mount.Builder {
			if it%2 == 0 {
				return mount.NewDefaultBuilder()
			}
			return mount.NewBuilder().WithBind("/usr", "usr", true)
		}
		// three configurations that differ in what they put at /w and /data, prepared one after the other
		type cfg struct {
			name string
			b    *mount.Builder
			want map[string]string // mount point -> "tmpfs|rw" / "host|ro" / "host|rw"
		}
		mk := []func() cfg{
			func() cfg {
				return cfg{"tmpfs at w", base().WithTmpfs("w", "size=4m"), map[string]string{"/w": "tmpfs|rw"}}
			},
			func() cfg {
				return cfg{"writable host directory at w", base().WithBind(p("rwdir"), "w", false), map[string]string{"/w": "host|rw"}}
			},
			func() cfg {
				return cfg{"tmpfs at w, read-only host directory at data", base().WithTmpfs("w", "size=4m").WithBind(p("rodir"), "data", true), map[string]string{"/w": "tmpfs|rw", "/data": "host|ro"}}
			},
			func() cfg {
				return cfg{"read-only host directory at w", base().WithBind(p("rodir2"), "w", true), map[string]string{"/w": "host|ro"}}
			},
		}
		// a random order of preparation
		for i := len(mk) - 1; i > 0; i-- {
			j := rng.Intn(i + 1)
			mk[i], mk[j] = mk[j], mk[i]
		}
		var cfgs []cfg
		for _, f := range mk {
			cfgs = append(cfgs, f())
		}
		var order []string
		for _, c := range cfgs {
			order = append(order, c.name)
		}
		for ci, c := range cfgs {
			for _, impl := range []string{"raw", "container"} {
				if tier != "thorough" && (ci+it)%2 == 0 && impl == "raw" {
					continue
				}
				b := &mount.Builder{Mounts: append([]mount.Mount{}, c.b.Mounts...)}
				if impl == "container" {
					b = b.WithBind("/dev/null", "dev/null", false)
				}
				b = b.FilterNotExist()
				var info []string
				sync := func(pid int) error { info, _ = c05MountInfo(pid); return nil }
				var r runner.Result
				if impl == "raw" {
					root, _ := os.MkdirTemp("", "verif-c05-root-")
					mounts, err := b.Build()
					if err != nil {
						fatal("build mounts: %v", err)
					}
					r, _ = runUnshareProbe(RunSpec{Script: "touch /w/probe_new; exit 0", SyncFunc: sync, WorkDir: "/"}, root, mounts)
					os.RemoveAll(root)
				} else {
					env, err := newEnv(container.Builder{Mounts: b.Mounts, WorkDir: "/"})
					if err != nil {
						res.Mismatch(Mismatch{Kind: "oracle", What: "container with this mount table could not be built", Input: c.name, Impl: err.Error(), Oracle: "unknown"})
						continue
					}
					r, _ = env.runProbe(RunSpec{Script: "touch /w/probe_new; exit 0", SyncFunc: sync}, false)
					env.Close()
				}
				os.Remove(p("rwdir/probe_new"))
				key := fmt.Sprintf("several configurations prepared in the order %v (from %s); sandbox %q run by %s", order, map[bool]string{true: "NewDefaultBuilder", false: "NewBuilder"}[it%2 == 0], c.name, impl)
				res.Case(key, true, "several-configurations")
				if r.Status != runner.StatusNormal {
					res.Mismatch(Mismatch{Kind: "oracle", What: "sandboxed probe did not run normally", Input: key, Impl: fmt.Sprintf("%v %s", r.Status, r.Error), Oracle: "unknown"})
					continue
				}
				got := map[string]string{}
				for _, ln := range info {
					f := strings.Split(ln, "|")
					if len(f) == 3 {
						k := f[1]
						if strings.HasPrefix(k, "host:") {
							k = "host"
						}
						got[f[0]] = k + "|" + f[2]
					}
				}
				for mp, w := range c.want {
					if got[mp] != w {
						res.Mismatch(Mismatch{Kind: "oracle", What: "the sandbox does not have the mount its own configuration declared (another configuration prepared in the same process shows through) (C05_namespace: exactly the configured entries)", Input: key, Impl: fmt.Sprintf("%s is %q; mountinfo: %s", mp, got[mp], strings.Join(info, ";")), Model: mp + " is " + w, Oracle: "violates"})
					}
				}
				for mp := range got {
					if (mp == "/w" || mp == "/data") && c.want[mp] == "" {
						res.Mismatch(Mismatch{Kind: "oracle", What: "the sandbox has a mount its configuration did not declare (C05_namespace)", Input: key, Impl: mp + " is " + got[mp], Oracle: "violates"})
					}
				}
			}
		}
	}
}
