package main

import (
	"context"
	"fmt"
	"os"
	"path/filepath"
	"regexp"
	"runtime"
	"sort"
	"strings"
	"sync"
	"sync/atomic"
	"syscall"
	"time"

	"github.com/criyle/go-sandbox/container"
	"github.com/criyle/go-sandbox/pkg/mount"
	"github.com/criyle/go-sandbox/ptracer"
	"github.com/criyle/go-sandbox/runner"
	"github.com/criyle/go-sandbox/runner/ptrace"
)

func init() { props["C17"] = runC17 }

type c17Handler struct {
	ban     bool
	own     string // the only file of the scratch directory this run opens
	scratch string
	foreign *int32 // paths of the scratch directory other than `own` presented to this run's handler
}

func (h c17Handler) CheckRead(p string) ptracer.TraceAction {
	if h.scratch != "" && strings.HasPrefix(p, h.scratch) && p != h.own {
		atomic.AddInt32(h.foreign, 1)
	}
	return ptracer.TraceAllow
}
func (h c17Handler) CheckWrite(string) ptracer.TraceAction {
	if h.ban {
		return ptracer.TraceBan
	}
	return ptracer.TraceAllow
}
func (h c17Handler) CheckStat(string) ptracer.TraceAction    { return ptracer.TraceAllow }
func (h c17Handler) CheckSyscall(string) ptracer.TraceAction { return ptracer.TraceAllow }

var c17FdRe = regexp.MustCompile(`(\d+):(\d+\.\d+):(\d)`)

// c17Fds canonicalises a "fds ..." report: the table must be 0:/dev/null 1:own 2:own (own = one pipe, the same on 1 and 2)
// and returns the identity of "own" so that concurrent runs can be checked for sharing.
func c17Fds(out string, devnull string) (canon string, own string) {
	for _, ln := range strings.Split(out, "\n") {
		if !strings.HasPrefix(ln, "fds") {
			continue
		}
		m := c17FdRe.FindAllStringSubmatch(ln, -1)
		var parts []string
		for _, x := range m {
			id := x[2]
			switch {
			case id == devnull:
				id = "devnull"
			case x[1] == "1":
				own = x[2]
				id = "own"
			case x[2] == own:
				id = "own"
			default:
				id = "FOREIGN(" + x[2] + ")"
			}
			parts = append(parts, x[1]+":"+id+":"+x[3])
		}
		return strings.Join(parts, " "), own
	}
	return "no-fd-report", ""
}

type c17Job struct {
	kind string // ptrace unshare container shared-exec shared-open shared-ping
	i    int
	env  *Env
	tmp  string
}

type c17Result struct {
	canon string
	own   string // identity of the run's stdout pipe as the program saw it
}

var c17PidRe = regexp.MustCompile(`pid (\d+) ppid (\d+)`)

func (j c17Job) run(devnull string) c17Result {
	code := 10 + j.i%40
	tag := fmt.Sprintf("tag-%s-%d", j.kind, j.i)
	switch j.kind {
	case "ptrace":
		dir := filepath.Join(j.tmp, fmt.Sprintf("p%d", j.i))
		os.Remove(dir)
		// the run opens its own file many times: its handler must be asked about that path and no other run's
		ownFile := filepath.Join(j.tmp, fmt.Sprintf("own-%d-data", j.i))
		os.WriteFile(ownFile, []byte("x"), 0644)
		opens := strings.Repeat(fmt.Sprintf("sys 257 fdcwd64 s:%s 0;", ownFile), 120)
		script := fmt.Sprintf("report fds; print %s; %s sys 258 fdcwd64 s:%s 493; exit %d", tag, opens, dir, code)
		var foreign int32
		r, out := runPtraceProbe(RunSpec{Script: script, Filter: tracingFilter(), Handler: c17Handler{ban: j.i%2 == 1, own: ownFile, scratch: j.tmp, foreign: &foreign}})
		fds, own := c17Fds(out, devnull)
		_, statErr := os.Stat(dir)
		os.Remove(dir)
		// the 120 opens return fresh descriptor numbers: keep only how many succeeded
		okOpens := 0
		var rest []string
		for _, ln := range strings.Split(out, "\n") {
			if strings.HasPrefix(ln, "sys 257 = ") {
				if !strings.HasPrefix(ln, "sys 257 = -1") {
					okOpens++
				}
				continue
			}
			rest = append(rest, ln)
		}
		return c17Result{fmt.Sprintf("%v/%d err=%q fds[%s] %s made=%v opens=%d foreign-paths=%d", r.Status, r.ExitStatus, r.Error, fds, c17Lines(strings.Join(rest, "\n")), statErr == nil, okOpens, foreign), own}
	case "fresh-program":
		// the caller writes the program file and runs it by path under the tracing runner (with its filter), three times:
		// a child that another goroutine forks in between holds a copy of the write descriptor until it execs
		// (ETXTBSY for a moment); run alone or next to others, the result must be the same
		var outs []string
		for k := 0; k < 3; k++ {
			path := filepath.Join(j.tmp, fmt.Sprintf("fresh-%d-%d", j.i, k))
			data, _ := os.ReadFile(probePath())
			f, err := os.OpenFile(path, os.O_CREATE|os.O_WRONLY|os.O_TRUNC, 0755)
			if err != nil {
				return c17Result{"cannot write the program: " + err.Error(), ""}
			}
			for off := 0; off < len(data); off += 1 << 16 {
				f.Write(data[off:min(off+1<<16, len(data))])
				runtime.Gosched()
			}
			f.Close()
			ctx, cancel := context.WithTimeout(context.Background(), 20*time.Second)
			devnull, _ := os.Open(os.DevNull)
			out := newCapture()
			r := (&ptrace.Runner{Args: []string{path, fmt.Sprintf("print %s; exit %d", tag, code)}, Env: []string{}, Files: []uintptr{devnull.Fd(), out.w.Fd(), out.w.Fd()},
				Limit: bigLimit, Seccomp: allowAll(), Handler: allowHandler{}}).Run(ctx)
			cancel()
			devnull.Close()
			outs = append(outs, fmt.Sprintf("%v/%d err=%q out=%q", r.Status, r.ExitStatus, r.Error, out.done()))
			os.Remove(path)
		}
		return c17Result{strings.Join(outs, " | "), ""}
	case "slow-sync":
		// a launch whose caller takes its time at the synchronisation point: its child sits between fork and exec meanwhile
		script := fmt.Sprintf("print %s; exit %d", tag, code)
		r, out := runUnshareProbe(RunSpec{Script: script, SyncFunc: func(int) error { time.Sleep(25 * time.Millisecond); return nil }}, "", nil)
		return c17Result{fmt.Sprintf("%v/%d err=%q out=%q", r.Status, r.ExitStatus, r.Error, out), ""}
	case "ptrace-refused", "unshare-refused":
		// launches that their caller refuses at the synchronisation point (a failing attach to a control group, say), several
		// in a row: a failed launch of one run among healthy runs of others
		var outs []string
		for k := 0; k < 8; k++ {
			spec := RunSpec{Script: fmt.Sprintf("print %s; exit %d", tag, code), SyncFunc: func(int) error { return fmt.Errorf("refused by the caller") }}
			var r runner.Result
			var out string
			if j.kind == "ptrace-refused" {
				spec.Filter = tracingFilter()
				r, out = runPtraceProbe(spec)
			} else {
				r, out = runUnshareProbe(spec, "", nil)
			}
			outs = append(outs, fmt.Sprintf("%v/%d err=%q out=%q", r.Status, r.ExitStatus, r.Error, out))
		}
		return c17Result{strings.Join(outs, " | "), ""}
	case "unshare":
		script := fmt.Sprintf("report fds; report pid; print %s; exit %d", tag, code)
		r, out := runUnshareProbe(RunSpec{Script: script}, "", nil)
		fds, own := c17Fds(out, devnull)
		return c17Result{fmt.Sprintf("%v/%d err=%q fds[%s] %s", r.Status, r.ExitStatus, r.Error, fds, c17Lines(out)), own}
	case "container", "shared-exec":
		script := fmt.Sprintf("report fds; report pid; print %s; touch /w/f%d; ls /w; unlink /w/f%d; exit %d", tag, j.i, j.i, code)
		if j.kind == "shared-exec" {
			// several callers share this environment: /w may hold the others' files at that moment, so do not list it
			script = fmt.Sprintf("report fds; report pid; print %s; touch /w/f%d; readfile /w/f%d; unlink /w/f%d; exit %d", tag, j.i, j.i, j.i, code)
		}
		r, out := j.env.runProbe(RunSpec{Script: script}, false)
		// pids inside a pooled container grow with every exec: only the parent (the container init, 1) is fixed
		out = c17PidRe.ReplaceAllString(out, "pid * ppid $2")
		fds, own := c17Fds(out, devnull)
		return c17Result{fmt.Sprintf("%v/%d err=%q fds[%s] %s", r.Status, r.ExitStatus, r.Error, fds, c17Lines(out)), own}
	case "build":
		// a whole environment life cycle inside the round: its control socket pair is created while others fork
		e, err := newEnv(container.Builder{Mounts: mount.NewBuilder().WithTmpfs("w", "size=8m").WithTmpfs("tmp", "size=8m").Mounts, WorkDir: "/w"})
		if err != nil {
			return c17Result{"build failed: " + err.Error(), ""}
		}
		defer e.Close()
		script := fmt.Sprintf("report fds; print %s; exit %d", tag, code)
		r, out := e.runProbe(RunSpec{Script: script}, false)
		fds, own := c17Fds(out, devnull)
		return c17Result{fmt.Sprintf("%v/%d err=%q fds[%s] %s", r.Status, r.ExitStatus, r.Error, fds, c17Lines(out)), own}
	case "shared-open":
		name := fmt.Sprintf("/w/o%d", j.i)
		res, err := j.env.Open([]container.OpenCmd{{Path: name, Flag: os.O_CREATE | os.O_RDWR | os.O_TRUNC, Perm: 0644}})
		if err != nil || len(res) != 1 || res[0].Err != nil {
			return c17Result{fmt.Sprintf("open failed: %v %v", err, res), ""}
		}
		f := res[0].File
		f.WriteString(tag)
		f.Seek(0, 0)
		b := make([]byte, 64)
		n, _ := f.Read(b)
		var st syscall.Stat_t
		syscall.Fstat(int(f.Fd()), &st)
		f.Close()
		derr := j.env.Delete(name)
		return c17Result{fmt.Sprintf("open ok content=%q size=%d delete=%v", string(b[:n]), st.Size, derr), ""}
	case "shared-ping":
		return c17Result{fmt.Sprintf("ping=%v", j.env.Ping()), ""}
	}
	return c17Result{"?", ""}
}

// c17Lines keeps the program's own lines with pids masked (pid inside a pid namespace is kept: it must be 1)
func c17Lines(out string) string {
	var keep []string
	for _, ln := range strings.Split(out, "\n") {
		if ln == "" || strings.HasPrefix(ln, "fds") {
			continue
		}
		keep = append(keep, ln)
	}
	return strings.Join(keep, " | ")
}

func runC17(res *Result, d *Driver, tier string, seed uint64) {
	res.Rule = "each workload — a ptrace run (file-tracing filter, handler that bans or allows by run), a namespace run (new pid/user/mount namespaces), a container run in its own environment, and Execve / Open+Delete / Ping calls of several callers on ONE shared environment — is first run alone; then rounds of 16 goroutines run a random mix concurrently and every result (status, exit code, error text, the program's own report of its descriptor table, pid, output, side effects) must equal the solo result, the program's descriptors 1/2 must be its own pipe (no two concurrent programs may see the same one, none may see a foreign descriptor). a call queued on a shared environment while the previous run (with a 1 GiB descendant) is being torn down must get its own result. thorough tier also runs the rounds under the Go race detector. non-trivial = every concurrent run; distinct = (round, slot)."
	rng := NewRng(seed, "C17", 1)
	var st syscall.Stat_t
	syscall.Stat("/dev/null", &st)
	devnull := fmt.Sprintf("%d.%d", st.Dev, st.Ino)
	tmp, _ := os.MkdirTemp("", "verif-c17-")
	defer os.RemoveAll(tmp)
	mk := func() *Env {
		e, err := newEnv(container.Builder{Mounts: mount.NewBuilder().WithTmpfs("w", "size=8m").WithTmpfs("tmp", "size=8m").Mounts, WorkDir: "/w"})
		if err != nil {
			fatal("container: %v", err)
		}
		return e
	}
	nEnv := 4
	envs := make([]*Env, nEnv)
	for i := range envs {
		envs[i] = mk()
		defer envs[i].Close()
	}
	shared := mk()
	defer shared.Close()
	rounds := 12
	if tier == "thorough" {
		rounds = 400
	}
	kinds := []string{"ptrace", "ptrace", "unshare", "unshare", "container", "shared-exec", "shared-open", "shared-ping", "build", "build", "ptrace-refused", "unshare-refused"}
	solo := map[string]string{}
	soloOf := func(j c17Job) string {
		key := fmt.Sprintf("%s-%d", j.kind, j.i)
		if v, ok := solo[key]; ok {
			return v
		}
		r := j.run(devnull)
		// a solo run must be reproducible, otherwise it is no reference
		r2 := j.run(devnull)
		if r.canon != r2.canon && len(res.Notes) < 3 {
			res.Note("solo run not reproducible: %s: %q vs %q", key, r.canon, r2.canon)
		}
		solo[key] = r.canon
		return r.canon
	}
	for round := 0; round < rounds; round++ {
		jobs := make([]c17Job, 16)
		envUse := 0
		for s := range jobs {
			k := kinds[rng.Intn(len(kinds))]
			j := c17Job{kind: k, i: s, tmp: tmp}
			switch k {
			case "container":
				if envUse >= nEnv {
					j.kind = "unshare"
				} else {
					j.env = envs[envUse]
					envUse++
				}
			case "shared-exec", "shared-open", "shared-ping":
				j.env = shared
			}
			jobs[s] = j
		}
		want := make([]string, len(jobs))
		for s, j := range jobs {
			want[s] = soloOf(j)
		}
		got := make([]c17Result, len(jobs))
		var wg sync.WaitGroup
		start := make(chan struct{})
		for s := range jobs {
			wg.Add(1)
			go func(s int) {
				defer wg.Done()
				<-start
				got[s] = jobs[s].run(devnull)
			}(s)
		}
		close(start)
		finished := make(chan struct{})
		go func() { wg.Wait(); close(finished) }()
		select {
		case <-finished:
		case <-time.After(120 * time.Second):
			// a run that never returns is itself a difference from the run alone; stop here (the stuck goroutines are abandoned)
			for s, j := range jobs {
				if got[s].canon == "" {
					res.Mismatch(Mismatch{Kind: "oracle", What: "a run in a 16-way concurrent round never returned (alone it does) (" + j.kind + ")", Input: fmt.Sprintf("round %d slot %d of %v", round, s, c17Kinds(jobs)), Impl: "no result after 120 s", Model: want[s], Oracle: "violates"})
				}
			}
			return
		}
		owns := map[string][]int{}
		for s, j := range jobs {
			res.Case(fmt.Sprintf("r%d-s%d-%s", round, s, j.kind), true, j.kind)
			if got[s].canon != want[s] {
				res.Mismatch(Mismatch{Kind: "oracle", What: "a run in a 16-way concurrent round differs from the same run alone (" + j.kind + ")", Input: fmt.Sprintf("round %d slot %d of %v", round, s, c17Kinds(jobs)), Impl: got[s].canon, Model: want[s], Oracle: "violates"})
			}
			if got[s].own != "" {
				owns[got[s].own] = append(owns[got[s].own], s)
			}
		}
		for id, ss := range owns {
			if len(ss) > 1 {
				res.Mismatch(Mismatch{Kind: "oracle", What: "two concurrent programs see the same pipe as their standard output", Input: fmt.Sprintf("round %d slots %v", round, ss), Impl: id, Oracle: "violates"})
			}
		}
	}
	var ks []string
	for k, v := range solo {
		ks = append(ks, k+" => "+v)
	}
	sort.Strings(ks)
	if len(ks) > 0 {
		res.Sample(ks[0])
	}
	// an environment built on an OS thread on which a ptrace run is made afterwards, by a goroutine that then ends: the
	// environment (whose init asks to die with the thread that forked it) must still serve
	{
		nb := 3
		if tier == "thorough" {
			nb = 30
		}
		for i := 0; i < nb; i++ {
			var env *Env
			var rp runner.Result
			done := make(chan struct{})
			go func() {
				defer close(done)
				runtime.LockOSThread()
				defer runtime.UnlockOSThread() // balanced: the thread goes back to the scheduler when this goroutine ends
				e, err := newEnv(container.Builder{})
				if err != nil {
					return
				}
				env = e
				rp, _ = runPtraceProbe(RunSpec{Script: "exit 7", Filter: tracingFilter()})
			}()
			<-done
			if env == nil {
				continue
			}
			runtime.GC()
			time.Sleep(20 * time.Millisecond)
			r2, _ := env.runProbe(RunSpec{Script: "exit 7"}, false)
			res.Case("env-and-ptrace-on-one-thread "+itoa(i), true, "thread-shared")
			res.Traces++
			if rp.Status != runner.StatusNonzeroExitStatus || rp.ExitStatus != 7 || r2.Status != runner.StatusNonzeroExitStatus || r2.ExitStatus != 7 {
				res.Mismatch(Mismatch{Kind: "oracle", What: "a ptrace run on the thread that built a container environment does not take the environment down with it (C17: no run receives another's signals)", Input: "goroutine (thread pinned, balanced Lock/Unlock): build environment; ptrace run of `exit 7`; goroutine ends; then `exit 7` in the environment",
					Impl: fmt.Sprintf("ptrace run: %v %d %q; environment afterwards: %v %d %q", rp.Status, rp.ExitStatus, rp.Error, r2.Status, r2.ExitStatus, r2.Error), Model: "Nonzero Exit Status 7 twice", Oracle: "violates"})
			}
			env.Close()
		}
	}
	// two callers on ONE environment, the second call issued while the first run is being torn down (its descendant is
	// large and slow to die): the second run's result is its own
	{
		nb := 3
		if tier == "thorough" {
			nb = 40
		}
		env, err := newEnv(container.Builder{})
		if err != nil {
			fatal("container: %v", err)
		}
		for i := 0; i < nb; i++ {
			started := make(chan struct{})
			var r1, r2 runner.Result
			var wg sync.WaitGroup
			wg.Add(2)
			go func() {
				defer wg.Done()
				r1, _ = env.runProbe(RunSpec{Script: "fork;mem 1024;sleep 30000;endfork;sleep 700;exit 0", Timeout: 60 * time.Second, SyncFunc: func(int) error { close(started); return nil }}, false)
			}()
			go func() {
				defer wg.Done()
				<-started
				r2, _ = env.runProbe(RunSpec{Script: "exit 7", Timeout: 60 * time.Second}, false)
			}()
			wg.Wait()
			res.Case("teardown-overlap "+itoa(i), true, "shared-teardown-overlap")
			res.Traces++
			if r1.Status != runner.StatusNormal || r2.Status != runner.StatusNonzeroExitStatus || r2.ExitStatus != 7 {
				res.Mismatch(Mismatch{Kind: "oracle", What: "a call on a shared environment issued while the previous run is torn down gets its own result (C17)", Input: "caller 1: `fork;mem 1024;sleep 30000;endfork;sleep 700;exit 0`; caller 2 (queued as soon as caller 1's program started): `exit 7`",
					Impl: fmt.Sprintf("caller 1: %v %d %q; caller 2: %v %d %q", r1.Status, r1.ExitStatus, r1.Error, r2.Status, r2.ExitStatus, r2.Error), Model: "caller 1: Normal; caller 2: Nonzero Exit Status 7", Oracle: "violates"})
				env.Close()
				if env, err = newEnv(container.Builder{}); err != nil {
					fatal("container: %v", err)
				}
			}
		}
		env.Close()
	}
	// descriptors of the harness process itself must not grow with the rounds (a leaked descriptor is another run's descriptor tomorrow)
	ents, _ := os.ReadDir("/proc/self/fd")
	res.Note("descriptors open in the host process after %d rounds: %d", rounds, len(ents))
	if len(ents) > 200 {
		res.Mismatch(Mismatch{Kind: "oracle", What: "host process accumulated descriptors over concurrent rounds", Impl: fmt.Sprint(len(ents)), Oracle: "unknown"})
	}
}

func c17Kinds(js []c17Job) []string {
	var o []string
	for _, j := range js {
		o = append(o, j.kind)
	}
	return o
}
