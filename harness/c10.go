package main

import (
	"bufio"
	"context"
	"errors"
	"fmt"
	"io"
	"os"
	"strings"
	"sync"
	"time"

	"github.com/criyle/go-sandbox/container"
	"github.com/criyle/go-sandbox/pkg/rlimit"
	"github.com/criyle/go-sandbox/runner"
	"syscall"
)

func init() { props["C10"] = runC10 }

// contLog collects the "VT ..." lines the container init writes on its stderr
type contLog struct {
	mu    sync.Mutex
	lines []string
	other []string
	w     *io.PipeWriter
}

func newContLog() *contLog {
	pr, pw := io.Pipe()
	c := &contLog{w: pw}
	go func() {
		sc := bufio.NewScanner(pr)
		sc.Buffer(make([]byte, 1<<20), 1<<20)
		for sc.Scan() {
			ln := sc.Text()
			c.mu.Lock()
			if strings.HasPrefix(ln, "VT ") {
				c.lines = append(c.lines, strings.TrimPrefix(ln, "VT "))
			} else {
				c.other = append(c.other, ln)
			}
			c.mu.Unlock()
		}
	}()
	return c
}

// takeUntilPing waits until the delimiter ping has been received and answered by the container and returns
// what came before it, as two sequences (received commands, sent replies); each sequence is written by one
// goroutine, so its order is reliable (the relative order of the two is not).
func (c *contLog) takeUntilPing() (recv, sent []string, ok bool) {
	deadline := time.Now().Add(30 * time.Second)
	for time.Now().Before(deadline) {
		c.mu.Lock()
		var r, s []string
		for _, l := range c.lines {
			if strings.HasPrefix(l, "c<") {
				r = append(r, l)
			} else {
				s = append(s, l)
			}
		}
		n := len(c.lines)
		if len(r) > 0 && r[len(r)-1] == "c< ping" && len(s) > 0 && s[len(s)-1] == "c> reply" {
			// the ping has been answered (its reply is logged before it is sent); let the pipe reader settle
			c.mu.Unlock()
			time.Sleep(2 * time.Millisecond)
			c.mu.Lock()
			if len(c.lines) == n {
				c.lines = nil
				c.mu.Unlock()
				return r[:len(r)-1], s[:len(s)-1], true
			}
		}
		c.mu.Unlock()
		time.Sleep(time.Millisecond)
	}
	return nil, nil, false
}

// splitHost separates the host log (taken after the delimiter ping returned) into the operation's sent and
// received sequences, dropping the delimiter's own ping/reply.
func splitHost(log []string) (sent, recv []string, ok bool) {
	for _, l := range log {
		if strings.HasPrefix(l, "h>") {
			sent = append(sent, l)
		} else {
			recv = append(recv, l)
		}
	}
	if len(sent) == 0 || sent[len(sent)-1] != "h> ping" || len(recv) == 0 || recv[len(recv)-1] != "h< reply" {
		return nil, nil, false
	}
	return sent[:len(sent)-1], recv[:len(recv)-1], true
}

func (c *contLog) reset() {
	time.Sleep(30 * time.Millisecond)
	c.mu.Lock()
	c.lines = nil
	c.mu.Unlock()
}

func compact(l []string) string {
	var o []string
	for _, s := range l {
		o = append(o, strings.ReplaceAll(s, " ", ""))
	}
	return jl(o)
}

func runC10(res *Result, d *Driver, tier string, seed uint64) {
	res.Rule = "random histories of environment operations on a real container (Ping, Open batches with failing items, Delete of existing/missing paths, Symlink, Reset, Execve with every outcome class realised by real inputs: unknown program, empty argv, nil-ish parameters, rlimit soft>hard, failing callback before/after exec, ENOEXEC file and missing interpreter after the ack, running programs, cancelled context at random delays and with the host/container delay points armed); " +
		"after every operation the message-kind logs of BOTH endpoints (verif hooks) must be the observation of some run of the protocol model for that operation and outcome (trace inclusion, driver), the API result class must match, and a Ping must succeed. non-trivial = Execve or a failing operation; distinct = (history prefix, op)."
	rng := NewRng(seed, "C10", 1)
	nHist := 6
	histLen := 25
	if tier == "thorough" {
		nHist = 150
		histLen = 60
	}
	for h := 0; h < nHist; h++ {
		cl := newContLog()
		env, err := newEnv(container.Builder{Stderr: cl.w})
		if err != nil {
			fatal("container: %v", err)
		}
		container.VerifTakeHostLog()
		// prepare files for the after-ack failures
		rs, _ := env.Open([]container.OpenCmd{{Path: "/w/enoexec", Flag: os.O_CREATE | os.O_WRONLY, Perm: 0755}, {Path: "/w/badinterp", Flag: os.O_CREATE | os.O_WRONLY, Perm: 0755}})
		if len(rs) == 2 && rs[0].File != nil && rs[1].File != nil {
			rs[0].File.WriteString("not an executable\n")
			rs[1].File.WriteString("#!/no/such/interpreter\n")
			rs[0].File.Close()
			rs[1].File.Close()
		}
		env.Ping()
		cl.reset()
		container.VerifTakeHostLog()
		dead := false
		for step := 0; step < histLen && !dead; step++ {
			var line, desc string
			apiOk := false
			switch k := rng.Intn(10); {
			case k == 0:
				err := env.Ping()
				apiOk = err == nil
				line, desc = "simple ping 0", "Ping"
			case k == 1:
				n := 1 + rng.Intn(4)
				var cmds []container.OpenCmd
				for i := 0; i < n; i++ {
					p := "/w/f" + itoa(rng.Intn(5))
					if rng.Chance(30) {
						p = "/nonexistent/dir/x"
					}
					cmds = append(cmds, container.OpenCmd{Path: p, Flag: os.O_CREATE | os.O_RDWR, Perm: 0644})
				}
				if rng.Chance(10) {
					cmds = nil
				}
				r, err := env.Open(cmds)
				for _, x := range r {
					if x.File != nil {
						x.File.Close()
					}
				}
				apiOk = err == nil
				line, desc = "simple open "+b01(len(cmds) == 0), fmt.Sprintf("Open(%d items)", len(cmds))
			case k == 2:
				p := "/w/f" + itoa(rng.Intn(5))
				err := env.Delete(p)
				apiOk = err == nil
				line, desc = "simple delete "+b01(err != nil), "Delete "+p
			case k == 3:
				ls := []container.SymbolicLink{{LinkPath: "/w/l" + itoa(rng.Intn(3)), Target: "/w/f0"}}
				if rng.Chance(10) {
					ls = nil
				}
				_, err := env.Symlink(ls)
				apiOk = err == nil
				line, desc = "simple symlink "+b01(len(ls) == 0), "Symlink"
			case k == 4:
				err := env.Reset()
				apiOk = err == nil
				line, desc = "simple reset "+b01(err != nil), "Reset"
				if apiOk { // recreate the fixtures
					rs, _ := env.Open([]container.OpenCmd{{Path: "/w/enoexec", Flag: os.O_CREATE | os.O_WRONLY, Perm: 0755}, {Path: "/w/badinterp", Flag: os.O_CREATE | os.O_WRONLY, Perm: 0755}})
					if len(rs) == 2 && rs[0].File != nil && rs[1].File != nil {
						rs[0].File.WriteString("not an executable\n")
						rs[1].File.WriteString("#!/no/such/interpreter\n")
						rs[0].File.Close()
						rs[1].File.Close()
					}
					env.Ping()
					cl.reset()
					container.VerifTakeHostLog()
					// the reset itself was already logged and discarded with the fixtures: re-issue it for the check
					err := env.Reset()
					apiOk = err == nil
				}
			default:
				syncAfter := rng.Bool()
				outcome := []string{"reject", "failBeforeSync", "callbackFails", "failAfterAck", "runs", "runs", "runs"}[rng.Intn(7)]
				if outcome == "failAfterAck" && syncAfter {
					outcome = "failBeforeSync" // without a sync before exec the same input fails before any sync
				}
				param := container.ExecveParam{Args: []string{"/bin/true"}, Env: []string{"PATH=/bin"}, SyncAfterExec: syncAfter}
				param.SyncFunc = func(int) error { return nil }
				ctx, cancel := context.WithCancel(context.Background())
				switch outcome {
				case "reject":
					param.Args = []string{[]string{"no-such-program", "/w/enoexec-missing"}[rng.Intn(2)]}
					if param.Args[0][0] == '/' { // an absolute missing path is not looked up: it fails in exec = before sync only with syncAfter
						param.Args = []string{"no-such-program"}
					}
				case "failBeforeSync":
					switch rng.Intn(3) {
					case 0:
						param.Args = nil // empty argument list
					case 1:
						param.RLimits = []rlimit.RLimit{{Res: syscall.RLIMIT_NOFILE, Rlim: syscall.Rlimit{Cur: 100, Max: 50}}}
					default:
						if syncAfter {
							param.Args = []string{"/w/enoexec"}
						} else {
							param.RLimits = []rlimit.RLimit{{Res: syscall.RLIMIT_STACK, Rlim: syscall.Rlimit{Cur: 9, Max: 8}}}
						}
					}
				case "callbackFails":
					param.SyncFunc = func(int) error { return errors.New("refused") }
					if rng.Bool() { // the refusal must end a program that would run on by itself
						param.Args = []string{"/bin/sleep", "60"}
					}
				case "failAfterAck":
					param.Args = []string{[]string{"/w/enoexec", "/w/badinterp"}[rng.Intn(2)]}
				case "runs":
					switch rng.Intn(4) {
					case 0:
						param.Args = []string{"/bin/sleep", "30"}
						go func(d time.Duration) { time.Sleep(d); cancel() }(time.Duration(rng.Intn(30)) * time.Millisecond)
					case 1:
						param.Args = []string{"/bin/sleep", "0.01"}
						go func(d time.Duration) { time.Sleep(d); cancel() }(time.Duration(5+rng.Intn(15)) * time.Millisecond)
					case 2:
						param.Args = []string{"/bin/false"}
					}
				}
				rch := make(chan runner.Result, 1)
				go func() { rch <- env.Execve(ctx, param) }()
				var r runner.Result
				select {
				case r = <-rch:
				case <-time.After(15 * time.Second):
					res.Mismatch(Mismatch{Kind: "oracle", What: "every call returns exactly one answer: the Execve did not return (C10)", Input: fmt.Sprintf("h%d s%d Execve(%v, syncAfter=%v) class %s", h, step, param.Args, syncAfter, outcome),
						Impl: "no answer within 15 s (the class determines an answer within milliseconds: a refused or failing launch, or a program cancelled after at most 30 ms)", Oracle: "violates"})
					cancel()
					dead = true
				}
				if dead {
					break
				}
				cancel()
				apiOk = r.Status != runner.StatusRunnerError
				// the answer belongs to THIS call: a request that can run is not failed with the parameters of an earlier
				// one, and a request that must fail is not answered with the result of an earlier program
				if want := outcome == "runs"; want != apiOk {
					res.Mismatch(Mismatch{Kind: "oracle", What: "the answer of an Execve belongs to that call (C10_answer_belongs)", Input: fmt.Sprintf("h%d s%d Execve(%v, rlimits=%v, syncAfter=%v) expected class %s", h, step, param.Args, param.RLimits, syncAfter, outcome),
						Impl: fmt.Sprintf("status=%v exit=%d error=%q", r.Status, r.ExitStatus, r.Error), Oracle: "violates"})
				}
				line = fmt.Sprintf("execve %s %s", b01(syncAfter), outcome)
				desc = fmt.Sprintf("Execve(%v, syncAfter=%v, %s) -> %v %q", param.Args, syncAfter, outcome, r.Status, r.Error)
			}
			if dead {
				break
			}
			pingErr := env.Ping()
			cRecv, cSent, okp := cl.takeUntilPing()
			time.Sleep(time.Millisecond)
			hSent, hRecv, okh := splitHost(container.VerifTakeHostLog())
			okp = okp && okh
			key := fmt.Sprintf("h%d s%d %s", h, step, line)
			res.Case(key, strings.HasPrefix(line, "execve") || !apiOk, strings.Fields(line)[0]+"-"+strings.Fields(line)[len(strings.Fields(line))-1])
			res.Traces++
			if pingErr != nil {
				res.Mismatch(Mismatch{Kind: "oracle", What: "environment unusable after a request/program-caused outcome (C10_usable_after_failures)", Input: desc + " [" + line + "]", Impl: fmt.Sprintf("Ping: %v; container stderr: %v", pingErr, cl.other), Oracle: "violates"})
				dead = true
				break
			}
			if !okp {
				// the Ping succeeded: the environment is usable. Only the message logs of this step could not be collected
				// (the log pipe lags behind under load): no statement about trace inclusion for this step, and no alarm
				res.Dist["log-incomplete(step skipped)"]++
				cl.mu.Lock()
				cl.lines = nil
				cl.mu.Unlock()
				container.VerifTakeHostLog()
				continue
			}
			hs, hr, cr, cs := compact(hSent), compact(hRecv), compact(cRecv), compact(cSent)
			if strings.HasPrefix(line, "execve") { // the sync message is a plain reply carrying credentials
				hr = strings.ReplaceAll(hr, "h<reply", "h<sync")
				cs = strings.ReplaceAll(cs, "c>reply", "c>sync")
			}
			q := fmt.Sprintf("c10.explain %s %s %s %s %s %s", line, b01(apiOk), hs, hr, cr, cs)
			if ans := d.Ask(q); ans != "explained" {
				res.Mismatch(Mismatch{Kind: "differential", What: "message logs of both endpoints are not a run of the protocol model (trace inclusion)", Input: desc + " [" + q + "]", Impl: "host-sent=" + hs + " host-recv=" + hr + " cont-recv=" + cr + " cont-sent=" + cs + " apiOk=" + b01(apiOk), Model: ans})
			}
			if h == 0 && step < 2 {
				res.Sample(q)
			}
		}
		if dead { // a call may still hold the environment's lock: do not wait for it
			go env.Close()
		} else {
			env.Close()
		}
		cl.w.Close()
	}
	// ---- after the transport is lost every later call fails promptly ----
	nLoss := 4
	if tier == "thorough" {
		nLoss = 40
	}
	for i := 0; i < nLoss; i++ {
		before := childPids()
		env, err := newEnv(container.Builder{})
		if err != nil {
			fatal("container: %v", err)
		}
		how := []string{"destroy", "init-killed"}[i%2]
		if how == "destroy" {
			env.Destroy()
		} else {
			for p := range childPids() {
				if !before[p] {
					syscall.Kill(p, syscall.SIGKILL)
				}
			}
			time.Sleep(20 * time.Millisecond)
		}
		nCalls := 3 + rng.Intn(6)
		var hist []string
		for k := 0; k < nCalls; k++ {
			op := []string{"ping", "open", "delete", "reset", "symlink", "execve"}[rng.Intn(6)]
			hist = append(hist, op)
			done := make(chan string, 1)
			go func() {
				switch op {
				case "ping":
					if env.Ping() == nil {
						done <- "Ping succeeded"
						return
					}
				case "open":
					if _, err := env.Open([]container.OpenCmd{{Path: "/w/a", Flag: os.O_CREATE | os.O_RDWR, Perm: 0644}}); err == nil {
						done <- "Open succeeded"
						return
					}
				case "delete":
					if env.Delete("/w/a") == nil {
						done <- "Delete succeeded"
						return
					}
				case "reset":
					if env.Reset() == nil {
						done <- "Reset succeeded"
						return
					}
				case "symlink":
					if _, err := env.Symlink([]container.SymbolicLink{{LinkPath: "/w/l", Target: "/w/a"}}); err == nil {
						done <- "Symlink succeeded"
						return
					}
				default:
					r := env.Execve(context.Background(), container.ExecveParam{Args: []string{"/bin/true"}, Env: []string{"PATH=/bin"}})
					if r.Status != runner.StatusRunnerError {
						done <- "Execve answered " + r.Status.String()
						return
					}
				}
				done <- ""
			}()
			key := fmt.Sprintf("loss-%d %s then %s", i, how, strings.Join(hist, ","))
			res.Case(key, true, "after-loss-"+op)
			res.Traces++
			var bad string
			select {
			case bad = <-done:
			case <-time.After(10 * time.Second):
				bad = "call number " + itoa(k+1) + " (" + op + ") after the loss did not return within 10 s"
			}
			if bad != "" {
				res.Mismatch(Mismatch{Kind: "oracle", What: "after loss of the transport every later call fails promptly (C10)", Input: key, Impl: bad, Oracle: "violates"})
				break
			}
		}
		dd := make(chan struct{})
		go func() { env.Destroy(); close(dd) }()
		select {
		case <-dd:
		case <-time.After(10 * time.Second):
			res.Mismatch(Mismatch{Kind: "oracle", What: "Destroy after loss of the transport returns (C10)", Input: fmt.Sprintf("loss-%d %s then %s then Destroy", i, how, strings.Join(hist, ",")), Impl: "Destroy did not return within 10 s", Oracle: "violates"})
		}
		os.RemoveAll(env.root)
	}
	// ---- a container that answers late: its init is stopped while a Ping waits for the answer (longer than the Ping's
	// limit) and continued afterwards. Whatever the Ping returned, from then on either the environment is unusable (every
	// call fails promptly) or every call gets its own answer — an answer that arrives late must not become the answer of
	// a later call ----
	{
		reps := 1
		if tier == "thorough" {
			reps = 6
		}
		for rep := 0; rep < reps; rep++ {
			before := childPids()
			env, err := newEnv(container.Builder{})
			if err != nil {
				fatal("container: %v", err)
			}
			initPid := 0
			for p := range childPids() {
				if !before[p] {
					initPid = p
				}
			}
			stopFor := time.Duration(3200+rng.Intn(600)) * time.Millisecond
			syscall.Kill(initPid, syscall.SIGSTOP)
			go func() { time.Sleep(stopFor); syscall.Kill(initPid, syscall.SIGCONT) }()
			t0 := time.Now()
			perr := env.Ping()
			if d := stopFor + 300*time.Millisecond - time.Since(t0); d > 0 {
				time.Sleep(d)
			}
			type ans struct {
				name string
				own  bool // the call got an answer that can only be its own
				fail bool // the call failed
				what string
			}
			var got []ans
			call := func(name string, f func() (own, fail bool, what string)) {
				ch := make(chan ans, 1)
				go func() { o, fl, w := f(); ch <- ans{name, o, fl, w} }()
				select {
				case a := <-ch:
					got = append(got, a)
				case <-time.After(20 * time.Second):
					got = append(got, ans{name, false, false, "no answer within 20 s"})
				}
			}
			call("Ping", func() (bool, bool, string) { e := env.Ping(); return e == nil, e != nil, fmt.Sprint(e) })
			call("Delete(missing)", func() (bool, bool, string) {
				e := env.Delete("/w/never-there")
				// its own answer is the container's error about that path
				return e != nil && strings.Contains(e.Error(), "never-there"), e != nil && !strings.Contains(e.Error(), "never-there"), fmt.Sprint(e)
			})
			call("Open(missing)", func() (bool, bool, string) {
				rs, e := env.Open([]container.OpenCmd{{Path: "/w/none-such", Flag: os.O_RDONLY}})
				own := e == nil && len(rs) == 1 && rs[0].File == nil && rs[0].Err != nil && strings.Contains(rs[0].Err.Error(), "none-such")
				for _, r := range rs {
					if r.File != nil {
						r.File.Close()
					}
				}
				return own, e != nil, fmt.Sprint(e, " ", len(rs))
			})
			call("Execve(exit 7)", func() (bool, bool, string) {
				r, _ := env.runProbe(RunSpec{Script: "exit 7", Timeout: 15 * time.Second}, false)
				return r.Status == runner.StatusNonzeroExitStatus && r.ExitStatus == 7, r.Status == runner.StatusRunnerError, fmt.Sprintf("%v/%d %s", r.Status, r.ExitStatus, r.Error)
			})
			call("Ping", func() (bool, bool, string) { e := env.Ping(); return e == nil, e != nil, fmt.Sprint(e) })
			allOwn, allFail := true, true
			var desc []string
			for _, a := range got {
				allOwn = allOwn && a.own
				allFail = allFail && a.fail
				desc = append(desc, fmt.Sprintf("%s -> %s", a.name, a.what))
			}
			key := fmt.Sprintf("container init stopped for %v during a Ping (which returned %v), then continued; afterwards Ping, Delete(missing), Open(missing), Execve(exit 7), Ping", stopFor, perr)
			res.Case(key, true, "late-answer")
			res.Traces++
			if !allOwn && !allFail {
				res.Mismatch(Mismatch{Kind: "oracle", What: "after an answer arrived late, either every later call fails (environment unusable) or every later call gets its own answer (C10: no reply is consumed by a later call)", Input: key, Impl: strings.Join(desc, "; "), Oracle: "violates"})
			}
			done := make(chan struct{})
			go func() { env.Close(); close(done) }()
			select {
			case <-done:
			case <-time.After(10 * time.Second):
			}
		}
	}
}
