package main

import (
	"fmt"
	"os"
	"os/exec"
	"path/filepath"
	"sort"
	"strconv"
	"strings"
	"sync"
	"syscall"

	"github.com/criyle/go-sandbox/ptracer"
	"github.com/criyle/go-sandbox/runner"
	"github.com/criyle/go-sandbox/runner/ptrace"
	"golang.org/x/sys/unix"
)

func init() { props["C02"] = runC02 }

// ---- forests on the real file system ----

type c02Forest struct {
	top   string   // the temporary directory that holds the private levels and the forest
	root  string   // host directory holding the forest
	dirs  []string // absolute host paths
	files []string
	links map[string]string // host path -> target text
}

// newForest builds dirs/files/symlinks under a fresh directory. Absolute link targets carry the host prefix.
func newForest(rng *Rng, n int) *c02Forest {
	root, err := os.MkdirTemp("", "verif-c02-")
	if err != nil {
		fatal("mkdtemp: %v", err)
	}
	root, _ = filepath.EvalSymlinks(root)
	// the forest lives 24 private, otherwise empty levels below the temporary directory, so that names that climb
	// with ".." (in the path or in link targets) never reach directories the model does not know (/tmp, /)
	top := root
	for i := 0; i < 24; i++ {
		root = filepath.Join(root, "_")
	}
	os.MkdirAll(root, 0755)
	f := &c02Forest{root: root, top: top, links: map[string]string{}}
	for _, d := range []string{"a", "a/b", "a/b/c", "w", "w/d", "x"} {
		os.MkdirAll(filepath.Join(root, d), 0755)
		f.dirs = append(f.dirs, filepath.Join(root, d))
	}
	for _, fl := range []string{"a/f", "a/b/h", "w/g", "x/y"} {
		os.WriteFile(filepath.Join(root, fl), []byte("data"), 0644)
		f.files = append(f.files, filepath.Join(root, fl))
	}
	names := []string{"l0", "l1", "l2", "l3", "l4", "l5", "l6"}
	for i := 0; i < n; i++ {
		dir := f.dirs[rng.Intn(len(f.dirs))]
		name := names[i%len(names)]
		p := filepath.Join(dir, name)
		if _, ok := f.links[p]; ok {
			continue
		}
		var target string
		switch rng.Intn(9) {
		case 0:
			target = f.dirs[rng.Intn(len(f.dirs))] // absolute, to a directory
		case 1:
			target = f.files[rng.Intn(len(f.files))]
		case 2:
			target = ".."
		case 3:
			target = "../" + []string{"a", "w", "x", "a/b", "l1", "l2"}[rng.Intn(6)]
		case 4:
			target = []string{"b/../c", "./d/..", "c/../../f", "b//c/.", "d/"}[rng.Intn(5)]
		case 5:
			target = names[rng.Intn(len(names))] // another link (maybe a cycle, maybe itself)
		case 6:
			target = f.dirs[rng.Intn(len(f.dirs))] + "/../" + names[rng.Intn(len(names))]
		case 7:
			target = "."
		default:
			target = filepath.Join(root, "nonexistent", "z")
		}
		if os.Symlink(target, p) == nil {
			f.links[p] = target
		}
	}
	return f
}

func (f *c02Forest) remove() { os.RemoveAll(f.top) }

func (f *c02Forest) linkSpec() string {
	var l []string
	for p, t := range f.links {
		l = append(l, hx(p)+"="+hx(t))
	}
	sort.Strings(l)
	if len(l) == 0 {
		return "-"
	}
	return strings.Join(l, ",")
}

// randomPath makes a pathname over the forest's vocabulary
func (f *c02Forest) randomPath(rng *Rng) string {
	voc := []string{"a", "b", "c", "w", "d", "x", "f", "h", "g", "y", "l0", "l1", "l2", "l3", "l4", "l5", "l6", "..", "..", ".", "", "new", "nonexistent"}
	n := 1 + rng.Intn(6)
	var parts []string
	for i := 0; i < n; i++ {
		parts = append(parts, voc[rng.Intn(len(voc))])
	}
	p := strings.Join(parts, "/")
	switch rng.Intn(10) {
	case 0, 1, 2:
		p = f.root + "/" + p
	case 3:
		p = f.dirs[rng.Intn(len(f.dirs))] + "//" + p
	case 4:
		p = p + "/"
	}
	if p == "" {
		p = "."
	}
	return p
}

// validPath walks the real forest from `base` so that most generated names resolve: existing entries, "..", ".",
// ending in an existing entry or (sometimes) a new name.
func (f *c02Forest) validPath(rng *Rng, base string) string {
	cur := base
	var parts []string
	n := 1 + rng.Intn(6)
	for i := 0; i < n; i++ {
		r := rng.Intn(10)
		if r == 0 {
			if cur == f.root {
				continue // stay inside the forest: the model knows only its links
			}
			parts = append(parts, "..")
			cur = filepath.Dir(cur)
			continue
		}
		if r == 1 {
			parts = append(parts, []string{".", ""}[rng.Intn(2)])
			continue
		}
		ents, err := os.ReadDir(cur)
		if err != nil || len(ents) == 0 {
			break
		}
		e := ents[rng.Intn(len(ents))]
		parts = append(parts, e.Name())
		next, err := filepath.EvalSymlinks(filepath.Join(cur, e.Name()))
		if err != nil || !strings.HasPrefix(next, f.root) {
			break
		}
		st, err := os.Stat(next)
		if err != nil || !st.IsDir() {
			break
		}
		cur = next
	}
	if rng.Chance(15) {
		parts = append(parts, "new")
	}
	if len(parts) == 0 {
		return "."
	}
	return strings.Join(parts, "/")
}

// kernelResolve asks the kernel: the canonical path of what (dirfd, path) leads to (final symlink followed).
// A missing final name is reported below the kernel's resolution of its parent. ok=false: no object (error in the walk).
func kernelResolve(dirfd int, p string) (string, bool) {
	fd, err := unix.Openat(dirfd, p, unix.O_PATH|unix.O_CLOEXEC, 0)
	if err == nil {
		defer unix.Close(fd)
		s, err := os.Readlink(fmt.Sprintf("/proc/self/fd/%d", fd))
		return s, err == nil && strings.HasPrefix(s, "/")
	}
	if err != unix.ENOENT {
		return "", false
	}
	// a plain final name that does not exist
	trimmed := strings.TrimRight(p, "/")
	i := strings.LastIndex(trimmed, "/")
	dirPart, last := ".", trimmed
	if i >= 0 {
		dirPart, last = trimmed[:i+1], trimmed[i+1:]
	}
	if last == "" || last == "." || last == ".." {
		return "", false
	}
	dfd, err := unix.Openat(dirfd, dirPart, unix.O_PATH|unix.O_DIRECTORY|unix.O_CLOEXEC, 0)
	if err != nil {
		return "", false
	}
	defer unix.Close(dfd)
	var st unix.Stat_t
	if err := unix.Fstatat(dfd, last, &st, unix.AT_SYMLINK_NOFOLLOW); err != unix.ENOENT {
		return "", false // a dangling symlink or another error: no simple answer
	}
	s, err := os.Readlink(fmt.Sprintf("/proc/self/fd/%d", dfd))
	if err != nil {
		return "", false
	}
	return filepath.Join(s, last), true
}

// ---- recording handler for traced runs ----

type c02Rec struct {
	mu    sync.Mutex
	calls []string // "R path" / "W path" / "S path" / "C name"
	allow func(class, path string) bool
}

func (h *c02Rec) rec(class, p string) ptracer.TraceAction {
	h.mu.Lock()
	h.calls = append(h.calls, class+" "+p)
	h.mu.Unlock()
	if h.allow == nil || h.allow(class, p) {
		return ptracer.TraceAllow
	}
	return ptracer.TraceBan
}
func (h *c02Rec) CheckRead(p string) ptracer.TraceAction    { return h.rec("R", p) }
func (h *c02Rec) CheckWrite(p string) ptracer.TraceAction   { return h.rec("W", p) }
func (h *c02Rec) CheckStat(p string) ptracer.TraceAction    { return h.rec("S", p) }
func (h *c02Rec) CheckSyscall(n string) ptracer.TraceAction { return h.rec("C", n) }

type c02Sys struct {
	name  string
	nr    int
	shape string // "p" path; "dp" dirfd,path; "pf" path,flags; "dpf"; "dph" (openat2); "pp" two paths; "dpdp"; "sdp" symlinkat(target, dirfd, path)
	class string // R W S or "open"
}

var c02Syscalls = []c02Sys{
	{"open", 2, "pf", "open"}, {"openat", 257, "dpf", "open"}, {"openat2", 437, "dph", "open"},
	{"readlink", 89, "p", "R"}, {"readlinkat", 267, "dp", "R"},
	{"unlink", 87, "p", "W"}, {"unlinkat", 263, "dp", "W"},
	{"mkdirat", 258, "dp", "W"}, {"mknodat", 259, "dp", "W"}, {"fchmodat", 268, "dp", "W"}, {"fchmodat2", 452, "dp", "W"},
	{"symlinkat", 266, "sdp", "W"},
	{"linkat", 265, "dpdp", "W"}, {"renameat", 264, "dpdp", "W"}, {"renameat2", 316, "dpdp", "W"},
	{"access", 21, "p", "S"}, {"faccessat", 269, "dp", "S"}, {"faccessat2", 439, "dp", "S"},
	{"stat", 4, "p", "S"}, {"lstat", 6, "p", "S"}, {"statx", 332, "dp", "S"}, {"newfstatat", 262, "dp", "S"},
	{"execve", 59, "p", "R"}, {"execveat", 322, "dp", "R"},
	{"chmod", 90, "p", "W"}, {"rename", 82, "pp", "W"},
}

func runC02(res *Result, d *Driver, tier string, seed uint64) {
	res.Rule = "part A: random directory/symlink forests on the real file system (absolute and relative link targets, '..' and '.' inside targets, link-to-link chains, cycles, dangling links) x random pathnames (absolute, cwd-relative, descriptor-relative, '.', '..', '//', trailing '/', missing final names; in traced runs the name lies in one page of the tracee's memory or across a page boundary at a random byte): the real absPath/absPathAt/resolveTraceePath (verif hooks) applied to a live child process holding the cwd and directory descriptors, vs the regenerated functions run by Go-lite and the hand model (driver), vs the KERNEL's resolution of the same (dirfd, path) (openat O_PATH + readlink of /proc/self/fd); " +
		"part B: every trapped path syscall issued by the probe under the REAL ptrace runner with a recording handler: the (class, path) sequence the policy is asked vs the ABI table, the open-flag class and the kernel's resolution; dirfd encodings AT_FDCWD as 32-bit zero-extended and 64-bit sign-extended register, real descriptors, invalid descriptors; /proc/self aliases; " +
		"part C: isOpenReadOnly on random flag words vs regenerated code and mayModify; dirfd decoding on random registers. non-trivial = path containing a symlink, '..' or descriptor base; distinct = (forest, base, path) / (syscall, encoding, path)."
	rng := NewRng(seed, "C02", 1)
	nForests, nPaths, nRuns := 6, 60, 120
	if tier == "thorough" {
		nForests, nPaths, nRuns = 150, 300, 3000
	}
	// ---- part A ----
	for fi := 0; fi < nForests; fi++ {
		f := newForest(rng, 3+rng.Intn(8))
		cwd := f.dirs[rng.Intn(len(f.dirs))]
		fdDirs := []string{f.dirs[rng.Intn(len(f.dirs))], f.dirs[rng.Intn(len(f.dirs))]}
		var extra []*os.File
		for _, dd := range fdDirs {
			fh, err := os.Open(dd)
			if err != nil {
				fatal("open dir: %v", err)
			}
			extra = append(extra, fh)
		}
		child := exec.Command("/bin/sleep", "600")
		child.Dir = cwd
		child.ExtraFiles = extra // fds 3 and 4 in the child
		if err := child.Start(); err != nil {
			fatal("start child: %v", err)
		}
		pid := child.Process.Pid
		cwdH, _ := os.Open(cwd)
		fdSpec := fmt.Sprintf("3=%s,4=%s", hx(fdDirs[0]), hx(fdDirs[1]))
		links := f.linkSpec()
		for pi := 0; pi < nPaths; pi++ {
			dirfd := []int{-100, -100, 3, 4, 99}[rng.Intn(5)]
			p := f.randomPath(rng)
			if rng.Chance(65) {
				b := cwd
				if dirfd == 3 {
					b = fdDirs[0]
				} else if dirfd == 4 {
					b = fdDirs[1]
				}
				p = f.validPath(rng, b)
				if rng.Chance(25) {
					p = b + "/" + p
				}
			}
			impl := ptrace.VerifAbsPathAt(pid, dirfd, p)
			interesting := strings.Contains(p, "l") || strings.Contains(p, "..") || dirfd >= 0
			res.Case(fmt.Sprintf("%d|%d|%s", fi, dirfd, p), interesting, map[bool]string{true: "dirfd", false: "cwd"}[dirfd >= 0])
			model := d.Ask(fmt.Sprintf("c02.absat %s %s %s %d %s", hx(cwd), fdSpec, links, dirfd, hx(p)))
			if model != hx(impl) {
				res.Mismatch(Mismatch{Kind: "differential", What: "absPathAt: real function vs regenerated code under Go-lite", Input: fmt.Sprintf("links=%v cwd=%s fds=%v dirfd=%d path=%q", f.links, cwd, fdDirs, dirfd, p), Impl: impl, Model: model, Oracle: "unknown"})
			}
			// hand model vs regenerated resolveTraceePath (the driver reports a split)
			base := cwd
			if dirfd == 3 {
				base = fdDirs[0]
			} else if dirfd == 4 {
				base = fdDirs[1]
			}
			if dirfd != 99 {
				ans := d.Ask(fmt.Sprintf("c02.resolve %s %s %s %s %s", hx(cwd), fdSpec, links, hx(base), hx(p)))
				if strings.HasPrefix(ans, "model-split") || strings.HasPrefix(ans, "gen-error") || strings.HasPrefix(ans, "hand-") {
					res.Mismatch(Mismatch{Kind: "differential", What: "hand model `resolve` vs regenerated resolveTraceePath", Input: fmt.Sprintf("links=%v base=%s path=%q", f.links, base, p), Model: ans, Oracle: "unknown"})
				}
			}
			// the kernel
			var kfd int
			switch dirfd {
			case -100:
				kfd = int(cwdH.Fd())
			case 3:
				kfd = int(extra[0].Fd())
			case 4:
				kfd = int(extra[1].Fd())
			default:
				if !filepath.IsAbs(p) {
					if impl != "" {
						res.Mismatch(Mismatch{Kind: "oracle", What: "relative path on an invalid descriptor: no object; the resolver must not invent one", Input: p, Impl: impl, Oracle: "violates"})
					}
					continue
				}
				kfd = int(cwdH.Fd())
			}
			if want, ok := kernelResolve(kfd, p); ok {
				res.Dist["kernel-resolves"]++
				if impl != want {
					res.Mismatch(Mismatch{Kind: "oracle", What: "path presented to the policy is not the object the kernel resolves (C02_resolve_sound / C02_resolve_complete)", Input: fmt.Sprintf("links=%v cwd=%s fds=%v dirfd=%d path=%q", f.links, cwd, fdDirs, dirfd, p), Impl: impl, Model: want, Oracle: "violates"})
				}
			} else {
				res.Dist["kernel-error(no object)"]++
			}
		}
		child.Process.Kill()
		child.Wait()
		cwdH.Close()
		for _, e := range extra {
			e.Close()
		}
		f.remove()
	}

	// ---- part C: flags and descriptor decoding ----
	nC := 400
	if tier == "thorough" {
		nC = 50000
	}
	for i := 0; i < nC; i++ {
		var flags uint64
		switch rng.Intn(4) {
		case 0:
			flags = uint64(rng.Intn(4)) | uint64(rng.Intn(2))*unix.O_CREAT | uint64(rng.Intn(2))*unix.O_EXCL | uint64(rng.Intn(2))*unix.O_TRUNC
		case 1:
			flags = rng.Next() & 0x7fffff
		case 2:
			flags = uint64(rng.Intn(4)) | unix.O_CLOEXEC | unix.O_DIRECTORY | uint64(rng.Intn(2))*unix.O_PATH | uint64(rng.Intn(2))*unix.O_APPEND
		default:
			flags = rng.Next()
		}
		impl := map[bool]string{true: "ro", false: "write"}[ptrace.VerifIsOpenReadOnly(flags)]
		model := d.Ask("c02.ro " + strconv.FormatUint(flags, 10))
		res.Case("ro "+strconv.FormatUint(flags, 10), flags&3 != 0 || flags&(unix.O_CREAT|unix.O_TRUNC) != 0, "flags")
		may := flags&3 != 0 || flags&unix.O_CREAT != 0 || flags&unix.O_TRUNC != 0
		if impl != model || (impl == "ro" && may) {
			res.Mismatch(Mismatch{Kind: "differential", What: "isOpenReadOnly vs regenerated code / an open that can write, create or truncate classified read-only (C02_open_class)", Input: fmt.Sprintf("flags=%#x", flags), Impl: impl, Model: model, Oracle: map[bool]string{true: "violates", false: "unknown"}[impl == "ro" && may]})
		}
	}

	// ---- lookups at the kernel's link limit: chains of 36..42 links (all in the last component, or half of them in
	// directory components): whenever the kernel resolves the name, the path presented must be the kernel's ----
	{
		cdir, err := os.MkdirTemp("", "verif-c02-chain-")
		if err != nil {
			fatal("mkdtemp: %v", err)
		}
		cdir, _ = filepath.EvalSymlinks(cdir)
		defer os.RemoveAll(cdir)
		os.MkdirAll(cdir+"/real/dir", 0755)
		os.WriteFile(cdir+"/real/dir/target", []byte("t"), 0644)
		for _, n := range []int{1, 8, 36, 38, 39, 40, 41, 42} {
			for _, shape := range []string{"file-links", "dir-links-then-file-links"} {
				base := fmt.Sprintf("%s/%s-%d", cdir, shape, n)
				os.MkdirAll(base, 0755)
				var name string
				if shape == "file-links" {
					for i := 1; i <= n; i++ {
						t := fmt.Sprintf("l%d", i+1)
						if i == n {
							t = cdir + "/real/dir/target"
						}
						os.Symlink(t, fmt.Sprintf("%s/l%d", base, i))
					}
					name = base + "/l1"
				} else {
					// n/2 links to directories walked through one after the other, then n - n/2 links in the last component
					h := n / 2
					for i := 1; i <= h; i++ {
						t := fmt.Sprintf("d%d", i+1)
						if i == h {
							t = cdir + "/real/dir"
						}
						os.Symlink(t, fmt.Sprintf("%s/d%d", base, i))
					}
					for i := 1; i <= n-h; i++ {
						t := fmt.Sprintf("f%d", i+1)
						if i == n-h {
							t = "target"
						}
						os.Symlink(t, fmt.Sprintf("%s/real/dir/f%d-%s-%d", cdir, i, shape, n))
						if i < n-h {
							os.Remove(fmt.Sprintf("%s/real/dir/f%d-%s-%d", cdir, i, shape, n))
							os.Symlink(fmt.Sprintf("f%d-%s-%d", i+1, shape, n), fmt.Sprintf("%s/real/dir/f%d-%s-%d", cdir, i, shape, n))
						}
					}
					if h == 0 {
						continue
					}
					name = fmt.Sprintf("%s/d1/f1-%s-%d", base, shape, n)
				}
				impl := ptrace.VerifAbsPathAt(os.Getpid(), -100, name)
				kern, ok := kernelResolve(unix.AT_FDCWD, name)
				res.Case(fmt.Sprintf("chain %s %d", shape, n), true, "link-chain")
				if ok && impl != kern {
					res.Mismatch(Mismatch{Kind: "oracle", What: "a lookup that needs many link expansions (up to the 40 the kernel follows): the path presented to the policy is the kernel's resolution (C02_resolve_complete / C02_gen_link_budget)", Input: fmt.Sprintf("%s: %d links, open(%q)", shape, n, strings.TrimPrefix(name, cdir)), Impl: strings.TrimPrefix(impl, cdir), Model: "kernel: " + strings.TrimPrefix(kern, cdir), Oracle: "violates"})
				}
			}
		}
	}

	// ---- part B: traced runs ----
	f := newForest(rng, 8)
	defer f.remove()
	work := filepath.Join(f.root, "w")
	dirForFd := filepath.Join(f.root, "a", "b")
	baseline := func() []string {
		h := &c02Rec{}
		runPtraceProbe(RunSpec{Script: "exit 0", Filter: tracingFilter(), Handler: h, WorkDir: work})
		return h.calls
	}()
	workH, _ := os.Open(work)
	defer workH.Close()
	dirH, _ := os.Open(dirForFd)
	defer dirH.Close()
	for i := 0; i < nRuns; i++ {
		sc := c02Syscalls[rng.Intn(len(c02Syscalls))]
		// dirfd encoding
		enc := []string{"fdcwd32", "fdcwd64", "fd", "badfd"}[rng.Intn(4)]
		encArg := map[string]string{"fdcwd32": "fdcwd32", "fdcwd64": "fdcwd64", "fd": "3", "badfd": "77"}[enc]
		kfdOf := func() (int, bool) {
			switch enc {
			case "fd":
				return int(dirH.Fd()), true
			case "badfd":
				return -1, false
			}
			return int(workH.Fd()), true
		}
		mkPath := func() string {
			pick := func() string {
				if rng.Chance(65) {
					b := work
					if enc == "fd" {
						b = dirForFd
					}
					return f.validPath(rng, b)
				}
				return f.randomPath(rng)
			}
			p := pick()
			for strings.ContainsAny(p, " ;") || p == "" {
				p = pick()
			}
			return p
		}
		p1, p2 := mkPath(), mkPath()
		// where the name lies in the tracee's memory is the tracee's choice: in one page, or across a page boundary at any byte
		sArg := func(p string) string {
			if len(p) > 1 && rng.Chance(35) {
				return fmt.Sprintf("x:%d:%s", 1+rng.Intn(len(p)), p)
			}
			return "s:" + p
		}
		flags := []uint64{0, 1, 2, 3, unix.O_CREAT, unix.O_TRUNC, unix.O_EXCL, unix.O_RDONLY | unix.O_CLOEXEC | unix.O_DIRECTORY, unix.O_WRONLY | unix.O_CREAT | unix.O_TRUNC, unix.O_PATH, unix.O_RDWR | unix.O_APPEND}[rng.Intn(11)]
		howArg := "how:" + strconv.FormatUint(flags, 10)
		howBad := rng.Chance(15)
		if howBad {
			howArg = "bad"
		}
		var call string
		type want struct {
			class string
			kfd   int
			valid bool
			path  string
		}
		var wants []want
		openClass := func(f uint64, bad bool) string {
			if bad || f&3 != 0 || f&(unix.O_CREAT|unix.O_TRUNC) != 0 {
				return "W"
			}
			if f&unix.O_EXCL != 0 {
				return "W?" // stricter than required: either class is acceptable for the property, the model says W
			}
			return "R"
		}
		cwdFd := int(workH.Fd())
		switch sc.shape {
		case "p":
			call = fmt.Sprintf("sys %d %s", sc.nr, sArg(p1))
			wants = []want{{sc.class, cwdFd, true, p1}}
		case "pf":
			call = fmt.Sprintf("sys %d %s %d 0644", sc.nr, sArg(p1), flags)
			wants = []want{{openClass(flags, false), cwdFd, true, p1}}
		case "pp":
			call = fmt.Sprintf("sys %d %s %s", sc.nr, sArg(p1), sArg(p2))
			wants = []want{{sc.class, cwdFd, true, p1}, {sc.class, cwdFd, true, p2}}
		case "dp":
			k, v := kfdOf()
			call = fmt.Sprintf("sys %d %s %s 0 0", sc.nr, encArg, sArg(p1))
			wants = []want{{sc.class, k, v, p1}}
		case "dpf":
			k, v := kfdOf()
			call = fmt.Sprintf("sys %d %s %s %d 0644", sc.nr, encArg, sArg(p1), flags)
			wants = []want{{openClass(flags, false), k, v, p1}}
		case "dph":
			k, v := kfdOf()
			call = fmt.Sprintf("sys %d %s %s %s 24", sc.nr, encArg, sArg(p1), howArg)
			wants = []want{{openClass(flags, howBad), k, v, p1}}
		case "sdp":
			k, v := kfdOf()
			call = fmt.Sprintf("sys %d s:%s %s %s", sc.nr, "some/target", encArg, sArg(p1))
			wants = []want{{sc.class, k, v, p1}}
		case "dpdp":
			k, v := kfdOf()
			call = fmt.Sprintf("sys %d %s %s fdcwd32 %s 0", sc.nr, encArg, sArg(p1), sArg(p2))
			wants = []want{{sc.class, k, v, p1}, {sc.class, cwdFd, true, p2}}
		}
		script := call + "; exit 0"
		if enc == "fd" {
			// the probe opens the directory first: it becomes descriptor 3 of the tracee
			script = fmt.Sprintf("sys 257 fdcwd64 s:%s %d 0; ", dirForFd, unix.O_RDONLY|unix.O_DIRECTORY) + script
		}
		nAsked := 0
		h := &c02Rec{allow: func(class, p string) bool {
			// only the launch's own calls (the same in every run) and opening the descriptor directory read-only execute;
			// every other trapped call is banned, wherever its path points (generated names may leave the forest)
			nAsked++
			return nAsked <= len(baseline) || (class == "R" && p == dirForFd)
		}}
		r, out := runPtraceProbe(RunSpec{Script: script, Filter: tracingFilter(), Handler: h, WorkDir: work})
		key := fmt.Sprintf("%s enc=%s p1=%s p2=%s flags=%#x howbad=%v", sc.name, enc, p1, p2, flags, howBad)
		res.Case(key, true, "traced-"+sc.name)
		if r.Status != runner.StatusNormal {
			res.Mismatch(Mismatch{Kind: "oracle", What: "traced run did not end normally", Input: script, Impl: fmt.Sprintf("%v %s %s", r.Status, r.Error, out), Oracle: "unknown"})
			continue
		}
		got := stripPrefixCalls(h.calls, baseline)
		if enc == "fd" {
			if len(got) == 0 || got[0] != "R "+dirForFd || !strings.Contains(out, "sys 257 = 3 0") {
				res.Mismatch(Mismatch{Kind: "oracle", What: "opening the descriptor directory: unexpected check or descriptor number", Input: script, Impl: fmt.Sprint(got, " ", out), Oracle: "unknown"})
				continue
			}
			got = got[1:]
		}
		var exp []string
		for _, w := range wants {
			path := ""
			known := true
			if !w.valid {
				if filepath.IsAbs(w.path) {
					path, known = kernelResolve(cwdFd, w.path)
				}
				// relative on a bad descriptor: EBADF, no object; the handler is asked about ""
			} else {
				path, known = kernelResolve(w.kfd, w.path)
			}
			if !known {
				exp = append(exp, w.class+" *")
			} else {
				exp = append(exp, w.class+" "+path)
			}
		}
		okAll := len(got) == len(exp)
		for j := 0; okAll && j < len(exp); j++ {
			ec, ep, _ := strings.Cut(exp[j], " ")
			gc, gp, _ := strings.Cut(got[j], " ")
			if ec == "W?" {
				ec = gc
			}
			if ec != gc || (ep != "*" && ep != gp) {
				okAll = false
			}
		}
		if !okAll {
			res.Mismatch(Mismatch{Kind: "oracle", What: "traced " + sc.name + ": the policy was not asked about (class, kernel-resolved path) of the call's (dirfd, pathname) (C02_dispatch_matches_abi / C02_dirfd_decode / C02_resolve_*)", Input: fmt.Sprintf("links=%v cwd=%s script=%s", f.links, work, script), Impl: strings.Join(got, " | "), Model: strings.Join(exp, " | "), Oracle: "violates"})
		}
	}
	// the tracee changes its working directory between two relative names: each must be resolved against the directory
	// the tracee is in at that moment (nothing about a process may be remembered across trapped calls)
	nCd := 12
	if tier == "thorough" {
		nCd = 300
	}
	for i := 0; i < nCd; i++ {
		dir2 := f.dirs[rng.Intn(len(f.dirs))]
		rel1, rel2 := f.validPath(rng, work), f.validPath(rng, dir2)
		if strings.ContainsAny(rel1+rel2, " ;") || strings.HasPrefix(rel1, "/") || strings.HasPrefix(rel2, "/") {
			continue
		}
		script := fmt.Sprintf("sys 257 fdcwd64 s:%s 0 0; sys 80 s:%s; sys 257 fdcwd32 s:%s 0 0; exit 0", rel1, dir2, rel2)
		nAsked := 0
		h := &c02Rec{allow: func(class, p string) bool { nAsked++; return nAsked <= len(baseline) }}
		r, out := runPtraceProbe(RunSpec{Script: script, Filter: tracingFilter(), Handler: h, WorkDir: work})
		res.Case("chdir "+script, true, "traced-chdir")
		got := stripPrefixCalls(h.calls, baseline)
		d2H, err := os.Open(dir2)
		if err != nil {
			continue
		}
		w1, ok1 := kernelResolve(int(workH.Fd()), rel1)
		w2, ok2 := kernelResolve(int(d2H.Fd()), rel2)
		d2H.Close()
		okAll := r.Status == runner.StatusNormal && len(got) == 2 && strings.Contains(out, "sys 80 = 0 0")
		if okAll && ok1 && got[0] != "R "+w1 {
			okAll = false
		}
		if okAll && ok2 && got[1] != "R "+w2 {
			okAll = false
		}
		if !okAll {
			res.Mismatch(Mismatch{Kind: "oracle", What: "a relative name after chdir must be resolved against the tracee's CURRENT directory (C02: kernel's resolution of the (AT_FDCWD, name) pair)", Input: fmt.Sprintf("links=%v cwd=%s script=%s", f.links, work, script), Impl: strings.Join(got, " | ") + " " + fmt.Sprint(r.Status), Model: fmt.Sprintf("R %s | R %s", w1, w2), Oracle: "violates"})
		}
	}
	// threads of one process need not share a working directory or a descriptor table (unshare(CLONE_FS|CLONE_FILES),
	// clone without those flags): a secondary thread changes ITS directory and opens a directory descriptor in ITS table,
	// the main thread opens another directory under the same descriptor number; every name must be resolved against the
	// calling thread's own directory / descriptor (the kernel's resolution for that thread)
	nTh := 5
	if tier == "thorough" {
		nTh = 60
	}
	fdNum := -1
	{
		_, out := runPtraceProbe(RunSpec{Script: fmt.Sprintf("sys 257 fdcwd32 s:%s 0x10000 0; exit 0", work), Filter: tracingFilter(), Handler: &c02Rec{}, WorkDir: work})
		for _, ln := range strings.Split(out, "\n") {
			var n, e int
			if _, err := fmt.Sscanf(ln, "sys 257 = %d %d", &n, &e); err == nil && n > 2 {
				fdNum = n
			}
		}
	}
	for i := 0; i < nTh && fdNum > 0; i++ {
		dirT := f.dirs[rng.Intn(len(f.dirs))] // the thread's directory
		dirM := f.dirs[rng.Intn(len(f.dirs))] // the directory the main thread opens under the same descriptor number
		if dirT == work {
			continue
		}
		dT, err1 := os.Open(dirT)
		dM, err2 := os.Open(dirM)
		if err1 != nil || err2 != nil {
			continue
		}
		// relative names that the kernel resolves from the directory they will be used in
		pick := func(dirfd int, dir string) (string, string) {
			for k := 0; k < 40; k++ {
				r := f.validPath(rng, dir)
				if r == "" || strings.ContainsAny(r, " ;") || strings.HasPrefix(r, "/") {
					continue
				}
				if w, ok := kernelResolve(dirfd, r); ok {
					return r, w
				}
			}
			w, _ := kernelResolve(dirfd, ".")
			return ".", w
		}
		relT, wT := pick(int(dT.Fd()), dirT)
		relFT, wFT := pick(int(dT.Fd()), dirT)
		relM, wM := pick(int(workH.Fd()), work)
		relF, wF := pick(int(dM.Fd()), dirM)
		wdT, _ := kernelResolve(int(dT.Fd()), ".")
		wdM, _ := kernelResolve(int(dM.Fd()), ".")
		dT.Close()
		dM.Close()
		// t=0 thread: private fs + files, chdir dirT, open dirT (-> fdNum in its table); t=150 main: open dirM (-> fdNum in
		// its table); t=300 thread: open(relT) and openat(fdNum, relFT); t=450 main: open(relM) and openat(fdNum, relF)
		script := fmt.Sprintf("thread; sys 272 0x600; sys 80 s:%s; sys 257 fdcwd32 s:%s 0x10000 0; sleep 300; sys 257 fdcwd64 s:%s 0 0; sys 257 %d s:%s 0 0; endthread; "+
			"sleep 150; sys 257 fdcwd32 s:%s 0x10000 0; sleep 300; sys 257 fdcwd32 s:%s 0 0; sys 257 %d s:%s 0 0; join; exit 0",
			dirT, dirT, relT, fdNum, relFT, dirM, relM, fdNum, relF)
		h := &c02Rec{}
		r, out := runPtraceProbe(RunSpec{Script: script, Filter: tracingFilter(), Handler: h, WorkDir: work})
		res.Case("thread-private "+script, true, "traced-thread-private")
		got := stripPrefixCalls(h.calls, baseline)
		if strings.Count(out, "sys 272 = 0 0") != 1 || strings.Count(out, fmt.Sprintf("sys 257 = %d 0", fdNum)) != 2 {
			continue // the program did not get the layout this case is about (another descriptor number)
		}
		// the chdir is asked as a stat/read of the directory by some policies; compare the open calls only: every expected
		// (class, path) must have been presented, and nothing may have been presented for a path the kernel did not touch
		exp := []string{"R " + wdT, "R " + wdM, "R " + wT, "R " + wFT, "R " + wM, "R " + wF}
		var opens []string
		for _, c := range got {
			if strings.HasPrefix(c, "R ") {
				opens = append(opens, c)
			}
		}
		sort.Strings(exp)
		sort.Strings(opens)
		if r.Status != runner.StatusNormal || strings.Join(exp, " | ") != strings.Join(opens, " | ") {
			res.Mismatch(Mismatch{Kind: "oracle", What: "a thread with its own working directory and descriptor table (unshare(CLONE_FS|CLONE_FILES)): every name must be resolved against the CALLING thread's directory / descriptor (C02: the kernel's resolution of the (dirfd, name) pair for that thread)", Input: fmt.Sprintf("links=%v cwd=%s script=%s", f.links, work, script), Impl: strings.Join(opens, " | ") + " " + fmt.Sprint(r.Status), Model: strings.Join(exp, " | "), Oracle: "violates"})
		}
	}
	// /proc/self aliases in a traced run: the policy must see the tracee's own objects
	for _, c := range []struct{ path, want string }{
		{"/proc/self/cwd/../a/f", filepath.Join(f.root, "a", "f")},
		{"/proc/thread-self/cwd/g", filepath.Join(work, "g")},
		{"/proc/self/root" + f.root + "/x/y", filepath.Join(f.root, "x", "y")},
		{"/proc/./self/../self/cwd/d", filepath.Join(work, "d")},
	} {
		nAsked2 := 0
		h := &c02Rec{allow: func(class, p string) bool { nAsked2++; return nAsked2 <= len(baseline) }}
		r, out := runPtraceProbe(RunSpec{Script: fmt.Sprintf("sys 257 fdcwd32 s:%s 0 0; exit 0", c.path), Filter: tracingFilter(), Handler: h, WorkDir: work})
		got := stripPrefixCalls(h.calls, baseline)
		res.Case("procalias "+c.path, true, "traced-proc-alias")
		// the handler's procfs policy may answer instead (CheckSyscall("procfs-path")); if a file path is presented it must be the real object
		ok := len(got) == 1 && (got[0] == "R "+c.want || got[0] == "C procfs-path")
		if r.Status != runner.StatusNormal || !ok {
			res.Mismatch(Mismatch{Kind: "oracle", What: "/proc/self alias: the policy must be asked about the tracee's object (or the procfs policy)", Input: c.path, Impl: fmt.Sprint(got, " ", r.Status, " ", out), Model: "R " + c.want, Oracle: "violates"})
		}
	}
	// decoding of descriptor registers
	for i := 0; i < 50; i++ {
		reg := rng.Next()
		if i%5 == 0 {
			reg = reg&^0xffffffff | 0xffffff9c
		}
		want := int64(int32(uint32(reg)))
		model := d.Ask("c02.dirfd " + strconv.FormatUint(reg, 10))
		res.Case("dirfd "+strconv.FormatUint(reg, 16), true, "dirfd")
		if model != strconv.FormatInt(want, 10) {
			res.Mismatch(Mismatch{Kind: "differential", What: "dirfd decoding int(int32(reg))", Input: fmt.Sprintf("%#x", reg), Impl: strconv.FormatInt(want, 10), Model: model, Oracle: "unknown"})
		}
	}
	res.Sample("links={w/l0 -> <root>/a/b} cwd=<root>/w openat(AT_FDCWD as 0x00000000ffffff9c, \"l0/../f\", O_RDONLY) -> CheckRead(<root>/a/f) == kernel O_PATH resolution")
	_ = syscall.O_RDONLY
}

// stripPrefixCalls removes the launch noise (the same in every run) from the front of the recorded calls
func stripPrefixCalls(calls, baseline []string) []string {
	i := 0
	for i < len(calls) && i < len(baseline) && calls[i] == baseline[i] {
		i++
	}
	return calls[i:]
}
