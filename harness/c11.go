package main

import (
	"context"
	"fmt"
	"os"
	"sync"
	"strings"
	"syscall"
	"time"

	"github.com/criyle/go-sandbox/container"
	"github.com/criyle/go-sandbox/runner"
)

func init() { props["C11"] = runC11 }

func pidAlive(pid int) bool {
	if pid <= 0 {
		return false
	}
	b, err := os.ReadFile(fmt.Sprintf("/proc/%d/stat", pid))
	if err != nil {
		return false
	}
	// zombie counts as dead for "kills everything"
	for i := len(b) - 1; i >= 0; i-- {
		if b[i] == ')' {
			return i+2 < len(b) && b[i+2] != 'Z'
		}
	}
	return true
}

func runC11(res *Result, d *Driver, tier string, seed uint64) {
	res.Rule = "cancellation instants swept over the whole life of a run (already cancelled before Run, 0..T in small steps, while the program exits) for sleeping, CPU-burning, forking and immediately-exiting programs in the ptrace runner, the namespace runner and the container (with the host/container delay points armed to pin the races); " +
		"the run must return within the bound with the genuine final verdict (program already ended) or Time Limit Exceeded — never Runner Error or a policy violation, never a lost cancellation (program runs to completion long after cancel), also for programs that hold 16, 150 or 246 MiB under a 256 MiB limit when they are cancelled — and the program's pid must be dead; Destroy during an in-flight Execve/Open/Ping must make the call return with an error and kill the container init. " +
		"non-trivial = every case; distinct = (runner, program, instant)."
	rng := NewRng(seed, "C11", 1)
	const bound = 10 * time.Second // programs marked long run for 30 s: a lost cancellation is far beyond this, a loaded machine is not
	type prog struct {
		name, script string
		long         bool // runs far longer than any cancellation instant
		memMB        int  // resident memory the program holds when it is cancelled (0: next to nothing)
	}
	progs := []prog{
		{"sleep", "sleep 20000;exit 0", true, 0},
		{"spin", "spin 20000;exit 0", true, 0},
		{"forker", "fork;sleep 20000;endfork;fork;spin 20000;endfork;sleep 20000;exit 0", true, 0},
		{"quick", "exit 3", false, 0},
		{"short", "sleep 8;exit 0", false, 0},
		// a program that spends its life in trapped system calls (stopped for the tracer most of the time): a cancellation
		// is then likely to meet it in such a stop
		{"trapper", strings.Repeat("sys 21 s:/nonexistent-verif 0;", 3500) + "exit 0", false, 0},
		// programs that are inside their limits when they are cancelled, at every distance from the memory limit (256 MiB;
		// well above what the launching process itself holds: the kernel carries the peak resident set over an exec)
		{"holds-16MiB", "mem 16;print ready;sleep 20000;exit 0", true, 16},
		{"holds-150MiB", "mem 150;print ready;sleep 20000;exit 0", true, 150},
		{"holds-246MiB", "mem 246;print ready;sleep 20000;exit 0", true, 246},
	}
	n := 25
	if tier == "thorough" {
		n = 1500
	}
	env, err := newEnv(container.Builder{})
	if err != nil {
		fatal("container: %v", err)
	}
	defer env.Close()
	hung := 0
	for i := 0; i < n && hung < 3; i++ {
		for _, rn := range []string{"ptrace", "unshare", "container"} {
			p := progs[rng.Intn(len(progs))]
			if p.name == "trapper" && rn == "container" {
				p = progs[1] // the long script does not fit a container request (32 KiB cap, a recorded limit of C10/C14)
			}
			var delay time.Duration
			switch rng.Intn(5) {
			case 0:
				delay = -1 // cancelled before the run starts
			case 1:
				delay = time.Duration(rng.Intn(2000)) * time.Microsecond // during launch / synchronisation
			case 2:
				delay = time.Duration(rng.Intn(20)) * time.Millisecond
			case 3:
				delay = 8*time.Millisecond + time.Duration(rng.Intn(2000))*time.Microsecond // around the exit of "short"
			default:
				delay = time.Duration(rng.Intn(60)) * time.Millisecond
			}
			if p.memMB > 0 && rng.Chance(70) {
				delay = time.Duration(200+3*p.memMB+rng.Intn(100)) * time.Millisecond // once the memory is resident
			}
			ctx, cancel := context.WithCancel(context.Background())
			if delay < 0 {
				cancel()
			} else {
				go func() { time.Sleep(delay); cancel() }()
			}
			var pid int
			spec := RunSpec{Script: p.script, Ctx: ctx, Timeout: 30 * time.Second, SyncFunc: func(x int) error { pid = x; return nil }}
			if p.memMB > 0 {
				spec.Limit = runner.Limit{TimeLimit: 30 * time.Second, MemoryLimit: runner.Size(256 << 20)}
			}
			// many descriptors lengthen the window between clone and setsid in the child (pins the early-cancel race)
			manyFiles := rn == "ptrace" && rng.Chance(40) && p.name != "trapper"
			if p.name == "trapper" && delay >= 0 {
				delay = time.Duration(2+rng.Intn(60)) * time.Millisecond
			}
			t0 := time.Now()
			var r runner.Result
			syncAfter := rng.Bool()
			key := fmt.Sprintf("%s %s cancel@%v manyfiles=%v", rn, p.name, delay, manyFiles)
			rch := make(chan runner.Result, 1)
			go func() {
				var r runner.Result
				switch rn {
				case "ptrace":
					if p.name == "trapper" {
						spec.Filter = tracingFilter()
						spec.Handler = allowHandler{}
						r, _ = runPtraceProbe(spec)
					} else if manyFiles {
						r = runPtraceManyFiles(spec, 600)
					} else {
						r, _ = runPtraceProbe(spec)
					}
				case "unshare":
					r, _ = runUnshareProbe(spec, "", nil)
				default:
					r, _ = env.runProbe(spec, syncAfter)
				}
				rch <- r
			}()
			select {
			case r = <-rch:
			case <-time.After(3 * bound):
				// the run never came back: a violation with this run as its input, not a harness time-out
				cancel()
				hung++
				res.Case(key+itoa(i), true, rn+"-"+p.name)
				res.Mismatch(Mismatch{Kind: "oracle", What: "cancel ends the run promptly with a truthful verdict (C11)", Input: key, Impl: fmt.Sprintf("Run did not return within %v of a cancellation at %v (program pid %d)", 3*bound, delay, pid), Oracle: "violates"})
				if pid > 0 {
					syscall.Kill(-pid, syscall.SIGKILL)
					syscall.Kill(pid, syscall.SIGKILL)
				}
				if rn == "container" {
					go env.Close()
					if env, err = newEnv(container.Builder{}); err != nil {
						fatal("container: %v", err)
					}
				}
				continue
			}
			el := time.Since(t0)
			cancel()
			res.Case(key+itoa(i), true, rn+"-"+p.name)
			res.Traces++
			var bad []string
			if el > bound {
				bad = append(bad, fmt.Sprintf("returned only after %v", el))
			}
			switch r.Status {
			case runner.StatusTimeLimitExceeded:
			case runner.StatusNormal, runner.StatusNonzeroExitStatus:
				if p.long {
					bad = append(bad, "cancellation lost: a program that runs for 20 s was reported "+r.Status.String()+" (it ran to completion or the verdict is untrue)")
				}
			default:
				bad = append(bad, fmt.Sprintf("cancellation reported as %v (%q)", r.Status, r.Error))
			}
			if rn != "container" && pid > 0 && pidAlive(pid) {
				bad = append(bad, fmt.Sprintf("program pid %d still alive after the run returned", pid))
			}
			if len(bad) > 0 {
				res.Mismatch(Mismatch{Kind: "oracle", What: "cancel ends the run promptly with a truthful verdict (C11)", Input: key, Impl: fmt.Sprintf("%v; status=%v exit=%d err=%q elapsed=%v", bad, r.Status, r.ExitStatus, r.Error, el), Oracle: "violates"})
			}
			if rn == "container" {
				if e := env.Ping(); e != nil {
					res.Mismatch(Mismatch{Kind: "oracle", What: "environment usable after a cancelled run", Input: key, Impl: e.Error(), Oracle: "violates"})
					env.Close()
					env, _ = newEnv(container.Builder{})
				}
			}
		}
	}
	// a program that spends its life in trapped calls, cancelled at many instants (tracing runner): wherever the
	// cancellation meets it — running, stopped for the tracer, between the stop and the tracer's look at it — the verdict is
	// the cancellation's (or its own end), never a policy violation or a runner error
	{
		nT := 14
		if tier == "thorough" {
			nT = 300
		}
		trapper := strings.Repeat("sys 21 s:/nonexistent-verif 0;", 3500) + "exit 0"
		for i := 0; i < nT; i++ {
			delay := time.Duration(1000+rng.Intn(70000)) * time.Microsecond
			ctx, cancel := context.WithCancel(context.Background())
			go func() { time.Sleep(delay); cancel() }()
			t0 := time.Now()
			r, _ := runPtraceProbe(RunSpec{Script: trapper, Ctx: ctx, Timeout: 30 * time.Second, Filter: tracingFilter(), Handler: allowHandler{}})
			el := time.Since(t0)
			cancel()
			res.Case(fmt.Sprintf("ptrace trapper cancel@%v %d", delay, i), true, "ptrace-trapper")
			res.Traces++
			switch r.Status {
			case runner.StatusTimeLimitExceeded, runner.StatusNormal:
			default:
				res.Mismatch(Mismatch{Kind: "oracle", What: "cancel ends the run promptly with a truthful verdict (C11)", Input: fmt.Sprintf("ptrace runner, a program making 3500 trapped access() calls, cancelled after %v", delay), Impl: fmt.Sprintf("status=%v exit=%d err=%q elapsed=%v", r.Status, r.ExitStatus, r.Error, el), Oracle: "violates"})
			}
			if el > bound {
				res.Mismatch(Mismatch{Kind: "oracle", What: "cancel ends the run promptly (C11)", Input: fmt.Sprintf("ptrace trapper cancelled after %v", delay), Impl: fmt.Sprintf("returned only after %v", el), Oracle: "violates"})
			}
		}
	}
	// pinned race: context already cancelled, and a long descriptor list keeps the child between clone and
	// setsid while the canceller fires (kill(-pgid) then answers ESRCH)
	pinned := 6
	if tier == "thorough" {
		pinned = 60
	}
	for i := 0; i < pinned; i++ {
		ctx, cancel := context.WithCancel(context.Background())
		cancel()
		t0 := time.Now()
		r := runPtraceManyFiles(RunSpec{Script: "sleep 400;exit 0", Ctx: ctx, Timeout: 30 * time.Second}, 3000)
		el := time.Since(t0)
		res.Case("pinned-precancel-"+itoa(i), true, "ptrace-pinned-precancel")
		res.Traces++
		if r.Status != runner.StatusTimeLimitExceeded || el > bound {
			res.Mismatch(Mismatch{Kind: "oracle", What: "cancel before the child has its process group is not lost (C11_never_lost)", Input: "ptrace runner, context cancelled before Run, 3000 descriptors, program sleeps 400 ms",
				Impl: fmt.Sprintf("status=%v exit=%d err=%q elapsed=%v", r.Status, r.ExitStatus, r.Error, el), Oracle: "violates"})
		}
	}
	res.Sample("ptrace sleep cancel@-1ns manyfiles=true => Time Limit Exceeded within the bound, pid dead")

	// ---- cancelled container runs of programs whose descendants have left the process group: the cancellation
	// must end everything, so the next run on the same environment returns within the bound as well ----
	nl := 4
	if tier == "thorough" {
		nl = 60
	}
	leavers := []string{
		"fork;setsid;sleep 30000;endfork;sleep 30000;exit 0",
		"fork;setpgid;ignore 15;sleep 30000;endfork;sleep 30000;exit 0",
		"daemon;sleep 30000;exit 0",
		"fork;setsid;fork;setsid;spin 30000;endfork;sleep 30000;endfork;spin 30000;exit 0",
	}
	for i := 0; i < nl; i++ {
		script := leavers[i%len(leavers)]
		delay := time.Duration(10+rng.Intn(40)) * time.Millisecond
		ctx, cancel := context.WithCancel(context.Background())
		go func() { time.Sleep(delay); cancel() }()
		type out struct {
			r  runner.Result
			el time.Duration
		}
		ch := make(chan out, 1)
		go func() {
			t0 := time.Now()
			r, _ := env.runProbe(RunSpec{Script: script, Ctx: ctx, Timeout: 60 * time.Second}, i%2 == 0)
			el := time.Since(t0)
			if r.Status == runner.StatusRunnerError || el > bound {
				ch <- out{r, el}
				return
			}
			t1 := time.Now()
			r2, _ := env.runProbe(RunSpec{Script: "exit 0", Timeout: 60 * time.Second}, false)
			if r2.Status != runner.StatusNormal {
				r = r2
			}
			ch <- out{r, time.Since(t1)}
		}()
		key := fmt.Sprintf("container leaver %q cancel@%v, then a run of `exit 0`", script, delay)
		res.Case(key+itoa(i), true, "container-leaver")
		res.Traces++
		var bad string
		select {
		case o := <-ch:
			if o.r.Status == runner.StatusRunnerError || o.el > bound {
				bad = fmt.Sprintf("status=%v err=%q elapsed=%v", o.r.Status, o.r.Error, o.el)
			}
		case <-time.After(2*bound + 5*time.Second):
			bad = "the cancelled run or the run after it did not return (a descendant that left the process group survived the cancellation and blocks the container)"
		}
		cancel()
		if bad != "" {
			res.Mismatch(Mismatch{Kind: "oracle", What: "cancel ends the whole run, the environment serves the next run within the bound (C11)", Input: key, Impl: bad, Oracle: "violates"})
			os.RemoveAll(env.root)
			go env.Destroy()
			if env, err = newEnv(container.Builder{}); err != nil {
				fatal("container: %v", err)
			}
		}
	}

	// ---- Destroy while a call is in flight ----
	nd := 6
	if tier == "thorough" {
		nd = 100
	}
	for i := 0; i < nd; i++ {
		e2, err := newEnv(container.Builder{})
		if err != nil {
			fatal("container: %v", err)
		}
		kind := []string{"execve", "execve-forking", "open", "ping"}[i%4]
		var wg sync.WaitGroup
		var callErr string
		var progPid int
		returned := make(chan struct{})
		wg.Add(1)
		go func() {
			defer wg.Done()
			defer close(returned)
			switch kind {
			case "execve", "execve-forking":
				script := "sleep 20000;exit 0"
				if kind == "execve-forking" {
					script = "ignore 15;fork;ignore 15;sleep 20000;endfork;sleep 20000;exit 0"
				}
				r, _ := e2.runProbe(RunSpec{Script: script, Timeout: 30 * time.Second, SyncFunc: func(p int) error { progPid = p; return nil }}, false)
				if r.Status != runner.StatusRunnerError {
					callErr = "in-flight Execve did not return an error: " + r.String()
				}
			case "open":
				for k := 0; k < 2000; k++ {
					rs, err := e2.Open([]container.OpenCmd{{Path: "/w/x", Flag: os.O_CREATE | os.O_RDWR, Perm: 0644}})
					for _, x := range rs {
						if x.File != nil {
							x.File.Close()
						}
					}
					if err != nil {
						return
					}
				}
				callErr = "Open kept succeeding after Destroy"
			default:
				for k := 0; k < 5000; k++ {
					if err := e2.Ping(); err != nil {
						return
					}
				}
				callErr = "Ping kept succeeding after Destroy"
			}
		}()
		time.Sleep(time.Duration(5+rng.Intn(30)) * time.Millisecond)
		t0 := time.Now()
		derr := make(chan error, 1)
		go func() { derr <- e2.Destroy() }()
		var bad []string
		select {
		case <-returned:
		case <-time.After(bound):
			bad = append(bad, "the in-flight call did not return after Destroy")
		}
		select {
		case <-derr:
		case <-time.After(bound):
			bad = append(bad, "Destroy did not return")
		}
		if callErr != "" {
			bad = append(bad, callErr)
		}
		time.Sleep(5 * time.Millisecond)
		if progPid > 0 && pidAlive(progPid) {
			bad = append(bad, fmt.Sprintf("program pid %d alive after Destroy", progPid))
		}
		res.Case(fmt.Sprintf("destroy-%s-%d", kind, i), true, "destroy-"+kind)
		res.Traces++
		if len(bad) > 0 {
			res.Mismatch(Mismatch{Kind: "oracle", What: "Destroy during an in-flight call (C11)", Input: kind, Impl: fmt.Sprintf("%v after %v", bad, time.Since(t0)), Oracle: "violates"})
		}
		os.RemoveAll(e2.root)
	}
	_ = syscall.SIGKILL
}
