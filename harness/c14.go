package main

import (
	"fmt"
	"os"
	"path/filepath"
	"runtime"
	"strings"
	"sync"
	"syscall"
	"time"

	"github.com/criyle/go-sandbox/container"
	"github.com/criyle/go-sandbox/pkg/mount"
	"github.com/criyle/go-sandbox/pkg/unixsocket"
	"golang.org/x/sys/unix"
)

func init() { props["C14"] = runC14 }

func runC14(res *Result, d *Driver, tier string, seed uint64) {
	res.Rule = "part A: real container; a previous program plants objects at the requested paths (symlink to a host-visible file, dangling symlink, FIFO, directory, socket, unreadable file) and the host then issues Open batches of length 0..L with random per-item fate (existing regular file, new file, MkdirAll, planted object, unwritable directory) and random access modes: results must be index-aligned, a File only for a regular or new file whose (dev,ino) equals the host's view of that path under /proc/<init>/root and whose access mode is the requested one, never a block on a FIFO; Symlink and Delete likewise; length-0 batches followed by checked operations; a 250-item batch repeated 2000 (20000 thorough) times on one environment with every descriptor checked by inode; " +
		"part B: the host side over a socketpair with a scripted (dishonest) container peer: replies with a wrong batch length or fewer descriptors than successes must yield an error and leave the process' descriptor count unchanged; the same requests are fed to the model (driver) for the honest case. non-trivial = batch with at least one failing and one succeeding item / dishonest reply; distinct = batches."
	rng := NewRng(seed, "C14", 1)
	before := childPids()
	env, err := newEnv(container.Builder{})
	if err != nil {
		fatal("container: %v", err)
	}
	defer env.Close()
	initPid := 0
	for p := range childPids() {
		if !before[p] {
			initPid = p
		}
	}
	root := fmt.Sprintf("/proc/%d/root", initPid)
	L := 16
	n := 40
	if tier == "thorough" {
		L, n = 64, 2000
	}
	kinds := []string{"regular", "absent", "symlink", "dangling", "fifo", "dir", "socket", "mkdirall", "nodir"}
	for it := 0; it < n; it++ {
		env.Reset()
		ln := rng.Intn(L + 1)
		var cmds []container.OpenCmd
		var want []string
		var plant []string
		for i := 0; i < ln; i++ {
			k := kinds[rng.Intn(len(kinds))]
			p := fmt.Sprintf("/w/p%d", i)
			flag := []int{os.O_RDONLY, os.O_WRONLY, os.O_RDWR}[rng.Intn(3)]
			cmd := container.OpenCmd{Path: p, Flag: flag, Perm: 0644}
			switch k {
			case "regular":
				plant = append(plant, "touch "+p)
			case "absent":
				cmd.Flag |= os.O_CREATE
			case "symlink":
				plant = append(plant, "symlink /w/target "+p)
			case "dangling":
				plant = append(plant, "symlink /w/nowhere "+p)
				cmd.Flag |= os.O_CREATE
			case "fifo":
				plant = append(plant, "mkfifo "+p)
			case "dir":
				plant = append(plant, "mkdir "+p)
			case "socket":
				plant = append(plant, "mksock "+p)
			case "mkdirall":
				cmd.Path = fmt.Sprintf("/w/d%d/sub/f", i)
				cmd.MkdirAll = true
				cmd.Flag |= os.O_CREATE
			case "nodir":
				cmd.Path = fmt.Sprintf("/w/missing%d/f", i)
				cmd.Flag |= os.O_CREATE
			}
			cmds = append(cmds, cmd)
			want = append(want, k)
		}
		if len(plant) > 0 {
			env.runProbe(RunSpec{Script: "touch /w/target;" + strings.Join(plant, ";") + ";exit 0"}, false)
		}
		t0 := time.Now()
		var rs []container.OpenCmdResult
		var err error
		opened := make(chan struct{})
		go func() { rs, err = env.Open(cmds); close(opened) }()
		select {
		case <-opened:
		case <-time.After(5 * time.Second):
			res.Mismatch(Mismatch{Kind: "oracle", What: "Open blocks (on a planted FIFO/socket/device?) (C14)", Input: fmt.Sprintf("batch %v", want), Impl: "no answer within 5 s; the environment is abandoned", Oracle: "violates"})
			return
		}
		el := time.Since(t0)
		key := fmt.Sprintf("batch %v", want)
		nOk := 0
		var bad []string
		if ln == 0 {
			if err == nil {
				bad = append(bad, "empty batch accepted")
			}
		} else if err != nil {
			bad = append(bad, "call failed: "+err.Error())
		} else if len(rs) != ln {
			bad = append(bad, fmt.Sprintf("%d results for %d items", len(rs), ln))
		} else {
			for i, r := range rs {
				shouldOpen := want[i] == "regular" || want[i] == "absent" || want[i] == "mkdirall"
				switch {
				case shouldOpen && (r.File == nil || r.Err != nil):
					bad = append(bad, fmt.Sprintf("item %d (%s): expected a file, got err %v", i, want[i], r.Err))
				case !shouldOpen && r.File != nil:
					bad = append(bad, fmt.Sprintf("item %d (%s): a descriptor was returned for a planted object / impossible path", i, want[i]))
				case !shouldOpen && r.Err == nil:
					bad = append(bad, fmt.Sprintf("item %d (%s): neither file nor error", i, want[i]))
				}
				if r.File != nil {
					nOk++
					var a, b syscall.Stat_t
					e1 := syscall.Fstat(int(r.File.Fd()), &a)
					e2 := syscall.Stat(root+cmds[i].Path, &b)
					if e1 != nil || e2 != nil || a.Dev != b.Dev || a.Ino != b.Ino {
						bad = append(bad, fmt.Sprintf("item %d: returned file is not the object at %s (%v %v %d/%d vs %d/%d)", i, cmds[i].Path, e1, e2, a.Dev, a.Ino, b.Dev, b.Ino))
					}
					if a.Mode&syscall.S_IFMT != syscall.S_IFREG {
						bad = append(bad, fmt.Sprintf("item %d: returned descriptor is not a regular file", i))
					}
					fl, _ := fcntlGetfl(int(r.File.Fd()))
					if fl&syscall.O_ACCMODE != cmds[i].Flag&syscall.O_ACCMODE {
						bad = append(bad, fmt.Sprintf("item %d: access mode %d, requested %d", i, fl&syscall.O_ACCMODE, cmds[i].Flag&syscall.O_ACCMODE))
					}
					r.File.Close()
				}
			}
		}
		if el > 4500*time.Millisecond { // the call itself is given 5 s; a planted FIFO blocks for ever
			bad = append(bad, fmt.Sprintf("Open took %v (blocked on a planted object?)", el))
		}
		if e := env.Ping(); e != nil {
			bad = append(bad, "environment unusable after the batch: "+e.Error())
		}
		res.Case(key+itoa(it), nOk > 0 && nOk < ln, "batch-len"+itoa(bucket(ln)))
		res.Traces++
		if len(bad) > 0 {
			res.Mismatch(Mismatch{Kind: "oracle", What: "Open batch: index-aligned, only regular/new files, requested path and mode (C14)", Input: key, Impl: strings.Join(bad, "; "), Oracle: "violates"})
		}
		// the same batch through the model (honest container): alignment of success pattern
		var ks []string
		for _, k := range want {
			ks = append(ks, k)
		}
		if ln > 0 && err == nil && len(rs) == ln {
			var pat []string
			for _, r := range rs {
				pat = append(pat, b01(r.File != nil || r.Err == nil))
			}
			ans := d.Ask("c14.batch " + jl(ks))
			if ans != jl(pat) {
				res.Mismatch(Mismatch{Kind: "differential", What: "success pattern of a real Open batch vs Model.Batch (containerOpen∘hostOpen)", Input: key, Impl: jl(pat), Model: ans})
			}
		}
		if it == 0 {
			res.Sample(key)
		}
	}
	// the length-0 corner followed by checked operations: every later answer still belongs to its own request
	for it := 0; it < 3; it++ {
		env.Reset()
		var bad []string
		if _, err := env.Open(nil); err == nil {
			bad = append(bad, "empty Open batch accepted")
		}
		if _, err := env.Symlink(nil); err == nil {
			bad = append(bad, "empty Symlink batch accepted")
		}
		if err := env.Delete("/w/never-there"); err == nil {
			bad = append(bad, "Delete of a missing path reported success")
		}
		rs, err := env.Open([]container.OpenCmd{{Path: "/w/after-empty", Flag: os.O_CREATE | os.O_RDWR, Perm: 0644}, {Path: "/w/nodir/x", Flag: os.O_CREATE | os.O_RDWR, Perm: 0644}})
		if err != nil || len(rs) != 2 || rs[0].File == nil || rs[1].File != nil || rs[1].Err == nil {
			bad = append(bad, fmt.Sprintf("Open [new file, impossible path] after the empty batches: err=%v results=%d", err, len(rs)))
		} else {
			var a, b syscall.Stat_t
			e1 := syscall.Fstat(int(rs[0].File.Fd()), &a)
			e2 := syscall.Stat(root+"/w/after-empty", &b)
			if e1 != nil || e2 != nil || a.Ino != b.Ino || a.Dev != b.Dev {
				bad = append(bad, "the file returned after the empty batches is not /w/after-empty")
			}
		}
		for _, r := range rs {
			if r.File != nil {
				r.File.Close()
			}
		}
		errs, err := env.Symlink([]container.SymbolicLink{{LinkPath: "/w/l-after", Target: "/w/after-empty"}, {LinkPath: "/w/nodir/l", Target: "x"}})
		if err != nil || len(errs) != 2 || errs[0] != nil || errs[1] == nil {
			bad = append(bad, fmt.Sprintf("Symlink [ok, impossible] after the empty batches: err=%v results=%v", err, errs))
		}
		if err := env.Delete("/w/after-empty"); err != nil {
			bad = append(bad, "Delete of the file just created failed: "+err.Error())
		}
		if err := env.Delete("/w/after-empty"); err == nil {
			bad = append(bad, "second Delete of the same file reported success")
		}
		if e := env.Ping(); e != nil {
			bad = append(bad, "Ping: "+e.Error())
		}
		res.Case("empty batches then checked operations "+itoa(it), true, "after-empty-batch")
		res.Traces++
		if len(bad) > 0 {
			res.Mismatch(Mismatch{Kind: "oracle", What: "after a length-0 batch every later answer belongs to its own request (C14)", Input: "Open(nil); Symlink(nil); Delete(missing); Open[new, impossible]; Symlink[ok, impossible]; Delete; Delete; Ping", Impl: strings.Join(bad, "; "), Oracle: "violates"})
			env.Close()
			if env, err = newEnv(container.Builder{}); err != nil {
				fatal("container: %v", err)
			}
		}
	}
	// batches with long names and many failing items (the error texts of a reply add up to kilobytes, still below the
	// transport's message cap): every item keeps its own result
	{
		nlb := 12
		if tier == "thorough" {
			nlb = 200
		}
		for it := 0; it < nlb; it++ {
			env.Reset()
			nameLen := []int{30, 120, 200, 240}[rng.Intn(4)]
			n := 10 + rng.Intn(110)
			for n*(nameLen+60) > 27000 {
				n--
			}
			failPct := []int{10, 50, 90, 100}[rng.Intn(4)]
			var opens []container.OpenCmd
			var links []container.SymbolicLink
			fails := make([]bool, n)
			for i := 0; i < n; i++ {
				nm := fmt.Sprintf("%s%04d", strings.Repeat("n", nameLen-4), i)
				fails[i] = rng.Chance(failPct)
				if fails[i] {
					opens = append(opens, container.OpenCmd{Path: "/w/no-such-dir/" + nm, Flag: os.O_RDONLY})
					links = append(links, container.SymbolicLink{LinkPath: "/w/no-such-dir/l" + nm, Target: "/w/t"})
				} else {
					opens = append(opens, container.OpenCmd{Path: "/w/" + nm, Flag: os.O_CREATE | os.O_RDWR, Perm: 0644})
					links = append(links, container.SymbolicLink{LinkPath: "/w/l" + nm, Target: "/w/t"})
				}
			}
			var bad []string
			rs, err := env.Open(opens)
			if err != nil || len(rs) != n {
				bad = append(bad, fmt.Sprintf("Open: err=%v results=%d items=%d", err, len(rs), n))
			}
			for i, r := range rs {
				if (r.File == nil) != fails[i] || (r.Err == nil) == fails[i] {
					if len(bad) < 5 {
						bad = append(bad, fmt.Sprintf("Open item %d (should fail=%v): file=%v err=%v", i, fails[i], r.File != nil, r.Err))
					}
				} else if r.File != nil {
					var a, b syscall.Stat_t
					e1 := syscall.Fstat(int(r.File.Fd()), &a)
					e2 := syscall.Stat(root+opens[i].Path, &b)
					if (e1 != nil || e2 != nil || a.Ino != b.Ino) && len(bad) < 5 {
						bad = append(bad, fmt.Sprintf("Open item %d: the descriptor is not the file of its path", i))
					}
				}
				if r.File != nil {
					r.File.Close()
				}
			}
			errs, err := env.Symlink(links)
			if err != nil || len(errs) != n {
				bad = append(bad, fmt.Sprintf("Symlink: err=%v results=%d items=%d", err, len(errs), n))
			}
			for i := range errs {
				_, lerr := os.Lstat(root + links[i].LinkPath)
				if ((errs[i] == nil) == fails[i] || (lerr == nil) != (errs[i] == nil)) && len(bad) < 8 {
					bad = append(bad, fmt.Sprintf("Symlink item %d (should fail=%v): reported err=%v, link exists=%v", i, fails[i], errs[i], lerr == nil))
				}
			}
			if e := env.Ping(); e != nil {
				bad = append(bad, "environment unusable after the batches: "+e.Error())
			}
			key := fmt.Sprintf("long-name batches: %d items, names of %d bytes, %d%% failing", n, nameLen, failPct)
			res.Case(key+itoa(it), true, "long-name-batch")
			if len(bad) > 0 {
				res.Mismatch(Mismatch{Kind: "oracle", What: "Open/Symlink batches with long names and many failures: index-aligned results, a failing item is an error and affects no other item (C14)", Input: key, Impl: strings.Join(bad, "; "), Oracle: "violates"})
				env.Close()
				var e2 error
				if env, e2 = newEnv(container.Builder{}); e2 != nil {
					fatal("container: %v", e2)
				}
			}
		}
	}
	// a directory shared with the host (a writable bind): somebody outside the container exchanges a regular file and a
	// directory at one requested path all the time, while batches ask for that path and for an untouched file. Whatever
	// happens to the first item (the lstat-then-open window is outside the statement), the second item's result must be
	// the second item's file.
	{
		shared, err := os.MkdirTemp("", "verif-c14-shared-")
		if err == nil {
			shared, _ = filepath.EvalSymlinks(shared)
			os.Chmod(shared, 0777)
			os.WriteFile(shared+"/a", []byte("a"), 0666)
			os.Mkdir(shared+"/b", 0777)
			os.WriteFile(shared+"/good", []byte("good"), 0666)
			var gst syscall.Stat_t
			syscall.Stat(shared+"/good", &gst)
			env2, err := newEnv(container.Builder{Mounts: mount.NewBuilder().WithBind(shared, "w", false).WithTmpfs("tmp", "size=4m").Mounts, WorkDir: "/w"})
			if err == nil {
				stop := make(chan struct{})
				done := make(chan struct{})
				go func() {
					defer close(done)
					for {
						select {
						case <-stop:
							return
						default:
						}
						unix.Renameat2(unix.AT_FDCWD, shared+"/a", unix.AT_FDCWD, shared+"/b", unix.RENAME_EXCHANGE)
					}
				}()
				rounds := 600
				if tier == "thorough" {
					rounds = 8000
				}
				first := map[string]int{}
				for rd := 0; rd < rounds; rd++ {
					rs, err := env2.Open([]container.OpenCmd{{Path: "/w/a", Flag: os.O_RDONLY}, {Path: "/w/good", Flag: os.O_RDONLY}})
					bad := ""
					if err != nil || len(rs) != 2 {
						bad = fmt.Sprintf("call failed: err=%v results=%d", err, len(rs))
					} else {
						switch {
						case rs[0].File == nil:
							first["error"]++
						default:
							first["file"]++
						}
						if rs[1].File == nil {
							bad = fmt.Sprintf("item 1 (/w/good, untouched) failed: %v", rs[1].Err)
						} else {
							var st syscall.Stat_t
							if e := syscall.Fstat(int(rs[1].File.Fd()), &st); e != nil || st.Ino != gst.Ino || st.Dev != gst.Dev {
								bad = fmt.Sprintf("the descriptor returned for item 1 (/w/good) is not /w/good (mode %o, inode %d, want %d); item 0: file=%v err=%v", st.Mode, st.Ino, gst.Ino, rs[0].File != nil, rs[0].Err)
							}
						}
					}
					for _, r := range rs {
						if r.File != nil {
							r.File.Close()
						}
					}
					if bad != "" {
						res.Mismatch(Mismatch{Kind: "oracle", What: "Open batch while the first item's path is exchanged between a file and a directory from outside: the second item's result is the second item's (C14 index alignment)", Input: fmt.Sprintf("round %d of %d: Open[/w/a (exchanged with a directory all the time), /w/good]", rd, rounds), Impl: bad, Oracle: "violates"})
						break
					}
				}
				res.Case(fmt.Sprintf("exchange under the batch: first item %v", first), true, "exchange-under-batch")
				close(stop)
				<-done
				env2.Close()
			}
			os.RemoveAll(shared)
		}
	}
	// large batches, many times over on one environment: every returned descriptor is still the file of its own item
	{
		env.Reset()
		const nb = 250
		var mk []string
		for i := 0; i < nb; i += 2 {
			mk = append(mk, fmt.Sprintf("touch /w/big%d", i))
		}
		env.runProbe(RunSpec{Script: strings.Join(mk, ";") + ";exit 0"}, false)
		var cmds []container.OpenCmd
		wantIno := make([]uint64, nb)
		for i := 0; i < nb; i++ {
			if i%2 == 0 {
				cmds = append(cmds, container.OpenCmd{Path: fmt.Sprintf("/w/big%d", i), Flag: os.O_RDONLY})
				var st syscall.Stat_t
				syscall.Stat(fmt.Sprintf("%s/w/big%d", root, i), &st)
				wantIno[i] = st.Ino
			} else {
				cmds = append(cmds, container.OpenCmd{Path: fmt.Sprintf("/w/absent%d", i), Flag: os.O_RDONLY})
			}
		}
		rounds := 2000
		if tier == "thorough" {
			rounds = 20000
		}
		for rd := 0; rd < rounds; rd++ {
			rs, err := env.Open(cmds)
			var bad []string
			if err != nil || len(rs) != nb {
				bad = append(bad, fmt.Sprintf("call failed: err=%v results=%d", err, len(rs)))
			}
			for i, r := range rs {
				if (r.File != nil) != (i%2 == 0) || (r.Err != nil) != (i%2 == 1) {
					bad = append(bad, fmt.Sprintf("item %d: file=%v err=%v", i, r.File != nil, r.Err))
				} else if r.File != nil {
					var st syscall.Stat_t
					if e := syscall.Fstat(int(r.File.Fd()), &st); e != nil || st.Ino != wantIno[i] {
						bad = append(bad, fmt.Sprintf("item %d: the descriptor is not /w/big%d (inode %d, want %d, %v)", i, i, st.Ino, wantIno[i], e))
					}
				}
				if r.File != nil {
					r.File.Close()
				}
				if len(bad) > 4 {
					break
				}
			}
			res.Case("big batch round "+itoa(rd), true, "big-batch")
			if len(bad) > 0 {
				res.Mismatch(Mismatch{Kind: "oracle", What: "Open batch of 250 items (125 existing files, 125 absent), repeated: index-aligned descriptors of the right files (C14)", Input: fmt.Sprintf("round %d of %d on one environment", rd, rounds), Impl: strings.Join(bad, "; "), Oracle: "violates"})
				env.Close()
				if env, err = newEnv(container.Builder{}); err != nil {
					fatal("container: %v", err)
				}
				break
			}
		}
		res.Traces++
	}
	// Symlink / Delete alignment
	for it := 0; it < n/4+2; it++ {
		env.Reset()
		ln := 1 + rng.Intn(8)
		var links []container.SymbolicLink
		var fate []bool
		seen := map[string]bool{}
		for i := 0; i < ln; i++ {
			lp := fmt.Sprintf("/w/l%d", rng.Intn(ln))
			if rng.Chance(25) {
				lp = "/w/missingdir/l"
			}
			ok := !seen[lp] && !strings.Contains(lp, "missingdir")
			seen[lp] = true
			links = append(links, container.SymbolicLink{LinkPath: lp, Target: "/w/t"})
			fate = append(fate, ok)
		}
		errs, err := env.Symlink(links)
		var bad []string
		if err != nil || len(errs) != ln {
			bad = append(bad, fmt.Sprintf("err=%v results=%d items=%d", err, len(errs), ln))
		} else {
			for i := range errs {
				if (errs[i] == nil) != fate[i] {
					bad = append(bad, fmt.Sprintf("item %d: err=%v expected success=%v", i, errs[i], fate[i]))
				}
			}
		}
		derr := env.Delete("/w/l0")
		if (derr == nil) != seen["/w/l0"] {
			bad = append(bad, fmt.Sprintf("Delete /w/l0: %v (existed=%v)", derr, seen["/w/l0"]))
		}
		res.Case(fmt.Sprintf("symlink %v %d", fate, it), true, "symlink-batch")
		if len(bad) > 0 {
			res.Mismatch(Mismatch{Kind: "oracle", What: "Symlink/Delete results aligned with the request (C14)", Input: fmt.Sprint(links), Impl: strings.Join(bad, "; "), Oracle: "violates"})
		}
	}

	// ---- part A': the same batches from several callers at once on ONE environment: every result must still belong to its own item
	{
		var wg sync.WaitGroup
		var mu sync.Mutex
		var badC []string
		perCaller := 200
		if tier == "thorough" {
			perCaller = 300
		}
		for g := 0; g < 8; g++ {
			wg.Add(1)
			go func(g int) {
				defer wg.Done()
				for it := 0; it < perCaller; it++ {
					// four items per call; items 1 and 3 fail in Open batches (missing directory), items 0 and 2 in Symlink batches (name taken)
					if g%2 == 0 {
						cmds := []container.OpenCmd{
							{Path: fmt.Sprintf("/w/c%d_a", g), Flag: os.O_CREATE | os.O_WRONLY, Perm: 0644},
							{Path: fmt.Sprintf("/w/nodir%d/x", g), Flag: os.O_CREATE | os.O_WRONLY, Perm: 0644},
							{Path: fmt.Sprintf("/w/c%d_b", g), Flag: os.O_CREATE | os.O_WRONLY, Perm: 0644},
							{Path: fmt.Sprintf("/w/nodir%d/y", g), Flag: os.O_RDONLY},
						}
						rs, err := env.Open(cmds)
						ok := err == nil && len(rs) == 4 && rs[0].Err == nil && rs[0].File != nil && rs[1].Err != nil && rs[2].Err == nil && rs[2].File != nil && rs[3].Err != nil
						for _, r := range rs {
							if r.File != nil {
								r.File.Close()
							}
						}
						if !ok {
							mu.Lock()
							badC = append(badC, fmt.Sprintf("caller %d Open: err=%v results=%v", g, err, rs))
							mu.Unlock()
						}
					} else {
						taken := fmt.Sprintf("/w/taken%d", g)
						fresh1, fresh2 := fmt.Sprintf("/w/f%d_%d_1", g, it), fmt.Sprintf("/w/f%d_%d_2", g, it)
						if it == 0 {
							env.Symlink([]container.SymbolicLink{{LinkPath: taken, Target: "/w/t"}})
						}
						// callers differ in which positions fail, so that a reply taken from another caller is visible
						links := []container.SymbolicLink{{LinkPath: taken, Target: "/w/t"}, {LinkPath: fresh1, Target: "/w/t"}, {LinkPath: taken, Target: "/w/t"}, {LinkPath: fresh2, Target: "/w/t"}}
						wantFail := []bool{true, false, true, false}
						if g%4 == 3 {
							links = []container.SymbolicLink{links[1], links[0], links[3], links[2], links[0]}
							wantFail = []bool{false, true, false, true, true}
						}
						errs, err := env.Symlink(links)
						ok := err == nil && len(errs) == len(links)
						for k := 0; ok && k < len(links); k++ {
							ok = (errs[k] != nil) == wantFail[k]
						}
						env.Delete(fresh1)
						env.Delete(fresh2)
						if !ok {
							mu.Lock()
							badC = append(badC, fmt.Sprintf("caller %d Symlink: err=%v results=%v", g, err, errs))
							mu.Unlock()
						}
					}
				}
			}(g)
		}
		wg.Wait()
		for i := 0; i < 8*perCaller; i++ {
			res.Case(fmt.Sprintf("concurrent batch %d", i), true, "concurrent-batch")
		}
		if len(badC) > 0 {
			res.Mismatch(Mismatch{Kind: "oracle", What: "concurrent Open/Symlink batches on one environment: a result does not belong to its own item (C14 index alignment; failing items must not affect others)", Input: fmt.Sprintf("8 callers x %d batches of 4 items", perCaller), Impl: strings.Join(badC[:min(len(badC), 3)], " || "), Oracle: "violates"})
		}
		if e := env.Ping(); e != nil {
			res.Mismatch(Mismatch{Kind: "oracle", What: "environment unusable after concurrent batches", Impl: e.Error(), Oracle: "violates"})
		}
	}

	// ---- part B: scripted container peer ----
	rounds := 12
	if tier == "thorough" {
		rounds = 200
	}
	for _, mode := range []string{"honest", "short-batch", "long-batch", "fewer-fds"} {
		time.Sleep(20 * time.Millisecond)
		fdsBefore := fdCount(os.Getpid())
		var bad []string
		for it := 0; it < rounds; it++ {
			hostS, peerS, err := unixsocket.NewSocketPair()
			if err != nil {
				fatal("socketpair: %v", err)
			}
			host := container.VerifNewHostEnv(hostS)
			peer := container.VerifNewPeer(peerS)
			ln := 2 + rng.Intn(5)
			var cmds []container.OpenCmd
			for i := 0; i < ln; i++ {
				cmds = append(cmds, container.OpenCmd{Path: fmt.Sprintf("/x%d", i)})
			}
			succ := 0
			batch := make([]string, ln)
			for i := range batch {
				if i > 0 && rng.Chance(40) {
					batch[i] = "failed"
				} else {
					succ++
				}
			}
			nf := succ
			switch mode {
			case "short-batch":
				batch = batch[:ln-1]
			case "long-batch":
				batch = append(batch, "")
			case "fewer-fds":
				nf = succ - 1
			}
			done := make(chan struct{})
			go func() {
				defer close(done)
				if _, _, err := peer.RecvOpen(); err != nil {
					return
				}
				var fds []int
				var files []*os.File
				for i := 0; i < nf; i++ {
					f, _ := os.Open(os.DevNull)
					files = append(files, f)
					fds = append(fds, int(f.Fd()))
				}
				peer.Reply(batch, "", fds)
				for _, f := range files {
					f.Close()
				}
			}()
			rs, err := host.Open(cmds)
			got := 0
			for _, r := range rs {
				if r.File != nil {
					got++
					r.File.Close()
				}
			}
			<-done
			hostS.Close()
			peer.Close()
			if mode == "honest" {
				if err != nil || got != succ || len(rs) != ln {
					bad = append(bad, fmt.Sprintf("honest reply rejected or misassigned: err=%v files=%d want %d", err, got, succ))
				}
			} else if err == nil {
				bad = append(bad, fmt.Sprintf("inconsistent reply accepted (batch=%q fds=%d items=%d)", batch, nf, ln))
			}
			res.Case(fmt.Sprintf("peer %s %v %d", mode, batch, it), mode != "honest", "peer-"+mode)
		}
		grow := 0
		// files already wrapped in *os.File when the reply is rejected are released by their finalizers
		settle(func() bool { runtime.GC(); grow = fdCount(os.Getpid()) - fdsBefore; return grow <= 0 })
		if grow >= rounds/2 {
			bad = append(bad, fmt.Sprintf("descriptors leaked: %d more open after %d rounds", grow, rounds))
		}
		if len(bad) > 0 {
			res.Mismatch(Mismatch{Kind: "oracle", What: "host validation of an Open reply (C14_inconsistent_reply_closes_all / honest_reply_accepted)", Input: "scripted peer, mode=" + mode, Impl: strings.Join(bad[:min(len(bad), 4)], "; "), Oracle: "violates"})
		}
	}
}

func fcntlGetfl(fd int) (int, error) {
	r, _, e := syscall.Syscall(syscall.SYS_FCNTL, uintptr(fd), syscall.F_GETFL, 0)
	if e != 0 {
		return 0, e
	}
	return int(r), nil
}
