package main

import (
	"github.com/criyle/go-sandbox/pkg/mount"
)

func init() {
	// the builder's unexported flag sets, read off its public results
	constTable["mount.bind"] = uint64(mount.NewBuilder().WithBind("/", "x", false).Mounts[0].Flags)
	constTable["mount.mFlag"] = uint64(mount.NewBuilder().WithTmpfs("x", "").Mounts[0].Flags)
}
