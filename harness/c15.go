package main

import (
	"fmt"
	"os"
	"sort"
	"strings"
	"syscall"
	"time"
	"unsafe"

	"github.com/criyle/go-sandbox/pkg/seccomp"
	"github.com/criyle/go-sandbox/pkg/seccomp/libseccomp"
	"github.com/criyle/go-sandbox/ptracer"
	"github.com/criyle/go-sandbox/runner"
	"github.com/elastic/go-seccomp-bpf/arch"
)

func init() { props["C15"] = runC15 }

var tracedFileSyscalls = []string{"open", "openat", "openat2", "readlink", "readlinkat", "unlink", "unlinkat", "mkdirat", "mknodat", "symlinkat",
	"fchmodat", "fchmodat2", "linkat", "renameat", "renameat2", "access", "faccessat", "faccessat2", "stat", "lstat", "statx", "newfstatat",
	"execve", "execveat", "chmod", "rename"}

var fileTracingFilter seccomp.Filter

// allow everything in the table except the traced file syscalls; unknown numbers -> trace (handler kills)
func tracingFilter() seccomp.Filter {
	if fileTracingFilter != nil {
		return fileTracingFilter
	}
	info, err := arch.GetInfo("")
	if err != nil {
		fatal("arch info: %v", err)
	}
	tr := map[string]bool{}
	for _, n := range tracedFileSyscalls {
		if _, ok := info.SyscallNames[n]; ok {
			tr[n] = true
		}
	}
	var allow, trace []string
	for n := range info.SyscallNames {
		if tr[n] {
			trace = append(trace, n)
		} else {
			allow = append(allow, n)
		}
	}
	sort.Strings(allow)
	sort.Strings(trace)
	f, err := (&libseccomp.Builder{Allow: allow, Trace: trace, Default: libseccomp.ActionTrace}).Build()
	if err != nil {
		fatal("tracing filter: %v", err)
	}
	fileTracingFilter = f
	return f
}

func getStringSafe(ctx *ptracer.Context, addr uintptr) (s string, panicked string) {
	defer func() {
		if r := recover(); r != nil {
			panicked = fmt.Sprint(r)
		}
	}()
	return ctx.GetString(addr), ""
}

func programVerdict(s runner.Status) bool {
	switch s {
	case runner.StatusNormal, runner.StatusNonzeroExitStatus, runner.StatusSignalled, runner.StatusTimeLimitExceeded,
		runner.StatusMemoryLimitExceeded, runner.StatusOutputLimitExceeded, runner.StatusDisallowedSyscall:
		return true
	}
	return false
}

func runC15(res *Result, d *Driver, tier string, seed uint64) {
	res.Rule = "part A: real Context.GetString on this process' own memory (regions with PROT_NONE holes; strings at end-of-page±2, unterminated 4095/4096/4097/8192 bytes, NUL at 0, unmapped/odd addresses) vs Model.GetString.getString; " +
		"part A': real clen/hasNull on random buffers vs the Go-lite evaluation of the regenerated functions and the hand model; " +
		"part B: hostile probe scripts under the real ptrace runner with a file-tracing filter (garbage pointers, 64-bit garbage in int args, unknown/x32/negative syscall numbers, unreadable open_how, threads racing exit_group; the main process ending while forked children still run, vfork parents, names leading into symlink cycles, FIFOs / sockets / directories / devices made by the program and handed to execve, open, stat, readlink — the run must return within 15 s): verdict must be about the program, never Runner Error. " +
		"non-trivial = not the plain NUL-terminated in-page case; distinct = distinct (layout,address) / buffer / script."
	rng := NewRng(seed, "C15", 1)
	pg := ptracer.VerifPageSize()
	const pathMax = syscall.PathMax
	// ---- part A ----
	npages := 5
	// one extra page that is always PROT_NONE, so that what lies beyond the region is known (unreadable)
	whole, err := syscall.Mmap(-1, 0, (npages+1)*pg, syscall.PROT_READ|syscall.PROT_WRITE, syscall.MAP_PRIVATE|syscall.MAP_ANON)
	if err != nil {
		fatal("mmap: %v", err)
	}
	syscall.Mprotect(whole[npages*pg:], syscall.PROT_NONE)
	region := whole[:npages*pg]
	base := uintptr(unsafe.Pointer(&region[0]))
	ctx := ptracer.VerifNewContext(syscall.Getpid(), syscall.PtraceRegs{})
	nA := 300
	if tier == "thorough" {
		nA = 20000
	}
	for it := 0; it < nA; it++ {
		// layout: which pages are readable; content: mostly non-NUL with a few NULs at interesting places
		mapped := make([]bool, npages)
		for i := range mapped {
			mapped[i] = rng.Chance(70)
		}
		syscall.Mprotect(region, syscall.PROT_READ|syscall.PROT_WRITE)
		fill := byte('A' + rng.Intn(20))
		for i := range region {
			region[i] = fill
		}
		var nuls []int
		for k := rng.Intn(4); k > 0; k-- {
			var pos int
			switch rng.Intn(4) {
			case 0:
				pos = rng.Intn(npages)*pg + pg - 1 - rng.Intn(3) // just before a page end
			case 1:
				pos = rng.Intn(npages) * pg // first byte of a page
			case 2:
				pos = rng.Intn(npages * pg)
			default:
				pos = rng.Intn(npages*pg-pathMax) + pathMax - 1 + rng.Intn(3) - 1
			}
			if pos >= 0 && pos < len(region) {
				region[pos] = 0
				nuls = append(nuls, pos)
			}
		}
		for i, m := range mapped {
			if !m {
				syscall.Mprotect(region[i*pg:(i+1)*pg], syscall.PROT_NONE)
			}
		}
		sort.Ints(nuls)
		var ns, ms []string
		for _, n := range nuls {
			ns = append(ns, itoa(n))
		}
		for _, m := range mapped {
			ms = append(ms, b01(m))
		}
		for q := 0; q < 8; q++ {
			var off int
			switch rng.Intn(5) {
			case 0:
				off = rng.Intn(npages)*pg + pg - 1 - rng.Intn(3)
			case 1:
				off = rng.Intn(npages) * pg
			case 2:
				if len(nuls) > 0 {
					off = nuls[rng.Intn(len(nuls))] - rng.Intn(pathMax+2)
					if off < 0 {
						off = 0
					}
				}
			default:
				off = rng.Intn(npages * pg)
			}
			s, pan := getStringSafe(ctx, base+uintptr(off))
			impl := "ok " + itoa(len(s)) + " " + hx(s[:min(len(s), 8)])
			if pan != "" {
				impl = "panic"
			}
			line := fmt.Sprintf("c15.getstring %d %d %s %d %s %d", pg, pathMax, strings.Join(ms, ""), fill, jl(ns), off)
			model := d.Ask(line)
			trivial := pan == "" && len(s) < 64
			res.Case(line, !trivial, map[bool]string{true: "panic", false: "len" + itoa(bucket(len(s)))}[pan != ""])
			if impl != model {
				m := Mismatch{Kind: "differential", What: "Context.GetString vs Model.GetString.getString", Input: line, Impl: impl, Model: model, Oracle: "holds"}
				if pan != "" {
					m.Oracle = "violates"
					m.Note = "GetString panicked on program-controlled memory: " + pan
					m.Key = "getstring-panic"
				}
				res.Mismatch(m)
			} else if pan != "" {
				res.Mismatch(Mismatch{Kind: "oracle", What: "GetString never panics (C15_getstring_total)", Input: line, Impl: impl, Oracle: "violates", Note: pan})
			}
			if it == 0 && q == 0 {
				res.Sample(line + " => " + model)
			}
		}
	}
	syscall.Mprotect(region, syscall.PROT_READ|syscall.PROT_WRITE)
	// deterministic: PATH_MAX unterminated bytes, all pages readable (the clen witness)
	{
		for i := range region {
			region[i] = 'A'
		}
		s, pan := getStringSafe(ctx, base)
		res.Case("unterminated-pathmax", true, "witness")
		if pan != "" {
			res.Mismatch(Mismatch{Kind: "oracle", What: "GetString never panics (C15_getstring_total): 4096+ non-NUL bytes", Input: "region of 'A' x 5 pages, addr=base", Impl: "panic: " + pan, Oracle: "violates"})
		} else if len(s) != pathMax {
			res.Mismatch(Mismatch{Kind: "oracle", What: "unterminated string is cut at PATH_MAX", Input: "region of 'A'", Impl: itoa(len(s)), Oracle: "violates"})
		}
	}
	syscall.Munmap(whole)

	// ---- part A' ----
	nC := 2000
	if tier == "thorough" {
		nC = 100000
	}
	for i := 0; i < nC; i++ {
		n := rng.Intn(40)
		b := make([]byte, n)
		var bs []string
		for j := range b {
			if rng.Chance(85) {
				b[j] = byte(1 + rng.Intn(3))
			}
			bs = append(bs, itoa(int(b[j])))
		}
		impl := fmt.Sprintf("%d %s", ptracer.VerifClen(b), b01(ptracer.VerifHasNull(b)))
		line := "c15.clen " + jl(bs)
		model := d.Ask(line)
		res.Case(line, n > 0, "clen")
		// driver answers "<gen clen> <gen hasNull> <model clen> <model hasNull>"
		f := strings.Fields(model)
		if len(f) != 4 || impl != f[0]+" "+f[1] || impl != f[2]+" "+f[3] {
			res.Mismatch(Mismatch{Kind: "differential", What: "clen/hasNull vs GoLite(Gen.C15) vs Model.GetString", Input: line, Impl: impl, Model: model})
		}
		if ptracer.VerifClen(b) > len(b) {
			res.Mismatch(Mismatch{Kind: "oracle", What: "clen(b) <= len(b) (C15_clen_le)", Input: line, Impl: impl, Oracle: "violates"})
		}
	}

	// ---- part B: hostile tracees under the real ptrace runner ----
	scripts := []string{
		"sys 2 nonul:4096 0;exit 0",
		"sys 2 nonul:4095 0;exit 0",
		"sys 2 nonul:8192 0;exit 0",
		"sys 2 nonul:100 0;exit 0",
		"sys 2 endpage:/etc/passwd 0;exit 0",
		"sys 2 bad 0;exit 0",
		"sys 2 kern 0;exit 0",
		"sys 2 0xdeadbeefdeadbeef 0;exit 0",
		"sys 2 1 0;exit 0",
		"sys 257 fdcwd32 s:/etc/passwd 0;exit 0",
		"sys 257 fdcwd64 s:/etc/passwd 0;exit 0",
		"sys 257 0xdeadbeefdeadbeef s:x 0;exit 0",
		"sys 257 0x7fffffff s:x 0;exit 0",
		"sys 257 99999 s:x 0xffffffffffffffff;exit 0",
		"sys 437 fdcwd64 s:/etc/passwd bad 24;exit 0",
		"sys 437 fdcwd64 s:/etc/passwd kern 24;exit 0",
		"sys 437 fdcwd64 bad bad 24;exit 0",
		// openat2 with every size of the open_how block a program can claim (the kernel rejects the short ones itself)
		"sys 437 fdcwd64 s:/etc/passwd s:AAAAAAAAAAAAAAAAAAAAAAAAAAAAAAAA 0;sys 437 fdcwd64 s:/etc/passwd s:AAAAAAAAAAAAAAAAAAAAAAAAAAAAAAAA 4;exit 0",
		"sys 437 fdcwd64 s:/etc/passwd s:AAAAAAAAAAAAAAAAAAAAAAAAAAAAAAAA 8;sys 437 fdcwd64 s:/etc/passwd s:AAAAAAAAAAAAAAAAAAAAAAAAAAAAAAAA 12;exit 0",
		"sys 437 fdcwd64 s:/etc/passwd s:AAAAAAAAAAAAAAAAAAAAAAAAAAAAAAAA 20;sys 437 fdcwd64 s:/etc/passwd s:AAAAAAAAAAAAAAAAAAAAAAAAAAAAAAAA 23;exit 0",
		"sys 437 fdcwd64 s:/etc/passwd s:AAAAAAAAAAAAAAAAAAAAAAAAAAAAAAAA 25;sys 437 fdcwd64 s:/etc/passwd s:AAAAAAAAAAAAAAAAAAAAAAAAAAAAAAAA 0x100000;sys 437 fdcwd64 s:/etc/passwd s:AAAAAAAAAAAAAAAAAAAAAAAAAAAAAAAA 0xffffffffffffffff;exit 0",
		"sys 437 fdcwd64 s:/etc/passwd nonul:8 24;sys 437 fdcwd64 s:/etc/passwd nonul:20 24;exit 0",
		"sys 59 bad bad bad;exit 0",
		"sys 322 0xffffffff bad bad bad 0;exit 0",
		"sys 82 bad bad;exit 0",
		"sys 265 fdcwd32 nonul:5000 fdcwd32 nonul:5000;exit 0",
		"sys 9999;exit 0",
		"sys 0x40000002 s:/etc/passwd 0;exit 0",
		"sys 18446744073709551615;exit 0",
		"sys 0x7fffffff;exit 0",
		"sys 4 nonul:4096 bad;exit 0",
		"fork;sys 2 nonul:4096 0;exit 0;endfork;wait;exit 0",
		"fork;fork;sys 2 bad 0;exit 1;endfork;raise 9;endfork;sys 2 s:/etc/passwd 0;wait;exit 0",
	}
	reps := 1
	race := 60
	if tier == "thorough" {
		reps = 5
		race = 3000
	}
	// every real run is watched: a tracer that stops making progress is a violation, not a harness time-out
	watched := func(script string) (runner.Result, bool) {
		var pid int
		ch := make(chan runner.Result, 1)
		go func() {
			r, _ := runPtraceProbe(RunSpec{Script: script, Filter: tracingFilter(), Timeout: 60 * time.Second, SyncFunc: func(p int) error { pid = p; return nil }})
			ch <- r
		}()
		select {
		case r := <-ch:
			return r, true
		case <-time.After(15 * time.Second):
			res.Mismatch(Mismatch{Kind: "oracle", What: "the tracer never stops making progress: the run must end once the verdict is decided (C15)", Input: script,
				Impl: "Run did not return within 15 s (the script itself ends within a fraction of a second)", Oracle: "violates"})
			if pid > 0 {
				syscall.Kill(-pid, syscall.SIGKILL)
			}
			return runner.Result{}, false
		}
	}
	runOne := func(script, kind string) {
		r, ok := watched(script)
		if !ok {
			return
		}
		res.Case("B:"+script, true, "hostile-"+kind+"-"+r.Status.String())
		res.Traces++
		if !programVerdict(r.Status) {
			res.Mismatch(Mismatch{Kind: "oracle", What: "hostile tracee: verdict must be about the program, never Runner Error (" + kind + ")", Input: script,
				Impl: fmt.Sprintf("status=%v exit=%d error=%q", r.Status, r.ExitStatus, r.Error), Oracle: "violates"})
		}
	}
	for rep := 0; rep < reps; rep++ {
		for _, s := range scripts {
			runOne(s, "args")
		}
	}
	// threads and children dying while the tracer handles their stops: a legal program that exits 0
	for i := 0; i < race; i++ {
		var sb strings.Builder
		nth := 2 + rng.Intn(4)
		for t := 0; t < nth; t++ {
			sb.WriteString("thread;")
			for k := rng.Intn(4); k >= 0; k-- {
				sb.WriteString("sys 2 s:/etc/passwd 0;")
			}
			sb.WriteString("endthread;")
		}
		if rng.Bool() {
			sb.WriteString("sys 2 s:/etc/hostname 0;")
		}
		sb.WriteString("sys 231 0") // exit_group(0) while threads are in traced syscalls
		script := sb.String()
		r, ok := watched(script)
		if !ok {
			continue
		}
		res.Case("race:"+script+itoa(i), true, "race-"+r.Status.String())
		res.Traces++
		if r.Status != runner.StatusNormal {
			res.Mismatch(Mismatch{Kind: "oracle", What: "threads racing exit_group(0): a legal program that exits 0 must be Normal (C15_vanished_tracee)", Input: script,
				Impl: fmt.Sprintf("status=%v exit=%d error=%q", r.Status, r.ExitStatus, r.Error), Oracle: "violates"})
		}
	}
	// other processes of the program still alive when the verdict is decided: the tracer must finish the run
	lingering := []string{
		"fork;sleep 30000;endfork;sleep 20;exit 0",
		"fork;ignore 15;spin 30000;endfork;sys 2 s:/etc/passwd 0;sleep 20;exit 3",
		"fork;fork;sleep 30000;endfork;sleep 30000;endfork;sleep 20;raise 11",
		"fork;sleep 30000;endfork;fork;spin 30000;endfork;sleep 20;sys 2 bad 0;exit 0",
	}
	// vfork parents (suspended until the child execs or exits) and names that lead into symlink cycles (the kernel
	// answers ELOOP): the tracer must keep going
	lingering = append(lingering,
		"vfork;exit 0;endfork;sleep 10;exit 7",
		"vfork;sleep 30;exit 3;endfork;vfork;exit 0;endfork;exit 0",
		"fork;vfork;exit 0;endfork;exit 0;endfork;wait;exit 0",
		"symlink loop1 loop1;sys 2 s:loop1 0;sys 4 s:loop1/x bad;exit 0",
		"symlink pb pa;symlink pa pb;sys 2 s:pa 0;sys 257 fdcwd64 s:pb/y 0 0;exit 0",
		"mkdir dd;symlink dd/../dl dl;sys 2 s:dl 0;sys 2 s:dl/z 0;exit 0",
		// special files the program made itself, handed to every kind of path-taking call (the kernel answers at once:
		// EACCES / ENOEXEC / ENXIO; whoever looks at such a file on the program's behalf must not wait for it)
		"mkfifo ff;sys 59 s:ff 0 0;sys 4 s:ff bad;sys 2 s:ff 0x800;sys 89 s:ff bad 0;exit 0",
		"mkfifo ff2;sys 322 fdcwd64 s:ff2 0 0 0;sys 21 s:ff2 4;exit 0",
		"mksock sk;sys 59 s:sk 0 0;sys 2 s:sk 0;sys 4 s:sk bad;exit 0",
		"mkdir dd2;sys 59 s:dd2 0 0;sys 2 s:dd2 1;exit 0",
		"sys 59 s:/dev/null 0 0;sys 59 s:/dev/zero 0 0;sys 59 s:/proc/self/mem 0 0;exit 0",
		"mkfifo ff3;symlink ff3 lf3;sys 59 s:lf3 0 0;chmod ff3 777;sys 59 s:ff3 0 0;exit 0",
	)
	lingerDir, _ := os.MkdirTemp("", "verif-c15-links-")
	defer os.RemoveAll(lingerDir)
	nl := 1
	if tier == "thorough" {
		nl = 25
	}
	for rep := 0; rep < nl; rep++ {
		for _, script := range lingering {
			var pid int
			ch := make(chan runner.Result, 1)
			go func() {
				wd, _ := os.MkdirTemp(lingerDir, "w")
				r, _ := runPtraceProbe(RunSpec{Script: script, Filter: tracingFilter(), Timeout: 60 * time.Second, WorkDir: wd, SyncFunc: func(p int) error { pid = p; return nil }})
				ch <- r
			}()
			res.Case("linger:"+script+itoa(rep), true, "lingering-children")
			res.Traces++
			select {
			case r := <-ch:
				if !programVerdict(r.Status) || r.Status == runner.StatusTimeLimitExceeded {
					res.Mismatch(Mismatch{Kind: "oracle", What: "main process ends while other processes of the program live: verdict about the program (C15)", Input: script,
						Impl: fmt.Sprintf("status=%v exit=%d error=%q", r.Status, r.ExitStatus, r.Error), Oracle: "violates"})
				}
			case <-time.After(15 * time.Second):
				res.Mismatch(Mismatch{Kind: "oracle", What: "the tracer never stops making progress: the run must end once the verdict is decided (C15)", Input: script,
					Impl: "Run did not return within 15 s (the script itself ends within a fraction of a second)", Oracle: "violates"})
				if pid > 0 {
					syscall.Kill(-pid, syscall.SIGKILL)
				}
			}
		}
	}
	res.Sample("hostile: " + scripts[0])
}

func bucket(n int) int {
	switch {
	case n == 0:
		return 0
	case n < 64:
		return 1
	case n < 4095:
		return 2
	}
	return n
}
