// verifharness: differential correspondence between criyle/go-sandbox (built from /repo's working
// tree with -tags verif) and the Lean model driver. One subcommand per property.
package main

import (
	"flag"
	"fmt"
	"os"
	"strconv"
	"syscall"
)

type runFn func(res *Result, d *Driver, tier string, seed uint64)

var props = map[string]runFn{}

func main() {
	if len(os.Args) < 2 {
		fmt.Fprintln(os.Stderr, "usage: verifharness <property|consts|probe-helper> [-tier quick|thorough] [-out file]")
		os.Exit(2)
	}
	// programs that fault on purpose must not leave core files behind, whatever the caller's limit is
	syscall.Setrlimit(syscall.RLIMIT_CORE, &syscall.Rlimit{Cur: 0, Max: 0})
	sub := os.Args[1]
	if fn, ok := helpers[sub]; ok {
		fn(os.Args[2:])
		return
	}
	fs := flag.NewFlagSet(sub, flag.ExitOnError)
	tier := fs.String("tier", "quick", "quick|thorough")
	out := fs.String("out", "", "result json")
	fs.Parse(os.Args[2:])
	seed := uint64(1)
	if s := os.Getenv("VERIF_SEED"); s != "" {
		if v, err := strconv.ParseUint(s, 10, 64); err == nil {
			seed = v
		}
	}
	fn, ok := props[sub]
	if !ok {
		fatal("unknown property %s", sub)
	}
	res := NewResult(sub, *tier, seed)
	d := StartDriver()
	fn(res, d, *tier, seed)
	d.Close()
	if *out == "" {
		*out = "/dev/stdout"
	}
	res.Write(*out)
}

var helpers = map[string]func([]string){}
