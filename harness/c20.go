package main

import (
	"fmt"
	"os"
	"os/exec"
	"path/filepath"
	"sort"
	"strconv"
	"strings"
	"sync"
	"syscall"
	"time"

	"github.com/criyle/go-sandbox/pkg/cgroup"
)

func init() {
	props["C20"] = runC20
	helpers["c20-v2child"] = c20V2Child
}

func procsIn(dir string) map[int]bool {
	m := map[int]bool{}
	b, err := os.ReadFile(filepath.Join(dir, "cgroup.procs"))
	if err != nil {
		return m
	}
	for _, f := range strings.Fields(string(b)) {
		n, _ := strconv.Atoi(f)
		m[n] = true
	}
	return m
}

func dirExists(p string) bool {
	st, err := os.Stat(p)
	return err == nil && st.IsDir()
}

type c20Handle struct {
	cg      cgroup.Cgroup
	name    string   // path below the controller roots
	created bool     // this handle's creating operation made the group
	dirs    []string // controller directories
}

// c20History runs a random sequential history on the current hierarchy (v1: the machine's; v2: a private mount).
func c20History(res *Result, d *Driver, rng *Rng, root string, ct *cgroup.Controllers, v2 bool, steps int, tag string) {
	ctrlDirs := func(name string) []string {
		if v2 {
			return []string{filepath.Join(cgroup.VerifBasePath, name)}
		}
		var out []string
		for _, c := range ct.Names() {
			out = append(out, filepath.Join(cgroup.VerifBasePath, c, name))
		}
		return out
	}
	top, err := cgroup.New(root, ct)
	if err != nil {
		res.Mismatch(Mismatch{Kind: "oracle", What: "cannot create the scratch root group (" + tag + ")", Input: root, Impl: err.Error(), Oracle: "violates"})
		return
	}
	defer func() {
		top.Destroy()
		for _, d := range ctrlDirs(root) {
			syscall.Rmdir(d)
		}
	}()
	owner := map[string]bool{} // group name -> exists (created by some live handle or pre-existing by us)
	var handles []*c20Handle
	var kids []*exec.Cmd
	defer func() {
		for _, k := range kids {
			k.Process.Kill()
			k.Wait()
		}
		for i := len(handles) - 1; i >= 0; i-- {
			handles[i].cg.Destroy()
		}
		for n := range owner {
			for _, d := range ctrlDirs(n) {
				syscall.Rmdir(d)
			}
		}
	}()
	names := []string{"a", "b", "c"}
	// the same history for the Lean model (Model/Cgroup.lean ostep): handle ids, directory ids, observed outcomes
	var mops, mobs []string
	dirID := map[string]int{}
	did := func(full string) int {
		if _, ok := dirID[full]; !ok {
			dirID[full] = len(dirID)
		}
		return dirID[full]
	}
	hidOf := map[*c20Handle]int{}
	nextH := 0
	var pars []string // "child=parent" directory ids: rmdir of a group with sub-groups fails
	defer func() {
		if len(mops) == 0 {
			return
		}
		ps := "-"
		if len(pars) > 0 {
			ps = strings.Join(pars, ",")
		}
		line := "c20.hist " + strings.Join(mops, ",") + " " + ps
		model := d.Ask(line)
		impl := strings.Join(mobs, ",")
		if model != impl {
			res.Mismatch(Mismatch{Kind: "differential", What: "history of New/Random/Destroy/external mkdir: Existing() and the directories removed, real hierarchy vs Model/Cgroup.ostep (" + tag + ")", Input: line, Impl: impl, Model: model, Oracle: "unknown"})
		}
	}()
	bad := func(what, input, impl string) {
		res.Mismatch(Mismatch{Kind: "oracle", What: what + " (" + tag + ")", Input: input, Impl: impl, Oracle: "violates"})
	}
	// limits written stay the limits in force, whatever is done afterwards through other handles (re-opening the group,
	// creating sub-groups, destroying non-owning handles ...): name -> file -> value
	ledger := map[string]map[string]string{}
	lastOp := "start"
	limitFile := func(name, ctrl, file string) string {
		if v2 {
			return filepath.Join(ctrlDirs(name)[0], file)
		}
		return filepath.Join(cgroup.VerifBasePath, ctrl, name, file)
	}
	verifyLedger := func() {
		for name, files := range ledger {
			if !dirExists(ctrlDirs(name)[0]) {
				delete(ledger, name)
				continue
			}
			for f, want := range files {
				b, err := os.ReadFile(f)
				if err != nil || strings.TrimSpace(string(b)) != want {
					bad("a limit written earlier is no longer the limit in force (C20 limits)", fmt.Sprintf("%s group %s: %s was set to %q; then: %s", tag, name, f, want, lastOp), fmt.Sprintf("now %q %v", strings.TrimSpace(string(b)), err))
					delete(files, f)
				}
			}
		}
	}
	defer verifyLedger()
	for s := 0; s < steps; s++ {
		verifyLedger()
		op := rng.Intn(7)
		switch {
		case op <= 1: // New under the root handle
			n := names[rng.Intn(len(names))]
			full := filepath.Join(root, n)
			existed := dirExists(ctrlDirs(full)[0])
			var cg cgroup.Cgroup
			var err error
			how := "New"
			switch {
			case rng.Chance(30):
				how = "Nest" // the root handle holds no process: Nest = New + moving nobody
				cg, err = top.Nest(n)
			case existed && rng.Chance(30):
				how = "OpenExisting"
				cg, err = cgroup.OpenExisting(full, ct)
			default:
				cg, err = top.New(n)
			}
			key := fmt.Sprintf("%s %s(%s) existed=%v", tag, how, n, existed)
			lastOp = key
			res.Case(key+itoa(s), true, tag+"-new")
			if err != nil {
				bad(how+" failed", key, err.Error())
				continue
			}
			if cg == nil {
				bad(how+" returned a nil handle and no error", key, "nil, nil")
				continue
			}
			if cg.Existing() != existed {
				bad("Existing() does not say whether the group was there before (C20_never_preexisting)", key, fmt.Sprintf("Existing()=%v", cg.Existing()))
			}
			for _, d := range ctrlDirs(full) {
				if !dirExists(d) {
					bad("group not nested under its parent after New (C20_nested_under_parent)", key, "missing "+d)
				}
			}
			owner[full] = true
			nh := &c20Handle{cg: cg, name: full, created: !existed, dirs: ctrlDirs(full)}
			handles = append(handles, nh)
			hidOf[nh] = nextH
			mops = append(mops, fmt.Sprintf("m%d:%d", nextH, did(full)))
			mobs = append(mobs, map[bool]string{true: "E", false: "C"}[cg.Existing()])
			nextH++
		case op == 2 && rng.Chance(40): // someone else makes a group
			n := names[rng.Intn(len(names))]
			full := filepath.Join(root, n)
			if dirExists(ctrlDirs(full)[0]) {
				continue
			}
			for _, dd := range ctrlDirs(full) {
				os.Mkdir(dd, 0755)
				// like an administrator would: a cpuset group is unusable until cpus/mems are set
				for _, f := range []string{"cpuset.cpus", "cpuset.mems"} {
					if b, err := os.ReadFile(filepath.Join(filepath.Dir(dd), f)); err == nil {
						os.WriteFile(filepath.Join(dd, f), b, 0644)
					}
				}
			}
			owner[full] = true
			mops = append(mops, fmt.Sprintf("e%d", did(full)))
			mobs = append(mobs, "-")
			res.Case(fmt.Sprintf("%s extMk(%s) %d", tag, n, s), true, tag+"-extmk")
		case op == 2: // Random
			cg, err := top.Random("r*x")
			res.Case(fmt.Sprintf("%s Random %d", tag, s), true, tag+"-random")
			if err != nil {
				bad("Random failed", "Random(r*x)", err.Error())
				continue
			}
			var full string
			if v2 {
				full, _ = filepath.Rel(cgroup.VerifBasePath, cgroup.VerifV2Path(cg))
			} else if ps := cgroup.VerifV1Paths(cg); len(ps) > 0 {
				full, _ = filepath.Rel(filepath.Join(cgroup.VerifBasePath, ct.Names()[0]), ps[0])
			}
			if cg.Existing() || full == "" || owner[full] {
				bad("Random returned an existing or already owned group (distinctness)", "Random(r*x)", fmt.Sprintf("existing=%v name=%q", cg.Existing(), full))
			}
			owner[full] = true
			nh := &c20Handle{cg: cg, name: full, created: true, dirs: ctrlDirs(full)}
			handles = append(handles, nh)
			hidOf[nh] = nextH
			mops = append(mops, fmt.Sprintf("m%d:%d", nextH, did(full)))
			mobs = append(mobs, map[bool]string{true: "E", false: "C"}[cg.Existing()])
			nextH++
		case op == 3 && len(handles) > 0 && rng.Chance(35): // a sub-group under one of the handles
			h := handles[rng.Intn(len(handles))]
			if !dirExists(h.dirs[0]) || strings.Count(h.name, "/") >= 3 {
				continue
			}
			n := []string{"n1", "n2"}[rng.Intn(2)]
			full := filepath.Join(h.name, n)
			existed := dirExists(ctrlDirs(full)[0])
			cg, err := h.cg.New(n)
			key := fmt.Sprintf("%s sub-New(%s/%s) existed=%v", tag, h.name, n, existed)
			lastOp = key
			res.Case(key+itoa(s), true, tag+"-subnew")
			if err != nil || cg == nil {
				bad("New under a handle failed", key, fmt.Sprint(err))
				continue
			}
			if cg.Existing() != existed {
				bad("Existing() does not say whether the sub-group was there before", key, fmt.Sprintf("Existing()=%v", cg.Existing()))
			}
			if _, ok := dirID[full]; !ok {
				pars = append(pars, fmt.Sprintf("%d=%d", did(full), did(h.name)))
			}
			owner[full] = true
			nh := &c20Handle{cg: cg, name: full, created: !existed, dirs: ctrlDirs(full)}
			handles = append(handles, nh)
			hidOf[nh] = nextH
			mops = append(mops, fmt.Sprintf("m%d:%d", nextH, did(full)))
			mobs = append(mobs, map[bool]string{true: "E", false: "C"}[cg.Existing()])
			nextH++
		case op == 3 && len(handles) > 0: // AddProc
			h := handles[rng.Intn(len(handles))]
			// half of the targets have several threads: the whole process must move, not only its first thread
			k := exec.Command("/bin/sleep", "30")
			threaded := rng.Chance(50)
			if threaded {
				k = exec.Command(probePath(), "thread;sleep 30000;endthread;thread;sleep 30000;endthread;sleep 30000;exit 0")
			}
			if err := k.Start(); err != nil {
				continue
			}
			if threaded {
				for w := 0; w < 200; w++ { // until the threads exist
					if ts, _ := os.ReadDir(fmt.Sprintf("/proc/%d/task", k.Process.Pid)); len(ts) >= 3 {
						break
					}
					time.Sleep(time.Millisecond)
				}
			}
			kids = append(kids, k)
			pid := k.Process.Pid
			present := dirExists(h.dirs[0])
			err := h.cg.AddProc(pid)
			key := fmt.Sprintf("%s AddProc(%s, created=%v)", tag, h.name, h.created)
			lastOp = key
			res.Case(key+itoa(s), true, tag+"-addproc")
			if !present {
				// the group was removed by its creator: a stale handle must fail loudly, not succeed
				if err == nil {
					bad("AddProc on a removed group returned nil", key, "nil")
				}
				continue
			}
			if err != nil {
				bad("AddProc failed", key, err.Error())
				continue
			}
			for _, d := range h.dirs {
				if !procsIn(d)[pid] {
					bad("AddProc returned nil but the process was not moved into the group (C20_addproc_moves)", key, fmt.Sprintf("pid %d not in %s/cgroup.procs", pid, d))
				}
				// every thread of the process
				tf := "tasks"
				if v2 {
					tf = "cgroup.threads"
				}
				in := map[string]bool{}
				if b, err := os.ReadFile(filepath.Join(d, tf)); err == nil {
					for _, f := range strings.Fields(string(b)) {
						in[f] = true
					}
					ts, _ := os.ReadDir(fmt.Sprintf("/proc/%d/task", pid))
					for _, t := range ts {
						if !in[t.Name()] {
							bad("AddProc moved the process only partly: a thread stayed behind (C20_addproc_moves)", key, fmt.Sprintf("tid %s of pid %d not in %s/%s", t.Name(), pid, d, tf))
						}
					}
				}
			}
			for _, o := range handles {
				if o.name != h.name {
					for _, d := range o.dirs {
						if procsIn(d)[pid] {
							bad("the process also appears in another group", key, d)
						}
					}
				}
			}
			ps, perr := h.cg.Processes()
			found := false
			for _, p := range ps {
				if p == pid {
					found = true
				}
			}
			if perr != nil || !found {
				bad("Processes() does not list the added pid", key, fmt.Sprintf("%v %v", ps, perr))
			}
		case op == 4 && len(handles) > 0: // limits and usage
			h := handles[rng.Intn(len(handles))]
			if !dirExists(h.dirs[0]) {
				continue // stale handle: its creator removed the group
			}
			lim := uint64(64<<20 + rng.Intn(1000)*4096)
			key := fmt.Sprintf("%s SetMemoryLimit(%s,%d)", tag, h.name, lim)
			res.Case(key+itoa(s), true, tag+"-limits")
			if ct.Memory {
				if err := h.cg.SetMemoryLimit(lim); err != nil {
					bad("SetMemoryLimit failed", key, err.Error())
				} else {
					f := "memory.limit_in_bytes"
					d := filepath.Join(cgroup.VerifBasePath, "memory", h.name)
					if v2 {
						f, d = "memory.max", h.dirs[0]
					}
					b, _ := os.ReadFile(filepath.Join(d, f))
					if strings.TrimSpace(string(b)) != strconv.FormatUint(lim, 10) {
						bad("the limit in force is not the limit written (C20 units)", key, strings.TrimSpace(string(b)))
					}
				}
			}
			lastOp = key
			if ledger[h.name] == nil {
				ledger[h.name] = map[string]string{}
			}
			if ct.Memory {
				f := "memory.limit_in_bytes"
				if v2 {
					f = "memory.max"
				}
				if b, err := os.ReadFile(limitFile(h.name, "memory", f)); err == nil && strings.TrimSpace(string(b)) == strconv.FormatUint(lim, 10) {
					ledger[h.name][limitFile(h.name, "memory", f)] = strconv.FormatUint(lim, 10)
				}
			}
			if ct.Pids {
				if err := h.cg.SetProcLimit(77); err != nil {
					bad("SetProcLimit failed", key, err.Error())
				} else {
					ledger[h.name][limitFile(h.name, "pids", "pids.max")] = "77"
					// somebody else (another handle on the group, an administrator) changes the limit; the handle asserts its
					// limit again: the limit written is the limit in force, every time
					if rng.Chance(50) {
						pf := limitFile(h.name, "pids", "pids.max")
						if os.WriteFile(pf, []byte("55"), 0644) == nil {
							err := h.cg.SetProcLimit(77)
							b, _ := os.ReadFile(pf)
							if err != nil || strings.TrimSpace(string(b)) != "77" {
								bad("a limit written again after somebody else changed it is not the limit in force (C20: limits written are the limits in force)", key+"; pids.max set to 55 from outside; SetProcLimit(77) again", fmt.Sprintf("err=%v pids.max=%s", err, strings.TrimSpace(string(b))))
							}
						}
					}
				}
			}
			if ct.Memory && rng.Chance(50) {
				f := "memory.limit_in_bytes"
				if v2 {
					f = "memory.max"
				}
				mf := limitFile(h.name, "memory", f)
				if b0, err := os.ReadFile(mf); err == nil && strings.TrimSpace(string(b0)) == strconv.FormatUint(lim, 10) {
					if os.WriteFile(mf, []byte(strconv.FormatUint(lim+8192, 10)), 0644) == nil {
						err := h.cg.SetMemoryLimit(lim)
						b, _ := os.ReadFile(mf)
						if err != nil || strings.TrimSpace(string(b)) != strconv.FormatUint(lim, 10) {
							bad("a limit written again after somebody else changed it is not the limit in force (C20: limits written are the limits in force)", key+"; memory limit raised by 8192 from outside; SetMemoryLimit again", fmt.Sprintf("err=%v limit=%s want %d", err, strings.TrimSpace(string(b)), lim))
						}
					}
				}
			}
			// a cpuset narrower than the parent's (only where the kernel allows it: no sub-groups yet)
			hasSubGroup := false
			for n := range owner {
				if strings.HasPrefix(n, h.name+"/") && dirExists(ctrlDirs(n)[0]) {
					hasSubGroup = true
				}
			}
			if !v2 && ct.CPUSet && !hasSubGroup {
				if err := h.cg.SetCPUSet([]byte("0")); err != nil {
					bad("SetCPUSet failed", key+" SetCPUSet(0)", err.Error())
				} else {
					ledger[h.name][limitFile(h.name, "cpuset", "cpuset.cpus")] = "0"
				}
			}
			if _, err := h.cg.CPUUsage(); err != nil && (ct.CPUAcct || v2) {
				bad("CPUUsage failed", key, err.Error())
			}
		case op >= 5 && len(handles) > 0: // Destroy
			i := rng.Intn(len(handles))
			h := handles[i]
			// only a group without processes and children can be removed at all: kill our sleepers in it first
			for _, k := range kids {
				for _, d := range h.dirs {
					if procsIn(d)[k.Process.Pid] {
						k.Process.Kill()
						k.Wait()
					}
				}
			}
			time.Sleep(2 * time.Millisecond)
			before := dirExists(h.dirs[0])
			othersBefore := map[*c20Handle]bool{}
			for j, o := range handles {
				if j != i && o.name != h.name {
					othersBefore[o] = dirExists(o.dirs[0])
				}
			}
			h.cg.Destroy()
			for o, was := range othersBefore {
				if was && !dirExists(o.dirs[0]) {
					bad("Destroy of one handle removed the group of another handle (C20_destroy_only_own)", fmt.Sprintf("%s Destroy(%s)", tag, h.name), "group "+o.name+" is gone")
					delete(owner, o.name)
				}
			}
			key := fmt.Sprintf("%s Destroy(%s, created=%v)", tag, h.name, h.created)
			lastOp = key
			res.Case(key+itoa(s), true, tag+"-destroy")
			gone := before && !dirExists(h.dirs[0])
			wasThere := false
			if _, ok := owner[h.name]; ok {
				wasThere = true
			}
			mops = append(mops, fmt.Sprintf("x%d", hidOf[h]))
			if gone && wasThere {
				mobs = append(mobs, fmt.Sprintf("R%d", did(h.name)))
			} else {
				mobs = append(mobs, "R")
			}
			othersOwn := false
			for j, o := range handles {
				if j != i && o.name == h.name && o.created {
					othersOwn = true
				}
			}
			if !h.created && gone {
				bad("Destroy of a handle that did not create the group removed it (C20_destroy_owns)", key, "group removed")
			}
			hasSub := false
			for n := range owner {
				if strings.HasPrefix(n, h.name+"/") && dirExists(ctrlDirs(n)[0]) {
					hasSub = true // rmdir of a group with sub-groups fails (EBUSY): leaving it is right
				}
			}
			if h.created && before && !gone && !othersOwn && !hasSub {
				bad("Destroy of the creating handle left the group behind", key, "group still exists")
			}
			if gone {
				delete(owner, h.name)
			}
			handles = append(handles[:i], handles[i+1:]...)
		}
	}
}

func runC20(res *Result, d *Driver, tier string, seed uint64) {
	res.Rule = "part A: random sequential histories of New/Random/AddProc(sleeping children)/Set*/usage/Destroy on a tree of groups under a scratch prefix on the machine's REAL cgroup v1 hierarchies, with an independent bookkeeping oracle (who created which group): Existing(), nesting, cgroup.procs contents, limit files (memory, pids, a cpuset narrower than the parent's; re-checked after every later operation, e.g. re-opening the group), Destroy ownership; part B: 16 concurrent creators of the same name (exactly one may own the group; every Destroy by a non-owner must leave it) and of random names (pairwise distinct); " +
		"part C: parsers on crafted files through the verif hook (cpu.stat with extra lines/fields, large values, missing key; ReadUint; cgroup.procs) vs the model (driver); part D: the same histories and races on a real cgroup2 mount in a private mount namespace (child process). non-trivial = every operation; distinct = (history, step)."
	rng := NewRng(seed, "C20", 1)
	ct, err := cgroup.GetAvailableController()
	if err != nil {
		fatal("controllers: %v", err)
	}
	hist, steps, rounds := 4, 30, 30
	if tier == "thorough" {
		hist, steps, rounds = 200, 60, 3000
	}
	for h := 0; h < hist; h++ {
		c20History(res, d, rng, fmt.Sprintf("verif-c20-%d-%d", os.Getpid(), h), ct, false, steps, "v1")
	}
	c20Partial(res, rng, ct, tier)
	// ---- part B: concurrent creators on v1 ----
	for r := 0; r < rounds; r++ {
		name := fmt.Sprintf("verif-c20-race-%d-%d", os.Getpid(), r)
		var wg sync.WaitGroup
		hs := make([]cgroup.Cgroup, 16)
		for i := range hs {
			wg.Add(1)
			go func(i int) { defer wg.Done(); hs[i], _ = cgroup.New(name, ct) }(i)
		}
		wg.Wait()
		owners := 0
		for _, h := range hs {
			if h != nil && !h.Existing() {
				owners++
			}
		}
		first := filepath.Join(cgroup.VerifBasePath, ct.Names()[0], name)
		res.Case("race "+name, true, "v1-race")
		if owners != 1 {
			res.Mismatch(Mismatch{Kind: "oracle", What: "concurrent creators of one name: exactly one handle may own the group (C20_v1_concurrent_distinct)", Input: "16 goroutines cgroup.New(" + name + ")", Impl: fmt.Sprintf("%d handles report Existing()==false", owners), Oracle: "violates"})
		}
		// non-owners destroy first: the group must survive
		for _, h := range hs {
			if h != nil && h.Existing() {
				h.Destroy()
			}
		}
		if owners >= 1 && !dirExists(first) {
			res.Mismatch(Mismatch{Kind: "oracle", What: "Destroy by a non-owner removed the group (C20_destroy_owns)", Input: name, Impl: "group gone", Oracle: "violates"})
		}
		for _, h := range hs {
			if h != nil {
				h.Destroy()
			}
		}
		for _, c := range ct.Names() {
			syscall.Rmdir(filepath.Join(cgroup.VerifBasePath, c, name))
		}
	}
	// ---- part C: parsers ----
	tmp, _ := os.MkdirTemp("", "verif-c20-")
	defer os.RemoveAll(tmp)
	all := &cgroup.Controllers{CPU: true, CPUSet: true, CPUAcct: true, Memory: true, Pids: true}
	v2 := cgroup.VerifNewV2At(tmp, all)
	nC := 200
	if tier == "thorough" {
		nC = 20000
	}
	for i := 0; i < nC; i++ {
		var lines []string
		want := "missing"
		val := []uint64{0, 1, 999, 1 << 31, 1 << 40, 9007199254740993, 18446744073709551}[rng.Intn(7)] // usage_usec*1000 < 2^64 (584 years of CPU time): the domain of the uint64 result
		hasKey := rng.Chance(80)
		for j := rng.Intn(4); j > 0; j-- {
			lines = append(lines, []string{"user_usec 5", "system_usec 7", "nr_periods 0", "usage_usec_total 3", "weird line with words", ""}[rng.Intn(6)])
		}
		if hasKey {
			lines = append(lines, fmt.Sprintf("usage_usec %d", val))
			want = strconv.FormatUint(val*1000, 10)
		}
		for j := rng.Intn(3); j > 0; j-- {
			lines = append(lines, []string{"user_usec 5", "throttled_usec 9", "usage_usec"}[rng.Intn(3)])
		}
		content := strings.Join(lines, "\n") + "\n"
		os.WriteFile(filepath.Join(tmp, "cpu.stat"), []byte(content), 0644)
		got, err := v2.CPUUsage()
		impl := strconv.FormatUint(got, 10)
		if err != nil {
			impl = "missing"
		}
		line := "c20.cpustat " + hx(content)
		model := d.Ask(line)
		res.Case(line, hasKey, "cpustat")
		if impl != model || impl != want {
			res.Mismatch(Mismatch{Kind: "differential", What: "V2.CPUUsage vs Model/Gen (usage_usec * 1000 ns) vs oracle", Input: strings.ReplaceAll(content, "\n", "\\n"), Impl: impl, Model: model + " want " + want, Oracle: map[bool]string{true: "violates", false: "holds"}[impl != want]})
		}
	}
	for _, c := range []struct{ content, want string }{{"123\n", "123"}, {"  18446744073709551615\n", "18446744073709551615"}, {"max\n", "error"}, {"", "error"}} {
		os.WriteFile(filepath.Join(tmp, "memory.peak"), []byte(c.content), 0644)
		got, err := v2.MemoryMaxUsage()
		impl := strconv.FormatUint(got, 10)
		if err != nil {
			impl = "error"
		}
		res.Case("readuint "+c.content, true, "readuint")
		if impl != c.want {
			res.Mismatch(Mismatch{Kind: "oracle", What: "memory reading returned verbatim in bytes", Input: c.content, Impl: impl, Model: c.want, Oracle: "violates"})
		}
	}
	os.WriteFile(filepath.Join(tmp, "cgroup.procs"), []byte("12\n345\n\n6\n"), 0644)
	if ps, err := cgroup.ReadProcesses(filepath.Join(tmp, "cgroup.procs")); err != nil || fmt.Sprint(ps) != "[12 345 6]" {
		res.Mismatch(Mismatch{Kind: "oracle", What: "ReadProcesses", Input: "12\\n345\\n\\n6\\n", Impl: fmt.Sprint(ps, err), Oracle: "violates"})
	}

	// ---- part D: cgroup2 in a private mount namespace ----
	self, _ := os.Executable()
	cmd := exec.Command(self, "c20-v2child", tier, fmt.Sprint(seed))
	cmd.SysProcAttr = &syscall.SysProcAttr{Unshareflags: syscall.CLONE_NEWNS}
	out, err := cmd.CombinedOutput()
	okD := false
	for _, ln := range strings.Split(string(out), "\n") {
		switch {
		case strings.HasPrefix(ln, "V2CASES "):
			n, _ := strconv.Atoi(strings.TrimPrefix(ln, "V2CASES "))
			for i := 0; i < n; i++ {
				res.Case("v2-case-"+itoa(i), true, "v2")
			}
			okD = true
		case strings.HasPrefix(ln, "V2BAD "):
			parts := strings.SplitN(strings.TrimPrefix(ln, "V2BAD "), " || ", 5)
			for len(parts) < 5 {
				parts = append(parts, "")
			}
			if parts[4] == "" {
				parts[4] = "violates"
			}
			res.Mismatch(Mismatch{Kind: "oracle", What: parts[0], Input: parts[1], Impl: parts[2], Key: parts[3], Oracle: parts[4]})
		case strings.HasPrefix(ln, "V2NOTE "):
			res.Note("%s", strings.TrimPrefix(ln, "V2NOTE "))
		}
	}
	if !okD {
		res.Note("cgroup2 child did not complete: %v %s", err, strings.TrimSpace(string(out)))
	}
	res.Sample("v1 New(a) existed=false; AddProc(sleep) -> pid in cpu,cpuacct,cpuset,memory,pids cgroup.procs; Destroy(created) -> dirs gone")
	sort.Strings(res.Notes)
}

// c20V2Child runs inside a private mount namespace: mounts cgroup2 over /sys/fs/cgroup and drives the v2 code.
func c20V2Child(args []string) {
	tier := args[0]
	seed, _ := strconv.ParseUint(args[1], 10, 64)
	syscall.Mount("", "/", "", syscall.MS_REC|syscall.MS_PRIVATE, "")
	if err := syscall.Mount("cgroup2", cgroup.VerifBasePath, "cgroup2", 0, ""); err != nil {
		fmt.Println("V2NOTE cannot mount cgroup2:", err)
		return
	}
	cgroup.DetectedCgroupType = cgroup.TypeV2
	res := NewResult("C20", tier, seed)
	rng := NewRng(seed, "C20v2", 1)
	ct := &cgroup.Controllers{} // no controllers are delegated to the v2 hierarchy on this machine
	hist, steps, rounds := 3, 30, 30
	if tier == "thorough" {
		hist, steps, rounds = 100, 60, 2000
	}
	d := StartDriver()
	defer d.Close()
	for h := 0; h < hist; h++ {
		c20History(res, d, rng, fmt.Sprintf("verif-c20-%d-%d", os.Getpid(), h), ct, true, steps, "v2")
	}
	// concurrent creators of one sub-group name under one parent
	parent, err := cgroup.New(fmt.Sprintf("verif-c20-par-%d", os.Getpid()), ct)
	if err == nil {
		for r := 0; r < rounds; r++ {
			name := "race" + itoa(r)
			var wg sync.WaitGroup
			hs := make([]cgroup.Cgroup, 16)
			for i := range hs {
				wg.Add(1)
				go func(i int) { defer wg.Done(); hs[i], _ = parent.New(name) }(i)
			}
			wg.Wait()
			owners := 0
			for _, h := range hs {
				if h != nil && !h.Existing() {
					owners++
				}
			}
			res.Case("v2 race "+name, true, "v2-race")
			if owners != 1 {
				res.Mismatch(Mismatch{Kind: "oracle", What: "v2 concurrent creators: exactly one owner (C20_v2_concurrent_distinct)", Input: name, Impl: fmt.Sprintf("%d owners", owners)})
			}
			for _, h := range hs {
				if h != nil {
					h.Destroy()
				}
			}
		}
		// top-level New of one prefix, concurrently
		for r := 0; r < rounds; r++ {
			name := fmt.Sprintf("verif-c20-top-%d-%d", os.Getpid(), r)
			var wg sync.WaitGroup
			hs := make([]cgroup.Cgroup, 8)
			errs := make([]error, 8)
			for i := range hs {
				wg.Add(1)
				go func(i int) { defer wg.Done(); hs[i], errs[i] = cgroup.New(name, ct) }(i)
			}
			wg.Wait()
			dir := filepath.Join(cgroup.VerifBasePath, name)
			okH := 0
			for _, h := range hs {
				if h != nil {
					okH++
				}
			}
			res.Case("v2 top race "+name, true, "v2-top-race")
			if okH > 0 && !dirExists(dir) {
				res.Mismatch(Mismatch{Kind: "oracle", What: "v2 concurrent cgroup.New(prefix): a creator that lost the mkdir race removed the group the winner holds (C20_destroy_owns)", Input: "8 goroutines cgroup.New(" + name + ")", Impl: fmt.Sprintf("%d handles returned but the group directory is gone; errors: %v", okH, errs), Key: "v2-new-loser-removes-group"})
			}
			for _, h := range hs {
				if h != nil {
					h.Destroy()
				}
			}
			syscall.Rmdir(dir)
		}
		parent.Destroy()
	}
	fmt.Println("V2CASES", res.Evaluations)
	for _, m := range res.Mismatches {
		fmt.Printf("V2BAD %s || %s || %s || %s || %s\n", m.What, m.Input, m.Impl, m.Key, m.Oracle)
	}
}

// c20Partial: a group name that already exists in SOME of the v1 hierarchies only (an administrator made it for two
// controllers, an earlier handle was destroyed half way): a creating call (New by name, New/Nest under a handle) followed
// by Destroy must leave every directory that was there before, with the limits it carried.
func c20Partial(res *Result, rng *Rng, ct *cgroup.Controllers, tier string) {
	names := ct.Names()
	if len(names) < 2 {
		return
	}
	n := 12
	if tier == "thorough" {
		n = 300
	}
	parentName := fmt.Sprintf("verif-c20-part-%d", os.Getpid())
	parent, err := cgroup.New(parentName, ct)
	if err != nil {
		res.Note("partial: cannot create the parent group: %v", err)
		return
	}
	defer func() {
		parent.Destroy()
		for _, c := range names {
			syscall.Rmdir(filepath.Join(cgroup.VerifBasePath, c, parentName))
		}
	}()
	for i := 0; i < n; i++ {
		how := []string{"New(name)", "handle.New(sub)", "handle.Nest(sub)"}[rng.Intn(3)]
		name := fmt.Sprintf("verif-c20-partial-%d-%d", os.Getpid(), i)
		rel := name
		if how != "New(name)" {
			rel = filepath.Join(parentName, "job"+itoa(i))
		}
		// a non-empty proper subset of the controllers, chosen at random (first, last, middle ones)
		pre := map[string]bool{}
		for len(pre) == 0 || len(pre) == len(names) {
			pre = map[string]bool{}
			for _, c := range names {
				if rng.Chance(40) {
					pre[c] = true
				}
			}
		}
		var preList []string
		marks := map[string]string{}
		for _, c := range names {
			if !pre[c] {
				continue
			}
			dd := filepath.Join(cgroup.VerifBasePath, c, rel)
			if err := os.Mkdir(dd, 0755); err != nil {
				continue
			}
			preList = append(preList, c)
			switch c {
			case "memory":
				os.WriteFile(filepath.Join(dd, "memory.limit_in_bytes"), []byte("73400320"), 0644)
				b, _ := os.ReadFile(filepath.Join(dd, "memory.limit_in_bytes"))
				marks[c] = "memory.limit_in_bytes=" + strings.TrimSpace(string(b))
			case "pids":
				os.WriteFile(filepath.Join(dd, "pids.max"), []byte("37"), 0644)
				marks[c] = "pids.max=37"
			case "cpuset":
				for _, f := range []string{"cpuset.cpus", "cpuset.mems"} {
					if b, err := os.ReadFile(filepath.Join(filepath.Dir(dd), f)); err == nil {
						os.WriteFile(filepath.Join(dd, f), b, 0644)
					}
				}
			}
		}
		var cg cgroup.Cgroup
		switch how {
		case "New(name)":
			cg, err = cgroup.New(name, ct)
		case "handle.New(sub)":
			cg, err = parent.New("job" + itoa(i))
		default:
			cg, err = parent.Nest("job" + itoa(i))
		}
		key := fmt.Sprintf("partial: %s of a group that already exists under %v only (of %v)", how, preList, names)
		res.Case(key+itoa(i), true, "v1-partial")
		var bad []string
		if err == nil && cg != nil {
			if derr := cg.Destroy(); derr != nil {
				_ = derr
			}
		}
		for _, c := range names {
			dd := filepath.Join(cgroup.VerifBasePath, c, rel)
			if pre[c] && containsStr(preList, c) {
				if !dirExists(dd) {
					bad = append(bad, fmt.Sprintf("Destroy removed %s, which existed before the handle was created", dd))
				} else if m := marks[c]; m != "" {
					f, want, _ := strings.Cut(m, "=")
					if b, _ := os.ReadFile(filepath.Join(dd, f)); strings.TrimSpace(string(b)) != want {
						bad = append(bad, fmt.Sprintf("%s of the pre-existing group changed: %q, was %q", f, strings.TrimSpace(string(b)), want))
					}
				}
			}
			// (a directory the call made in another hierarchy may stay behind when the handle counts as a handle on an
			// existing group: the property forbids removing what was there before, it does not demand the reverse)
			syscall.Rmdir(dd)
		}
		if len(bad) > 0 {
			res.Mismatch(Mismatch{Kind: "oracle", What: "a handle on a partly existing group: Destroy never removes a directory that was there before the handle, nor changes its limits (C20_destroy_only_own / C20_never_preexisting)", Input: key + fmt.Sprintf(" -> err=%v", err), Impl: strings.Join(bad, "; "), Oracle: "violates"})
		}
	}
}

func containsStr(l []string, x string) bool {
	for _, y := range l {
		if y == x {
			return true
		}
	}
	return false
}
