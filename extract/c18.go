package main

func init() {
	extractors = append(extractors, func() {
		g := newGen("C18", "runner/ptrace/filehandler/fileset.go")
		g.p("open GoSandbox.GoLite\n\n")
		f := parseFile("runner/ptrace/filehandler/fileset.go")
		emitFunc(g, "isInSetSmart", findFunc(f, "FileSet", "IsInSetSmart"))
		emitFunc(g, "dirname", findFunc(f, "", "dirname"))
		emitFunc(g, "isWritableFile", findFunc(f, "FileSets", "IsWritableFile"))
		emitFunc(g, "isReadableFile", findFunc(f, "FileSets", "IsReadableFile"))
		emitFunc(g, "isStatableFile", findFunc(f, "FileSets", "IsStatableFile"))
		emitFunc(g, "isSoftBanFile", findFunc(f, "FileSets", "IsSoftBanFile"))
		emitFunc(g, "addFileSet", findFunc(f, "FileSet", "Add"))
	})
}
