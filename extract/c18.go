package main

func init() {
	extractors = append(extractors, func() {
		g := newGen("C18", "runner/ptrace/filehandler/fileset.go", "runner/ptrace/filehandler/handle.go", "runner/ptrace/filehandler/syscallcounter.go")
		g.p("open GoSandbox.GoLite\n\n")
		f := parseFile("runner/ptrace/filehandler/fileset.go")
		emitFunc(g, "isInSetSmart", findFunc(f, "FileSet", "IsInSetSmart"))
		emitFunc(g, "dirname", findFunc(f, "", "dirname"))
		emitFunc(g, "isWritableFile", findFunc(f, "FileSets", "IsWritableFile"))
		emitFunc(g, "isReadableFile", findFunc(f, "FileSets", "IsReadableFile"))
		emitFunc(g, "isStatableFile", findFunc(f, "FileSets", "IsStatableFile"))
		emitFunc(g, "isSoftBanFile", findFunc(f, "FileSets", "IsSoftBanFile"))
		emitFunc(g, "addFileSet", findFunc(f, "FileSet", "Add"))
		h := parseFile("runner/ptrace/filehandler/handle.go")
		emitFunc(g, "checkRead", findFunc(h, "Handler", "CheckRead"))
		emitFunc(g, "checkWrite", findFunc(h, "Handler", "CheckWrite"))
		emitFunc(g, "checkStat", findFunc(h, "Handler", "CheckStat"))
		emitFunc(g, "checkSyscall", findFunc(h, "Handler", "CheckSyscall"))
		emitFunc(g, "onDgsFileDetect", findFunc(h, "Handler", "onDgsFileDetect"))
		c := parseFile("runner/ptrace/filehandler/syscallcounter.go")
		emitFunc(g, "counterCheck", findFunc(c, "SyscallCounter", "Check"))
		emitFunc(g, "counterAdd", findFunc(c, "SyscallCounter", "Add"))
	})
}
