package main

import (
	"go/ast"
	"strings"
)

// pathsOf enumerates the straight-line paths through a statement list as lists of call/send
// expression strings (branches of if/select/switch are separate paths; loops are entered once).
func pathsOf(stmts []ast.Stmt) [][]string {
	paths := [][]string{{}}
	add := func(s string) {
		for i := range paths {
			paths[i] = append(append([]string{}, paths[i]...), s)
		}
	}
	var terminated [][]string
	for _, st := range stmts {
		switch x := st.(type) {
		case *ast.ExprStmt:
			add(exprStr(x.X))
		case *ast.SendStmt:
			add(exprStr(x.Chan) + "<-")
		case *ast.AssignStmt:
			for _, r := range x.Rhs {
				add(exprStr(r))
			}
		case *ast.ReturnStmt:
			for _, r := range x.Results {
				add("return " + exprStr(r))
			}
			if len(x.Results) == 0 {
				add("return")
			}
			terminated = append(terminated, paths...)
			return terminated
		case *ast.BranchStmt:
			// break / continue end the path through the enclosing loop body (or select case)
			add(x.Tok.String())
			terminated = append(terminated, paths...)
			return terminated
		case *ast.ForStmt:
			// a loop is entered once: every path through its body, then on after the loop
			var np [][]string
			for _, p := range paths {
				for _, b := range pathsOf(x.Body.List) {
					q := append(append([]string{}, p...), "for{")
					q = append(q, b...)
					if n := len(q); n > 0 && strings.HasPrefix(q[n-1], "return") {
						terminated = append(terminated, q)
						continue
					}
					np = append(np, append(q, "}"))
				}
			}
			paths = np
		case *ast.IfStmt:
			var np [][]string
			thenPaths := pathsOf(x.Body.List)
			var elsePaths [][]string
			if x.Else != nil {
				if b, ok := x.Else.(*ast.BlockStmt); ok {
					elsePaths = pathsOf(b.List)
				}
			} else {
				elsePaths = [][]string{{}}
			}
			init := ""
			if as, ok := x.Init.(*ast.AssignStmt); ok && len(as.Rhs) > 0 {
				init = exprStr(as.Rhs[0])
			}
			for _, p := range paths {
				base := p
				if init != "" {
					base = append(append([]string{}, p...), init)
				}
				for _, t := range thenPaths {
					np = append(np, append(append([]string{}, base...), t...))
				}
				for _, e := range elsePaths {
					np = append(np, append(append([]string{}, base...), e...))
				}
			}
			// paths that ended in a return inside the branch are terminated
			paths = nil
			for _, p := range np {
				if len(p) > 0 && endsPath(p[len(p)-1]) {
					terminated = append(terminated, p)
				} else {
					paths = append(paths, p)
				}
			}
		case *ast.SelectStmt:
			var np [][]string
			for _, c := range x.Body.List {
				cc := c.(*ast.CommClause)
				head := "default"
				switch y := cc.Comm.(type) {
				case *ast.ExprStmt:
					head = exprStr(y.X)
				case *ast.AssignStmt:
					head = exprStr(y.Rhs[0])
				case *ast.SendStmt:
					head = exprStr(y.Chan) + "<-"
				}
				for _, p := range paths {
					for _, b := range pathsOf(cc.Body) {
						np = append(np, append(append(append([]string{}, p...), "case "+head), b...))
					}
				}
			}
			paths = nil
			for _, p := range np {
				if len(p) > 0 && endsPath(p[len(p)-1]) {
					terminated = append(terminated, p)
				} else {
					paths = append(paths, p)
				}
			}
		}
	}
	return append(terminated, paths...)
}

func endsPath(s string) bool {
	return strings.HasPrefix(s, "return") || s == "break" || s == "continue"
}

func init() {
	extractors = append(extractors, func() {
		g := newGen("C12", "container/container_exec_linux.go", "container/container_init_linux.go")
		ef := parseFile("container/container_exec_linux.go")
		// every path through handleExecveStarted (a program has been started)
		var paths [][]string
		if fd := findFunc(ef, "containerServer", "handleExecveStarted"); fd != nil {
			for _, p := range pathsOf(fd.Body.List) {
				// the socket-error path (<-c.done) leaves through Init's os.Exit: the namespace dies with init
				skip := false
				for _, s := range p {
					if s == "case <-c.done" {
						skip = true
					}
				}
				if !skip {
					paths = append(paths, p)
				}
			}
		} else {
			fail("handleExecveStarted not found")
		}
		// and every path through handleExecve itself that kills the namespace (sync-after-exec refusal)
		if fd := findFunc(ef, "containerServer", "handleExecve"); fd != nil {
			for _, p := range pathsOf(fd.Body.List) {
				kills := false
				for _, s := range p {
					if strings.HasPrefix(s, "syscall.Kill(-1") {
						kills = true
					}
				}
				if kills {
					paths = append(paths, p)
				}
			}
		}
		g.p("def execStartedPaths : List (List String) := [\n")
		for i, p := range paths {
			sep := ","
			if i == len(paths)-1 {
				sep = ""
			}
			g.p("  %s%s\n", leanStrList(p), sep)
		}
		g.p("]\n\n")
		var defers []string
		if fd := findFunc(ef, "containerServer", "handleExecve"); fd != nil {
			ast.Inspect(fd, func(n ast.Node) bool {
				if d, ok := n.(*ast.DeferStmt); ok {
					defers = append(defers, exprStr(d.Call))
				}
				return true
			})
		}
		g.p("def handleExecveDefers : List String := %s\n\n", leanStrList(defers))
		// the host side: every path through Builder.Build (a started container must be destroyed on every failing path)
		var bp [][]string
		if fd := findFunc(parseFile("container/environment_linux.go"), "Builder", "Build"); fd != nil {
			bp = pathsOf(fd.Body.List)
		} else {
			fail("Builder.Build not found")
		}
		g.p("def buildPaths : List (List String) := [\n")
		seenBP := map[string]bool{}
		firstBP := true
		for _, p := range bp {
			sep := ","
			if firstBP {
				sep = ""
			}
			// keep the calls that matter for the clean-up and the returns
			var q []string
			for _, x := range p {
				if x == "b.startContainer()" || x == "c.Ping()" || x == "c.Destroy()" || strings.HasPrefix(x, "return") || strings.HasPrefix(x, "c.conf(") || strings.HasPrefix(x, "os.MkdirTemp(") || x == "os.Getwd()" {
					if strings.HasPrefix(x, "c.conf(") {
						x = "c.conf(...)"
					}
					if strings.HasPrefix(x, "return fmt.Errorf(") {
						x = "return fmt.Errorf(...)"
					}
					q = append(q, x)
				}
			}
			if seenBP[strings.Join(q, "|")] {
				continue
			}
			seenBP[strings.Join(q, "|")] = true
			g.p("  %s%s\n", sep, leanStrList(q))
			firstBP = false
		}
		g.p("]\n\n")
		// the reaper goroutine: every path through one iteration of waitLoop's `for { select { ... } }`
		var wl [][]string
		if fd := findFunc(parseFile("container/container_init_linux.go"), "containerServer", "waitLoop"); fd != nil && len(fd.Body.List) == 1 {
			if f, isFor := fd.Body.List[0].(*ast.ForStmt); isFor && f.Cond == nil {
				wl = pathsOf(f.Body.List)
			}
		}
		if wl == nil {
			fail("waitLoop is not `for { ... }`")
		}
		g.p("def waitLoopPaths : List (List String) := [\n")
		for i, p := range wl {
			sep := ","
			if i == len(wl)-1 {
				sep = ""
			}
			g.p("  %s%s\n", leanStrList(p), sep)
		}
		g.p("]\n\n")
		// capacities of the hand-off channels as newContainerServer makes them
		caps := map[string]string{}
		ast.Inspect(parseFile("container/container_init_linux.go"), func(n ast.Node) bool {
			kv, isKV := n.(*ast.KeyValueExpr)
			if !isKV {
				return true
			}
			if call, isCall := kv.Value.(*ast.CallExpr); isCall && exprStr(call.Fun) == "make" && len(call.Args) >= 1 {
				if _, isChan := call.Args[0].(*ast.ChanType); isChan {
					c := "0"
					if len(call.Args) == 2 {
						c = exprStr(call.Args[1])
					}
					caps[exprStr(kv.Key)] = c
				}
			}
			return true
		})
		var capl []string
		for _, k := range []string{"waitPid", "waitPidResult", "waitAll", "waitAllDone"} {
			capl = append(capl, k+"="+caps[k])
		}
		g.p("def reaperChanCaps : List String := %s\n\n", leanStrList(capl))
		// sendLoop of the container: FileToClose closed right after SendMsg, before the error check
		ok := false
		if fd := findFunc(parseFile("container/container_init_linux.go"), "containerServer", "sendLoop"); fd != nil {
			ast.Inspect(fd, func(n ast.Node) bool {
				cc, isCC := n.(*ast.CommClause)
				if !isCC {
					return true
				}
				sawSend, sawClose, errCheckAfterClose := false, false, false
				for _, st := range cc.Body {
					s := ""
					switch x := st.(type) {
					case *ast.AssignStmt:
						s = exprStr(x.Rhs[0])
					case *ast.RangeStmt:
						if strings.Contains(exprStr(x.X), "FileToClose") {
							sawClose = sawSend
						}
					case *ast.IfStmt:
						if sawClose && strings.Contains(exprStr(x.Cond), "err") {
							errCheckAfterClose = true
						}
					}
					if strings.Contains(s, "SendMsg") {
						sawSend = true
					}
				}
				if sawSend && sawClose && errCheckAfterClose {
					ok = true
				}
				return true
			})
		}
		if ok {
			g.p("def sendLoopClosesFiles : Bool := true\n")
		} else {
			g.p("def sendLoopClosesFiles : Bool := false\n")
		}
	})
}
