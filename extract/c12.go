package main

import (
	"go/ast"
	"strings"
)

// pathsOf enumerates the straight-line paths through a statement list as lists of call/send
// expression strings (branches of if/select/switch are separate paths; loops are entered once).
func pathsOf(stmts []ast.Stmt) [][]string {
	paths := [][]string{{}}
	add := func(s string) {
		for i := range paths {
			paths[i] = append(append([]string{}, paths[i]...), s)
		}
	}
	var terminated [][]string
	for _, st := range stmts {
		switch x := st.(type) {
		case *ast.ExprStmt:
			add(exprStr(x.X))
		case *ast.SendStmt:
			add(exprStr(x.Chan) + "<-")
		case *ast.AssignStmt:
			for _, r := range x.Rhs {
				add(exprStr(r))
			}
		case *ast.ReturnStmt:
			for _, r := range x.Results {
				add("return " + exprStr(r))
			}
			terminated = append(terminated, paths...)
			return terminated
		case *ast.IfStmt:
			var np [][]string
			thenPaths := pathsOf(x.Body.List)
			var elsePaths [][]string
			if x.Else != nil {
				if b, ok := x.Else.(*ast.BlockStmt); ok {
					elsePaths = pathsOf(b.List)
				}
			} else {
				elsePaths = [][]string{{}}
			}
			init := ""
			if as, ok := x.Init.(*ast.AssignStmt); ok && len(as.Rhs) > 0 {
				init = exprStr(as.Rhs[0])
			}
			for _, p := range paths {
				base := p
				if init != "" {
					base = append(append([]string{}, p...), init)
				}
				for _, t := range thenPaths {
					np = append(np, append(append([]string{}, base...), t...))
				}
				for _, e := range elsePaths {
					np = append(np, append(append([]string{}, base...), e...))
				}
			}
			// paths that ended in a return inside the branch are terminated
			paths = nil
			for _, p := range np {
				if len(p) > 0 && strings.HasPrefix(p[len(p)-1], "return ") {
					terminated = append(terminated, p)
				} else {
					paths = append(paths, p)
				}
			}
		case *ast.SelectStmt:
			var np [][]string
			for _, c := range x.Body.List {
				cc := c.(*ast.CommClause)
				head := "default"
				switch y := cc.Comm.(type) {
				case *ast.ExprStmt:
					head = exprStr(y.X)
				case *ast.AssignStmt:
					head = exprStr(y.Rhs[0])
				case *ast.SendStmt:
					head = exprStr(y.Chan) + "<-"
				}
				for _, p := range paths {
					for _, b := range pathsOf(cc.Body) {
						np = append(np, append(append(append([]string{}, p...), "case "+head), b...))
					}
				}
			}
			paths = nil
			for _, p := range np {
				if len(p) > 0 && strings.HasPrefix(p[len(p)-1], "return ") {
					terminated = append(terminated, p)
				} else {
					paths = append(paths, p)
				}
			}
		}
	}
	return append(terminated, paths...)
}

func init() {
	extractors = append(extractors, func() {
		g := newGen("C12", "container/container_exec_linux.go", "container/container_init_linux.go")
		ef := parseFile("container/container_exec_linux.go")
		// every path through handleExecveStarted (a program has been started)
		var paths [][]string
		if fd := findFunc(ef, "containerServer", "handleExecveStarted"); fd != nil {
			for _, p := range pathsOf(fd.Body.List) {
				// the socket-error path (<-c.done) leaves through Init's os.Exit: the namespace dies with init
				skip := false
				for _, s := range p {
					if s == "case <-c.done" {
						skip = true
					}
				}
				if !skip {
					paths = append(paths, p)
				}
			}
		} else {
			fail("handleExecveStarted not found")
		}
		// and every path through handleExecve itself that kills the namespace (sync-after-exec refusal)
		if fd := findFunc(ef, "containerServer", "handleExecve"); fd != nil {
			for _, p := range pathsOf(fd.Body.List) {
				kills := false
				for _, s := range p {
					if strings.HasPrefix(s, "syscall.Kill(-1") {
						kills = true
					}
				}
				if kills {
					paths = append(paths, p)
				}
			}
		}
		g.p("def execStartedPaths : List (List String) := [\n")
		for i, p := range paths {
			sep := ","
			if i == len(paths)-1 {
				sep = ""
			}
			g.p("  %s%s\n", leanStrList(p), sep)
		}
		g.p("]\n\n")
		var defers []string
		if fd := findFunc(ef, "containerServer", "handleExecve"); fd != nil {
			ast.Inspect(fd, func(n ast.Node) bool {
				if d, ok := n.(*ast.DeferStmt); ok {
					defers = append(defers, exprStr(d.Call))
				}
				return true
			})
		}
		g.p("def handleExecveDefers : List String := %s\n\n", leanStrList(defers))
		// sendLoop of the container: FileToClose closed right after SendMsg, before the error check
		ok := false
		if fd := findFunc(parseFile("container/container_init_linux.go"), "containerServer", "sendLoop"); fd != nil {
			ast.Inspect(fd, func(n ast.Node) bool {
				cc, isCC := n.(*ast.CommClause)
				if !isCC {
					return true
				}
				sawSend, sawClose, errCheckAfterClose := false, false, false
				for _, st := range cc.Body {
					s := ""
					switch x := st.(type) {
					case *ast.AssignStmt:
						s = exprStr(x.Rhs[0])
					case *ast.RangeStmt:
						if strings.Contains(exprStr(x.X), "FileToClose") {
							sawClose = sawSend
						}
					case *ast.IfStmt:
						if sawClose && strings.Contains(exprStr(x.Cond), "err") {
							errCheckAfterClose = true
						}
					}
					if strings.Contains(s, "SendMsg") {
						sawSend = true
					}
				}
				if sawSend && sawClose && errCheckAfterClose {
					ok = true
				}
				return true
			})
		}
		if ok {
			g.p("def sendLoopClosesFiles : Bool := true\n")
		} else {
			g.p("def sendLoopClosesFiles : Bool := false\n")
		}
	})
}
