package main

func init() {
	extractors = append(extractors, func() {
		g := newGen("C01", "pkg/seccomp/libseccomp/action_linux.go", "pkg/seccomp/libseccomp/action.go", "pkg/seccomp/libseccomp/builder_linux.go", "cmd/runprog/config/config_loader.go")
		g.p("open GoSandbox.GoLite\n\n")
		emitFunc(g, "toSeccompAction", findFunc(parseFile("pkg/seccomp/libseccomp/action_linux.go"), "", "ToSeccompAction"))
		emitFunc(g, "actionOf", findFunc(parseFile("pkg/seccomp/libseccomp/action.go"), "Action", "Action"))
		emitFunc(g, "sockFilter", findFunc(parseFile("pkg/seccomp/libseccomp/builder_linux.go"), "", "sockFilter"))
		emitFunc(g, "build", findFunc(parseFile("pkg/seccomp/libseccomp/builder_linux.go"), "Builder", "Build"))
		emitFunc(g, "cleanTrace", findFunc(parseFile("cmd/runprog/config/config_loader.go"), "", "cleanTrace"))
	})
}
