package main

import (
	"strings"
)

// C10: the host endpoint of the RPC as the code has it: every path through Execve, execveSyncKill and waitForDone,
// projected onto the operations that touch the control socket (and the caller's callback).
func init() {
	extractors = append(extractors, func() {
		g := newGen("C10", "container/host_exec_linux.go")
		f := parseFile("container/host_exec_linux.go")
		keep := func(x string) (string, bool) {
			switch {
			case x == "c.sendCmd(cm,msg)":
				return "send execve", true
			case strings.HasPrefix(x, "c.sendCmd(cmd{Cmd:cmdOk}"):
				return "send ok", true
			case strings.HasPrefix(x, "c.sendCmd(cmd{Cmd:cmdKill}"):
				return "send kill", true
			case strings.HasPrefix(x, "c.sendCmd("):
				return "send " + x, true
			case x == "c.recvReply()":
				return "recv", true
			case x == "c.execveSyncKill()":
				return "execveSyncKill", true
			case strings.HasPrefix(x, "param.SyncFunc("):
				return "callback", true
			case strings.HasPrefix(x, "return c.waitForDone("):
				return "return waitForDone", true
			case strings.HasPrefix(x, "return errResult("):
				return "return error", true
			case strings.HasPrefix(x, "return convertReplyResult("):
				return "return result", true
			case strings.HasPrefix(x, "return"):
				return x, true
			case strings.HasPrefix(x, "case "):
				return x, true
			}
			return "", false
		}
		emit := func(name, fn string) {
			fd := findFunc(f, "container", fn)
			if fd == nil {
				fail("%s not found", fn)
				return
			}
			seen := map[string]bool{}
			g.p("def %s : List (List String) := [\n", name)
			first := true
			for _, p := range pathsOf(fd.Body.List) {
				var q []string
				for _, x := range p {
					if y, ok := keep(x); ok {
						q = append(q, y)
					}
				}
				k := strings.Join(q, "|")
				if seen[k] {
					continue
				}
				seen[k] = true
				sep := ","
				if first {
					sep = ""
				}
				g.p("  %s%s\n", sep, leanStrList(q))
				first = false
			}
			g.p("]\n\n")
		}
		// the simple calls: how often a command is sent and a reply is received on each path
		hc := parseFile("container/host_cmd_linux.go")
		g.p("def simpleCallPaths : List (String × List (List String)) := [\n")
		for mi, m := range []string{"Ping", "conf", "Open", "Symlink", "Delete", "Reset"} {
			fd := findFunc(hc, "container", m)
			if fd == nil {
				fail("host method %s not found", m)
				continue
			}
			seen := map[string]bool{}
			var rows []string
			for _, p := range pathsOf(fd.Body.List) {
				var q []string
				for _, x := range p {
					switch {
					case strings.HasPrefix(x, "c.sendCmd("):
						q = append(q, "send")
					case x == "c.recvReply()" || strings.HasPrefix(x, "c.recvAckReply(") || strings.HasPrefix(x, "return c.recvAckReply("):
						q = append(q, "recv")
					}
				}
				k := strings.Join(q, "|")
				if !seen[k] {
					seen[k] = true
					rows = append(rows, leanStrList(q))
				}
			}
			sep := ","
			if mi == 0 {
				sep = ""
			}
			g.p("  %s(%q, [%s])\n", sep, m, strings.Join(rows, ", "))
		}
		g.p("]\n\n")
		emit("hostExecvePaths", "Execve")
		emit("execveSyncKillPaths", "execveSyncKill")
		emit("waitForDonePaths", "waitForDone")
	})
}
