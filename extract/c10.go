package main

import (
	"go/ast"
	"strings"
)

// C10: the host endpoint of the RPC as the code has it: every path through Execve, execveSyncKill and waitForDone,
// projected onto the operations that touch the control socket (and the caller's callback).
func init() {
	extractors = append(extractors, func() {
		g := newGen("C10", "container/host_exec_linux.go")
		f := parseFile("container/host_exec_linux.go")
		keep := func(x string) (string, bool) {
			switch {
			case x == "c.sendCmd(cm,msg)":
				return "send execve", true
			case strings.HasPrefix(x, "c.sendCmd(cmd{Cmd:cmdOk}"):
				return "send ok", true
			case strings.HasPrefix(x, "c.sendCmd(cmd{Cmd:cmdKill}"):
				return "send kill", true
			case strings.HasPrefix(x, "c.sendCmd("):
				return "send " + x, true
			case x == "c.recvReply()":
				return "recv", true
			case x == "c.execveSyncKill()":
				return "execveSyncKill", true
			case strings.HasPrefix(x, "param.SyncFunc("):
				return "callback", true
			case strings.HasPrefix(x, "return c.waitForDone("):
				return "return waitForDone", true
			case strings.HasPrefix(x, "return errResult("):
				return "return error", true
			case strings.HasPrefix(x, "return convertReplyResult("):
				return "return result", true
			case strings.HasPrefix(x, "return"):
				return x, true
			case strings.HasPrefix(x, "case "):
				return x, true
			}
			return "", false
		}
		emit := func(name, fn string) {
			fd := findFunc(f, "container", fn)
			if fd == nil {
				fail("%s not found", fn)
				return
			}
			seen := map[string]bool{}
			g.p("def %s : List (List String) := [\n", name)
			first := true
			for _, p := range pathsOf(fd.Body.List) {
				var q []string
				for _, x := range p {
					if y, ok := keep(x); ok {
						q = append(q, y)
					}
				}
				k := strings.Join(q, "|")
				if seen[k] {
					continue
				}
				seen[k] = true
				sep := ","
				if first {
					sep = ""
				}
				g.p("  %s%s\n", sep, leanStrList(q))
				first = false
			}
			g.p("]\n\n")
		}
		// the simple calls: how often a command is sent and a reply is received on each path
		hc := parseFile("container/host_cmd_linux.go")
		g.p("def simpleCallPaths : List (String × List (List String)) := [\n")
		for mi, m := range []string{"Ping", "conf", "Open", "Symlink", "Delete", "Reset"} {
			fd := findFunc(hc, "container", m)
			if fd == nil {
				fail("host method %s not found", m)
				continue
			}
			seen := map[string]bool{}
			var rows []string
			for _, p := range pathsOf(fd.Body.List) {
				var q []string
				for _, x := range p {
					switch {
					case strings.HasPrefix(x, "c.sendCmd("):
						q = append(q, "send")
					case x == "c.recvReply()" || strings.HasPrefix(x, "c.recvAckReply(") || strings.HasPrefix(x, "return c.recvAckReply("):
						q = append(q, "recv")
					}
				}
				k := strings.Join(q, "|")
				if !seen[k] {
					seen[k] = true
					rows = append(rows, leanStrList(q))
				}
			}
			sep := ","
			if mi == 0 {
				sep = ""
			}
			g.p("  %s(%q, [%s])\n", sep, m, strings.Join(rows, ", "))
		}
		g.p("]\n\n")
		// the container endpoint: handleExecve and its synchronisation closure syncPid
		ce := parseFile("container/container_exec_linux.go")
		ckeep := func(x string) (string, bool) {
			switch {
			case strings.HasPrefix(x, "c.sendErrorReply(") || strings.HasPrefix(x, "return c.sendErrorReply("):
				return "send error reply", true
			case strings.HasPrefix(x, "c.sendReply(reply{}"):
				return "send sync", true
			case strings.HasPrefix(x, "c.sendReply(convertReply("):
				return "send result", true
			case strings.HasPrefix(x, "c.sendReply("):
				return "send " + x, true
			case x == "c.recvCmd()":
				return "recv", true
			case x == "r.Start()":
				return "start", true
			case strings.HasPrefix(x, "syncPid("):
				return "syncPid", true
			case strings.HasPrefix(x, "syscall.Kill(-1"):
				return "kill all", true
			case x == "c.waitPid<-" || x == "<-c.waitPidResult" || x == "c.waitAll<-" || x == "<-c.waitAllDone":
				return x, true
			case strings.HasPrefix(x, "return c.handleExecveStarted("):
				return "started", true
			}
			return "", false
		}
		emitC := func(name string, body []ast.Stmt) {
			seen := map[string]bool{}
			g.p("def %s : List (List String) := [\n", name)
			first := true
			for _, p := range pathsOf(body) {
				var q []string
				for _, x := range p {
					if y, ok := ckeep(x); ok {
						q = append(q, y)
					}
				}
				k := strings.Join(q, "|")
				if seen[k] {
					continue
				}
				seen[k] = true
				sep := ","
				if first {
					sep = ""
				}
				g.p("  %s%s\n", sep, leanStrList(q))
				first = false
			}
			g.p("]\n\n")
		}
		if fd := findFunc(ce, "containerServer", "handleExecve"); fd != nil {
			emitC("containerExecvePaths", fd.Body.List)
			found := false
			ast.Inspect(fd, func(n ast.Node) bool {
				as, ok := n.(*ast.AssignStmt)
				if !ok || len(as.Lhs) != 1 || len(as.Rhs) != 1 || exprStr(as.Lhs[0]) != "syncPid" {
					return true
				}
				if fl, ok := as.Rhs[0].(*ast.FuncLit); ok {
					emitC("syncPidPaths", fl.Body.List)
					found = true
				}
				return true
			})
			if !found {
				fail("syncPid closure not found in handleExecve")
			}
		} else {
			fail("handleExecve not found")
		}
		emit("hostExecvePaths", "Execve")
		emit("execveSyncKillPaths", "execveSyncKill")
		emit("waitForDonePaths", "waitForDone")
	})
}
