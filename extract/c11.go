package main

func init() {
	extractors = append(extractors, func() {
		g := newGen("C11", "ptracer/tracer_track_linux.go", "runner/unshare/run_linux.go")
		g.p("open GoSandbox.GoLite\n\n")
		tf := parseFile("ptracer/tracer_track_linux.go")
		emitLoopBody(g, "traceLoop", findFunc(tf, "Tracer", "trace"), []string{"result"})
		emitFunc(g, "killAllPtrace", findFunc(tf, "", "killAll"))
		emitFunc(g, "killAllUnshare", findFunc(parseFile("runner/unshare/run_linux.go"), "", "killAll"))
	})
}
