package main

func init() {
	extractors = append(extractors, func() {
		g := newGen("C03", "ptracer/tracer_track_linux.go", "ptracer/context_linux_amd64.go", "runner/ptrace/handle_linux.go")
		g.p("open GoSandbox.GoLite\n\n")
		emitFunc(g, "handleTrap", findFunc(parseFile("ptracer/tracer_track_linux.go"), "ptraceHandle", "handleTrap"))
		amd := parseFile("ptracer/context_linux_amd64.go")
		emitFunc(g, "skipSyscall", findFunc(amd, "Context", "skipSyscall"))
		emitFunc(g, "setReturnValue", findFunc(amd, "Context", "SetReturnValue"))
		emitFunc(g, "syscallNo", findFunc(amd, "Context", "SyscallNo"))
		emitFunc(g, "softBanSyscall", findFunc(parseFile("runner/ptrace/handle_linux.go"), "", "softBanSyscall"))
		emitFunc(g, "setPtraceOption", findFunc(parseFile("ptracer/tracer_track_linux.go"), "", "setPtraceOption"))
	})
}
