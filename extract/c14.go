package main

func init() {
	extractors = append(extractors, func() {
		g := newGen("C14", "container/container_cmd_linux.go")
		g.p("open GoSandbox.GoLite\n\n")
		f := parseFile("container/container_cmd_linux.go")
		emitFunc(g, "handleOpen", findFunc(f, "containerServer", "handleOpen"))
		emitFunc(g, "checkOpenTargetFile", findFunc(f, "", "checkOpenTargetFile"))
		emitFunc(g, "handleSymlink", findFunc(f, "containerServer", "handleSymlink"))
		emitFunc(g, "handleDelete", findFunc(f, "containerServer", "handleDelete"))
	})
}
