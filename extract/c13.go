package main

func init() {
	extractors = append(extractors, func() {
		g := newGen("C13", "container/container_cmd_linux.go", "container/utils.go", "pkg/memfd/memfd_linux.go")
		g.p("open GoSandbox.GoLite\n\n")
		emitFunc(g, "handleReset", findFunc(parseFile("container/container_cmd_linux.go"), "containerServer", "handleReset"))
		emitFunc(g, "dupToMemfd", findFunc(parseFile("pkg/memfd/memfd_linux.go"), "", "DupToMemfd"))
		emitFunc(g, "removeContents", findFunc(parseFile("container/utils.go"), "", "removeContents"))
	})
}
