package main

import (
	"go/ast"
	"strings"
)

func init() {
	extractors = append(extractors, func() {
		g := newGen("C16", "container/container_init_linux.go", "container/container_exec_linux.go", "container/container_cmd_linux.go", "container/environment_linux.go", "container/host_exec_linux.go", "ptracer/tracer_track_linux.go")
		// every `select` statement of the container package: (function, [case comm expressions])
		g.p("/-- (file, function, communication clauses) of every select statement -/\ndef selects : List (String × String × List String) := [\n")
		first := true
		for _, file := range []string{"container/container_init_linux.go", "container/container_exec_linux.go", "container/container_cmd_linux.go", "container/environment_linux.go", "container/host_exec_linux.go", "container/host_cmd_linux.go"} {
			af := parseFile(file)
			if af == nil {
				continue
			}
			for _, dcl := range af.Decls {
				fd, ok := dcl.(*ast.FuncDecl)
				if !ok || fd.Body == nil {
					continue
				}
				ast.Inspect(fd.Body, func(n ast.Node) bool {
					sel, ok := n.(*ast.SelectStmt)
					if !ok {
						return true
					}
					var cases []string
					for _, c := range sel.Body.List {
						cc := c.(*ast.CommClause)
						switch x := cc.Comm.(type) {
						case nil:
							cases = append(cases, "default")
						case *ast.ExprStmt:
							cases = append(cases, exprStr(x.X))
						case *ast.AssignStmt:
							cases = append(cases, exprStr(x.Rhs[0]))
						case *ast.SendStmt:
							cases = append(cases, exprStr(x.Chan)+"<-")
						}
					}
					if !first {
						g.p(",\n")
					}
					first = false
					g.p("  (%s, %s, %s)", leanStr(file), leanStr(fd.Name.Name), leanStrList(cases))
					return true
				})
			}
		}
		g.p("]\n\n")
		// SysProcAttr of the container init
		var attrs []string
		if sc := findFunc(parseFile("container/environment_linux.go"), "Builder", "startContainer"); sc != nil {
			ast.Inspect(sc, func(n ast.Node) bool {
				cl, ok := n.(*ast.CompositeLit)
				if !ok || !strings.HasSuffix(exprStr(cl.Type), "SysProcAttr") {
					return true
				}
				for _, e := range cl.Elts {
					if kv, ok := e.(*ast.KeyValueExpr); ok {
						attrs = append(attrs, exprStr(kv.Key)+"="+exprStr(kv.Value))
					}
				}
				return false
			})
		}
		g.p("def sysProcAttr : List String := %s\n\n", leanStrList(attrs))
		// ptrace options set on every tracee
		var opts []string
		if so := findFunc(parseFile("ptracer/tracer_track_linux.go"), "", "setPtraceOption"); so != nil {
			ast.Inspect(so, func(n ast.Node) bool {
				if se, ok := n.(*ast.SelectorExpr); ok && strings.HasPrefix(se.Sel.Name, "PTRACE_O_") {
					opts = append(opts, se.Sel.Name)
				}
				return true
			})
		}
		g.p("def ptraceOptions : List String := %s\n\n", leanStrList(opts))
		// the control socket pair of an environment: domain and type as NewSocketPair asks the kernel for them
		var spArgs []string
		if np := findFunc(parseFile("pkg/unixsocket/socket_linux.go"), "", "NewSocketPair"); np != nil {
			ast.Inspect(np, func(n ast.Node) bool {
				if ce, ok := n.(*ast.CallExpr); ok && strings.HasSuffix(exprStr(ce.Fun), "Socketpair") {
					for _, a := range ce.Args {
						spArgs = append(spArgs, exprStr(a))
					}
				}
				return true
			})
		}
		g.p("def socketPairArgs : List String := %s\n", leanStrList(spArgs))
	})
}
