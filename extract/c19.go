package main

func init() {
	extractors = append(extractors, func() {
		g := newGen("C19", "pkg/unixsocket/socket_linux.go", "container/socket_linux.go")
		g.p("open GoSandbox.GoLite\n\n")
		f := parseFile("pkg/unixsocket/socket_linux.go")
		emitFunc(g, "recvMsg", findFunc(f, "Socket", "RecvMsg"))
		emitFunc(g, "parseMsg", findFunc(f, "", "parseMsg"))
		emitFunc(g, "sendMsg", findFunc(f, "Socket", "SendMsg"))
		// the gob-framed layer of package container
		c := parseFile("container/socket_linux.go")
		emitFunc(g, "gobSendMsg", findFunc(c, "socket", "SendMsg"))
		emitFunc(g, "gobRecvMsg", findFunc(c, "socket", "RecvMsg"))
		emitFunc(g, "gobNewSocket", findFunc(c, "", "newSocket"))
	})
}
