package main

import "go/ast"

// emitLoopBody emits the body of the last condition-less top-level `for {}` of fd as a Func.
func emitLoopBody(g *genFile, leanName string, fd *ast.FuncDecl, results []string) {
	if fd == nil {
		fail("function for %s not found", leanName)
		return
	}
	var loop *ast.ForStmt
	for _, s := range fd.Body.List {
		if f, ok := s.(*ast.ForStmt); ok && f.Cond == nil && f.Init == nil {
			loop = f
		}
	}
	if loop == nil {
		fail("%s: no wait loop found", leanName)
		return
	}
	g.p("def %s : GoSandbox.GoLite.Func :=\n  { name := %s, params := [], results := %s,\n    body := %s }\n\n",
		leanName, leanStr(fd.Name.Name+"#loop"), leanStrList(results), glBlock(loop.Body.List, "    "))
}

func init() {
	extractors = append(extractors, func() {
		g := newGen("C09", "ptracer/tracer_track_linux.go", "container/container_exec_linux.go", "container/host_exec_linux.go", "runner/unshare/run_linux.go", "runner/status.go")
		g.p("open GoSandbox.GoLite\n\n")
		emitFunc(g, "ptraceHandle", findFunc(parseFile("ptracer/tracer_track_linux.go"), "ptraceHandle", "handle"))
		emitFunc(g, "checkUsage", findFunc(parseFile("ptracer/tracer_track_linux.go"), "Tracer", "checkUsage"))
		emitFunc(g, "convertReply", findFunc(parseFile("container/container_exec_linux.go"), "", "convertReply"))
		emitFunc(g, "convertReplyResult", findFunc(parseFile("container/host_exec_linux.go"), "", "convertReplyResult"))
		// the namespace runner's classifier is the body of the wait loop inside Run
		emitLoopBody(g, "unshareLoop", findFunc(parseFile("runner/unshare/run_linux.go"), "Runner", "Run"), []string{"result"})
	})
}
