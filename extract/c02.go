package main

func init() {
	extractors = append(extractors, func() {
		g := newGen("C02", "runner/ptrace/handle_linux.go")
		g.p("open GoSandbox.GoLite\n\n")
		f := parseFile("runner/ptrace/handle_linux.go")
		for _, n := range []string{"resolveTraceePath", "absPath", "absPathAt", "getProcFd", "normalizeProcMagicPath",
			"isOpenReadOnly", "isDangerousProcPath", "isAllowedProcAlias", "combineTraceActions"} {
			emitFunc(g, n, findFunc(f, "", n))
		}
		for _, n := range []string{"Handle", "checkOpen", "checkOpenAt", "checkOpenAt2", "checkRead", "checkReadAt", "checkWrite",
			"checkWriteAt", "checkStat", "checkStatAt", "getString", "getStringAt", "checkProcPath"} {
			emitFunc(g, "h_"+n, findFunc(f, "tracerHandler", n))
		}
	})
}
