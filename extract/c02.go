package main

import (
	"go/ast"
	"go/token"
)

func init() {
	extractors = append(extractors, func() {
		g := newGen("C02", "runner/ptrace/handle_linux.go")
		g.p("open GoSandbox.GoLite\n\n")
		f := parseFile("runner/ptrace/handle_linux.go")
		// the link budget of the resolver, as the source has it
		depth := ""
		for _, d := range f.Decls {
			gd, ok := d.(*ast.GenDecl)
			if !ok || gd.Tok != token.CONST {
				continue
			}
			for _, sp := range gd.Specs {
				vs := sp.(*ast.ValueSpec)
				for i, nm := range vs.Names {
					if nm.Name == "maxSymlinkDepth" && i < len(vs.Values) {
						depth = exprStr(vs.Values[i])
					}
				}
			}
		}
		if depth == "" {
			fail("const maxSymlinkDepth not found")
			depth = "0"
		}
		g.p("def maxSymlinkDepth : Nat := %s\n\n", depth)
		for _, n := range []string{"resolveTraceePath", "absPath", "absPathAt", "getProcFd", "normalizeProcMagicPath",
			"isOpenReadOnly", "isDangerousProcPath", "isAllowedProcAlias", "combineTraceActions"} {
			emitFunc(g, n, findFunc(f, "", n))
		}
		for _, n := range []string{"Handle", "checkOpen", "checkOpenAt", "checkOpenAt2", "checkRead", "checkReadAt", "checkWrite",
			"checkWriteAt", "checkStat", "checkStatAt", "getString", "getStringAt", "checkProcPath"} {
			emitFunc(g, "h_"+n, findFunc(f, "tracerHandler", n))
		}
	})
}
