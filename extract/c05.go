package main

func init() {
	extractors = append(extractors, func() {
		g := newGen("C05", "pkg/mount/builder_linux.go", "pkg/mount/mount.go", "pkg/mount/mount_linux.go", "container/container_init_linux.go")
		g.p("open GoSandbox.GoLite\n\n")
		b := parseFile("pkg/mount/builder_linux.go")
		emitFunc(g, "withBind", findFunc(b, "Builder", "WithBind"))
		emitFunc(g, "withTmpfs", findFunc(b, "Builder", "WithTmpfs"))
		emitFunc(g, "withProcRW", findFunc(b, "Builder", "WithProcRW"))
		emitFunc(g, "filterNotExist", findFunc(b, "Builder", "FilterNotExist"))
		emitFunc(g, "isBindMountFileOrNotExists", findFunc(b, "", "isBindMountFileOrNotExists"))
		emitFunc(g, "pathPrefix", findFunc(parseFile("pkg/mount/mount.go"), "", "pathPrefix"))
		ml := parseFile("pkg/mount/mount_linux.go")
		emitFunc(g, "mountMount", findFunc(ml, "Mount", "Mount"))
		emitFunc(g, "ensureMountTargetExists", findFunc(ml, "", "ensureMountTargetExists"))
		ci := parseFile("container/container_init_linux.go")
		emitFunc(g, "initFileSystem", findFunc(ci, "", "initFileSystem"))
		emitFunc(g, "maskPath", findFunc(ci, "", "maskPath"))
	})
}
