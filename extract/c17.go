package main

import (
	"go/ast"
	"strings"
)

// callsInOrder lists the callee names of a function body in source order; a deferred call is prefixed "defer "
func callsInOrder(fd *ast.FuncDecl) []string {
	var out []string
	if fd == nil || fd.Body == nil {
		return out
	}
	deferred := map[*ast.CallExpr]bool{}
	ast.Inspect(fd.Body, func(n ast.Node) bool {
		switch x := n.(type) {
		case *ast.DeferStmt:
			deferred[x.Call] = true
		case *ast.FuncLit:
			// calls inside closures run elsewhere: named but marked
			ast.Inspect(x.Body, func(m ast.Node) bool {
				if c, ok := m.(*ast.CallExpr); ok {
					out = append(out, "closure "+exprStr(c.Fun))
				}
				return true
			})
			return false
		case *ast.CallExpr:
			name := exprStr(x.Fun)
			if deferred[x] {
				name = "defer " + name
			}
			out = append(out, name)
		}
		return true
	})
	return out
}

func init() {
	extractors = append(extractors, func() {
		g := newGen("C17", "ptracer/tracer_track_linux.go", "runner/unshare/run_linux.go", "pkg/forkexec/fork_linux.go", "pkg/forkexec/fork_child_linux.go",
			"pkg/forkexec/userns_linux.go", "pkg/unixsocket/socket_linux.go", "pkg/memfd/memfd_linux.go", "container/host_cmd_linux.go", "container/host_exec_linux.go", "container/environment_linux.go")
		// every wait4 of the host side: (file, function, first argument)
		g.p("/-- (file, function, selector argument) of every wait4 on the host side -/\ndef waitSites : List (String × String × String) := [\n")
		first := true
		for _, file := range []string{"ptracer/tracer_track_linux.go", "runner/unshare/run_linux.go", "pkg/forkexec/fork_linux.go"} {
			af := parseFile(file)
			if af == nil {
				continue
			}
			for _, dcl := range af.Decls {
				fd, ok := dcl.(*ast.FuncDecl)
				if !ok || fd.Body == nil {
					continue
				}
				ast.Inspect(fd.Body, func(n ast.Node) bool {
					c, ok := n.(*ast.CallExpr)
					if !ok || !strings.HasSuffix(exprStr(c.Fun), ".Wait4") || len(c.Args) == 0 {
						return true
					}
					if !first {
						g.p(",\n")
					}
					first = false
					g.p("  (%s, %s, %s)", leanStr(file), leanStr(fd.Name.Name), leanStr(exprStr(c.Args[0])))
					return true
				})
			}
		}
		g.p("]\n\n")
		g.p("/-- callee names of (*Tracer).Trace in source order -/\ndef traceCalls : List String := %s\n\n",
			leanStrList(callsInOrder(findFunc(parseFile("ptracer/tracer_track_linux.go"), "Tracer", "Trace"))))
		g.p("/-- callee names of forkexec (*Runner).Start in source order -/\ndef startCalls : List String := %s\n\n",
			leanStrList(callsInOrder(findFunc(parseFile("pkg/forkexec/fork_linux.go"), "Runner", "Start"))))
		g.p("/-- callee names of forkAndExecInChild in source order -/\ndef forkChildCalls : List String := %s\n\n",
			leanStrList(callsInOrder(findFunc(parseFile("pkg/forkexec/fork_child_linux.go"), "", "forkAndExecInChild"))))
		// raw descriptor creations on the host side: (file, callee, argument text)
		g.p("/-- raw descriptor-creating calls of the host side: (file, callee, arguments) -/\ndef rawFdCreations : List (String × String × String) := [\n")
		first = true
		for _, file := range []string{"pkg/forkexec/fork_linux.go", "pkg/forkexec/userns_linux.go", "pkg/unixsocket/socket_linux.go", "pkg/memfd/memfd_linux.go",
			"pkg/pipe/buffer.go", "container/environment_linux.go", "container/host_exec_linux.go", "container/host_cmd_linux.go", "runner/unshare/run_linux.go", "runner/ptrace/run_linux.go", "ptracer/tracer_track_linux.go"} {
			af := parseFile(file)
			if af == nil {
				continue
			}
			ast.Inspect(af, func(n ast.Node) bool {
				c, ok := n.(*ast.CallExpr)
				if !ok {
					return true
				}
				name := exprStr(c.Fun)
				raw := false
				for _, suf := range []string{".Socketpair", ".Pipe2", "syscall.Pipe", "unix.Pipe", ".MemfdCreate", "unix.Open", "syscall.Open", ".Openat", ".Accept4", ".Accept", ".Dup", ".Dup2", ".Dup3", ".Socket", ".EpollCreate1", ".Eventfd"} {
					if strings.HasSuffix(name, suf) && (strings.HasPrefix(name, "syscall.") || strings.HasPrefix(name, "unix.")) {
						raw = true
					}
				}
				if !raw {
					return true
				}
				var args []string
				for _, a := range c.Args {
					args = append(args, exprStr(a))
				}
				if !first {
					g.p(",\n")
				}
				first = false
				g.p("  (%s, %s, %s)", leanStr(file), leanStr(name), leanStr(strings.Join(args, ", ")))
				return true
			})
		}
		g.p("]\n\n")
		// methods of *container: callee names in order
		g.p("/-- methods of the host side's *container: (name, callee names in source order) -/\ndef containerMethods : List (String × List String) := [\n")
		first = true
		for _, file := range []string{"container/host_cmd_linux.go", "container/host_exec_linux.go", "container/environment_linux.go"} {
			af := parseFile(file)
			if af == nil {
				continue
			}
			for _, dcl := range af.Decls {
				fd, ok := dcl.(*ast.FuncDecl)
				if !ok || fd.Body == nil || fd.Recv == nil || len(fd.Recv.List) == 0 || !strings.HasSuffix(exprStr(fd.Recv.List[0].Type), "container") {
					continue
				}
				if !first {
					g.p(",\n")
				}
				first = false
				g.p("  (%s, %s)", leanStr(fd.Name.Name), leanStrList(callsInOrder(fd)))
			}
		}
		g.p("]\n")
	})
}
