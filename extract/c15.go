package main

func init() {
	extractors = append(extractors, func() {
		g := newGen("C15", "ptracer/context_helper_linux.go", "ptracer/tracer_track_linux.go")
		g.p("open GoSandbox.GoLite\n\n")
		h := parseFile("ptracer/context_helper_linux.go")
		emitFunc(g, "clen", findFunc(h, "", "clen"))
		emitFunc(g, "hasNull", findFunc(h, "", "hasNull"))
		emitFunc(g, "handleTrap", findFunc(parseFile("ptracer/tracer_track_linux.go"), "ptraceHandle", "handleTrap"))
	})
}
