package main

import "go/ast"

func init() {
	extractors = append(extractors, func() {
		g := newGen("C08", "pkg/rlimit/rlimit.go", "pkg/pipe/buffer.go")
		g.p("open GoSandbox.GoLite\n\n")
		emitFunc(g, "prepareRLimit", findFunc(parseFile("pkg/rlimit/rlimit.go"), "RLimits", "PrepareRLimit"))
		emitFunc(g, "newBuffer", findFunc(parseFile("pkg/pipe/buffer.go"), "", "NewBuffer"))
		// the collector goroutine of NewPipe: the ordered list of calls in its body
		np := findFunc(parseFile("pkg/pipe/buffer.go"), "", "NewPipe")
		var calls []string
		if np != nil {
			ast.Inspect(np, func(n ast.Node) bool {
				gs, ok := n.(*ast.GoStmt)
				if !ok {
					return true
				}
				if fl, ok := gs.Call.Fun.(*ast.FuncLit); ok {
					for _, st := range fl.Body.List {
						if es, ok := st.(*ast.ExprStmt); ok {
							calls = append(calls, exprStr(es.X))
						} else {
							calls = append(calls, "<non-call statement>")
						}
					}
				}
				return false
			})
		}
		if len(calls) == 0 {
			fail("NewPipe: collector goroutine not found")
		}
		g.p("/-- statements of the goroutine started by NewPipe, in order -/\ndef newPipeGoroutine : List String := %s\n\n", leanStrList(calls))
	})
}
