package main

import (
	"fmt"
	"go/ast"
	"go/token"
	"strconv"
	"strings"
)

// ---- Go-lite emitter: go/ast -> Lean terms of GoSandbox.GoLite.{Expr,Stmt,Func} ----

func glExpr(e ast.Expr) string {
	switch x := e.(type) {
	case nil:
		return `(.other "nil-expr")`
	case *ast.Ident:
		return fmt.Sprintf("(.id %s)", leanStr(x.Name))
	case *ast.SelectorExpr:
		return fmt.Sprintf("(.sel %s %s)", glExpr(x.X), leanStr(x.Sel.Name))
	case *ast.BasicLit:
		switch x.Kind {
		case token.INT:
			v, err := strconv.ParseInt(x.Value, 0, 64)
			if err != nil {
				u, err2 := strconv.ParseUint(x.Value, 0, 64)
				if err2 != nil {
					return fmt.Sprintf("(.other %s)", leanStr(x.Value))
				}
				return fmt.Sprintf("(.lit %d)", u)
			}
			return fmt.Sprintf("(.lit %d)", v)
		case token.CHAR:
			r, _, _, err := strconv.UnquoteChar(x.Value[1:len(x.Value)-1], '\'')
			if err != nil {
				return fmt.Sprintf("(.other %s)", leanStr(x.Value))
			}
			return fmt.Sprintf("(.lit %d)", r)
		case token.STRING:
			s, err := strconv.Unquote(x.Value)
			if err != nil {
				return fmt.Sprintf("(.other %s)", leanStr(x.Value))
			}
			return fmt.Sprintf("(.str %s)", leanStr(s))
		}
		return fmt.Sprintf("(.other %s)", leanStr(x.Value))
	case *ast.ParenExpr:
		return glExpr(x.X)
	case *ast.BinaryExpr:
		return fmt.Sprintf("(.bin %s %s %s)", leanStr(x.Op.String()), glExpr(x.X), glExpr(x.Y))
	case *ast.UnaryExpr:
		return fmt.Sprintf("(.un %s %s)", leanStr(x.Op.String()), glExpr(x.X))
	case *ast.StarExpr:
		return fmt.Sprintf("(.star %s)", glExpr(x.X))
	case *ast.CallExpr:
		args := make([]string, len(x.Args))
		for i, a := range x.Args {
			args[i] = glExpr(a)
		}
		if id, ok := x.Fun.(*ast.Ident); ok && (id.Name == "make" || id.Name == "new") && len(x.Args) > 0 {
			args[0] = fmt.Sprintf("(.str %s)", leanStr(exprStr(x.Args[0]))) // a type, not a value
		}
		if x.Ellipsis.IsValid() {
			// f(a, b...): the callee name carries the spread marker
			if id, ok := x.Fun.(*ast.Ident); ok {
				return fmt.Sprintf("(.call (.id %s) [%s])", leanStr(id.Name+"..."), strings.Join(args, ", "))
			}
			if se, ok := x.Fun.(*ast.SelectorExpr); ok {
				return fmt.Sprintf("(.call (.sel %s %s) [%s])", glExpr(se.X), leanStr(se.Sel.Name+"..."), strings.Join(args, ", "))
			}
		}
		return fmt.Sprintf("(.call %s [%s])", glExpr(x.Fun), strings.Join(args, ", "))
	case *ast.IndexExpr:
		return fmt.Sprintf("(.idx %s %s)", glExpr(x.X), glExpr(x.Index))
	case *ast.SliceExpr:
		opt := func(e ast.Expr) string {
			if e == nil {
				return "none"
			}
			return "(some " + glExpr(e) + ")"
		}
		if x.Slice3 {
			return fmt.Sprintf("(.other %s)", leanStr(exprStr(e)))
		}
		return fmt.Sprintf("(.slice %s %s %s)", glExpr(x.X), opt(x.Low), opt(x.High))
	case *ast.CompositeLit:
		// [N]T{} with no elements: an array of N zero values
		if at, ok := x.Type.(*ast.ArrayType); ok && at.Len != nil && len(x.Elts) == 0 {
			return fmt.Sprintf("(.call (.id \"#array\") [%s])", glExpr(at.Len))
		}
		// a slice/array of an anonymous struct type whose elements are written positionally, `[]struct{a A; b B}{{x, y}}`:
		// the element literals get the field names of the struct type
		var elemFields []string
		if at, ok := x.Type.(*ast.ArrayType); ok {
			if stt, ok := at.Elt.(*ast.StructType); ok {
				for _, f := range stt.Fields.List {
					for _, n := range f.Names {
						elemFields = append(elemFields, n.Name)
					}
				}
			}
		}
		elts := make([]string, len(x.Elts))
		for i, el := range x.Elts {
			if kv, ok := el.(*ast.KeyValueExpr); ok {
				elts[i] = fmt.Sprintf("(%s, %s)", leanStr(exprStr(kv.Key)), glExpr(kv.Value))
			} else if inner, ok := el.(*ast.CompositeLit); ok && inner.Type == nil && len(elemFields) > 0 && len(inner.Elts) == len(elemFields) && !hasKeys(inner) {
				fs := make([]string, len(inner.Elts))
				for j, ie := range inner.Elts {
					fs[j] = fmt.Sprintf("(%s, %s)", leanStr(elemFields[j]), glExpr(ie))
				}
				elts[i] = fmt.Sprintf("(\"\", (.comp \"\" [%s]))", strings.Join(fs, ", "))
			} else {
				elts[i] = fmt.Sprintf("(\"\", %s)", glExpr(el))
			}
		}
		ty := ""
		if x.Type != nil {
			ty = exprStr(x.Type)
		}
		return fmt.Sprintf("(.comp %s [%s])", leanStr(ty), strings.Join(elts, ", "))
	case *ast.TypeAssertExpr:
		return fmt.Sprintf("(.call (.id \"#assert\") [%s, (.str %s)])", glExpr(x.X), leanStr(exprStr(x.Type)))
	}
	return fmt.Sprintf("(.other %s)", leanStr(exprStr(e)))
}

func hasKeys(c *ast.CompositeLit) bool {
	for _, e := range c.Elts {
		if _, ok := e.(*ast.KeyValueExpr); ok {
			return true
		}
	}
	return false
}

// glZero is the zero value of a declared type.
func glZero(t ast.Expr) string {
	switch x := t.(type) {
	case *ast.Ident:
		switch x.Name {
		case "int", "int8", "int16", "int32", "int64", "uint", "uint8", "uint16", "uint32", "uint64", "uintptr", "byte", "ErrorLocation":
			return "(.lit 0)"
		case "bool":
			return `(.id "false")`
		case "string":
			return `(.str "")`
		}
	case *ast.SelectorExpr:
		if exprStr(x) == "syscall.Errno" || exprStr(x) == "time.Duration" {
			return "(.lit 0)"
		}
	case *ast.StarExpr, *ast.ArrayType, *ast.MapType, *ast.FuncType, *ast.InterfaceType, *ast.ChanType:
		if at, ok := t.(*ast.ArrayType); ok && at.Len != nil {
			return fmt.Sprintf("(.call (.id \"#array\") [%s])", glExpr(at.Len))
		}
		return `(.id "nil")`
	}
	return fmt.Sprintf("(.call (.id \"#zero\") [(.str %s)])", leanStr(exprStr(t)))
}

func glExprList(l []ast.Expr) string {
	o := make([]string, len(l))
	for i, e := range l {
		o[i] = glExpr(e)
	}
	return "[" + strings.Join(o, ", ") + "]"
}

func glStmtOpt(s ast.Stmt, ind string) string {
	if s == nil {
		return "[]"
	}
	return "[" + glStmt(s, ind) + "]"
}

func glBlock(l []ast.Stmt, ind string) string {
	if len(l) == 0 {
		return "[]"
	}
	o := make([]string, len(l))
	for i, s := range l {
		o[i] = "\n" + ind + "  " + glStmt(s, ind+"  ")
	}
	return "[" + strings.Join(o, ",") + "]"
}

func glStmt(s ast.Stmt, ind string) string {
	switch x := s.(type) {
	case *ast.AssignStmt:
		return fmt.Sprintf("(.assign %s %s %s)", glExprList(x.Lhs), leanStr(x.Tok.String()), glExprList(x.Rhs))
	case *ast.IncDecStmt:
		return fmt.Sprintf("(.incdec %s %s)", glExpr(x.X), leanStr(x.Tok.String()))
	case *ast.ExprStmt:
		return fmt.Sprintf("(.expr %s)", glExpr(x.X))
	case *ast.DeclStmt:
		gd, ok := x.Decl.(*ast.GenDecl)
		if !ok || (gd.Tok != token.VAR && gd.Tok != token.CONST) {
			return fmt.Sprintf("(.other %s)", leanStr("decl"))
		}
		var parts []string
		for _, sp := range gd.Specs {
			vs := sp.(*ast.ValueSpec)
			names := make([]string, len(vs.Names))
			for i, n := range vs.Names {
				names[i] = n.Name
			}
			vals := glExprList(vs.Values)
			if len(vs.Values) == 0 && vs.Type != nil {
				// explicit zero values by declared type
				z := glZero(vs.Type)
				zs := make([]string, len(names))
				for i := range zs {
					zs[i] = z
				}
				vals = "[" + strings.Join(zs, ", ") + "]"
			}
			parts = append(parts, fmt.Sprintf("(.decl %s %s)", leanStrList(names), vals))
		}
		if len(parts) == 1 {
			return parts[0]
		}
		// several specs: flatten (no new scope: declarations must stay visible)
		return strings.Join(parts, ",\n"+ind)
	case *ast.IfStmt:
		els := "[]"
		if x.Else != nil {
			if b, ok := x.Else.(*ast.BlockStmt); ok {
				els = glBlock(b.List, ind)
			} else {
				els = "[" + glStmt(x.Else, ind+"  ") + "]"
			}
		}
		return fmt.Sprintf("(.ifs %s %s %s %s)", glStmtOpt(x.Init, ind), glExpr(x.Cond), glBlock(x.Body.List, ind), els)
	case *ast.ForStmt:
		cond := "none"
		if x.Cond != nil {
			cond = "(some " + glExpr(x.Cond) + ")"
		}
		return fmt.Sprintf("(.for_ %s %s %s %s)", glStmtOpt(x.Init, ind), cond, glStmtOpt(x.Post, ind), glBlock(x.Body.List, ind))
	case *ast.RangeStmt:
		nm := func(e ast.Expr) string {
			if e == nil {
				return ""
			}
			n := exprStr(e)
			if x.Tok == token.ASSIGN {
				return "=" + n
			}
			return n
		}
		return fmt.Sprintf("(.range %s %s %s %s)", leanStr(nm(x.Key)), leanStr(nm(x.Value)), glExpr(x.X), glBlock(x.Body.List, ind))
	case *ast.SwitchStmt:
		tag := "none"
		if x.Tag != nil {
			tag = "(some " + glExpr(x.Tag) + ")"
		}
		var cases []string
		for _, c := range x.Body.List {
			cc := c.(*ast.CaseClause)
			for _, b := range cc.Body {
				if br, ok := b.(*ast.BranchStmt); ok && br.Tok == token.FALLTHROUGH {
					return `(.other "fallthrough")`
				}
			}
			cases = append(cases, fmt.Sprintf("\n%s  (%s, %s)", ind, glExprList(cc.List), glBlock(cc.Body, ind+"  ")))
		}
		return fmt.Sprintf("(.switch %s %s [%s])", glStmtOpt(x.Init, ind), tag, strings.Join(cases, ","))
	case *ast.ReturnStmt:
		return fmt.Sprintf("(.ret %s)", glExprList(x.Results))
	case *ast.BranchStmt:
		if x.Label != nil {
			return fmt.Sprintf("(.other %s)", leanStr(x.Tok.String()+" "+x.Label.Name))
		}
		switch x.Tok {
		case token.BREAK:
			return ".brk"
		case token.CONTINUE:
			return ".cont"
		}
		return fmt.Sprintf("(.other %s)", leanStr(x.Tok.String()))
	case *ast.BlockStmt:
		return fmt.Sprintf("(.block %s)", glBlock(x.List, ind))
	case *ast.EmptyStmt:
		return "(.block [])"
	case *ast.DeferStmt:
		return fmt.Sprintf("(.other %s)", leanStr("defer"))
	case *ast.GoStmt:
		return fmt.Sprintf("(.other %s)", leanStr("go"))
	case *ast.LabeledStmt:
		return fmt.Sprintf("(.other %s)", leanStr("label "+x.Label.Name))
	}
	return fmt.Sprintf("(.other %s)", leanStr(fmt.Sprintf("%T", s)))
}

// emitFunc writes `def <leanName> : GoSandbox.GoLite.Func`.
func emitFunc(g *genFile, leanName string, fd *ast.FuncDecl) {
	if fd == nil {
		fail("function for %s not found", leanName)
		g.p("def %s : GoSandbox.GoLite.Func := missing_function_%s\n\n", leanName, leanName)
		return
	}
	var params, results []string
	for _, f := range fd.Type.Params.List {
		for _, n := range f.Names {
			params = append(params, n.Name)
		}
	}
	if fd.Type.Results != nil {
		for _, f := range fd.Type.Results.List {
			for _, n := range f.Names {
				results = append(results, n.Name)
			}
		}
	}
	if fd.Recv != nil && len(fd.Recv.List) > 0 && len(fd.Recv.List[0].Names) > 0 {
		params = append([]string{fd.Recv.List[0].Names[0].Name}, params...)
	}
	g.p("def %s : GoSandbox.GoLite.Func :=\n  { name := %s, params := %s, results := %s,\n    body := %s }\n\n",
		leanName, leanStr(fd.Name.Name), leanStrList(params), leanStrList(results), glBlock(fd.Body.List, "    "))
}
