package main

func init() {
	extractors = append(extractors, func() {
		g := newGen("C20", "pkg/cgroup/v2_linux.go", "pkg/cgroup/utils_linux.go", "pkg/cgroup/v1_linux.go", "pkg/cgroup/cgroup_linux.go")
		g.p("open GoSandbox.GoLite\n\n")
		emitFunc(g, "cpuUsageV2", findFunc(parseFile("pkg/cgroup/v2_linux.go"), "V2", "CPUUsage"))
		emitFunc(g, "ensureDirExists", findFunc(parseFile("pkg/cgroup/utils_linux.go"), "", "EnsureDirExists"))
		emitFunc(g, "destroyV1", findFunc(parseFile("pkg/cgroup/v1_linux.go"), "V1", "Destroy"))
		emitFunc(g, "destroyV2", findFunc(parseFile("pkg/cgroup/v2_linux.go"), "V2", "Destroy"))
		emitFunc(g, "addProcV1", findFunc(parseFile("pkg/cgroup/v1_linux.go"), "V1", "AddProc"))
		emitFunc(g, "newSubV2", findFunc(parseFile("pkg/cgroup/v2_linux.go"), "V2", "New"))
		emitFunc(g, "nestV2", findFunc(parseFile("pkg/cgroup/v2_linux.go"), "V2", "Nest"))
		emitFunc(g, "newV2", findFunc(parseFile("pkg/cgroup/cgroup_linux.go"), "", "newV2"))
		emitFunc(g, "openExistingV1", findFunc(parseFile("pkg/cgroup/cgroup_linux.go"), "", "openExistingV1"))
		emitFunc(g, "copyFromParent", findFunc(parseFile("pkg/cgroup/v1_linux.go"), "", "copyCgroupPropertyFromParent"))
		emitFunc(g, "newSubV1", findFunc(parseFile("pkg/cgroup/v1_linux.go"), "V1", "New"))
		emitFunc(g, "initCpuset", findFunc(parseFile("pkg/cgroup/v1_linux.go"), "", "initCpuset"))
	})
}
