#!/usr/bin/env python3
"""Regenerates MANIFEST.json from bin/props.py + the per-property texts below."""
import json, os, sys
sys.path.insert(0, os.path.dirname(os.path.abspath(__file__)))
from props import PROPS
VERIF = os.path.dirname(os.path.dirname(os.path.abspath(__file__)))
ALL = ["C%02d" % i for i in range(1, 21)]
hooks = [l.strip() for l in open(os.path.join(VERIF, "HOOK_COMMITS.txt")) if l.strip()] if os.path.exists(os.path.join(VERIF, "HOOK_COMMITS.txt")) else []
checks = []
for pid in ALL:
    if pid not in PROPS:
        continue
    s = PROPS[pid]
    checks.append({
        "property_id": pid,
        "quick_cmd": "bin/check %s --tier quick" % pid,
        "thorough_cmd": "bin/check %s --tier thorough" % pid,
        "evidence_file": "/verif/evidence/%s.json" % pid,
        "replay_cmd_template": "bin/check replay {path}",
        "engine": "lean4-proof+correspondence",
        "level_claimed": {"category": s["level"], "text": s["level_text"], "design_ref": "DESIGN.md §5 " + pid},
        "level_note": s["level_note"],
        "technique": s["technique"],
    })
na = [{"property_id": p, "reason": "check not built yet in this round (design exists in DESIGN.md §5); nothing is claimed for it"} for p in ALL if p not in PROPS]
m = {
    "version": 1,
    "setup_cmd": "bin/setup",
    "hooks": {"guard": "verif", "enable": "go build -tags verif (files *_verif.go, //go:build verif)",
              "baseline_off_cmd": "cd /repo && GOFLAGS=-mod=mod GOPROXY=off go test -json -vet=off -count=1 -timeout 25m ./...",
              "source_commits": hooks, "add_only": True},
    "engines": [{"name": "lean4-proof+correspondence", "path": "/verif/lean", "serves_properties": [c["property_id"] for c in checks],
                 "kind_free_text": "Lean 4 theorems about executable models (lean/GoSandbox/Props), models tied to /repo by a go/ast translator (extract -> Gen/*.lean) and a differential harness (harness/) against a compiled core-only model driver"}],
    "checks": checks,
    "notes": "bin/check <ID> --tier quick|thorough; VERIF_SEED selects the random stream. KNOWN_FINDINGS.txt lists open/fixed findings.",
    "not_applicable": na,
}
json.dump(m, open(os.path.join(VERIF, "MANIFEST.json"), "w"), indent=1)
print("manifest: %d checks, %d not claimed" % (len(checks), len(na)))
