#!/usr/bin/env python3
"""Assemble /verif/DESIGN.md: docs/design_head.md + generated per-property section (5) + docs/design_tail.md with
the findings tables, the seeded-change section (8) and the hook list filled in."""
import json, os, re, glob, subprocess, sys
VERIF = os.path.dirname(os.path.dirname(os.path.abspath(__file__)))
sys.path.insert(0, os.path.join(VERIF, "bin"))
import props

P = {}
for l in open(os.path.join(VERIF, "properties.jsonl")):
    d = json.loads(l)
    P[d["id"]] = d

def theorems(pid):
    f = os.path.join(VERIF, "lean/GoSandbox/Props/%s.lean" % pid)
    s = open(f).read()
    out = []
    for m in re.finditer(r'(/--(.*?)-/\s*)?^(?:private )?theorem (\S+)', s, re.M | re.S):
        pass
    # docstring directly before a theorem
    for m in re.finditer(r'(?:/--((?:(?!-/).)*)-/\s*)?^theorem (\S+)', s, re.M | re.S):
        doc = (m.group(1) or "").strip().replace("\n", " ")
        doc = re.sub(r'\s+', ' ', doc)
        out.append((m.group(2), doc))
    return out

def seeded(pid):
    rows = []
    for d in sorted(glob.glob(os.path.join(VERIF, "seeded", pid + "-*"))):
        if not os.path.isdir(d):
            continue
        m = json.load(open(os.path.join(d, "meta.json")))
        rd = (m.get("needs_to_manifest") or "").strip().split("\n")
        title = next((l for l in rd if l.strip() and not l.startswith("```")), "").lstrip("# ").strip()
        files = re.findall(r'^\+\+\+ b/(\S+)', open(os.path.join(d, "patch.diff")).read(), re.M)
        rows.append((os.path.basename(d), title, files, m))
    return rows

STRENGTH = {
 "C07-B": "missed at first; the container part of the harness now injects a failing sync-after-exec callback and checks that the program is dead when the call returns",
 "C08-A": "missed at first; the harness now asks for a limit the kernel refuses (raising a hard limit without privilege) and requires the launch to fail",
 "C09-A": "missed at first; container runs now include programs whose child outlives or pre-deceases them with a different status",
 "C12-B": "missed at first; the residue check now covers the failed sync-after-exec path",
 "C14-B": "first detected as a harness time-out (the container blocked on a planted FIFO); Open now has a 5 s deadline and the planted-object oracle reports it directly",
 "C20-A": "missed at first (histories had no Nest/OpenExisting); both were added",
 "C05-A": "first detection had no concrete input (the run stopped at the model split); the driver now keeps answering with the specification's namespace and the real run exposes the writable file",
 "C05-B": "same as C05-A: now found as a masked directory that lists its content",
 "C17-A": "first detection was a harness time-out; a per-round watchdog now reports the runs that never return",
 "C17-B": "first caught only by the regenerated source fact; environment life cycles inside the concurrent rounds now expose the foreign socket in other programs",
 # second round (changes C and D, written after the checks existed, told to avoid the first round's ideas)
 "C07-C": "missed at first; every failing launch step is now also run with ptrace requested and no filter (the parent must still wait for the exec result)",
 "C07-D": "missed at first; the callback's pid is now identified through NSpid (container init after exec, the un-exec'd child before)",
 "C09-D": "missed at first; a run is now cancelled from inside the handler of a child's trapped call once the main process is a zombie, and the verdict must be its exit",
 "C12-D": "missed at first (every run had its own cancelled context); runs with context.Background() and one shared long-lived context were added",
 "C14-C": "missed at first (batches were sequential); eight concurrent callers on one environment with per-caller failure patterns were added",
 "C20-C": "missed at first (targets were single-threaded); half of the AddProc targets now have three threads and every thread is looked up",
 "C20-D": "missed at first (no nested groups); sub-groups under handles, the kernel's rmdir-fails-on-sub-groups rule in the model, and the oracle that a Destroy never removes another handle's group",
 "C05-D": "missed at first; new theorem C05_gen_container_failure_is_reported on the regenerated initFileSystem and a real container with an unappliable mask",
 "C17-D": "missed at first; every ptrace run now opens its own file 120 times and its handler counts scratch paths that are not its own",
 # third round (changes C and D for the remaining twelve properties, same rules)
 "C02-D": "missed at first; histories now change the working directory (chdir/fchdir into links, removed and renamed directories) before the relative call",
 "C03-C": "missed at first; the kill-race loop is now pinned to one CPU so that the tracee is killed between the trap and the tracer's answer in most iterations",
 "C04-C": "missed at first; pairs of host/domain names of different lengths are now used in every order, and the program reports the exact bytes",
 "C04-D": "missed at first; launches inside a user namespace now also ask for supplementary groups and the program reports them",
 "C06-D": "missed at first; the descriptor table is now also observed in container runs with 0..4 listed descriptors",
 "C10-D": "missed at first; after loss of the transport (Destroy, init killed) 3-8 further calls of random kinds are made and each must fail within 10 s, then Destroy must return",
 "C11-C": "missed at first; cancelled container runs of programs whose descendants left the process group (setsid, setpgid, daemon) are followed by a run that must be served within the bound",
 "C13-C": "missed at first; a tree with 5000 entries directly under the mount root (and 3000 in a sub-directory) was added",
 "C15-C": "missed at first; programs whose main process ends while forked children still run, with a 15 s watchdog on Run",
 "C16-C": "missed at first; new theorems on the regenerated fork code (C16_gen_orphan_gives_up, C16_gen_pdeathsig_after_credentials); detected as a broken obligation, the window itself (tracer killed between clone and the first stop) is not reachable by a search from outside",
 "C16-D": "missed at first; same theorems as C16-C",
 "C01-C": "first detection had no concrete input (a regenerated fact no longer matched); every filter is now compared with its validated copy after the next Build",
 "C01-D": "first detection had no concrete input; cleanTrace is now run on random overlapping lists against its specification and execve must stay traced in every shipped profile",
 "C10-C": "first detection had no concrete input (only trace-inclusion mismatches); the result class of every Execve is now compared with the class its own parameters determine",
 "C13-D": "first detection had no concrete input; DupToMemfd is now fed by readers that return data together with io.EOF, one byte at a time, in 7-byte chunks, and with (0,nil) reads",
 "C19-C": "first detection had no concrete input; receives are now also made with a full descriptor table (0, 1, n-1, n free slots)",
 # fourth round (changes E and F for all twenty properties, same rules, told to avoid rounds 1-3)
 "C01-F": "missed at first (the empty policy was drawn with probability under one per cent); the policy that lists nothing is now built for every default action, with nil and with empty lists",
 "C02-F": "missed at first; in traced runs the path names now lie across a page boundary of the tracee's memory at a random byte in a third of the calls (new probe argument kind)",
 "C03-E": "missed at first; multi-threaded programs in which one thread makes a filter-killed call while another lives on or ends the process with exit_group(0) were added",
 "C03-F": "first detection had no concrete input; bans are now run under five configured BanRet values and the program reports the error it saw",
 "C04-F": "missed at first; sequences of launches in one container environment, each with its own filter/limit options, the program reporting its seccomp mode and limits",
 "C05-F": "missed at first (an empty table was never drawn); the empty table and a table whose only entry is filtered out are now drawn in one case of ten; the script no longer changes the mode of / and the harness removes what an escaped probe plants on the host",
 "C06-F": "missed at first; the launcher now sometimes holds an inheritable descriptor (its own stdio, or a fresh one) at the number of a slot marked 'close'",
 "C07-E": "missed at first; failing launches are now also made with descriptor tables that put the error channel 1..3 numbers above the scratch start of the shuffle, with more relocations than that",
 "C07-F": "missed at first; failing launches are now also made while the caller has another, already ended and uncollected child, whose status must stay collectible",
 "C08-F": "missed at first; the measured-bound cases now also end by a fault, an abort, a termination signal or a non-zero exit after the bound was exceeded",
 "C09-E": "missed at first; container programs (and their children) now send every signal 1..64 to pid 1 of their namespace before exiting with their own code",
 "C10-F": "missed at first; a refused after-exec synchronisation is now also tried on a program that would run for a minute, and every Execve of a history has a 15 s watchdog",
 "C11-F": "missed at first as a harness time-out without input; every run of the cancellation sweep now has its own watchdog, the container environment of the sweep being the unrelated child that the changed clean-up waits for",
 "C13-F": "first detection had no concrete input; DupToMemfd is now fed by files positioned at 0, 1, 4, size/2, size-1 and size, and by procfs/sysfs files whose st_size says nothing about their content",
 "C14-E": "missed at first (the effect of a length-0 batch was never looked at); empty Open and Symlink batches are now followed by a fixed sequence of checked operations",
 "C14-F": "first detection had no concrete input; a 250-item batch is now repeated 400 times on one environment and every descriptor is checked by inode",
 "C15-E": "missed at first; programs using vfork (parent suspended until the child execs or exits) were added to the watched runs",
 "C15-F": "missed at first; programs that name paths leading into symlink cycles (self, pair, via ..) were added to the watched runs",
 "C16-E": "missed at first; the controller is now also killed while it is inside the synchronisation callback of a ptrace and of a namespace launch (program descriptors 0,1,2 so that the shuffle overwrites nothing by accident)",
 "C16-F": "missed at first; the tracer is now also used directly on a launcher without a seccomp filter, killed once the program's descendants exist",
 "C17-E": "missed at first; a call is now queued on a shared environment while the previous run, which leaves a 1 GiB descendant, is being torn down",
 "C17-F": "first detection had no concrete input for the changed fact; the concurrent rounds already exposed it (environments killed with the thread that forked them) and report it directly",
 "C19-E": "first detection was counted as a broken correspondence only; a delivered message that differs from the one sent (length, descriptor count, sender-specified credentials) is now a violation with that message as input",
 "C19-F": "first detection had no concrete input; both ends now send and receive at the same time on one Socket value, descriptors checked by identity and position",
 "C20-F": "missed at first; a ledger of every limit written (memory, pids, a cpuset narrower than the parent's) is re-checked after every later operation, e.g. re-opening the group",
 # fifth round (one change G per property, same rules, told to avoid rounds 1-4)
 "C02-G": "missed at first; a secondary thread with its own working directory and descriptor table (unshare(CLONE_FS|CLONE_FILES)) now issues cwd- and descriptor-relative calls while the main thread holds another directory under the same descriptor number",
 "C03-G": "missed at first (programs were traced one at a time); three of four programs are now run while two other traced programs run in the same process, each handler taking a millisecond to decide",
 "C05-G": "missed at first; mount points inside a writable bind now hold what a previous program may have planted (file, directory, FIFO, absolute/relative/dangling link, link above the mount point) before the sandbox is built; this also exposed two genuine defects of the unchanged tree (open findings mount-point-link-raw / -container)",
 "C09-G": "missed at first; a container run that leaves children holding memory is now followed at once by the next program, without the host reading the first program's output (which used to wait for the children)",
 "C11-G": "missed at first; the cancellation sweep now includes programs that hold 16, 150 or 246 MiB under a 256 MiB limit when they are cancelled",
 "C12-G": "missed at first; builds that are refused at each stage (missing bind source, impossible work directory, failing init command, init that cannot be started) are now followed by the host's child/descriptor baseline",
 "C13-G": "missed at first; the program that plants the tree now ends in every way a run can end (on its own with either synchronisation, refused by the synchronisation callback after exec while it writes, cancelled) before Reset",
 "C14-G": "first detection had no concrete input (the regenerated handleOpen no longer matched); batches of 10-120 items with names of 30-240 bytes and 10-100 % failing items are now sent through Open and Symlink",
 "C15-G": "missed at first; programs now make FIFOs, sockets, directories and links to them and hand them to execve/execveat/open/stat/readlink/access",
 "C16-G": "first detection had no concrete input (the select without the done alternative); containers that run programs under their own user id and have served file operations before are now killed at the same points",
 "C17-G": "missed at first; the concurrent rounds now contain launches that their caller refuses at the synchronisation point, eight in a row, among the healthy runs",
 "C18-G": "missed by inspection: the check was extended on reading the change's description, before its first run (its oracle had taken the resolved name from the library itself): histories now re-point links between checks and the resolution is computed independently",
 "C19-G": "missed by inspection: the check was extended on reading the change's description, before its first run (it had closed every descriptor right after each receive): messages are now kept and looked at after later receives",
 "C20-G": "missed at first; groups that already exist in some of the v1 hierarchies only are now opened by New(name), handle.New and handle.Nest and destroyed; what was there before must survive with its limits",
 # sixth round (one change H per property, same rules, told to avoid rounds 1-5)
 "C01-H": "first detection had no concrete input (the regenerated Build no longer matched); for a third of the small policies the policies that list the same names with the allow/trace boundary elsewhere, in another order, with another default, and the same policy again are now built in the same process",
 "C02-H": "missed at first; chains of 36..42 links (in the last component, or half of them in directory components) are now resolved against the kernel, and C02_gen_link_budget ties the comparison and the constant",
 "C03-H": "missed at first; forked processes and the main process may now replace their image by execve in the middle of the program (new probe command `exec`), a third of the programs do so often, and the main process collects some forked processes only at the end (so that no other stop of the survivor comes between the exec and its next call)",
 "C05-H": "missed at first; several configurations (from NewDefaultBuilder and NewBuilder) are now prepared before any of them is used and each sandbox must get the table its own builder calls declared",
 "C06-H": "missed at first; launches are now also made while four goroutines of the launcher loop over unixsocket.NewSocketPair and memfd.DupToMemfd",
 "C08-H": "missed at first; the file-size and CPU limits are now also exhausted by a forked child (the parent waits and exits 128+signal) and by a second thread",
 "C10-H": "first detection had no concrete input (the regenerated Ping no longer matched C10_gen_simple_calls); the container init is now stopped for longer than a Ping waits and continued, and the calls after it must all fail or all get their own answer",
 "C11-H": "missed at first; a program that spends its life in trapped system calls is now cancelled at many instants under the tracing runner (the cancellation meets it between a stop and the tracer's look at its registers)",
 "C12-H": "first detection had no concrete input (the order of kill and reply in the regenerated paths); the program now leaves a process behind that answers every byte on the run's standard input, and the host writes one the moment Execve returns",
 "C13-H": "missed at first; a hostile tenant now tries to make every directory it can see writable (the root, /proc, the masked directories, a read-only bind) and plants entries there; after Reset the next tenant must find none",
 "C14-H": "first detection had no concrete input (regenerated handleOpen no longer matched); a regular file and a directory are now exchanged from outside, through a shared writable bind, under batches that also ask for an untouched file",
 "C15-H": "missed at first; openat2 is now called with every size of the open_how block a program can claim (0..23, 25, huge) and with short readable blocks",
 "C16-H": "missed by inspection: extended before its first run on reading the description (the window itself, a controller killed before its init armed the parent-death signal, cannot be reached from outside): the end-of-file rule of the model is now tried on the real socket pair and the socket type is a regenerated fact (C16_gen_socket_is_seqpacket)",
 "C17-H": "missed at first, and detected without a concrete input since: C17_gen_etxtbsy_retried (the regenerated launch code retries the exec after ETXTBSY for every option set of a family, with a filter too). A run-level case (a freshly written program started next to launches that are slow at their synchronisation point) was tried and withdrawn: the unchanged code's tolerance is itself 50 attempts a millisecond apart, so the case raised alarms on the unchanged tree",
 "C19-H": "first detection had no concrete input (regenerated RecvMsg no longer matched); programs are now launched by another goroutine while messages of 200 descriptors are being received, and none may inherit the file",
 "C20-H": "missed at first; after a limit was written through a handle somebody else changes the file and the handle writes its limit again: the file must hold it",
}

out = []
out.append("## 5. Per property: what is proved, what ties it to the code, what is assumed\n")
out.append("For each property: the level claimed, the theorems of `lean/GoSandbox/Props/<ID>.lean` (all kernel-checked on every run),\n"
           "the property-specific trusted base, the assumptions, what is not covered. The correspondence rule of each harness part is\n"
           "in `evidence/<ID>.json` (`rule`), with the input distribution of the last run.\n")
for pid in sorted(props.PROPS):
    sp = props.PROPS[pid]
    out.append("### %s — %s\n" % (pid, P[pid]["title"]))
    out.append("*Level:* %s. %s\n" % (sp.get("level", "proof"), sp.get("level_note", "")))
    out.append("*Technique:* %s.\n" % sp.get("technique", ""))
    out.append("*What is shown:* %s.\n" % sp.get("level_text", ""))
    ths = theorems(pid)
    out.append("*Theorems (%d):*\n" % len(ths))
    for n, doc in ths:
        out.append("- `%s`%s" % (n, (" — " + doc[:400]) if doc else ""))
    out.append("")
    tb = [t for t in sp["trusted_base"] if t not in props.TB_COMMON]
    out.append("*Trusted base beyond section 3:*\n")
    for t in tb:
        out.append("- " + t)
    out.append("")
    if sp.get("assumptions"):
        out.append("*Assumptions:*\n")
        for a in sp["assumptions"]:
            out.append("- " + a)
        out.append("")
    out.append("*Not covered:* %s\n" % sp.get("not_covered", "—"))
section5 = "\n".join(out)

# section 8
s8 = ["## 8. Seeded changes: which check catches which change\n",
      "Each change was written by a fresh sub-agent that was given only the property's text and a scratch worktree,\n"
      "compiles, passes the repository's suite, and comes with a demonstration that fails with it and passes without it\n"
      "(re-run here before acceptance: `meta.json.confirmed`). `bin/seedtest` applies the patch to /repo, runs the quick check,\n"
      "undoes it. `seeded/SWEEP.txt` is the last re-run of all of them against the current tree (`bin/seedsweep`); patches whose\n"
      "target code was later repaired or rewritten no longer apply and are kept as records.\n",
      "| change | what it does | files | caught by | note |", "|---|---|---|---|---|"]
for pid in sorted(props.PROPS):
    for name, title, files, m in seeded(pid):
        how = "concrete failing input (%d VIOLATION lines)" % m.get("violation_lines", 0)
        if m.get("no_failing_input_found_lines") and m.get("no_failing_input_found_lines") >= m.get("violation_lines", 0):
            how = "broken obligation (no-failing-input-found)"
        elif m.get("no_failing_input_found_lines"):
            how += ", plus broken obligation"
        if not m.get("detected"):
            how = "NOT DETECTED"
        s8.append("| %s | %s | %s | %s | %s |" % (name, title.replace("|", "/")[:150], ", ".join(files), how, STRENGTH.get(name, "detected by the check as first built")))
s8.append("")
missed = [k for k, v in STRENGTH.items() if v.startswith("missed")]
s8.append("Missed by the first version of the check and caught after strengthening: %s. For %s the first detection was a broken obligation or a "
          "time-out without a concrete input and the search was improved until it produced one. In every strengthening the check was made to explore "
          "more (a new operation, a new injected failure, a deadline), never told about the particular change.\n" % (
              ", ".join(sorted(missed)), ", ".join(sorted(k for k in STRENGTH if k not in missed))))
# first-run statistics per letter pair (what the check that existed when the change was written did)
stats = {}
for d in sorted(glob.glob(os.path.join(VERIF, "seeded", "C*-*"))):
    if not os.path.isdir(d):
        continue
    letter = os.path.basename(d).split("-")[1][0]
    grp = {"A": "A/B", "B": "A/B", "C": "C/D", "D": "C/D", "E": "E/F", "F": "E/F", "G": "G", "H": "H"}.get(letter, letter)
    f = os.path.join(d, "meta_first_run.json")
    if not os.path.exists(f):
        f = os.path.join(d, "meta.json")
    try:
        m = json.load(open(f))
    except Exception:
        continue
    st = stats.setdefault(grp, [0, 0, 0, 0])
    st[0] += 1
    if not m.get("detected"):
        st[1] += 1
    elif m.get("no_failing_input_found_lines") and m.get("no_failing_input_found_lines") >= m.get("violation_lines", 0):
        st[2] += 1
    else:
        st[3] += 1
s8.append("First runs, i.e. what the check did that existed when the change was written (`meta_first_run.json` where a check was "
          "strengthened afterwards): " + "; ".join("changes %s: %d written, %d missed, %d detected without a failing input, %d detected with one" % (g, v[0], v[1], v[2], v[3]) for g, v in sorted(stats.items())) +
          ". The A/B figures are low because those checks were still being built when A/B were written (most A/B misses were found and "
          "closed before the first recorded run). The later rounds are the honest estimate of what an unseen change of this kind meets: "
          "about half were caught outright. What the misses have in common: the proofs and the regenerated-code ties cover the modelled core, "
          "and a change outside it (a corner of the input space the generator did not visit, a second process, a timing) is only seen if the "
          "differential run goes there.\n")
sweep = os.path.join(VERIF, "seeded", "SWEEP.txt")
if os.path.exists(sweep):
    s8.append("Last sweep against the current tree (`seeded/SWEEP.txt`):\n\n```\n" + open(sweep).read().strip() + "\n```\n")
rev = os.path.join(VERIF, "seeded", "REVERTS.txt")
if os.path.exists(rev):
    s8.append("Reverting each `fix:` commit on the current tree and running the property's quick check (`seeded/REVERTS.txt`):\n\n```\n" + open(rev).read().strip() + "\n```\n")

fixed, opens = [], []
for l in open(os.path.join(VERIF, "KNOWN_FINDINGS.txt")):
    l = l.strip()
    m = re.match(r'fixed: property=(\S+) (\S+) (.*)', l)
    if m:
        fixed.append(m.groups())
    m = re.match(r'open: property=(\S+) key=(\S+) (.*)', l)
    if m:
        opens.append(m.groups())
ft = ["| property | commit | what failed |", "|---|---|---|"] + ["| %s | %s | %s |" % (a, b, c.replace("|", "/")) for a, b, c in fixed]
ot = ["| property | key | what fails |", "|---|---|---|"] + ["| %s | %s | %s |" % (a, b, c.replace("|", "/")) for a, b, c in opens]
hooks = []
for h in open(os.path.join(VERIF, "HOOK_COMMITS.txt")).read().split():
    try:
        subj = subprocess.run(["git", "-C", "/repo", "log", "-1", "--format=%s", h], capture_output=True, text=True).stdout.strip()
    except Exception:
        subj = ""
    hooks.append("%s (%s)" % (h, subj.replace("verif hooks: ", "")))

head = open(os.path.join(VERIF, "docs/design_head.md")).read()
tail = open(os.path.join(VERIF, "docs/design_tail.md")).read()
nth = sum(len(theorems(p)) for p in props.PROPS)
head = head.replace("24 genuine defects of go-sandbox were found; 20 are repaired by `fix:` commits in /repo, 4 are recorded",
                    "%d genuine defects of go-sandbox were found; %d are repaired by `fix:` commits in /repo, %d are recorded" % (len(fixed) + len(opens), len(fixed), len(opens)))
nseeded = len([d for d in glob.glob(os.path.join(VERIF, "seeded", "C*-*")) if os.path.isdir(d)])
head = head.replace("* 40 seeded property-breaking changes (two per property, written by sub-agents that saw only the property\n  text)", "* %d seeded property-breaking changes (two per property in each of four rounds and one per property in a fifth and a sixth, the later ones\n  written after the checks existed and told to avoid the earlier ideas; all written by sub-agents that saw only the property text)" % nseeded)
head = head.replace("all 40 are detected by the check of their property, 9 of them only after the\n  check was strengthened (section 8 says which and how).",
                    "all %d are detected by the check of their property; %d were missed by the version of the check that existed when they\n  were written and %d more were first detected without a concrete failing input — section 8 says which, and how the\n  checks were strengthened (never by telling a check about a particular change)." % (nseeded, len(missed), len(STRENGTH) - len(missed)))
head = head.replace("* Levels are stated per property", "* %d kernel-checked theorems in the 20 property files.\n* Levels are stated per property" % nth)
tail = tail.replace("{FIXED_TABLE}", "\n".join(ft)).replace("{OPEN_TABLE}", "\n".join(ot)).replace("{SEEDED_SECTION}", "\n".join(s8)).replace("{HOOKS}", "; ".join(hooks))
open(os.path.join(VERIF, "DESIGN.md"), "w").write(head + "\n" + section5 + "\n" + tail)
print("DESIGN.md: %d lines, %d theorems, %d fixed, %d open" % (len((head + section5 + tail).split("\n")), nth, len(fixed), len(opens)))
