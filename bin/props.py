"""Per-property configuration of bin/check (what is built, audited, run and trusted)."""

TB_COMMON = [
    "Lean 4.33.0 kernel (thorough tier re-checks the property modules with leanchecker)",
    "axioms allowed in property theorems: propext, Classical.choice, Quot.sound (audited with #print axioms on every run); no sorry/admit/native_decide/bv_decide/own axioms (grep on every run)",
    "the Lean compiler for the model driver used in the correspondence only (never stands in for a theorem)",
    "the translator /verif/extract (go/ast -> Gen/*.lean) and the correspondence harness /verif/harness",
]

PROPS = {}


def prop(pid, **kw):
    kw.setdefault("modules", ["GoSandbox.Props." + pid])
    kw.setdefault("theorem_files", ["GoSandbox/Props/%s.lean" % pid])
    kw.setdefault("harness", pid)
    kw.setdefault("level", "proof")
    kw["trusted_base"] = TB_COMMON + kw.get("trusted_base", [])
    kw.setdefault("assumptions", [])
    PROPS[pid] = kw


prop("C18",
     trusted_base=["hand-written model Model/FileSet.lean of IsInSetSmart/dirname/FileSets/Handler/SyscallCounter, tied to the code by kernel evaluation of the regenerated IsInSetSmart/dirname/Is*File (Gen.C18, theorems C18_tie_inset / C18_tie_classes) and by the exhaustive bounded + random differential (real functions called in-process)",
                   "filepath.EvalSymlinks (realPath) is a parameter of the model; its values are taken from the library's own realPath"],
     assumptions=["query paths are absolute or empty (what the ptrace handler produces); the excluded region is exhibited by C18_relative_witness",
                  "Go int counters do not wrap (2^63 calls)"],
     not_covered="GetConf's concrete tables are exercised by C01/C02 runs, not here",
     level_text="Kernel-checked theorems for all sets, all query strings and all call histories (soundness of the set lookup, class cascade, refusal kind, counter budget, once-refused-always-refused), about a hand model tied to the real functions by an exhaustive bounded + random differential",
     level_note="Trusted: Lean kernel; model<->code correspondence is sampled/exhaustive-bounded, not proved; realPath is a parameter; query paths absolute-or-empty (proved necessary by a witness)",
     technique="Lean 4 proof by induction (dirname walk invariant; induction over call histories) + differential correspondence")

prop("C09",
     trusted_base=["Go-lite interpreter (lean/GoSandbox/GoLite/Exec.lean) as the semantics of the translated Go subset, cross-checked against the compiled functions on every 16-bit wait status (in-process differential through the verif hooks)",
                   "Kernel/WaitStatus.lean: the wait-status encoding and Go's WaitStatus accessors (validated by the real runs)",
                   "the README status table transcribed in Spec/StatusTable.lean"],
     assumptions=["usage under the runner's bounds (the over-limit arms are C08)",
                  "a child of the program receiving SIGXCPU/SIGXFSZ ends a ptrace run as TLE/OLE (C08 reading), not treated as a C09 violation",
                  "namespace runner: the program is pid 1 of its pid namespace; the kernel only lets exits, host SIGKILL and forced (fault) signals end it, so real runs cover those; the theorem covers every signal number"],
     not_covered="kernel wait-status encoding and ptrace stop semantics are modelled (Kernel/WaitStatus.lean) and sampled by real runs, not proved",
     level_text="The three classifiers are regenerated from /repo as Go-lite terms on every run and evaluated in the Lean kernel (decide +kernel) on the complete finite domain: every exit code 0..255 and every signal 1..64 with and without core dump, main and child pids; plus delivery of every fatal signal at its ptrace stop and non-empty explanations for Runner Error. Real runs of probe programs under all three runners cover the whole producible domain; container programs that signal pid 1 of their namespace with every signal keep their own verdict.",
     level_note="Trusted: Lean kernel; the extract translator + Go-lite interpreter (differentially validated against the compiled code on all 65536 wait-status patterns); wait-status encoding model; README table transcription",
     technique="Lean 4 kernel evaluation (decide +kernel) of regenerated Go-lite code over the whole finite domain + differential + exhaustive real runs",
     timeout={"quick": 1500, "thorough": 3600})

prop("C15",
     trusted_base=["hand model Model/GetString.lean of clen/hasNull/vmReadStr/GetString over an abstract page-granular address space, tied to the real functions by the in-process differential on real memory with PROT_NONE holes",
                   "kernel assumptions: mapping is page granular; process_vm_readv of one iovec inside one page is all-or-EFAULT; PTRACE_PEEKDATA reads aligned words",
                   "Go-lite interpretation of the regenerated clen/hasNull/handleTrap/ptraceHandle.handle (Gen.C15, Gen.C09)"],
     assumptions=["event order of ptrace stops is a model parameter (partial for the race part): the theorem covers every single event with every ptrace request answering ESRCH; the real race is sampled",
                  "exactness is stated for strings shorter than PATH_MAX: a C string lying in readable memory is returned exactly (C15_getstring_exact), one that runs into an unreadable page is returned up to exactly the first unreadable byte (C15_getstring_fault_prefix); word granularity of PTRACE_PEEKDATA is abstracted to page granularity (the real reader's behaviour at a fault is compared by the differential)"],
     not_covered="Go runtime faults outside the modelled functions are covered only by the hostile real runs; tracerHandler.Handle's decode path is C02's",
     level_text="Theorems for every address space and every pointer: GetString never panics, returns at most PATH_MAX NUL-free bytes that are a prefix of the tracee's bytes at that address, returns a C string lying in readable memory exactly (all of it, wherever the page boundaries fall) and a string running into an unreadable page up to exactly the first unreadable byte; kernel-evaluated theorems on the regenerated tracer code that a tracee vanishing under any ptrace request (ESRCH) yields no verdict (never Runner Error / Disallowed Syscall) while a live set-regs failure still fails closed; differential on real memory and hostile real tracees (incl. programs whose main process ends while other processes of the program still run: Run must return within the watchdog; vfork parents; names leading into symlink cycles)",
     level_note="Trusted: Lean kernel; hand model of the string reader (differentially tied); kernel memory/ptrace assumptions; translator + Go-lite interpreter. Partial for real ptrace races (sampled)",
     technique="Lean 4 proofs (induction over the chunked read loop) + decide +kernel on regenerated Go-lite code + differential + hostile real runs")

prop("C08",
     trusted_base=["hand models Model/RLimit.lean (prepare, applyEntries, checkUsage, collect) tied to the regenerated Go-lite code by kernel-evaluated grids (C08_tie_*) and to the compiled code by the random differential",
                   "kernel: prlimit64 sets exactly (cur,max); pipes deliver bytes in order; the collector goroutine's statement list is tied syntactically (C08_tie_buffer)"],
     assumptions=["kernel accounting accuracy (utime, maxrss) and goroutine scheduling of the drain are observed by runs, not proved",
                  "container.Execve returns measurements but has no time/memory bound of its own: usage bounds are checked for the ptrace and namespace runners",
                  "that the child applies the prepared list in order with prlimit64 is shown by the real `report rlimits` runs here and by the launch-sequence theorems of C04/C07"],
     not_covered="writer-faster-than-reader timing beyond the sampled volumes",
     level_text="Theorems for every limit record (exactly one entry per configured resource with cur=max, CPU hard=max(hard,soft), resources pairwise distinct so in-order application gives every configured pair and leaves the rest inherited), every usage/bound tuple (strict comparisons, memory overrides time, measured values returned), every chunking of the output (at most cap bytes retained, a prefix, everything consumed); ties to the regenerated code evaluated in the kernel; differential + real runs in all three runners (measured bounds also for programs that afterwards fault, abort, are terminated or exit non-zero)",
     level_note="Trusted: Lean kernel; hand models tied by sampled kernel evaluation of regenerated code and random differential; kernel rlimit/pipe semantics assumed and sampled",
     technique="Lean 4 proofs over all records/usages/streams + decide +kernel ties to regenerated Go-lite + differential + real runs")

FORK_TB = ["extract translates pkg/forkexec forkAndExecInChild/prepareFds/childExitError* to Go-lite on every run; the Go-lite interpreter + the abstract kernel of Model/ForkChildRun.lean (descriptor table, sync socket, getpid, exec, exit; every raw syscall recorded; fault oracle by position) are trusted as the semantics",
           "constants (syscall numbers, flags, Loc*, securebits) come from the compiled packages through the verif hook pkg/forkexec/export_verif.go and the generated harness/consts_gen.go"]

prop("C04",
     trusted_base=FORK_TB + ["hand skeleton Model/ForkSkeleton.lean tied to the regenerated function by C04_tie_sample (kernel) and by the per-run comparison over sampled/enumerated option vectors in the driver"],
     assumptions=["kernel effect of each step (capset(0) empties the sets, SECBIT_NOROOT stops exec from re-granting, seccomp needs nnp or CAP_SYS_ADMIN, …) is validated by the probe's self-report in real launches, not proved",
                  "capset is called with a single 12-byte CapUserData under a V3 header: the high word read by the kernel is whatever follows in memory (observed clean; noted as an observation)",
                  "option combinations the kernel refuses here (ptrace without a tracer, clone-into-cgroup without cgroup2 delegation) are covered by the model comparison only"],
     not_covered="LSMs, the capability bounding set",
     level_text="Theorems for every option set (symbolic in all 29 option atoms) on the launch skeleton: filter loaded iff given and at most once, no_new_privs whenever requested or a filter is given, capability drop + locked NOROOT whenever credential or drop-caps is requested in every sync/ptrace/late-unshare combination and never otherwise, ids/session/cwd/host/domain/pivot iff requested, exec last, vfork sharing only without parent interaction; skeleton tied to the regenerated forkAndExecInChild by kernel-evaluated sample + exhaustive/sampled driver comparison each run; real launches with probe self-report (host/domain names of different lengths in every order, supplementary groups in user namespaces; sequences of launches with different filter/limit options in one container environment)",
     level_note="Trusted: Lean kernel; translator + Go-lite + abstract kernel; the skeleton<->regenerated-code tie is a comparison over option vectors (sampled in quick, 2^20 in thorough), not a proof; kernel security semantics assumed and sampled",
     technique="Lean 4 proofs over all option sets on a hand skeleton + tie to regenerated Go-lite code (decide +kernel sample, exhaustive driver sweep) + real launches")

prop("C06",
     trusted_base=FORK_TB + ["hand model Model/FdShuffle.lean of the descriptor shuffle (prepareFds' scratch start, moves of the sync pipe and the exec descriptor, pass 1, pass 2) on an abstract descriptor table; tied to the regenerated forkAndExecInChild by C06_hand_model_tie (kernel-evaluated on 20 layouts) and by the driver on every exhaustively enumerated layout"],
     assumptions=["launcher's side of the contract: every descriptor of the launching process at a number at or above the list length is close-on-exec (Go opens everything so; the container init marks its stdio); numbers below the list length may be inheritable (they are overwritten or closed); pipe end and exec descriptor distinct",
                  "kernel dup3/fcntl/close semantics as modelled"],
     not_covered="the unbounded theorem is about the hand model; its agreement with the regenerated code is kernel-evaluated on the layout family and compared exhaustively for all lists of length <= 3 (quick) / <= 4 (thorough) with all placements on every run, not proved for every length; descriptors created concurrently by other goroutines are C17",
     level_text="Theorem C06_shuffle_exact for descriptor lists of ANY length and any launcher table (close-on-exec at every number at or above the list length; below it the launcher may hold inheritable descriptors, e.g. its own stdio): after the shuffle and exec, descriptor k is the file listed at position k (closed for a marker), nothing else is open, the pipe and the exec descriptor still refer to their files at numbers above the list (helper lemmas: invariants of pass 1 and pass 2 by induction over the list, case analysis of the two moves). Tie: the regenerated forkAndExecInChild run by Go-lite on an abstract descriptor table agrees with the hand model and with the property oracle on a family of 20 adversarial layouts plus 6 layouts with inheritable launcher descriptors at marked and listed slots (kernel-evaluated), on every exhaustively enumerated small layout (driver, every run), and real launches with engineered layouts where the probe reports fstat identity of every descriptor and the Runner is deep-compared and restarted; container runs with 0..4 listed descriptors report the same table; launchers that hold an inheritable descriptor at the number of a slot marked 'close'",
     level_note="Trusted: Lean kernel; hand model tied to the regenerated code by kernel evaluation and exhaustive small-scope comparison; abstract descriptor table (kernel dup3/fcntl/close) assumed",
     technique="Lean 4 proof by induction over the descriptor list (pass invariants) + decide +kernel on regenerated Go-lite code + exhaustive bounded enumeration + real launches")

prop("C07",
     trusted_base=FORK_TB + ["hand model Model/SyncParent.lean of syncWithChild/handlePipeError/handleChildFailed (the Go function uses goto), tied by the real fault-injection differential"],
     assumptions=["sethostname/setdomainname/unshare(CLONE_NEWCGROUP) failures are deliberately ignored by the launcher (documented 'not critical'); listed explicitly in Model/ForkChecked.ignorable",
                  "ptrace+seccomp configuration: Start returns at the stop, later failures surface as 'child process exit before execve' (step not named): recorded as an observation of the early-return design, see DESIGN.md"],
     not_covered="faults the kernel cannot be made to produce on demand are covered by the model-level injection only",
     level_text="Whole-AST theorem that every raw syscall of the regenerated child is followed by its error check (or is a listed ignorable step) and that the exit helpers write the error then exit; kernel-evaluated fault injection at every step of a rich option set; per-run fault injection at every step of thousands of option sets in the driver; theorems for all inputs on the parent model (kill+wait4 before every failing return, both socket ends closed, ack only after a successful callback, returned error is the child's report); both wait4 calls of the regenerated handleChildFailed name the failed child's pid; real failures induced at each reachable step, also with the error channel 1..3 numbers above the scratch start of the descriptor shuffle and with an uncollected other child of the caller",
     level_note="Trusted: Lean kernel; translator + Go-lite + abstract kernel; parent side is a hand model tied by real fault injection",
     technique="Lean 4: syntactic theorem on regenerated AST + decide +kernel fault injection + proofs on parent model; fault-injection differential")

prop("C01",
     trusted_base=["Kernel/BPF.lean: the classic-BPF machine restricted to seccomp (LD W ABS, JA/JEQ/JGT/JGE, RET) over seccomp_data; cross-checked against golang.org/x/net/bpf's VM on the real programs",
                   "third-party generator github.com/elastic/go-seccomp-bpf and x/net/bpf.Assemble are NOT trusted: every filter the real Builder.Build() returns is validated by the verified validator (run compiled in the driver; the soundness theorem is kernel-checked)",
                   "Spec/SeccompPolicy.lean: the policy semantics transcribed from the property statement; kernel action words from the compiled constants"],
     assumptions=["the kernel's cBPF interpreter and seccomp_data layout are as modelled (offset 0 = nr, 4 = arch)",
                  "native ABI = amd64 (arm/arm64 tables are not exercised here)",
                  "C01_fail_closed / build_groups / export_lossless / cleanTrace are kernel evaluations of the regenerated glue code on samples (the validator covers the end-to-end effect for every generated policy)"],
     not_covered="a generator-correctness theorem for all policies is not proved; instead each produced program is validated (translation validation with a proved validator)",
     level_text="Kernel-checked soundness theorem of a translation validator: if validate(prog, policy) = true then for every seccomp_data (all 2^32 numbers x all arch tags x any argument words) the cBPF program returns exactly the policy's action (cell argument over the compared constants, representatives proved sufficient); every filter produced by the real Builder.Build for generated and shipped policies (incl. >255-name groups with long jumps, every default action) is validated on each run; glue (ToSeccompAction fail-closed, group order, sockFilter, cleanTrace) evaluated on regenerated code; cleanTrace against its specification on random overlapping lists; every filter compared with its validated copy after the next Build; the policy that lists nothing, for every default action",
     level_note="Trusted: Lean kernel for the validator theorem; the Lean compiler for running the validator on concrete programs; cBPF machine model; third-party generator untrusted (validated)",
     technique="Lean 4 proved translation validator (cell/representative argument) applied to every real filter + decide +kernel on regenerated glue + VM cross-check",
     timeout={"quick": 1500, "thorough": 7200})

prop("C10",
     trusted_base=["hand model Model/Rpc.lean of both protocol endpoints (host Execve/waitForDone/simple calls; container serve/handleExecve/handleExecveStarted) with FIFO channels; the capacity-1 Go channels are folded into the queues",
                   "hand model Model/Reaper.lean of the hand-off between the container's command server and its reaper goroutine (waitPid / waitPidResult / waitAll / waitAllDone with their capacities; wait4(pid) and wait4(-1) of init; any number of processes left behind, abstracted to 'some alive / some zombies'); tied to the regenerated handleExecveStarted paths, waitLoop paths and channel capacities (Gen.C12) by C10_gen_reaper_server / C10_gen_reaper_loop",
                   "the host endpoint of the model tied to the regenerated paths of Execve / execveSyncKill / waitForDone and of the six simple calls (Gen.C10: C10_gen_host_paths, C10_gen_simple_calls); the container endpoint tied to the regenerated paths of handleExecve and its synchronisation closure (C10_gen_container_paths)",
                   "tie: message-kind logs recorded at BOTH endpoints by the verif hooks (container/trace_verif.go) must be a run of the model for every operation of random histories (trace inclusion computed by the driver), plus API result class and a Ping after every step"],
     assumptions=["Go channel/goroutine scheduling beyond the modelled queues; gob framing is C19",
                  "requests fit the transport: a request whose gob encoding exceeds 32 KiB or an Open batch with more than 253 successes (SCM_MAX_FD) loses the environment; recorded as open known findings under C10/C14 (hypothesis 'request fits')"],
     not_covered="real-time promptness after transport loss is observed, not proved",
     level_text="Kernel-evaluated exhaustive exploration of the protocol LTS for every operation kind x outcome class x sync mode under all interleavings of exit/cancel/kill/reply, lifted by induction to every finite history: after every call host and container are in sync with empty channels, every call gets exactly its own answer, a Ping afterwards always succeeds, transport loss never blocks the host; witness theorem for the pinned tree's desynchronisation; the server/reaper hand-off inside the container explored under every interleaving (closed state set) and lifted to any number of Execves: every call is answered with the wait status of its own program, the hand-over never finds the reaper busy, every call ends with the hand-off balanced (witnesses: without the final wait for the reaping a program's status is stolen; with a kill branch that returns early the third Execve blocks for ever); trace inclusion of real two-endpoint logs into the model; the result class of every real Execve is the class its own parameters determine; after real loss of the transport (Destroy, init killed) every one of 3-8 further calls fails within 10 s; every Execve of a history answers within its watchdog (incl. a refused after-exec synchronisation of a long-running program)",
     level_note="Trusted: Lean kernel; the protocol model is hand written and tied to the code by trace inclusion on sampled histories (not a proof of refinement)",
     technique="Lean 4 exhaustive LTS exploration (decide +kernel, closed state sets) + induction over histories + regenerated path facts of both endpoints + trace-inclusion correspondence")

prop("C11",
     trusted_base=["hand LTS Model/Cancel.lean of the ptrace launch/cancel race (child: clone, setsid, self-stop, run, exit; canceller goroutine; trace loop) with kill(-pgid) answering ESRCH while no process group exists",
                   "Go-lite run of one iteration of the regenerated trace loop (Gen.C11.traceLoop, with Gen.C09.ptraceHandle inside) and of killAll in both runners",
                   "container: the protocol LTS of C10 (Model/Rpc.lean) with cancellation enabled at every host location"],
     assumptions=["real-time bounds (returns within 3 s) are observed by the harness, not proved; scheduler behaviour is a model parameter (all interleavings of the modelled steps)",
                  "SIGKILL of a process group terminates every member, stopped or not (kernel law)"],
     not_covered="namespace runner: Start returns only after the exec, so the group exists when the canceller can fire; covered by real runs only",
     level_text="Exhaustive kernel-evaluated exploration of the cancellation race: under every interleaving the run ends, after the canceller's kill the program is never running again, Normal is only reported for a program that ended on its own before that kill; witness for the pinned tree's lost cancellation; tie of the repeated group kill to the regenerated trace loop; every wait4 of the tracer's and the namespace runner's clean-up selects the run's own pid or process group (regenerated fact); container cancellation terminates in sync in every interleaving; real cancellation sweeps in all three runners incl. the pinned early-cancel race, cancelled container runs of programs whose descendants left the process group followed by a run that must be served, Destroy during in-flight calls; every run of the sweep has its own watchdog while other children of the host process are alive",
     level_note="PARTIAL: theorem about code composed with assumed kernel/scheduler model; real-time promptness observed only. Trusted: Lean kernel, hand LTS, translator + Go-lite",
     technique="Lean 4 exhaustive LTS exploration (decide +kernel) + regenerated-code tie + real cancellation sweeps")

prop("C16",
     trusted_base=["protocol LTS Model/Rpc.lean extended with 'host killed in any reachable state' (crashSteps): the container consumes what is in flight, a receive on the closed empty socket is EOF",
                   "extracted facts (Gen.C16): every select statement of the container package with its communication clauses, the SysProcAttr of the init, the ptrace options"],
     assumptions=["kernel laws: PDEATHSIG is delivered when the creating thread's process dies; EOF is delivered to a blocked or later recvmsg; exit of a pid-namespace init kills the namespace; tracer exit kills PTRACE_O_EXITKILL tracees; PR_SET_PDEATHSIG set by the traced child covers the time before its first stop"],
     not_covered="blocking channel operations of the container outside select statements (waitPid/waitAll hand-offs to the reaper) are bounded by the preceding kill(-1); covered by the crash-point runs",
     level_text="Kernel-evaluated theorem: from every reachable state of every operation, once the host is gone every continuation of the container ends in exit (by EOF alone); extracted-code theorems: every blocking select of the container has the done alternative, Pdeathsig=SIGKILL, PTRACE_O_EXITKILL; for every option set the launched child first closes its copy of the launcher's end of the synchronisation socket (so a dead launcher is an end-of-file for every later blocking read; theorem on the skeleton + kernel-evaluated on the regenerated child); for every option set with ptrace the child asks for PR_SET_PDEATHSIG (and checks its parent) before PTRACE_TRACEME (theorem on the fork skeleton, which C04 ties to the regenerated child); a real controller process is SIGKILLed at each announced protocol point, shortly after the synchronisation of a traced launch, at random instants, inside the synchronisation callback of a ptrace and of a namespace launch, and with the tracer used directly on a launcher without a seccomp filter; the pid namespace / process group must be empty within the bound (open known finding: a child created with clone(CLONE_UNTRACED))",
     level_note="PARTIAL: kernel delivery laws assumed. Trusted: Lean kernel, hand protocol model (tied by C10's trace inclusion), extractor",
     technique="Lean 4 exhaustive crash-point exploration (decide +kernel) + extracted-code facts + crash-point enumeration against real processes")

prop("C12",
     trusted_base=["Kernel/Proc.lean: a pid namespace's process forest for reaping (kill(-1) from init kills every other process; orphans are reparented to init; wait4(-1) loop until ECHILD)",
                   "extracted facts (Gen.C12): every path through handleExecveStarted (sequence of calls/sends), the defers of handleExecve, the close-after-send in the container's sendLoop, every path through Builder.Build (C12_gen_build_cleans_up), every path through one iteration of waitLoop and the capacities of the hand-off channels (used by C10's server/reaper model, whose balanced state includes 'init has no child')"],
     assumptions=["kernel reaping/reparenting rules as modelled; SIGKILL cannot be ignored",
                  "ptrace runner: the caller's policy refuses setsid/setpgid (stated in the property); the harness uses such a policy",
                  "descriptor, child and goroutine counts of the host and of the init are explored by the harness over histories, not proved"],
     not_covered="the Go runtime's goroutine lifetimes are only observed (NumGoroutine back at baseline)",
     level_text="Theorem for every process forest (any depth, fan-out, orphans): after init's kill(-1,SIGKILL) and the wait-until-ECHILD loop no child of init remains; extracted-code theorem that every path of a started Execve issues the kill and the wait-all request and that received/opened descriptors are closed; every failing path of Builder.Build destroys the container it started (one defect repaired: fix 1f2e1e4); soak over histories of hostile programs in all three runners with descriptor/child/goroutine baselines of the host and of the container init",
     level_note="PARTIAL: proof about the model's reaping handshake + exploration for the runtime counts. Trusted: Lean kernel, process-forest model, extractor",
     technique="Lean 4 proof by induction over process forests + extracted-code path facts + soak exploration",
     timeout={"quick": 1500, "thorough": 7200})

prop("C14",
     trusted_base=["hand model Model/Batch.lean: container side handleOpen/checkOpenTargetFile (tied to the regenerated functions by C14_tie_handleOpen, kernel-evaluated on batches containing every object kind) and host side Open's pairing loop (hand model; the Go function uses a deferred closure) tied by the scripted-peer differential",
                   "file-system outcomes (what lstat finds, whether OpenFile succeeds) are parameters of the model"],
     assumptions=["intermediate-component symlinks are followed (outside the statement); TOCTOU between lstat and open is outside the model",
                  "batches with more than 253 successes exceed SCM_MAX_FD (open known finding under C10/C14: request fits)",
                  "a dishonest container attaching descriptors to an *error* reply leaks them in the host (observation; the container init is trusted code)"],
     not_covered="kernel open semantics",
     level_text="Theorems for every batch and every success/failure pattern: results are index-aligned (item k is a file iff item k succeeded, for item k's path), a descriptor is produced only where lstat found nothing or a regular file, an honest reply is always accepted, and for ANY reply an inconsistency closes every received descriptor; tie to regenerated handleOpen; real batches with planted symlinks/FIFOs/sockets/directories checked by inode identity and access mode through /proc/<init>/root; length-0 batches followed by checked operations; a 250-item batch repeated on one environment; scripted dishonest peer",
     level_note="Trusted: Lean kernel; hand model tied by kernel-evaluated samples of regenerated code + differential; file-system outcomes parametric",
     technique="Lean 4 proof by induction over batches + decide +kernel tie to regenerated Go-lite + differential with planted objects and a scripted peer")

prop("C19",
     trusted_base=["hand model Model/Socket.lean: SOCK_SEQPACKET queue, kernel recvmsg truncation (data and control; descriptors that fit are installed even when the message is truncated), SCM_MAX_FD, and the library's SendMsg/RecvMsg with the receiver's descriptor ledger",
                   "hand model Model/Gob.lean of the gob-framed layer (container/socket_linux.go): one encoder and one decoder per socket, type descriptors emitted at first use only, one datagram per message, the 32 KiB cap checked after encoding; tied to the regenerated (*socket).SendMsg/RecvMsg by C19_tie_gob (kernel-evaluated over every history of length <= 4) and to the real encoder/decoder by the per-history differential (both protocol types, several messages in flight, receives on an empty queue)",
                   "tie: the regenerated RecvMsg/parseMsg (Gen.C19) evaluated by the kernel on the kernel's possible answers (C19_tie_recv: credentials before rights, truncation flags, 0..3 descriptors); per-operation differential on real socketpairs (bytes, (dev,ino) and FD_CLOEXEC of every received descriptor, Ucred, process descriptor count after every operation)"],
     assumptions=["kernel SEQPACKET/SCM semantics as modelled; Go's ReadMsgUnix sets MSG_CMSG_CLOEXEC",
                  "open known findings: (1) a zero-length payload is not delivered transparently (net.UnixConn pads it with a dummy byte when control data is attached, and it reads as EOF otherwise); (2) gob layer: an oversize (unsent) message that was the first use of its type leaves the encoder ahead of the decoder and every later message undecodable — unreachable from the container package, whose first messages (ping/conf and their replies) are small"],
     not_covered="encoding/gob's byte format itself (the model abstracts a message to its type descriptors and its value; which descriptors the two protocol types need is a table in Model/DriverC19.lean, compared with the real encoder/decoder on every run)",
     level_text="Theorems over all histories and buffer sizes on the socket model: a receive hands over exactly one sent message (bytes, files in order, credentials) or rejects it without delivering data; with large enough buffers receives are the sends in FIFO order; more than SCM_MAX_FD descriptors are refused by the sender; no descriptor installed by the kernel stays open unaccounted (witness for the pinned tree's leak); differential on real socketpairs incl. 252/253/254 descriptors and buffer±1 payloads, receives with a full descriptor table, full-duplex exchanges on one Socket value; gob-framed layer: theorem for every configuration of message types and every history whose first uses fit the cap — no receive fails to decode and received ++ in flight = accepted sends in order; a rejected send leaves queue and decoder untouched; witness that the hypothesis is necessary (the open finding); regenerated SendMsg/RecvMsg tied to the model; histories of both protocol types around the 32 KiB cap against the real code and the model",
     level_note="Trusted: Lean kernel; hand model tied by differential; kernel socket semantics assumed. Two open known findings (zero-length payload, gob unsent-oversize first use)",
     technique="Lean 4 proofs by induction over operation histories (socket model, gob stream model) + decide +kernel on regenerated Go-lite code + differential correspondence on real socketpairs")

prop("C13",
     trusted_base=["Go-lite runs of the regenerated handleReset and DupToMemfd (Gen.C13) against small worlds; hand model `reset` of the mount-table walk; memfd seal semantics table Model/Reset.denied",
                   "flag constants (roSeal, createFlag, F_SEAL_*) from the compiled packages"],
     assumptions=["os.RemoveAll run by the namespace root removes any tree (CAP_DAC_OVERRIDE in the container's user namespace) — validated by hostile trees incl. 000-mode directories",
                  "'every writable mount' = the tmpfs mounts (default table); a caller-supplied read-write bind mount is host data and is not cleaned by Reset (documented reading)",
                  "kernel seal semantics as tabulated"],
     not_covered="kernel unlink/seal implementation",
     level_text="Theorem for every mount table on the reset model (exactly the tmpfs targets are cleaned, in order, success only without failure) tied to the regenerated handleReset by kernel evaluation (filter, path join, order, error reply at first failure); the regenerated removeContents hands every entry of the directory to RemoveAll (hidden names, 300 entries, failing removals; one unbounded directory read); DupToMemfd's create-copy-seal-rewind order with close on every failing path on regenerated code; every modifying operation denied under the compiled seal set; hostile trees (incl. 5000 entries directly under a mount root) + host-side inspection of the mounts, DupToMemfd fed by readers using every licence of the io.Reader contract and by files read from offsets / pseudo-files whose size says nothing, sealed memfd attacked through the descriptor, /proc/self/fd and from the exec'd program",
     level_note="PARTIAL: proof about the model/regenerated glue + differential; kernel unlink/seal semantics assumed",
     technique="Lean 4 proof on the reset model + decide +kernel on regenerated Go-lite code + hostile-tree differential")

prop("C20",
     trusted_base=["hand model Model/Cgroup.lean: ownership over histories (`ostep`: one atomic mkdir per directory, Destroy's loop, external mkdir/rmdir), the two-creator stat/mkdir interleaving system, cpu.stat parsing",
                   "Go-lite runs of the regenerated V2.CPUUsage, EnsureDirExists, V1.Destroy, V1.AddProc, (*V1).New (with references to fields: `&v1.cpu`, `*v.new = ...`), (*V2).New, (*V2).Nest and newV2 (Gen.C20; newV2 without its deferred clean-up, which runs on error paths only)",
                   "tie: histories replayed on the REAL cgroup v1 hierarchies and on a real cgroup2 mount in a private mount namespace, compared with `ostep` (Existing(), directories removed) and with an independent bookkeeping oracle; 16-way concurrent creators; parsers on crafted files vs the regenerated code"],
     assumptions=["mkdir(2)/rmdir(2) are atomic; nobody outside removes a group a live handle created (external removals only of groups no handle made)",
                  "a handle is not used after Destroy (a second Destroy would rmdir the path again)",
                  "usage_usec*1000 < 2^64 (584 years of CPU time) — the uint64 result wraps beyond",
                  "the v2 hierarchy of this machine has no controllers delegated: v2 limit files are covered by crafted directories (hook VerifNewV2At), not by the kernel"],
     not_covered="kernel cgroup accounting itself; v2 limit enforcement by the kernel (no controllers on this machine's cgroup2)",
     level_text="Theorems for every history of mkdirs (arbitrarily interleaved creators), Destroys and external changes: every directory a Destroy removes was made by that very handle, never a pre-existing one; live handles never share a created directory; a handle on an existing group removes nothing; every interleaving of two concurrent creators has exactly one creator with the atomic mkdir (and a double-owner witness for the pinned stat-then-MkdirAll); any CPU value returned is 1000 x a usage_usec field; regenerated Destroy/EnsureDirExists/AddProc facts by kernel evaluation; the regenerated (*V1).New on every subset of already existing controller directories (created = what its own mkdirs made; New then Destroy removes nothing that was there before); a cpuset that is set is never overwritten when a group is opened again (theorem on the hand model for every tree; the regenerated initCpuset/copyCgroupPropertyFromParent compute that model on seven trees); differential on real v1 and v2 hierarchies with a ledger of every limit written, re-checked after every later operation",
     level_note="Trusted: Lean kernel; hand model tied by differential on the real hierarchies; kernel mkdir/rmdir atomicity assumed. Three defects repaired (fix: commits)",
     technique="Lean 4 proofs by induction over operation histories + exhaustive interleaving exploration (decide) + Go-lite on regenerated code + differential on real cgroup hierarchies",
     timeout={"quick": 900, "thorough": 3600})

prop("C02",
     modules=["GoSandbox.Props.C02"],
     trusted_base=["Model/PathResolve.lean: `Walk` = the kernel's component walk as an inductive relation (the specification), `resolve` = hand model of the repaired resolveTraceePath loop; lexical models of Go's filepath.Clean/Join/Dir/IsAbs and strings.Split used when the regenerated functions run under Go-lite",
                   "Model/PathDispatch.lean: the Linux ABI table of (dirfd, pathname) registers per traced syscall (transcribed from the kernel's prototypes); `mayModify` (an open writes, creates or truncates)",
                   "tie: the real absPath/absPathAt/resolveTraceePath/isOpenReadOnly (verif hooks) on real forests with a live child process, vs regenerated code under Go-lite, vs the hand model, vs the kernel's own resolution (openat O_PATH + /proc/self/fd); every traced path syscall under the real ptrace runner with a recording handler"],
     assumptions=["follow-final reading: the path presented is what the kernel's resolution with the final symlink followed leads to (for lstat/readlink/unlink/rename the link itself is touched; the policy is asked about its target)",
                  "no concurrent change of the tree between the trap and the kernel's own resolution (TOCTOU is inherent to ptrace path checks)",
                  "the tracee's /proc is procfs; procfs magic links (cwd/root/fd/N) are followed through their readlink text",
                  "syscalls the handler has no path rule for (symlink, link, mkdir, mknod, chown, truncate, ...) go to CheckSyscall(name): no path is presented, the property does not speak"],
     not_covered="errors inside the walk (ENOENT/ENOTDIR/EACCES in the middle): no object exists, the presented path is not constrained; 32-bit/x32 ABIs",
     level_text="Theorems for every file system, directory, component list and link budget: the resolver model returns exactly the kernel walk's result (soundness, completeness, determinism of the walk), terminates within |todo| + budget*L + 1 iterations, and reports its cap only where the kernel has no resolution; every open that can write/create/truncate is classified write for every flag word; int(int32(reg)) equals the kernel's int dfd for every 64-bit register; the regenerated Handle passes the ABI's (dirfd, path) registers to a check of the right class for each of 26 syscalls and every dirfd site is an int32 chain (kernel-evaluated on regenerated code); regenerated resolver on concrete forests; differential against the kernel on random forests (incl. histories that change the working directory) and under real traced runs (names lying in one page of the tracee's memory or across a page boundary at a random byte)",
     level_note="Trusted: Lean kernel; hand model of the loop tied to the regenerated function by kernel-evaluated cases and the per-run differential (not by a proof about the interpreter); kernel resolution semantics as specified by `Walk` and sampled against the real kernel. Three defects repaired (fix: commits)",
     technique="Lean 4 proofs (induction over fuel / over the Walk derivation) + decide +kernel on regenerated Go-lite code + differential against the kernel's resolution and real traced runs",
     timeout={"quick": 900, "thorough": 3600})

prop("C03",
     trusted_base=["Model/Verdict.lean: `handleTrapM` (hand model of handleTrap with the runner's handler), `kernelResume` (the kernel's rule when a tracee stopped at a seccomp event is resumed: negative syscall number = skip, return register as the tracer left it), `stepOp`/`runOps` (a run as a sequence of syscalls of a process tree; auto-attach needs the PTRACE_O_TRACE{FORK,VFORK,CLONE} option of every creation on the lineage; a trapped call without tracer fails with ENOSYS)",
                   "Go-lite runs of the regenerated handleTrap, skipSyscall, SetReturnValue, softBanSyscall, setPtraceOption (Gen.C03) with pointer-receiver write-back; compiled BanRet and PTRACE_O_* constants",
                   "tie: random programs over fork/vfork/thread trees under the REAL ptrace runner, handler decisions drawn per call: values recorded by the program, directories created, Result.Status vs runOps"],
     assumptions=["kernel ptrace/seccomp semantics as modelled (SECCOMP_RET_TRACE stop, skip on nr<0, option inheritance on auto-attach, RET_KILL_PROCESS = SIGSYS to the thread group)",
                  "programs whose processes run one after the other (the parent waits/joins): program order is the order of events; concurrent siblings are exercised by C17",
                  "the launcher stops itself before loading the filter (C04/C07 order theorems) so the tracer is attached before the first filtered syscall"],
     not_covered="x32/i386 syscall entry; a tracee killed by an outside SIGKILL while stopped (ESRCH paths are kernel-evaluated on regenerated code only)",
     level_text="Theorems for every program, process tree, option set and decision function: every call that took effect was allowed by the filter or by the handler in a traced process; a killed call (handler or filter) ends the run as Disallowed Syscall, does not execute and nothing after it happens; a banned call does not execute and the program sees -BanRet; an allowed call executes; with the regenerated option word every descendant is traced; the library's kill action is compiled to KILL_PROCESS, not the thread-only kill (regenerated ToSeccompAction); after a ban the kernel skips the call for every register content, after allow the registers are untouched; the regenerated handleTrap computes the hand model (kernel-evaluated incl. vanished tracee); differential on real traced runs, incl. multi-threaded programs in which one thread makes a filter-killed call, and bans under five configured error values",
     level_note="Trusted: Lean kernel; kernel ptrace/seccomp rules are modelled (assumed) and sampled by the real runs; hand model tied to regenerated code by kernel evaluation on a finite register sample. One defect repaired (fix: commit)",
     technique="Lean 4 proofs by induction over programs + decide +kernel on regenerated Go-lite code + differential on real ptrace runs",
     timeout={"quick": 900, "thorough": 3600})

prop("C05",
     trusted_base=["Model/MountNS.lean: an abstract kernel mount namespace (mounts attached at (parent mount, path); a new bind mount ignores MS_RDONLY, MS_REMOUNT|MS_BIND sets the per-mount read-only bit; pivot_root; lazy unmount of the old root; directories created in the root tmpfs; path lookup as a fold over mounts in creation order) and `opsFor`, the hand skeleton of the mount sequence",
                   "Model/MountGen.lean: the regenerated Builder methods, pathPrefix, isBindMountFileOrNotExists, Mount.Mount, ensureMountTargetExists, initFileSystem, maskPath (Gen.C05) and forkAndExecInChild (Gen.ForkChild) run by Go-lite; their call traces read as operation lists",
                   "tie: both implementations on random tables with the probe inside: /proc/<pid>/mountinfo from the host at the sync point, write attempts under every mount, listing of /, reachability of old_root and unbound host paths, masks"],
     assumptions=["kernel mount semantics as modelled (bind ignores MS_RDONLY until remounted; per-mount read-only; detach of the old root makes the host tree unreachable)",
                  "bind sources without separately mounted writable submounts at the time the sandbox is built (open known finding ro-rbind-rw-submount); mounts the host makes later are kept out by the private namespace (propagation case of the differential, on a shared tmpfs the harness makes)",
                  "the container's MaskPaths need /dev/null inside the container (open known finding mask-needs-dev-null)",
                  "what a bound host directory contains is the caller's choice: 'nothing of the host outside the declared bind sources'"],
     not_covered="device nodes and suid semantics of the bound trees (flags are checked, kernel enforcement is not); overlay/shared-subtree propagation other than the initial MS_PRIVATE",
     level_text="Theorem for EVERY mount table (C05_namespace): if the sequence succeeds the namespace is the read-only root tmpfs followed by exactly the configured entries with their declared file system and read-only bit (the remount lands on the mount just made), followed by the masks; the host tree is detached and the namespace was made recursively private first (later mount events of the host do not enter); every directory created in the root is a prefix of a configured target or symlink path; writable(path) = the landing mount is not read-only. Kernel-evaluated: the operation sequences of the regenerated raw-child and container code equal the skeleton on tables with ro/rw directory and file binds, nested targets, tmpfs, proc ro/rw, symlinks, file and directory masks; the builder's flag words. Differential on both real implementations, incl. the empty table and a table whose every entry is filtered out",
     level_note="Trusted: Lean kernel; kernel mount semantics are modelled (assumed) and sampled on the real kernel by the differential; skeleton tied to regenerated code by kernel evaluation on a finite set of tables plus the per-run driver comparison. Two open known findings",
     technique="Lean 4 proof by induction over the mount table + decide +kernel on regenerated Go-lite code + differential on real mount namespaces",
     timeout={"quick": 900, "thorough": 3600})

prop("C17",
     race=True,
     trusted_base=["Model/Concurrent.lean: three abstract machines over arbitrary schedules — (A) descriptor table of the host process vs forks of other runs (fork copies the table, exec closes close-on-exec descriptors), (B) which wait4 selector can return which process (any thread of the host process may collect a child or tracee it selects), (C) request/reply on one control socket with and without the mutex",
                   "structural facts about the regenerated source (Gen.C17, go/ast): every host-side wait4 selector is the run's own pid/-pgid; Trace starts with runtime.LockOSThread and defers the unlock; ForkLock.Lock precedes the clone and Unlock follows forkAndExecInChild; every raw descriptor-creating call carries a CLOEXEC flag; every *container method that talks on the socket starts with c.mu.Lock/defer Unlock or is only called from such methods",
                   "tie: 16-way concurrent rounds mixing ptrace runs, namespace runs, container environments and several callers on one shared environment, each result compared with the same run alone; Go race detector in the thorough tier"],
     assumptions=["kernel: fork copies the descriptor table, exec closes FD_CLOEXEC descriptors, wait4(pid)/wait4(-pgid) only return matching children, ptrace requests are valid only from the tracer thread (hence the thread pinning)",
                  "Go runtime: os.Pipe/os.Open/net create descriptors close-on-exec under ForkLock (the library's own raw creations are checked, the runtime's are trusted)",
                  "programs do not leave their process group (C12's precondition) — a program that does can be collected by nobody"],
     not_covered="the Go scheduler and the kernel are not modelled: an interleaving-dependent defect outside the three mechanisms (a shared package-level variable, a goroutine leak) is visible only to the concurrent differential and the race detector, which sample schedules",
     level_text="Theorems over ALL schedules and any number of runs: with atomically close-on-exec creations no forked program inherits another run's descriptor (witness for the non-atomic case); with the selectors the code uses a wait of one run can only return that run's processes (witness for wait4(-1)); with the mutex around every request/reply pair every caller receives the reply to its own request (witness without the mutex); kernel-evaluated facts that the regenerated source satisfies those hypotheses. The remaining, scheduler-dependent part is sampled: 16-way concurrent differential against solo runs, a call queued on a shared environment while the previous run's 1 GiB descendant is torn down, race detector",
     level_note="PARTIAL: the theorems cover the protocol-level mechanisms under stated kernel/runtime assumptions; thread interleavings of the real runtime are sampled, not proved. Structural facts are syntactic (go/ast), tied to the source on every run",
     technique="Lean 4 proofs by induction over schedules (invariants) + decide +kernel on regenerated source facts + concurrent differential and Go race detector",
     timeout={"quick": 900, "thorough": 5400})
