/* probe: static, script-driven target program for the go-sandbox verification harness.
 *
 *   probe '<cmd>;<cmd>;...'
 *
 * Commands (tokens separated by spaces; numbers decimal or 0x..; results are printed on stdout,
 * one line per reporting command, unbuffered):
 *   exit N | raise S | ignore S | sleep MS | spin MS | print TEXT | fault segv|ill|trap|fpe|bus
 *   sys NR A0..A5        raw syscall; args: number | s:TEXT (pointer to NUL-terminated text) |
 *                        x:K:TEXT (TEXT with exactly K bytes before a page boundary) |
 *                        nonul:N (N non-NUL bytes ending exactly at an unmapped page) |
 *                        bad (unmapped address) | kern (kernel-space address) | fdcwd32 (0x00000000ffffff9c)
 *                        prints "sys NR = RET ERRNO"
 *   fork ... endfork     child executes the enclosed commands then exits 0; parent continues after endfork
 *   vfork ... endfork    same with vfork (child must end with exit/exec-like commands only)
 *   thread ... endthread run enclosed commands in a new pthread (joined at `join`)
 *   wait                 wait for all children
 *   touchmany DIR N      N empty files directly in DIR
 *   touch PATH | mkdir PATH | unlink PATH | writefile PATH TEXT | readfile PATH
 *   out N                write N bytes ('x') to stdout, report short/failed writes on stderr
 *   report fds|creds|rlimits|ns|sec|cwd|uts|pid|mounts
 *   setsid | setpgid | daemon
 *   exec                 the rest of the current block is run by a fresh image of this program (execve of /proc/self/exe)
 */
#define _GNU_SOURCE
#include <errno.h>
#include <dirent.h>
#include <fcntl.h>
#include <pthread.h>
#include <sched.h>
#include <signal.h>
#include <stdio.h>
#include <stdlib.h>
#include <string.h>
#include <sys/mman.h>
#include <sys/prctl.h>
#include <sys/resource.h>
#include <sys/stat.h>
#include <sys/syscall.h>
#include <sys/sysmacros.h>
#include <sys/socket.h>
#include <sys/un.h>
#include <sys/time.h>
#include <sys/types.h>
#include <sys/utsname.h>
#include <sys/vfs.h>
#include <sys/wait.h>
#include <time.h>
#include <unistd.h>
#include <linux/capability.h>

#define MAXTOK 4096
static char *toks[MAXTOK];
static int ntok;

static void say(const char *fmt, ...) __attribute__((format(printf, 1, 2)));
#include <stdarg.h>
static void say(const char *fmt, ...) {
    char buf[8192];
    va_list ap;
    va_start(ap, fmt);
    int n = vsnprintf(buf, sizeof buf, fmt, ap);
    va_end(ap);
    if (n > (int)sizeof buf - 1) n = sizeof buf - 1;
    size_t off = 0;
    while (off < (size_t)n) {
        ssize_t w = write(1, buf + off, n - off);
        if (w <= 0) break;
        off += w;
    }
}

static long num(const char *s) { return strtoul(s, NULL, 0); }

static unsigned long argval(const char *s) {
    if (!strncmp(s, "s:", 2)) return (unsigned long)(s + 2);
    if (!strcmp(s, "bad")) return 0x10;
    if (!strcmp(s, "kern")) return 0xffff800000000000UL;
    if (!strncmp(s, "how:", 4)) { /* struct open_how {flags, mode, resolve} */
        static unsigned long long hows[16][3]; static int nh;
        unsigned long long *h = hows[nh++ % 16];
        h[0] = strtoull(s + 4, NULL, 0); h[1] = 0; h[2] = 0;
        if (h[0] & 0100) h[1] = 0644;
        return (unsigned long)h;
    }
    if (!strcmp(s, "fdcwd32")) return 0x00000000ffffff9cUL;
    if (!strcmp(s, "fdcwd64")) return 0xffffffffffffff9cUL;
    if (!strncmp(s, "nonul:", 6)) {
        long n = num(s + 6);
        long pg = sysconf(_SC_PAGESIZE);
        long pages = (n + pg - 1) / pg + 1;
        char *m = mmap(NULL, (pages + 1) * pg, PROT_READ | PROT_WRITE, MAP_PRIVATE | MAP_ANONYMOUS, -1, 0);
        if (m == MAP_FAILED) return 0;
        munmap(m + pages * pg, pg); /* hole right after */
        memset(m, 'A', pages * pg);
        return (unsigned long)(m + pages * pg - n);
    }
    if (!strncmp(s, "x:", 2)) { /* x:K:TEXT  NUL-terminated TEXT placed so that exactly K of its bytes lie before a page boundary (both pages mapped) */
        char *e; long k = strtol(s + 2, &e, 0);
        const char *t = (*e == ':') ? e + 1 : e;
        long pg = sysconf(_SC_PAGESIZE);
        size_t l = strlen(t) + 1;
        long pages = (l + pg - 1) / pg + 2;
        char *m = mmap(NULL, 2 * pages * pg, PROT_READ | PROT_WRITE, MAP_PRIVATE | MAP_ANONYMOUS, -1, 0);
        if (m == MAP_FAILED) return 0;
        if (k < 0) k = 0;
        k %= pg;
        memcpy(m + pages * pg - k, t, l);
        return (unsigned long)(m + pages * pg - k);
    }
    if (!strncmp(s, "endpage:", 8)) { /* NUL-terminated string whose NUL is the last byte before a hole */
        const char *t = s + 8;
        long pg = sysconf(_SC_PAGESIZE);
        size_t l = strlen(t) + 1;
        long pages = (l + pg - 1) / pg + 1;
        char *m = mmap(NULL, (pages + 1) * pg, PROT_READ | PROT_WRITE, MAP_PRIVATE | MAP_ANONYMOUS, -1, 0);
        if (m == MAP_FAILED) return 0;
        munmap(m + pages * pg, pg);
        memcpy(m + pages * pg - l, t, l);
        return (unsigned long)(m + pages * pg - l);
    }
    return strtoul(s, NULL, 0);
}

static char fdline[8192];
static void report_fds_to(const char *path);
static void report_fds(void) { report_fds_to(NULL); }
static void report_fds_to(const char *path) {
    char *line = fdline;
    int off = 0;
    off += snprintf(line + off, sizeof fdline - off, "fds");
    for (int fd = 0; fd < 1024 && off < (int)sizeof fdline - 64; fd++) {
        struct stat st;
        if (fstat(fd, &st) != 0) continue;
        int fl = fcntl(fd, F_GETFD);
        off += snprintf(line + off, sizeof fdline - off, " %d:%lu.%lu:%d", fd, (unsigned long)st.st_dev, (unsigned long)st.st_ino, fl & FD_CLOEXEC);
    }
    if (!path) { say("%s\n", line); return; }
    /* the table was collected before this descriptor exists */
    int o = open(path, O_WRONLY | O_CREAT | O_APPEND, 0644);
    if (o >= 0) { dprintf(o, "%s\n", line); close(o); }
}

static void report_creds(void) {
    uid_t r, e, s;
    gid_t rg, eg, sg;
    getresuid(&r, &e, &s);
    getresgid(&rg, &eg, &sg);
    gid_t gs[64];
    int n = getgroups(64, gs);
    char g[1024] = "";
    int off = 0;
    for (int i = 0; i < n; i++) off += snprintf(g + off, sizeof g - off, "%s%u", i ? "," : "", gs[i]);
    struct __user_cap_header_struct h = {_LINUX_CAPABILITY_VERSION_3, 0};
    struct __user_cap_data_struct d[2];
    memset(d, 0, sizeof d);
    syscall(SYS_capget, &h, d);
    unsigned long long eff = d[0].effective | ((unsigned long long)d[1].effective << 32);
    unsigned long long prm = d[0].permitted | ((unsigned long long)d[1].permitted << 32);
    unsigned long long inh = d[0].inheritable | ((unsigned long long)d[1].inheritable << 32);
    int amb = 0;
    for (int c = 0; c < 41; c++)
        if (prctl(PR_CAP_AMBIENT, PR_CAP_AMBIENT_IS_SET, c, 0, 0) == 1) amb++;
    say("creds uid=%u,%u,%u gid=%u,%u,%u groups=%s capeff=%llx capprm=%llx capinh=%llx ambient=%d\n", r, e, s, rg, eg, sg, n ? g : "-", eff, prm, inh, amb);
}

static void report_sec(void) {
    int nnp = prctl(PR_GET_NO_NEW_PRIVS, 0, 0, 0, 0);
    int sb = prctl(PR_GET_SECUREBITS, 0, 0, 0, 0);
    int seccomp = -1;
    FILE *f = fopen("/proc/self/status", "r");
    int tracer = -1;
    if (f) {
        char l[256];
        while (fgets(l, sizeof l, f)) {
            if (!strncmp(l, "Seccomp:", 8)) seccomp = atoi(l + 8);
            if (!strncmp(l, "TracerPid:", 10)) tracer = atoi(l + 10);
        }
        fclose(f);
    } else {
        seccomp = prctl(PR_GET_SECCOMP, 0, 0, 0, 0);
    }
    say("sec nnp=%d securebits=%#x seccomp=%d tracer=%d sid=%d pgid=%d pid=%d ppid=%d\n", nnp, sb, seccomp, tracer != 0, getsid(0) == getpid(), getpgrp() == getpid(), getpid(), getppid());
}

static void report_rlimits(void) {
    static const struct { int r; const char *n; } rs[] = {{RLIMIT_CPU, "cpu"}, {RLIMIT_DATA, "data"}, {RLIMIT_FSIZE, "fsize"}, {RLIMIT_STACK, "stack"},
        {RLIMIT_AS, "as"}, {RLIMIT_NOFILE, "nofile"}, {RLIMIT_CORE, "core"}, {RLIMIT_NPROC, "nproc"}, {RLIMIT_MEMLOCK, "memlock"}};
    char line[1024] = "rlimits";
    int off = strlen(line);
    for (unsigned i = 0; i < sizeof rs / sizeof rs[0]; i++) {
        struct rlimit rl;
        getrlimit(rs[i].r, &rl);
        off += snprintf(line + off, sizeof line - off, " %s=%llu:%llu", rs[i].n, (unsigned long long)rl.rlim_cur, (unsigned long long)rl.rlim_max);
    }
    say("%s\n", line);
}

static void report_ns(void) {
    static const char *ns[] = {"user", "pid", "mnt", "uts", "ipc", "net", "cgroup"};
    char line[1024] = "ns";
    int off = 2;
    for (int i = 0; i < 7; i++) {
        char p[64], b[128];
        snprintf(p, sizeof p, "/proc/self/ns/%s", ns[i]);
        ssize_t n = readlink(p, b, sizeof b - 1);
        if (n < 0) {
            struct stat st;
            if (stat(p, &st) == 0) off += snprintf(line + off, sizeof line - off, " %s=ino:%lu", ns[i], (unsigned long)st.st_ino);
            else off += snprintf(line + off, sizeof line - off, " %s=?", ns[i]);
            continue;
        }
        b[n] = 0;
        off += snprintf(line + off, sizeof line - off, " %s", b);
    }
    say("%s\n", line);
}

static void report_mounts(void) {
    FILE *f = fopen("/proc/self/mountinfo", "r");
    if (!f) { say("mounts ?\n"); return; }
    char l[4096];
    while (fgets(l, sizeof l, f)) say("mount %s", l);
    fclose(f);
    say("mounts-end\n");
}

static void spin_ms(long ms) {
    struct timespec a, b;
    clock_gettime(CLOCK_PROCESS_CPUTIME_ID, &a);
    volatile unsigned long x = 0;
    for (;;) {
        for (int i = 0; i < 100000; i++) x += i;
        clock_gettime(CLOCK_PROCESS_CPUTIME_ID, &b);
        long d = (b.tv_sec - a.tv_sec) * 1000 + (b.tv_nsec - a.tv_nsec) / 1000000;
        if (d >= ms) break;
    }
}

struct range { int from, to; };
static void run(int from, int to);

static void *thread_main(void *p) {
    struct range *r = p;
    run(r->from, r->to);
    return NULL;
}

static __thread pthread_t threads[64]; /* per creating thread: `join` waits for the threads this thread started */
static __thread int nthreads;

static int find_end(int i, int to, const char *open1, const char *open2, const char *open3, const char *close1, const char *close2) {
    int depth = 1;
    for (int j = i; j < to; j++) {
        if (!strcmp(toks[j], open1) || !strcmp(toks[j], open2) || !strcmp(toks[j], open3)) depth++;
        else if (!strcmp(toks[j], close1) || !strcmp(toks[j], close2)) {
            if (--depth == 0) return j;
        }
    }
    return to;
}

/* toks[] holds whole commands (split by ';'); each command is split by spaces on use */
static void run(int from, int to) {
    for (int i = from; i < to; i++) {
        char cmd[4096];
        strncpy(cmd, toks[i], sizeof cmd - 1);
        cmd[sizeof cmd - 1] = 0;
        char *a[16];
        int na = 0;
        char *save = NULL;
        for (char *t = strtok_r(cmd, " ", &save); t && na < 16; t = strtok_r(NULL, " ", &save)) a[na++] = t;
        if (na == 0) continue;
        const char *c = a[0];
        if (!strcmp(c, "exit")) _exit(na > 1 ? num(a[1]) : 0);
        else if (!strcmp(c, "raise")) { signal(num(a[1]), SIG_DFL); kill(getpid(), num(a[1])); }
        else if (!strcmp(c, "ignore")) signal(num(a[1]), SIG_IGN);
        else if (!strcmp(c, "fault")) { /* kernel-forced synchronous signals */
            if (!strcmp(a[1], "segv")) { *(volatile int *)8 = 1; }
            else if (!strcmp(a[1], "ill")) { __asm__ volatile("ud2"); }
            else if (!strcmp(a[1], "trap")) { __asm__ volatile("int3"); }
            else if (!strcmp(a[1], "fpe")) { __asm__ volatile("xorl %%edx,%%edx; movl $1,%%eax; xorl %%ecx,%%ecx; idivl %%ecx" ::: "eax", "edx", "ecx"); }
            else if (!strcmp(a[1], "bus")) {
                char tn[] = "/tmp/probe-bus-XXXXXX"; int fd = mkstemp(tn); unlink(tn);
                char *m = mmap(NULL, 4096, PROT_READ | PROT_WRITE, MAP_SHARED, fd, 0);
                if (m != MAP_FAILED) m[0] = 1; /* beyond EOF of an empty file -> SIGBUS */
            }
        }
        else if (!strcmp(c, "echoer")) { /* answer every byte arriving on fd 0 with 'E' on fd 1, until end of file */
            char ch;
            while (read(0, &ch, 1) == 1) { if (write(1, "E", 1) != 1) break; }
        }
        else if (!strcmp(c, "exec")) { /* exec: the rest of the current block is run by a fresh image of this program */
            static char rest[1 << 16];
            size_t off = 0;
            rest[0] = 0;
            for (int k = i + 1; k < to; k++) off += snprintf(rest + off, sizeof rest - off, "%s%s", k > i + 1 ? ";" : "", toks[k]);
            char *argv2[] = {"probe", rest, NULL};
            execv("/proc/self/exe", argv2);
            say("exec failed %d\n", errno);
            _exit(111);
        }
        else if (!strcmp(c, "sleep")) { struct timespec ts = {num(a[1]) / 1000, (num(a[1]) % 1000) * 1000000L}; while (nanosleep(&ts, &ts) && errno == EINTR) ; }
        else if (!strcmp(c, "spin")) spin_ms(num(a[1]));
        else if (!strcmp(c, "print")) say("%s\n", na > 1 ? toks[i] + 6 : "");
        else if (!strcmp(c, "sys")) {
            unsigned long v[7] = {0};
            for (int k = 1; k < na && k < 8; k++) v[k - 1] = argval(a[k]);
            errno = 0;
            long r = syscall(v[0], v[1], v[2], v[3], v[4], v[5], v[6]);
            say("sys %lu = %ld %d\n", v[0], r, r == -1 ? errno : 0);
        } else if (!strcmp(c, "fork") || !strcmp(c, "vfork")) {
            int end = find_end(i + 1, to, "fork", "vfork", "fork", "endfork", "endfork");
            pid_t p = !strcmp(c, "vfork") ? vfork() : fork();
            if (p == 0) { run(i + 1, end); _exit(0); }
            if (p < 0) say("fork failed %d\n", errno);
            i = end;
        } else if (!strcmp(c, "thread")) {
            int end = find_end(i + 1, to, "thread", "thread", "thread", "endthread", "endthread");
            struct range *r = malloc(sizeof *r);
            r->from = i + 1; r->to = end;
            if (nthreads < 64 && pthread_create(&threads[nthreads], NULL, thread_main, r) == 0) nthreads++;
            i = end;
        } else if (!strcmp(c, "join")) { for (int k = 0; k < nthreads; k++) pthread_join(threads[k], NULL); nthreads = 0; }
        else if (!strcmp(c, "wait")) { while (wait(NULL) > 0 || errno == EINTR) ; }
        else if (!strcmp(c, "touch")) { int fd = open(a[1], O_WRONLY | O_CREAT, 0644); say("touch %s = %d\n", a[1], fd < 0 ? -errno : 0); if (fd >= 0) close(fd); }
        else if (!strcmp(c, "touchmany")) { /* touchmany DIR N: N empty files DIR/m<k>, one report line */
            long n = num(a[2]), okc = 0; char pb[4096];
            for (long k = 0; k < n; k++) { snprintf(pb, sizeof pb, "%s/m%ld", a[1], k); int fd = open(pb, O_WRONLY | O_CREAT, 0644); if (fd >= 0) { okc++; close(fd); } }
            say("touchmany %s = %ld\n", a[1], okc);
        }
        else if (!strcmp(c, "mkdir")) { int r = mkdir(a[1], 0755); say("mkdir %s = %d\n", a[1], r < 0 ? -errno : 0); }
        else if (!strcmp(c, "unlink")) { int r = unlink(a[1]); say("unlink %s = %d\n", a[1], r < 0 ? -errno : 0); }
        else if (!strcmp(c, "writefile")) { int fd = open(a[1], O_WRONLY | O_CREAT | O_TRUNC, 0644); int r = fd < 0 ? -errno : (int)write(fd, a[2], strlen(a[2])); say("writefile %s = %d\n", a[1], r); if (fd >= 0) close(fd); }
        else if (!strcmp(c, "readfile")) { char b[256]; int fd = open(a[1], O_RDONLY); int r = fd < 0 ? -errno : (int)read(fd, b, sizeof b - 1); if (r >= 0) { b[r] = 0; say("readfile %s = %d %s\n", a[1], r, b); } else say("readfile %s = %d\n", a[1], r); if (fd >= 0) close(fd); }
        else if (!strcmp(c, "ls")) { /* ls DIR: names, sorted, on one line */
            DIR *d = opendir(a[1]);
            if (!d) say("ls %s = %d\n", a[1], -errno);
            else {
                char *names[512]; int nn = 0; struct dirent *e;
                while ((e = readdir(d)) && nn < 512) { if (strcmp(e->d_name, ".") && strcmp(e->d_name, "..")) names[nn++] = strdup(e->d_name); }
                closedir(d);
                for (int x = 0; x < nn; x++) for (int y = x + 1; y < nn; y++) if (strcmp(names[x], names[y]) > 0) { char *t = names[x]; names[x] = names[y]; names[y] = t; }
                char line[8192]; int off = snprintf(line, sizeof line, "ls %s = %d:", a[1], nn);
                for (int x = 0; x < nn && off < (int)sizeof line - 300; x++) off += snprintf(line + off, sizeof line - off, " %s", names[x]);
                say("%s\n", line);
            }
        }
        else if (!strcmp(c, "mkfifo")) { int r = mknod(a[1], S_IFIFO | 0666, 0); say("mkfifo %s = %d\n", a[1], r < 0 ? -errno : 0); }
        else if (!strcmp(c, "symlink")) { int r = symlink(a[1], a[2]); say("symlink %s = %d\n", a[2], r < 0 ? -errno : 0); }
        else if (!strcmp(c, "mksock")) {
            int sfd = socket(AF_UNIX, SOCK_STREAM, 0); struct sockaddr_un sa; memset(&sa, 0, sizeof sa); sa.sun_family = AF_UNIX;
            strncpy(sa.sun_path, a[1], sizeof sa.sun_path - 1);
            int r = bind(sfd, (struct sockaddr *)&sa, sizeof sa); say("mksock %s = %d\n", a[1], r < 0 ? -errno : 0); close(sfd);
        }
        else if (!strcmp(c, "chmod")) { int r = chmod(a[1], strtoul(a[2], NULL, 8)); say("chmod %s = %d\n", a[1], r < 0 ? -errno : 0); }
        else if (!strcmp(c, "grow")) { /* grow PATH N: append N bytes to a regular file in 4 KiB writes */
            int fd = open(a[1], O_WRONLY | O_CREAT | O_APPEND, 0644);
            long n = num(a[2]), done = 0; static char gb[4096]; memset(gb, 'g', sizeof gb);
            int e = fd < 0 ? errno : 0;
            while (fd >= 0 && done < n) { ssize_t w = write(fd, gb, n - done > 4096 ? 4096 : n - done); if (w < 0) { e = errno; break; } done += w; }
            say("grow %s wrote=%ld err=%d\n", a[1], done, e);
            if (fd >= 0) close(fd);
        }
        else if (!strcmp(c, "mem")) { /* mem MB: allocate and touch */
            long mb = num(a[1]); char *p = malloc(mb << 20); if (p) { for (long k = 0; k < (mb << 20); k += 4096) p[k] = 1; } say("mem %ld %s\n", mb, p ? "ok" : "fail");
        }
        else if (!strcmp(c, "out")) {
            long n = num(a[1]);
            static char buf[65536];
            memset(buf, 'x', sizeof buf);
            long done = 0; int fails = 0;
            while (done < n) {
                long k = n - done > (long)sizeof buf ? (long)sizeof buf : n - done;
                ssize_t w = write(1, buf, k);
                if (w < 0) { if (errno == EINTR) continue; fails = errno; break; }
                done += w;
            }
            dprintf(2, "out %ld wrote=%ld err=%d\n", n, done, fails);
        }
        else if (!strcmp(c, "report")) {
            if (!strcmp(a[1], "fds")) { if (na > 2) report_fds_to(a[2]); else report_fds(); }
            else if (!strcmp(a[1], "creds")) report_creds();
            else if (!strcmp(a[1], "sec")) report_sec();
            else if (!strcmp(a[1], "rlimits")) report_rlimits();
            else if (!strcmp(a[1], "ns")) report_ns();
            else if (!strcmp(a[1], "mounts")) report_mounts();
            else if (!strcmp(a[1], "cwd")) { char b[4096]; say("cwd %s\n", getcwd(b, sizeof b) ? b : "?"); }
            else if (!strcmp(a[1], "uts")) { struct utsname u; uname(&u); say("uts host=%s domain=%s\n", u.nodename, u.domainname); }
            else if (!strcmp(a[1], "pid")) say("pid %d ppid %d\n", getpid(), getppid());
        }
        else if (!strcmp(c, "setsid")) say("setsid = %d\n", (int)setsid());
        else if (!strcmp(c, "setpgid")) say("setpgid = %d\n", setpgid(0, 0));
        else if (!strcmp(c, "daemon")) { if (fork() > 0) _exit(0); setsid(); if (fork() > 0) _exit(0); }
        else say("unknown-command %s\n", c);
    }
}

int main(int argc, char **argv) {
    if (argc < 2) return 2;
    /* join all args with ';' so that `probe exit 3` style also works */
    static char script[1 << 20];
    size_t off = 0;
    for (int i = 1; i < argc; i++) off += snprintf(script + off, sizeof script - off, "%s%s", i > 1 ? " " : "", argv[i]);
    char *save = NULL;
    for (char *t = strtok_r(script, ";", &save); t && ntok < MAXTOK; t = strtok_r(NULL, ";", &save)) {
        while (*t == ' ') t++;
        toks[ntok++] = t;
    }
    /* block keywords must be whole commands: fork / endfork / thread / endthread */
    run(0, ntok);
    return 0;
}
