/-
Model driver: one request per line on stdin, one answer per line on stdout.
`ok <answer>` or `bad-op` (never a default). Core-only so that it links as an executable.
-/
import GoSandbox.Model.DriverC18
import GoSandbox.Model.DriverC09
import GoSandbox.Model.DriverC15
import GoSandbox.Model.DriverC08
import GoSandbox.Model.DriverC04
import GoSandbox.Model.DriverC06
import GoSandbox.Model.DriverC01
import GoSandbox.Model.DriverC10
import GoSandbox.Model.DriverC14
import GoSandbox.Model.DriverC19
import GoSandbox.Model.DriverC20
import GoSandbox.Model.DriverC02
import GoSandbox.Model.DriverC03
import GoSandbox.Model.DriverC05

open GoSandbox

def dispatch (ws : List String) : Option String :=
  match ws with
  | [] => none
  | cmd :: _ =>
    if cmd.startsWith "c18." then Driver.C18.handle ws
    else if cmd.startsWith "c09." then Driver.C09.handle ws
    else if cmd.startsWith "c15." then Driver.C15.handle ws
    else if cmd.startsWith "c08." then Driver.C08.handle ws
    else if cmd.startsWith "c04." then Driver.C04.handle ws
    else if cmd.startsWith "c06." then Driver.C06.handle ws
    else if cmd.startsWith "c01." then Driver.C01.handle ws
    else if cmd.startsWith "c10." then Driver.C10.handle ws
    else if cmd.startsWith "c14." then Driver.C14.handle ws
    else if cmd.startsWith "c19." then Driver.C19.handle ws
    else if cmd.startsWith "c20." then Driver.C20.handle ws
    else if cmd.startsWith "c02." then Driver.C02.handle ws
    else if cmd.startsWith "c03." then Driver.C03.handle ws
    else if cmd.startsWith "c05." then Driver.C05.handle ws
    else if cmd.startsWith "c07." then Driver.C07.handle ws
    else none

partial def loop (hin hout : IO.FS.Stream) : IO Unit := do
  let line ← hin.getLine
  if line.isEmpty then return ()
  let ws := (line.trimAscii.toString.splitOn " ").filter (· ≠ "")
  match dispatch ws with
  | some r => hout.putStrLn ("ok " ++ r)
  | none => hout.putStrLn "bad-op"
  hout.flush
  loop hin hout

def main : IO Unit := do
  loop (← IO.getStdin) (← IO.getStdout)
