/-
The documented result-status table (README "Result Status"), as a function of how the main
process ended.  Written from the documentation, independently of the three classifiers.
Status numbering: runner/status.go (values come from the compiled constants in Gen.Consts).
-/
namespace GoSandbox.Spec.StatusTable

inductive Status
  | normal | tle | mle | ole | disallowed | signalled | nonzero | runnerError
deriving DecidableEq, Repr

inductive Outcome
  | exit (code : Nat)          -- exit(code), code in 0..255
  | killed (sig : Nat)         -- terminated by signal sig (1..64)
deriving DecidableEq, Repr

/-- (status, exit value) per the documented table; signal numbers are Linux/amd64. -/
def table : Outcome → Status × Nat
  | .exit 0 => (.normal, 0)
  | .exit n => (.nonzero, n)
  | .killed 24 => (.tle, 24)          -- SIGXCPU
  | .killed 9 => (.tle, 9)            -- SIGKILL
  | .killed 25 => (.ole, 25)          -- SIGXFSZ
  | .killed 31 => (.disallowed, 31)   -- SIGSYS
  | .killed s => (.signalled, s)

end GoSandbox.Spec.StatusTable
