/-
Specification of "an entry covers a path" for the example file policy (property C18),
written independently of the implementation model.
-/
import GoSandbox.Model.FileSet
namespace GoSandbox.Spec
open GoSandbox.Model.FileSet

/-- entry `e` covers path `p`:
 * the exact path, or
 * a directory entry `d/` covering `d` and everything beneath it, or
 * a children entry `d/*` covering the direct children of `d` only. -/
def covers (e p : Str) : Prop :=
  e = p ∨
  (∃ d, e = d ++ ['/'] ∧ (p = d ∨ (d ++ ['/']) <+: p)) ∨
  (∃ d c, e = d ++ ['/', '*'] ∧ p = d ++ ['/'] ++ c ∧ '/' ∉ c)

/-- Paths the ptrace handler hands to the policy are absolute or empty
(empty = "could not be resolved"). -/
def AbsOrEmpty (p : Str) : Prop := p = [] ∨ ∃ r, p = '/' :: r

def admittedBy (s : FileSet) (p : Str) : Prop :=
  (∃ e ∈ s.set, covers e p) ∨ (p = ['/'] ∧ s.systemRoot = true)

/-- which sets may admit a request of a class: writable ⇒ readable ⇒ statable. -/
def chain (fs : FileSets) : Cls → List FileSet
  | .write => [fs.writable]
  | .read  => [fs.writable, fs.readable]
  | .stat  => [fs.writable, fs.readable, fs.statable]

def admitted (fs : FileSets) (rp : Str → Str) (c : Cls) (p : Str) : Prop :=
  ∃ s ∈ chain fs c, admittedBy s p ∨ admittedBy s (rp p)

end GoSandbox.Spec
