/-
What a seccomp filter built from (allow list, trace list, default action) must return for every
`seccomp_data` (property C01), written independently of the generator.
-/
import GoSandbox.Kernel.BPF
namespace GoSandbox.Spec.SeccompPolicy
open GoSandbox.Kernel.BPF

structure Policy where
  allow : List Nat          -- syscall numbers of the native ABI
  trace : List Nat
  defaultRet : Nat          -- kernel action word of the default action
  nativeArch : Nat          -- AUDIT_ARCH_* of the native ABI
  allowRet : Nat            -- SECCOMP_RET_ALLOW
  traceRet : Nat            -- SECCOMP_RET_TRACE (| data)
  x32Bit : Nat              -- 0x40000000 on x86-64
  x32Ret : Nat              -- what the x32 guard returns (ERRNO|ENOSYS)
deriving Repr

/-- a foreign architecture tag gets the default action whatever the number; numbers carrying the
x32 bit are refused outright; allow-listed numbers ALLOW; trace-listed TRACE; everything else default.
(allow and trace are disjoint for policies a caller can express; allow is looked at first.) -/
def expected (p : Policy) (d : Data) : Nat :=
  if d.arch ≠ p.nativeArch then p.defaultRet
  else if d.nr ≥ p.x32Bit then p.x32Ret
  else if d.nr ∈ p.allow then p.allowRet
  else if d.nr ∈ p.trace then p.traceRet
  else p.defaultRet

/-- constants the specification itself distinguishes -/
def specConsts (p : Policy) : List Nat := p.nativeArch :: p.x32Bit :: (p.allow ++ p.trace)

end GoSandbox.Spec.SeccompPolicy
