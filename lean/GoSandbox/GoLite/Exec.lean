/-
Interpreter for Go-lite (see Ast.lean).  Total: recursion is on an explicit fuel argument
(every recursive call decrements it), so it reduces under `decide +kernel` and compiles.
External calls (`syscall.RawSyscall`, methods of opaque values, …) are a parameter `ext`.
Integers are mathematical `Int`s; the width casts the Go code performs are applied where the
code applies them (`int(..)`, `uint32(..)`, …).  A Go panic / an unsupported construct is
`Except.error`.
-/
import GoSandbox.GoLite.Ast
namespace GoSandbox.GoLite

inductive Val where
  | int (i : Int)
  | bool (b : Bool)
  | str (s : String)
  | list (l : List Val)
  | strct (fs : List (String × Val))
  | tup (l : List Val)
  | nil
deriving Repr, Inhabited

mutual
def Val.beq : Val → Val → Bool
  | .int a, .int b => a == b
  | .bool a, .bool b => a == b
  | .str a, .str b => a == b
  | .nil, .nil => true
  | .list a, .list b => Val.beqList a b
  | .tup a, .tup b => Val.beqList a b
  | .strct a, .strct b => Val.beqFields a b
  | _, _ => false
def Val.beqList : List Val → List Val → Bool
  | [], [] => true
  | a :: as, b :: bs => Val.beq a b && Val.beqList as bs
  | _, _ => false
def Val.beqFields : List (String × Val) → List (String × Val) → Bool
  | [], [] => true
  | (k, a) :: as, (k', b) :: bs => k == k' && Val.beq a b && Val.beqFields as bs
  | _, _ => false
end

abbrev Env := List (String × Val)

inductive Flow where
  | next | brk | cont
  | ret (vals : List Val)
deriving Inhabited

def Env.get? (e : Env) (k : String) : Option Val :=
  match e with
  | [] => none
  | (k', v) :: r => if k' == k then some v else Env.get? r k

def Env.set (e : Env) (k : String) (v : Val) : Option Env :=
  match e with
  | [] => none
  | (k', v') :: r => if k' == k then some ((k, v) :: r) else (Env.set r k v).map ((k', v') :: ·)

def recGet (fs : List (String × Val)) (k : String) : Option Val :=
  match fs with
  | [] => none
  | (k', v) :: r => if k' == k then some v else recGet r k

def recSet (fs : List (String × Val)) (k : String) (v : Val) : List (String × Val) :=
  match fs with
  | [] => [(k, v)]
  | (k', v') :: r => if k' == k then (k, v) :: r else (k', v') :: recSet r k v

def listSet (l : List Val) (i : Nat) (v : Val) : Option (List Val) :=
  if i < l.length then some (l.set i v) else none

def keyStr : Val → String
  | .int i => toString i
  | .str s => s
  | .bool b => toString b
  | _ => "?"

/-- wrap to a signed / unsigned width -/
def wrapU (bits : Nat) (i : Int) : Int := i % (2 ^ bits : Int)
def wrapS (bits : Nat) (i : Int) : Int :=
  let m : Int := 2 ^ bits
  let r := i % m
  if r ≥ m / 2 then r - m else r

def dotted : Expr → String
  | .id n => n
  | .sel x f => dotted x ++ "." ++ f
  | .star x => dotted x
  | _ => "?"

/-- split a character list at dots (structural, so that it reduces in the kernel) -/
def splitDots : List Char → List Char → List (List Char)
  | [], cur => [cur.reverse]
  | c :: r, cur => if c == '.' then cur.reverse :: splitDots r [] else splitDots r (c :: cur)

/-- the selector chain named by a dotted path ("v1.cpu") -/
def pathExpr (p : String) : Expr :=
  match (splitDots p.toList []).map String.ofList with
  | [] => .id p
  | r :: fs => fs.foldl (fun e f => Expr.sel e f) (.id r)

def rootId : Expr → String
  | .id n => n
  | .sel x _ => rootId x
  | .star x => rootId x
  | _ => ""

def truthy : Val → Except String Bool
  | .bool b => .ok b
  | .nil => .ok false
  | v => .error s!"not a bool: {repr v}"

def binop (op : String) (a b : Val) : Except String Val :=
  match op, a, b with
  | "+", .int x, .int y => .ok (.int (x + y))
  | "-", .int x, .int y => .ok (.int (x - y))
  | "*", .int x, .int y => .ok (.int (x * y))
  | "/", .int x, .int y => if y = 0 then .error "div0" else .ok (.int (Int.tdiv x y))
  | "%", .int x, .int y => if y = 0 then .error "div0" else .ok (.int (Int.tmod x y))
  | "&", .int x, .int y => .ok (.int (Int.ofNat (x.toNat &&& y.toNat)))
  | "|", .int x, .int y => .ok (.int (Int.ofNat (x.toNat ||| y.toNat)))
  | "<<", .int x, .int y => .ok (.int (x * (2 : Int) ^ y.toNat))
  | ">>", .int x, .int y => .ok (.int (x / (2 : Int) ^ y.toNat))
  | "<", .int x, .int y => .ok (.bool (x < y))
  | "<=", .int x, .int y => .ok (.bool (x ≤ y))
  | ">", .int x, .int y => .ok (.bool (x > y))
  | ">=", .int x, .int y => .ok (.bool (x ≥ y))
  | "+", .str x, .str y => .ok (.str (x ++ y))
  | "==", x, y => .ok (.bool (Val.beq x y))
  | "!=", x, y => .ok (.bool (!Val.beq x y))
  | o, x, y => .error s!"binop {o} on {repr x}, {repr y}"

structure Cfg (W : Type) where
  /-- external / opaque calls by dotted callee name -/
  ext : String → List Val → Env → W → Except String (Val × W)
  /-- global identifiers (package constants) not found in the environment -/
  glob : String → Option Val
  /-- the world says execution stopped (a call that never returns, e.g. childExitError) -/
  halted : W → Bool := fun _ => false
  /-- writes through pointers requested by the last external call: (variable, value) pairs -/
  flush : W → List (String × Val) × W := fun w => ([], w)
  /-- opt-in: `&x.f` is a reference to that field (`*p = v` writes it, `*p` reads it) and a field that was never
  set reads as nil (Go's zero value of a pointer / slice field).  Off: `&e` is the value of `e`. -/
  fieldRefs : Bool := false

variable {W : Type}

def conv (name : String) (v : Val) : Option Val :=
  match name, v with
  | "int", .int i | "int64", .int i => some (.int (wrapS 64 i))
  | "uint", .int i | "uint64", .int i | "uintptr", .int i => some (.int (wrapU 64 i))
  | "int32", .int i => some (.int (wrapS 32 i))
  | "uint32", .int i => some (.int (wrapU 32 i))
  | "uint16", .int i => some (.int (wrapU 16 i))
  | "int16", .int i => some (.int (wrapS 16 i))
  | "uint8", .int i | "byte", .int i => some (.int (wrapU 8 i))
  | _, _ => none

mutual
def evalE (cfg : Cfg W) : Nat → Expr → Env → W → Except String (Val × W)
  | 0, _, _, _ => .error "fuel"
  | fuel + 1, e, env, w =>
    match e with
    | .lit n => .ok (.int n, w)
    | .str s => .ok (.str s, w)
    | .id "true" => .ok (.bool true, w)
    | .id "false" => .ok (.bool false, w)
    | .id "nil" => .ok (.nil, w)
    | .id n =>
      match env.get? n with
      | some v => .ok (v, w)
      | none => match cfg.glob n with
        | some v => .ok (v, w)
        | none => .error s!"unbound {n}"
    | .star x => do
      let (v, w) ← evalE cfg fuel x env w
      match cfg.fieldRefs, v with
      | true, .strct [("#ref", .str p)] => evalE cfg fuel (pathExpr p) env w
      | _, _ => .ok (v, w)
    | .sel x f =>
      -- a selector chain rooted at a bound variable is a field access; otherwise a package-level name
      match env.get? (rootId x) with
      | some _ => do
        let (xv, w) ← evalE cfg fuel x env w
        match xv with
        | .strct fs => match recGet fs f with
          | some v => .ok (v, w)
          | none => if cfg.fieldRefs then .ok (.nil, w) else .error s!"no field {f}"
        | _ => .error s!"select {f} of non-record ({dotted e})"
      | none => match cfg.glob (dotted e) with
        | some v => .ok (v, w)
        | none => .error s!"unbound {dotted e}"
    | .un "!" a => do
      let (v, w) ← evalE cfg fuel a env w
      .ok (.bool (!(← truthy v)), w)
    | .un "-" a => do
      let (v, w) ← evalE cfg fuel a env w
      match v with | .int i => .ok (.int (-i), w) | _ => .error "neg"
    | .un "&" (.id n) =>
      -- address of a variable: a reference the external world may write through (see `flush`)
      match env.get? n with
      | some _ => .ok (.strct [("#ref", .str n)], w)
      | none => match cfg.glob n with
        | some v => .ok (v, w)
        | none => .error s!"unbound &{n}"
    | .un "&" (.sel x f) =>
      match cfg.fieldRefs, env.get? (rootId x) with
      | true, some _ => .ok (.strct [("#ref", .str (dotted (.sel x f)))], w)
      | _, _ => evalE cfg fuel (.sel x f) env w
    | .un "&" a => evalE cfg fuel a env w
    | .un "^" (.call (.id ty) [x]) => do
      -- bitwise complement of an unsigned conversion: the width is the conversion's
      let (v, w) ← evalE cfg fuel (.call (.id ty) [x]) env w
      let bits : Option Nat := match ty with
        | "uint64" | "uint" | "uintptr" => some 64 | "uint32" => some 32 | "uint16" => some 16 | "uint8" | "byte" => some 8 | _ => none
      match v, bits with
      | .int i, some n => .ok (.int ((2 : Int) ^ n - 1 - i), w)
      | _, _ => .error "complement of a non-unsigned conversion"
    | .un op _ => .error s!"unop {op}"
    | .bin "&&" a b => do
      let (va, w) ← evalE cfg fuel a env w
      if ← truthy va then
        let (vb, w) ← evalE cfg fuel b env w
        .ok (.bool (← truthy vb), w)
      else .ok (.bool false, w)
    | .bin "||" a b => do
      let (va, w) ← evalE cfg fuel a env w
      if ← truthy va then .ok (.bool true, w)
      else
        let (vb, w) ← evalE cfg fuel b env w
        .ok (.bool (← truthy vb), w)
    | .bin op a b => do
      let (va, w) ← evalE cfg fuel a env w
      let (vb, w) ← evalE cfg fuel b env w
      .ok (← binop op va vb, w)
    | .idx a i => do
      let (va, w) ← evalE cfg fuel a env w
      let (vi, w) ← evalE cfg fuel i env w
      match va, vi with
      | .list l, .int k =>
        if 0 ≤ k ∧ k.toNat < l.length then .ok (l.getD k.toNat .nil, w)
        else .error s!"panic: index out of range [{k}] with length {l.length}"
      | .strct fs, k => .ok ((recGet fs (keyStr k)).getD .nil, w)
      | .str s, .int k =>
        -- byte of an (ASCII) string
        if 0 ≤ k ∧ k.toNat < s.length then .ok (.int (s.toList.getD k.toNat ' ').toNat, w)
        else .error s!"panic: index out of range [{k}] with length {s.length}"
      | .nil, _ => .ok (.nil, w)
      | _, _ => .error "index"
    | .slice a lo hi => do
      let (va, w) ← evalE cfg fuel a env w
      match va with
      | .list l =>
        let (lov, w) ← match lo with
          | some x => do let (v, w) ← evalE cfg fuel x env w; pure (v, w)
          | none => pure (Val.int 0, w)
        let (hiv, w) ← match hi with
          | some x => do let (v, w) ← evalE cfg fuel x env w; pure (v, w)
          | none => pure (Val.int l.length, w)
        match lov, hiv with
        | .int lo, .int hi =>
          if 0 ≤ lo ∧ lo ≤ hi ∧ hi.toNat ≤ l.length then .ok (.list ((l.drop lo.toNat).take (hi.toNat - lo.toNat)), w)
          else .error s!"panic: slice bounds out of range [{lo}:{hi}] with capacity {l.length}"
        | _, _ => .error "slice bounds"
      | .str s =>
        let (lov, w) ← match lo with
          | some x => do let (v, w) ← evalE cfg fuel x env w; pure (v, w)
          | none => pure (Val.int 0, w)
        let (hiv, w) ← match hi with
          | some x => do let (v, w) ← evalE cfg fuel x env w; pure (v, w)
          | none => pure (Val.int s.length, w)
        match lov, hiv with
        | .int lo, .int hi =>
          if 0 ≤ lo ∧ lo ≤ hi ∧ hi.toNat ≤ s.length then .ok (.str (String.ofList ((s.toList.drop lo.toNat).take (hi.toNat - lo.toNat))), w)
          else .error s!"panic: slice bounds out of range [{lo}:{hi}] with length {s.length}"
        | _, _ => .error "slice bounds"
      | _ => .error "slice of non-list"
    | .call (.sel (.call g gargs) m) args => do
      -- a method called on the result of a call: evaluate the receiver, pass it first
      let (rv, w) ← evalE cfg fuel (.call g gargs) env w
      let (vs, w) ← evalArgs cfg fuel args env w
      cfg.ext ("#." ++ m) (rv :: vs) env w
    | .call f args => do
      let (vs, w) ← evalArgs cfg fuel args env w
      let name := dotted f
      match name, vs with
      | "len", [.list l] => .ok (.int l.length, w)
      | "len", [.str s] => .ok (.int s.utf8ByteSize, w)
      | "len", [.nil] => .ok (.int 0, w)
      | "append", (.list l) :: rest => .ok (.list (l ++ rest), w)
      | "append", .nil :: rest => .ok (.list rest, w)
      | "append...", [.list l, .list m] => .ok (.list (l ++ m), w)
      | "append...", [.nil, .list m] => .ok (.list m, w)
      | "append...", [.list l, .nil] => .ok (.list l, w)
      | "#array", [.int n] => .ok (.list (List.replicate n.toNat .nil), w)
      | "make", [.str ty, .int n] => .ok (.list (List.replicate n.toNat (if ty == "[]string" then .str "" else .int 0)), w)
      | "make", [.str ty, .int n, .int _] => .ok (.list (List.replicate n.toNat (if ty == "[]string" then .str "" else .int 0)), w)
      | _, _ =>
        match vs with
        | [v] => match conv name v with
          | some r => .ok (r, w)
          | none => cfg.ext name vs env w
        | _ => cfg.ext name vs env w
    | .comp _ elts => do
      let (vs, w) ← evalArgs cfg fuel (elts.map (·.2)) env w
      if elts.all (fun e => e.1 != "") then .ok (.strct ((elts.map (·.1)).zip vs), w)
      else .ok (.list vs, w)
    | .other s => .error s!"unsupported expression: {s}"

def evalArgs (cfg : Cfg W) : Nat → List Expr → Env → W → Except String (List Val × W)
  | 0, _, _, _ => .error "fuel"
  | _ + 1, [], _, w => .ok ([], w)
  | fuel + 1, a :: rest, env, w => do
    let (v, w) ← evalE cfg fuel a env w
    let (vs, w) ← evalArgs cfg fuel rest env w
    .ok (v :: vs, w)
end

/-- assign `v` to an lvalue expression (identifier, field chain, index). -/
def assignTo (cfg : Cfg W) (fuel : Nat) : Nat → Expr → Val → Env → W → Except String (Env × W)
  | 0, _, _, _, _ => .error "fuel"
  | d + 1, lhs, v, env, w =>
    match lhs with
    | .id "_" => .ok (env, w)
    | .id n => match env.set n v with
      | some env' => .ok (env', w)
      | none => .error s!"assign to unbound {n}"
    | .star x =>
      if cfg.fieldRefs then do
        let (pv, w) ← evalE cfg fuel x env w
        match pv with
        | .strct [("#ref", .str p)] => assignTo cfg fuel d (pathExpr p) v env w
        | _ => assignTo cfg fuel d x v env w
      else assignTo cfg fuel d x v env w
    | .sel x f => do
      let (xv, w) ← evalE cfg fuel x env w
      match xv with
      | .strct fs => assignTo cfg fuel d x (.strct (recSet fs f v)) env w
      | _ => .error s!"field assign on non-record {dotted x}"
    | .idx a i => do
      let (av, w) ← evalE cfg fuel a env w
      let (iv, w) ← evalE cfg fuel i env w
      match av, iv with
      | .list l, .int k =>
        if 0 ≤ k then match listSet l k.toNat v with
          | some l' => assignTo cfg fuel d a (.list l') env w
          | none => .error s!"panic: index out of range [{k}] with length {l.length}"
        else .error "panic: negative index"
      | .strct fs, k => assignTo cfg fuel d a (.strct (recSet fs (keyStr k) v)) env w
      | .nil, _ => .error "panic: assignment to entry in nil map"
      | _, _ => .error "index assign"
    | _ => .error "bad lvalue"

def popTo (env : Env) (n : Nat) : Env := env.drop (env.length - n)

mutual
def exec (cfg : Cfg W) (results : List String) : Nat → Stmt → Env → W → Except String (Env × W × Flow)
  | 0, _, _, _ => .error "fuel"
  | fuel + 1, s, env, w =>
    match s with
    | .other t => .error s!"unsupported statement: {t}"
    | .brk => .ok (env, w, .brk)
    | .cont => .ok (env, w, .cont)
    | .expr (.call (.id "delete") [m, k]) => do
      let (mv, w) ← evalE cfg fuel m env w
      let (kv, w) ← evalE cfg fuel k env w
      match mv with
      | .strct fs => do
        let (env, w) ← assignTo cfg fuel fuel m (.strct (fs.filter (fun p => p.1 != keyStr kv))) env w
        .ok (env, w, .next)
      | .nil => .ok (env, w, .next)
      | _ => .error "delete on non-map"
    | .expr e => do
      let (_, w) ← evalE cfg fuel e env w
      .ok (env, w, .next)
    | .decl names vals => do
      let (vs, w) ← evalArgs cfg fuel vals env w
      let vs := if vals.isEmpty then names.map (fun _ => Val.nil) else vs
      .ok ((names.zip vs).reverse ++ env, w, .next)
    | .incdec x tok => do
      let (v, w) ← evalE cfg fuel x env w
      match v with
      | .int i => do
        let (env, w) ← assignTo cfg fuel fuel x (.int (if tok == "++" then i + 1 else i - 1)) env w
        .ok (env, w, .next)
      | _ => .error "incdec"
    | .assign lhs tok rhs => do
      -- `v, ok := m[k]`: the comma-ok form of a map read
      let (vs, w) ← match lhs, rhs with
        | [_, _], [.idx a i] => do
          let (av, w) ← evalE cfg fuel a env w
          let (iv, w) ← evalE cfg fuel i env w
          match av with
          | .strct fs => match recGet fs (keyStr iv) with
            | some v => pure ([v, Val.bool true], w)
            | none => pure ([Val.nil, Val.bool false], w)
          | .nil => pure ([Val.nil, Val.bool false], w)
          | _ => .error "comma-ok read of a non-map"
        | _, _ => evalArgs cfg fuel rhs env w
      -- a single call returning a tuple spreads over several targets
      let vs := match vs, lhs with
        | [.tup l], _ :: _ :: _ => l
        | _, _ => vs
      if vs.length ≠ lhs.length then .error s!"assign arity {lhs.length} vs {vs.length}" else
      if tok == ":=" then
        let names := lhs.map dotted
        let bind := (names.zip vs).filter (fun p => p.1 != "_")
        .ok (bind.reverse ++ env, w, .next)
      else if tok == "=" then do
        let (env, w) ← assignAll cfg fuel fuel (lhs.zip vs) env w
        .ok (env, w, .next)
      else
        match lhs, vs with
        | [l], [v] => do
          let (cur, w) ← evalE cfg fuel l env w
          let r ← binop (tok.dropEnd 1).toString cur v
          let (env, w) ← assignTo cfg fuel fuel l r env w
          .ok (env, w, .next)
        | _, _ => .error "compound assign arity"
    | .ret vals => do
      if vals.isEmpty then
        let vs ← results.mapM (fun r => match env.get? r with
          | some v => .ok v
          | none => .error s!"result {r} unbound")
        .ok (env, w, .ret vs)
      else
        let (vs, w) ← evalArgs cfg fuel vals env w
        let vs := match vs with
          | [.tup l] => l
          | _ => vs
        .ok (env, w, .ret vs)
    | .block b => do
      let n := env.length
      let (env, w, fl) ← execList cfg results fuel b env w
      .ok (popTo env n, w, fl)
    | .ifs init cond thn els => do
      let n := env.length
      let (env, w, fl) ← execList cfg results fuel init env w
      match fl with
      | .next => do
        let (c, w) ← evalE cfg fuel cond env w
        let (env, w, fl) ← execList cfg results fuel (if ← truthy c then thn else els) env w
        .ok (popTo env n, w, fl)
      | _ => .error "flow in if-init"
    | .switch init tag cases => do
      let n := env.length
      let (env, w, _) ← execList cfg results fuel init env w
      let (tv, w) ← match tag with
        | some t => do let (v, w) ← evalE cfg fuel t env w; pure (some v, w)
        | none => pure (none, w)
      let (body, w) ← pickCase cfg fuel tv (cases.filter (fun c => !c.1.isEmpty)) env w
      let body := match body with
        | some b => b
        | none => match cases.find? (fun c => c.1.isEmpty) with
          | some c => c.2
          | none => []
      let (env, w, fl) ← execList cfg results fuel body env w
      let fl := match fl with | .brk => Flow.next | f => f
      .ok (popTo env n, w, fl)
    | .for_ init cond post body => do
      let n := env.length
      let (env, w, _) ← execList cfg results fuel init env w
      let (env, w, fl) ← loopFor cfg results fuel cond post body env w
      .ok (popTo env n, w, fl)
    | .range key val x body => do
      let (xv, w) ← evalE cfg fuel x env w
      let items : List (Val × Val) ← match xv with
        | .list l => pure ((List.range l.length).map (fun (i : Nat) => (Val.int (Int.ofNat i), l.getD i .nil)))
        | .int k => pure ((List.range k.toNat).map (fun (i : Nat) => (Val.int (Int.ofNat i), Val.int (Int.ofNat i))))
        | .nil => pure []
        | _ => .error "range over unsupported value"
      loopRange cfg results fuel key val items body env w

def execList (cfg : Cfg W) (results : List String) : Nat → List Stmt → Env → W → Except String (Env × W × Flow)
  | 0, _, _, _ => .error "fuel"
  | _ + 1, [], env, w => .ok (env, w, .next)
  | fuel + 1, s :: rest, env, w => do
    if cfg.halted w then .ok (env, w, .ret []) else
    let (env, w, fl) ← exec cfg results fuel s env w
    let (writes, w) := cfg.flush w
    let env := writes.foldl (fun e p => (e.set p.1 p.2).getD e) env
    if cfg.halted w then .ok (env, w, .ret []) else
    match fl with
    | .next => execList cfg results fuel rest env w
    | f => .ok (env, w, f)

def assignAll (cfg : Cfg W) (fuel : Nat) : Nat → List (Expr × Val) → Env → W → Except String (Env × W)
  | 0, _, _, _ => .error "fuel"
  | _ + 1, [], env, w => .ok (env, w)
  | d + 1, (l, v) :: rest, env, w => do
    let (env, w) ← assignTo cfg fuel fuel l v env w
    assignAll cfg fuel d rest env w

def pickCase (cfg : Cfg W) : Nat → Option Val → List (List Expr × List Stmt) → Env → W → Except String (Option (List Stmt) × W)
  | 0, _, _, _, _ => .error "fuel"
  | _ + 1, _, [], _, w => .ok (none, w)
  | fuel + 1, tv, (es, body) :: rest, env, w => do
    let (hit, w) ← anyMatch cfg fuel tv es env w
    if hit then .ok (some body, w) else pickCase cfg fuel tv rest env w

def anyMatch (cfg : Cfg W) : Nat → Option Val → List Expr → Env → W → Except String (Bool × W)
  | 0, _, _, _, _ => .error "fuel"
  | _ + 1, _, [], _, w => .ok (false, w)
  | fuel + 1, tv, e :: rest, env, w => do
    let (v, w) ← evalE cfg fuel e env w
    let hit ← match tv with
      | some t => pure (Val.beq t v)
      | none => truthy v
    if hit then .ok (true, w) else anyMatch cfg fuel tv rest env w

def loopFor (cfg : Cfg W) (results : List String) : Nat → Option Expr → List Stmt → List Stmt → Env → W → Except String (Env × W × Flow)
  | 0, _, _, _, _, _ => .error "fuel"
  | fuel + 1, cond, post, body, env, w => do
    let (go, w) ← match cond with
      | some c => do let (v, w) ← evalE cfg fuel c env w; pure (← truthy v, w)
      | none => pure (true, w)
    if !go then .ok (env, w, .next) else
    let n := env.length
    let (env, w, fl) ← execList cfg results fuel body env w
    let env := popTo env n
    match fl with
    | .brk => .ok (env, w, .next)
    | .ret vs => .ok (env, w, .ret vs)
    | _ => do
      let (env, w, _) ← execList cfg results fuel post env w
      loopFor cfg results fuel cond post body env w

def loopRange (cfg : Cfg W) (results : List String) : Nat → String → String → List (Val × Val) → List Stmt → Env → W → Except String (Env × W × Flow)
  | 0, _, _, _, _, _, _ => .error "fuel"
  | _ + 1, _, _, [], _, env, w => .ok (env, w, .next)
  | fuel + 1, key, val, (k, v) :: rest, body, env, w => do
    let n := env.length
    -- `for i, x = range` (assignment form, key/val prefixed with '=') updates outer variables
    let (env1, bound) : Env × Bool :=
      if key.startsWith "=" || val.startsWith "=" then
        let e1 := if key != "" && key != "=_" then (env.set (key.drop 1).toString k).getD env else env
        let e2 := if val != "" && val != "=_" then (e1.set (val.drop 1).toString v).getD e1 else e1
        (e2, false)
      else
        ((if val != "" && val != "_" then [(val, v)] else []) ++ (if key != "" && key != "_" then [(key, k)] else []) ++ env, true)
    let (env2, w, fl) ← execList cfg results fuel body env1 w
    let env3 := if bound then popTo env2 n else popTo env2 n
    match fl with
    | .brk => .ok (env3, w, .next)
    | .ret vs => .ok (env3, w, .ret vs)
    | _ => loopRange cfg results fuel key val rest body env3 w
end

/-- run a statement list in a given environment; `some vs` = an explicit `return` was executed
(bare `return` yields the named results), `none` = control fell off the end. -/
def runBody (cfg : Cfg W) (results : List String) (body : List Stmt) (env : Env) (w : W) (fuel : Nat := 100000) :
    Except String (Option (List Val) × Env × W) := do
  let (env, w, fl) ← execList cfg results fuel body env w
  match fl with
  | .ret vs => .ok (some vs, env, w)
  | _ => .ok (none, env, w)

/-- run a translated function on argument values. -/
def runFunc (cfg : Cfg W) (f : Func) (args : List Val) (extraEnv : Env) (w : W) (fuel : Nat := 100000) :
    Except String (List Val × W) := do
  let env : Env := (f.results.map (fun r => (r, Val.nil))) ++ (f.params.zip args).reverse ++ extraEnv
  let (env, w, fl) ← execList cfg f.results fuel f.body env w
  match fl with
  | .ret vs => .ok (vs, w)
  | _ =>
    let vs ← f.results.mapM (fun r => match env.get? r with
      | some v => .ok v
      | none => .error s!"result {r} unbound")
    .ok (vs, w)

end GoSandbox.GoLite
