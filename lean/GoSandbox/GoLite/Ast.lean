/-
Go-lite: a deep embedding of the subset of Go that the translated functions use.
Emitted by /verif/extract (go/ast walk, structure preserving); interpreted by GoLite/Exec.lean.
Core-only.
-/
namespace GoSandbox.GoLite

inductive Expr where
  | id (name : String)
  | sel (x : Expr) (field : String)
  | lit (n : Int)
  | str (s : String)
  | bin (op : String) (a b : Expr)
  | un (op : String) (a : Expr)
  | call (f : Expr) (args : List Expr)
  | idx (a i : Expr)
  | slice (a : Expr) (lo hi : Option Expr)
  | comp (ty : String) (elts : List (String × Expr))
  | star (a : Expr)
  | other (s : String)
deriving Repr, Inhabited

inductive Stmt where
  | assign (lhs : List Expr) (tok : String) (rhs : List Expr)
  | decl (names : List String) (vals : List Expr)
  | incdec (x : Expr) (tok : String)
  | expr (e : Expr)
  | ifs (init : List Stmt) (cond : Expr) (thn : List Stmt) (els : List Stmt)
  | for_ (init : List Stmt) (cond : Option Expr) (post : List Stmt) (body : List Stmt)
  | range (key val : String) (x : Expr) (body : List Stmt)
  | switch (init : List Stmt) (tag : Option Expr) (cases : List (List Expr × List Stmt))
  | ret (vals : List Expr)
  | brk
  | cont
  | block (b : List Stmt)
  | other (s : String)
deriving Repr, Inhabited

structure Func where
  name : String
  params : List String
  results : List String
  body : List Stmt
deriving Repr, Inhabited

end GoSandbox.GoLite
