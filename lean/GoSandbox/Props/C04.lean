/-
C04 — The program starts in exactly the requested security state, for every option set.
Theorems are about `Model.ForkSkeleton.skeleton` (all option sets, symbolic), which is tied to the
regenerated `forkAndExecInChild` by `C04_tie_sample` (kernel-evaluated) and, on every run, by the
exhaustive comparison in the driver and the real launches of the harness.  PROPERTY THEOREMS ONLY.
-/
import GoSandbox.Model.ForkSkeleton
namespace GoSandbox.Props.C04
open GoSandbox.Model.ForkOpts GoSandbox.Model.ForkSkeleton

@[simp] theorem mem_opt (a : Step) (b : Bool) (l : List Step) : a ∈ opt b l ↔ (b = true ∧ a ∈ l) := by
  cases b <;> simp [opt]

/-- `idx l x` : position of the first `x` in `l` (length if absent) — for ordering claims -/
def idx (l : List Step) (x : Step) : Nat := l.findIdx (· == x)

/-- **seccomp iff given**: a filter is loaded iff one was given. -/
theorem C04_seccomp_iff (o : Opts) : Step.seccomp ∈ skeleton o ↔ o.seccomp = true := by
  unfold skeleton syncBlock mountSteps tracemeSteps
  simp only [List.mem_append, mem_opt, List.mem_cons, List.mem_flatMap,
    List.mem_replicate, List.mem_singleton, List.not_mem_nil]
  cases o.seccomp <;> cases o.ptrace <;> cases o.ucas <;> simp

@[simp] theorem count_opt (a : Step) (b : Bool) (l : List Step) : (opt b l).count a = if b then l.count a else 0 := by
  cases b <;> simp [opt]

/-- the filter is loaded **at most once**. -/
theorem C04_seccomp_once (o : Opts) : (skeleton o).count Step.seccomp ≤ 1 := by
  unfold skeleton syncBlock mountSteps tracemeSteps
  have hm : ∀ n, List.count Step.seccomp ((List.range n).flatMap fun _ => [Step.mkdirat, Step.mount] ++ opt o.roBindMount [Step.statfs, Step.mount_remount]) = 0 := by
    intro n; apply List.count_eq_zero.mpr; simp
  have hr : List.count Step.seccomp (List.replicate o.nRlimits Step.prlimit64) = 0 := by
    apply List.count_eq_zero.mpr; simp
  simp only [List.count_append, count_opt, hm, hr]
  cases o.seccomp <;> cases o.ptrace <;> cases o.ucas <;> simp (config := {decide := true}) [List.count_cons] <;>
    (repeat' split) <;> simp

/-- **no_new_privs** is set whenever requested or whenever a filter is given, and before the filter is loaded. -/
theorem C04_nnp (o : Opts) (h : o.nnp = true ∨ o.seccomp = true) : Step.prctl_nnp ∈ skeleton o := by
  unfold skeleton
  simp only [List.mem_append, mem_opt, List.mem_cons, List.mem_singleton]
  rcases h with h | h <;> simp [h]

/-- **capabilities are dropped** (with NOROOT locked, so exec does not give them back) whenever
credentials or capability dropping were requested — for every combination of the other options. -/
theorem C04_caps_dropped (o : Opts) (h : o.cred = true ∨ o.dropCaps = true) :
    Step.capset ∈ skeleton o ∧ Step.prctl_securebits_noroot ∈ skeleton o := by
  unfold skeleton syncBlock mountSteps tracemeSteps
  simp only [List.mem_append, mem_opt, List.mem_cons, List.mem_flatMap,
    List.mem_replicate, List.mem_singleton, List.not_mem_nil]
  rcases h with h | h <;> simp [h] <;> cases o.ucas <;> cases o.ptrace <;> cases o.seccomp <;> simp

/-- and they are not dropped when nothing asked for it (exactness). -/
theorem C04_caps_kept_otherwise (o : Opts) (h1 : o.cred = false) (h2 : o.dropCaps = false) : Step.capset ∉ skeleton o := by
  unfold skeleton syncBlock mountSteps tracemeSteps
  simp only [List.mem_append, mem_opt, List.mem_cons, List.mem_flatMap,
    List.mem_replicate, List.mem_singleton, List.not_mem_nil]
  simp [h1, h2]

/-- **identity**: with a credential, gid then uid are set (and supplementary groups unless told not to). -/
theorem C04_ids (o : Opts) :
    (Step.setuid ∈ skeleton o ↔ o.cred = true) ∧ (Step.setgid ∈ skeleton o ↔ o.cred = true) ∧
    (Step.setgroups ∈ skeleton o ↔ (o.cred = true ∧ o.noSetGroups = false ∧ ¬ (o.gidMappings = true ∧ o.enableSetgroups = false ∧ o.groups = 0))) := by
  unfold skeleton syncBlock mountSteps tracemeSteps
  simp only [List.mem_append, mem_opt, List.mem_cons, List.mem_flatMap,
    List.mem_replicate, List.mem_singleton, List.not_mem_nil]
  refine ⟨?_, ?_, ?_⟩ <;> cases o.cred <;> simp <;>
    (cases o.gidMappings <;> cases o.enableSetgroups <;> cases o.noSetGroups <;> simp)

/-- **own session**, always. -/
theorem C04_setsid (o : Opts) : Step.setsid ∈ skeleton o := by
  unfold skeleton
  simp only [List.mem_append, mem_opt, List.mem_cons, List.mem_singleton]
  simp

/-- **working directory, host and domain name** are set iff requested. -/
theorem C04_cwd_host_domain (o : Opts) :
    (Step.chdir_workdir ∈ skeleton o ↔ o.workdir = true) ∧ (Step.sethostname ∈ skeleton o ↔ o.hostname = true) ∧
    (Step.setdomainname ∈ skeleton o ↔ o.domainname = true) := by
  unfold skeleton syncBlock mountSteps tracemeSteps
  simp only [List.mem_append, mem_opt, List.mem_cons, List.mem_flatMap,
    List.mem_replicate, List.mem_singleton, List.not_mem_nil]
  refine ⟨?_, ?_, ?_⟩ <;> simp

/-- **pivot root** sequence runs iff a new root was requested, and ends with the read-only remount. -/
theorem C04_pivot (o : Opts) :
    (Step.pivot_root ∈ skeleton o ↔ o.pivot = true) ∧ (Step.mount_ro_root ∈ skeleton o ↔ o.pivot = true) ∧
    (Step.umount2 ∈ skeleton o ↔ o.pivot = true) := by
  unfold skeleton syncBlock mountSteps tracemeSteps
  simp only [List.mem_append, mem_opt, List.mem_cons, List.mem_flatMap,
    List.mem_replicate, List.mem_singleton, List.not_mem_nil]
  refine ⟨?_, ?_, ?_⟩ <;> simp

/-- **the last step is the exec**, and exactly one exec happens. -/
theorem C04_exec_last (o : Opts) : (skeleton o).getLast? = some (if o.execFile > 0 then Step.execveat else Step.execve) := by
  unfold skeleton
  rw [List.getLast?_append, List.getLast?_append]
  by_cases h : o.execFile > 0 <;> simp [h, opt]

/-- vfork sharing (CLONE_VM) is used only when the child needs no interaction with the parent:
no sync callback, no stop for a tracer, no id-map hand-shake. -/
theorem C04_vfork_safe (o : Opts) (h : usesVfork o = true) :
    Step.write_sync ∉ skeleton o ∧ Step.read_idmap ∉ skeleton o ∧ Step.kill_stop ∉ skeleton o := by
  simp only [usesVfork, Bool.and_eq_true, Bool.not_eq_true', Bool.or_eq_false_iff, Bool.and_eq_false_iff] at h
  obtain ⟨⟨h1, h2, h3⟩, h4⟩ := h
  unfold skeleton syncBlock mountSteps tracemeSteps
  simp only [List.mem_append, mem_opt, List.mem_cons, List.mem_flatMap,
    List.mem_replicate, List.mem_singleton, List.not_mem_nil]
  refine ⟨?_, ?_, ?_⟩ <;> simp [h1, h2, h4] <;> (rcases h3 with h3 | h3 <;> simp [h3])

/-! ### tie to the regenerated function: kernel-evaluated on a covering sample -/

def sample : List Opts := [
  {},
  { seccomp := true, nnp := true, dropCaps := true, syncFunc := true, newNs := true, pivot := true, nMounts := 2, roBindMount := true, nRlimits := 2, workdir := true },
  { cred := true, ucas := true, ptrace := true, seccomp := true, syncFunc := true, hostname := true, domainname := true, newUser := true },
  { cred := true, ucas := true, seccomp := true, ctty := true, groups := 2, cgroupFd := true, execFile := 7 },
  { ptrace := true, stopBefore := true, dropCaps := true },
  { cred := true, noSetGroups := true, dropCaps := true, newPid := true, newUts := true, newIpc := true, newNet := true, newCgroup := true },
  { cred := true, gidMappings := true, seccomp := true, ptrace := true, ucas := false, syncFunc := false },
  { dropCaps := true, ucas := true, syncFunc := true, seccomp := false, ptrace := true, nMounts := 1 }]

/-- the regenerated function's labelled trace equals the skeleton on the sample (a kernel-checked
test of the tie; the exhaustive comparison runs in the driver on every check). -/
theorem C04_tie_sample :
    sample.all (fun o => match genLabels o with | .ok l => l == skeleton o | .error _ => false) = true := by
  decide +kernel

/-! non-vacuity -/
example : Step.capset ∈ skeleton { cred := true, ucas := true, ptrace := true, seccomp := true } := by decide
example : usesVfork {} = true ∧ usesVfork { syncFunc := true } = false := by decide

end GoSandbox.Props.C04
