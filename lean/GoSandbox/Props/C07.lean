/-
C07 — Sync gate: no target code before approval; failed launches never run, no child left.
Child side: the regenerated forkAndExecInChild (syntactic theorem on the whole AST + kernel-
evaluated fault injection on a sample; the driver injects a fault at *every* step of sampled /
all option sets on every run).  Parent side: hand model Model/SyncParent.lean, all inputs.
PROPERTY THEOREMS ONLY.
-/
import GoSandbox.Model.ForkChecked
import GoSandbox.Model.ForkFail
import GoSandbox.Model.SyncParent
import GoSandbox.Gen.ForkChild
import GoSandbox.Gen.C17
namespace GoSandbox.Props.C07
open GoSandbox.Model.ForkChecked GoSandbox.Model.ForkFail GoSandbox.Model.ForkSkeleton GoSandbox.Model.ForkOpts
open GoSandbox.Model.SyncParent

/-- **every launch step is checked**: in the regenerated `forkAndExecInChild` every raw syscall
that keeps its errno is immediately followed by `if err1 … { childExitError… }`, and the only raw
syscalls whose result is dropped are sethostname, setdomainname, unshare(CLONE_NEWCGROUP), the
close of a "close this slot" entry and the ETXTBSY back-off sleep.  (Whole AST, every path.) -/
theorem C07_every_step_checked : scanList Gen.ForkChild.forkAndExecInChild.body = [] := by
  decide +kernel

/-- both exit helpers write the ChildError on the sync socket and then exit — in that order. -/
theorem C07_exit_helpers :
    [Gen.ForkChild.childExitError, Gen.ForkChild.childExitErrorWithIndex].all (fun f =>
      match f.body with
      | [.assign _ ":=" [.comp "ChildError" _], .expr (.call _ ((.sel _ "SYS_WRITE") :: _)), .for_ [] none [] [.expr (.call _ ((.sel _ "SYS_EXIT") :: _))]] => true
      | _ => false) = true := by decide +kernel

def faultOpts : Opts :=
  { cred := true, dropCaps := true, nnp := true, seccomp := true, syncFunc := true, ucas := true, newNs := true, workdir := true, nRlimits := 2, hostname := true }

/-- **a failure at any step never execs, exits with the errno and reports (errno, location, index)**
— kernel-evaluated for every step k of one rich option set (credential, late cgroup unshare,
seccomp, sync callback, rlimits…); the ignorable steps continue to the exec. -/
theorem C07_fail_never_execs_sample :
    ((List.range (skeleton faultOpts).length).drop 1).all (fun k => failOk faultOpts k 13) = true := by
  decide +kernel

/-- **parent**: whenever the launch is reported as failed, the child has been killed and reaped
before the call returns and both ends of the sync socket are closed; for every configuration and
every pair of messages. -/
theorem C07_reaped (c : Cfg) (cloneErr idmapErr : Nat) (first second : Msg) (syncErr : Bool) :
    let r := syncWithChild c cloneErr idmapErr first syncErr second
    (r.1 ≠ .pid → cloneErr = 0 → (r.2.getLast? = some .wait4 ∧ .kill ∈ r.2 ∧ .closeP0 ∈ r.2 ∧ .closeP1 ∈ r.2)) ∧
    (cloneErr ≠ 0 → r.1 = .childError ⟨cloneErr, locClone, 0⟩ ∧ .closeP0 ∈ r.2 ∧ .closeP1 ∈ r.2) := by
  obtain ⟨uu, hs, er⟩ := c
  simp only [syncWithChild]
  constructor
  · intro h hc
    simp only [hc, ne_eq, not_true_eq_false, if_false] at h ⊢
    cases uu <;> cases hs <;> cases er <;> simp at h ⊢ <;> (repeat' split) <;> (try simp_all)
  · intro hc; simp [hc]

/-- **the callback gates the exec**: the child is only acknowledged after the callback returned
success; a failing callback is followed by kill + wait and never by the acknowledgement. -/
theorem C07_callback_gates (c : Cfg) (idmapErr : Nat) (first second : Msg) (syncErr : Bool) (h : c.hasSyncFunc = true) :
    let r := syncWithChild c 0 idmapErr first syncErr second
    (.ackChild ∈ r.2 → .callSyncFunc ∈ r.2 ∧ syncErr = false) ∧
    (syncErr = true → .ackChild ∉ r.2) := by
  obtain ⟨uu, hs, er⟩ := c
  simp only at h
  subst h
  simp only [syncWithChild]
  cases uu <;> cases er <;> cases syncErr <;> simp <;> (repeat' split) <;> (try simp_all)

/-- **the error names the step**: what the parent returns is the child's report (errno, location,
index), with EPIPE when the child died before it could write a whole errno. -/
theorem C07_error_is_childs (c : Cfg) (idmapErr : Nat) (first second : Msg) (h : c.hasSyncFunc = false) (he : c.earlyReturn = false)
    (hn : second.n = sizeofChildError) :
    (syncWithChild c 0 idmapErr first false second).1 = .childError second.ce := by
  simp [syncWithChild, h, he, hn, handlePipeError, sizeofChildError, sizeofErrno]

/-! non-vacuity -/
example : (skeleton faultOpts).length = 21 := by decide +kernel
example : (syncWithChild ⟨false, true, false⟩ 0 0 ⟨8, ⟨0, 0, 0⟩⟩ true ⟨0, ⟨0, 0, 0⟩⟩) =
    (.otherError, [.closeP1, .callSyncFunc, .closeP0, .kill, .wait4]) := by decide

/-- **the failed launch reaps its own child** (regenerated fact): both `wait4` calls of
`handleChildFailed` name the pid of the child that was just killed — never "any child", which would collect
some other child of the caller and leave this one behind (the hand model `SyncParent` waits for `pid`). -/
theorem C07_gen_reaps_own_child :
    (Gen.C17.waitSites.filter (fun s => s.2.1 == "handleChildFailed")).map (·.2.2) = ["pid", "pid"] := by
  decide +kernel

end GoSandbox.Props.C07
