/-
C17 — Concurrent sandboxes in one process are independent.
Theorems about Model/Concurrent.lean over ALL schedules and any number of runs, for the three
mechanisms the code relies on, plus the structural facts about the regenerated source that
instantiate their hypotheses.  What a theorem cannot carry here — the Go scheduler, the kernel's
fork/wait/ptrace — is exercised by the 16-way concurrent differential (harness).
PROPERTY THEOREMS ONLY (helper lemmas are private).
-/
import GoSandbox.Model.Concurrent
import GoSandbox.Model.ForkFail
namespace GoSandbox.Props.C17
open GoSandbox.Model.Concurrent

/-! ### (A) no run's program inherits another run's descriptor -/

private theorem all_cloexec_inv (evs : List FEv) : ∀ s : FState,
    (∀ f ∈ s.table, f.cloexec = true) → allAtomic evs = true → ∀ f ∈ (frun evs s).table, f.cloexec = true := by
  induction evs with
  | nil => intro s h _; simpa [frun] using h
  | cons e rest ih =>
    intro s h ha
    simp only [allAtomic, List.all_cons, Bool.and_eq_true] at ha
    simp only [frun, List.foldl_cons]
    apply ih
    · cases e with
      | create r i c =>
        simp only [fstep]
        intro f hf
        rcases List.mem_cons.mp hf with h1 | h1
        · subst h1; exact ha.1
        · exact h f h1
      | setCloexec i =>
        simp only [fstep]
        intro f hf
        obtain ⟨g, hg, rfl⟩ := List.mem_map.mp hf
        by_cases hgi : g.id = i
        · simp [hgi]
        · simp [hgi, h g hg]
      | close i =>
        simp only [fstep]
        intro f hf
        exact h f (List.mem_filter.mp hf).1
      | fork r => simpa [fstep] using h
    · simpa [allAtomic] using ha.2

/-- **descriptor isolation**: if every descriptor is created close-on-exec atomically, then for
every schedule of creations, closes and forks of any number of runs, no forked program inherits a
descriptor of another run. -/
theorem C17_no_foreign_descriptors (evs : List FEv) (h : allAtomic evs = true) :
    ∀ e ∈ (frun evs {}).leaked, e.2 = [] := by
  suffices H : ∀ (evs : List FEv) (s : FState), (∀ f ∈ s.table, f.cloexec = true) → (∀ e ∈ s.leaked, e.2 = []) →
      allAtomic evs = true → ∀ e ∈ (frun evs s).leaked, e.2 = [] from
    H evs {} (by simp) (by simp) h
  intro evs
  induction evs with
  | nil => intro s _ hl _; simpa [frun] using hl
  | cons ev rest ih =>
    intro s ht hl ha
    have ha' := ha
    simp only [allAtomic, List.all_cons, Bool.and_eq_true] at ha
    simp only [frun, List.foldl_cons]
    have ht1 : ∀ f ∈ (fstep s ev).table, f.cloexec = true := by
      have := all_cloexec_inv [ev] s ht (by simpa [allAtomic] using ha.1)
      simpa [frun] using this
    apply ih _ ht1 _ (by simpa [allAtomic] using ha.2)
    cases ev with
    | fork r =>
      simp only [fstep]
      intro e he
      rcases List.mem_cons.mp he with h1 | h1
      · subst h1
        simp only [List.map_eq_nil_iff, List.filter_eq_nil_iff]
        intro f hf
        simp [ht f hf]
      · exact hl e h1
    | create r i c => simpa [fstep] using hl
    | setCloexec i => simpa [fstep] using hl
    | close i => simpa [fstep] using hl

/-- witness: one creation that sets close-on-exec afterwards (non-atomically) leaks into a
concurrent fork of another run -/
example : (frun [.create 1 7 false, .fork 2, .setCloexec 7] {}).leaked = [(2, [7])] := by decide

/-! ### (B) no tracer collects another run's process -/

/-- **wait isolation**: with the selectors the code uses — the run's root pid, or its process
group — a wait of run `i` can only return processes of run `i`, for any set of runs and processes. -/
theorem C17_wait_only_own (root : Nat → Nat) (ps : List Proc) (hw : WellGrouped root ps) (i : Nat) (p : Proc) (hp : p ∈ ps)
    (s : Sel) (hs : s = .pid (root i) ∨ s = .group (root i)) (hm : selects s p = true) : p.run = i := by
  obtain ⟨hg, hinj, hroot⟩ := hw
  rcases hs with rfl | rfl
  · simp only [selects, beq_iff_eq] at hm
    exact hroot p hp i hm
  · simp only [selects, beq_iff_eq] at hm
    rw [hg p hp] at hm
    exact hinj _ _ hm

/-- witness: wait4(-1) returns anybody's process -/
example : selects .any ⟨10, 10, 2⟩ = true := rfl

/-! ### (C) a caller receives the reply to its own request -/

/-- invariant of the locked protocol: the channel only ever carries the holder's one message -/
def RInv (s : RState) : Prop :=
  (∀ e ∈ s.got, e.1 = e.2) ∧
  match s.holder with
  | none => s.h2c = [] ∧ s.c2h = []
  | some a => (s.phase = 0 ∧ s.h2c = [] ∧ s.c2h = []) ∨ (s.phase = 1 ∧ ((s.h2c = [a] ∧ s.c2h = []) ∨ (s.h2c = [] ∧ s.c2h = [a]))) ∨
              (s.phase = 2 ∧ s.h2c = [] ∧ s.c2h = [])

private theorem rstep_inv (s : RState) (e : REv) (h : RInv s) : RInv (rstep true s e) := by
  obtain ⟨hg, hq⟩ := h
  cases e with
  | acquire a =>
    simp only [rstep]
    by_cases hh : s.holder = none
    · simp only [hh, and_self, if_true]
      rw [hh] at hq
      exact ⟨hg, Or.inl ⟨rfl, hq.1, hq.2⟩⟩
    · simp only [hh, and_false, if_false, true_and]; exact ⟨hg, hq⟩
  | send a =>
    simp only [rstep, if_true]
    by_cases hh : s.holder = some a ∧ s.phase = 0
    · simp only [hh, and_self, if_true]
      refine ⟨hg, ?_⟩
      rw [hh.1] at hq
      simp only [hh.1]
      rcases hq with ⟨_, h1, h2⟩ | ⟨h0, _⟩ | ⟨h0, _⟩
      · right; left; exact ⟨trivial, Or.inl ⟨by simp [h1], h2⟩⟩
      · rw [hh.2] at h0; cases h0
      · rw [hh.2] at h0; cases h0
    · simp only [hh, if_false]; exact ⟨hg, hq⟩
  | serve =>
    simp only [rstep]
    cases hq2 : s.h2c with
    | nil => simp only; exact ⟨hg, hq⟩
    | cons r rest =>
      simp only
      refine ⟨hg, ?_⟩
      cases hh : s.holder with
      | none => rw [hh] at hq; rw [hq2] at hq; cases hq.1
      | some a =>
        rw [hh] at hq
        simp only
        rcases hq with ⟨_, h1, _⟩ | ⟨h0, (⟨h1, h2⟩ | ⟨h1, _⟩)⟩ | ⟨_, h1, _⟩
        · rw [hq2] at h1; cases h1
        · rw [hq2] at h1
          obtain ⟨rfl, rfl⟩ := List.cons.inj h1
          right; left; exact ⟨h0, Or.inr ⟨rfl, by simp [h2]⟩⟩
        · rw [hq2] at h1; cases h1
        · rw [hq2] at h1; cases h1
  | recv a =>
    simp only [rstep, if_true]
    by_cases hh : s.holder = some a ∧ s.phase = 1
    · simp only [hh, and_self, if_true]
      cases hc : s.c2h with
      | nil => simp only; exact ⟨hg, hq⟩
      | cons r rest =>
        simp only
        rw [hh.1] at hq
        rcases hq with ⟨h0, _⟩ | ⟨_, (⟨_, h2⟩ | ⟨h1, h2⟩)⟩ | ⟨h0, _⟩
        · rw [hh.2] at h0; cases h0
        · rw [hc] at h2; cases h2
        · rw [hc] at h2
          obtain ⟨rfl, rfl⟩ := List.cons.inj h2
          refine ⟨?_, ?_⟩
          · intro e he
            rcases List.mem_cons.mp he with h3 | h3
            · subst h3; rfl
            · exact hg e h3
          · simp only [hh.1]; right; right; exact ⟨trivial, h1, trivial⟩
        · rw [hh.2] at h0; cases h0
    · simp only [hh, if_false]; exact ⟨hg, hq⟩
  | release a =>
    simp only [rstep]
    by_cases hh : s.holder = some a ∧ s.phase = 2
    · simp only [hh, and_self, if_true, true_and]
      rw [hh.1] at hq
      rcases hq with ⟨h0, _⟩ | ⟨h0, _⟩ | ⟨_, h1, h2⟩
      · rw [hh.2] at h0; cases h0
      · rw [hh.2] at h0; cases h0
      · exact ⟨hg, h1, h2⟩
    · have : ¬ (True ∧ s.holder = some a ∧ s.phase = 2) := fun x => hh x.2
      simp only [true_and] at this
      simp only [true_and, this, if_false]; exact ⟨hg, hq⟩

/-- **RPC isolation**: with the mutex held around every request/reply pair, for every schedule of
any number of concurrent callers on one environment, every caller receives the reply to its own
request. -/
theorem C17_reply_is_own (evs : List REv) : ∀ e ∈ (rrun true evs {}).got, e.1 = e.2 := by
  suffices H : ∀ (evs : List REv) (s : RState), RInv s → RInv (rrun true evs s) from
    (H evs {} ⟨by simp, by simp⟩).1
  intro evs
  induction evs with
  | nil => intro s h; simpa [rrun] using h
  | cons e rest ih => intro s h; simpa [rrun] using ih _ (rstep_inv s e h)

/-- witness: without the mutex a caller receives the other caller's reply -/
example : (rrun false [.send 1, .send 2, .serve, .recv 2] {}).got = [(2, 1)] := by decide

/-- non-vacuity of the locked protocol: two complete calls -/
example : (rrun true [.acquire 1, .acquire 2, .send 1, .send 2, .serve, .recv 2, .recv 1, .release 1, .acquire 2, .send 2, .serve, .recv 2, .release 2] {}).got = [(2, 2), (1, 1)] := by decide

/-! ### the source satisfies the hypotheses (regenerated facts) -/

/-- every host-side wait4 selects the run's own child or group; Trace pins its OS thread first;
the fork lock surrounds the clone; every raw descriptor creation is atomically close-on-exec;
every method that talks on the control socket runs under the environment mutex. -/
theorem C17_source_facts :
    waitSitesOwn = true ∧ tracePinned = true ∧ forkLockAroundClone = true ∧ creationsAtomic = true ∧ rpcUnderMutex = true := by
  decide +kernel

/-! ### a descriptor another run's child still holds: the launch waits for it instead of failing -/
section Etxtbsy
open GoSandbox.Model.ForkFail GoSandbox.Model.ForkSkeleton GoSandbox.Model.ForkOpts GoSandbox.Model.ForkChildRun

/-- option sets around the exec step: with and without a filter, an exec descriptor, a synchronisation callback,
a tracer, namespaces and a capability drop -/
def etxtbsyFamily : List Opts :=
  [{}, { seccomp := true, nnp := true }, { execFile := 7 }, { execFile := 7, seccomp := true, nnp := true, syncFunc := true },
   { seccomp := true, ptrace := true, stopBefore := true }, { seccomp := true, nnp := true, dropCaps := true, newUser := true, newPid := true, syncFunc := true },
   { cred := true, dropCaps := true, seccomp := true, nnp := true, ucas := true, syncFunc := true, newCgroup := true }]

/-- **a program file that another run's child still holds open for writing** (the child was forked by another
goroutine while the caller was writing the file, and has not exec'ed yet: a copy of every descriptor of the process
lives in it until then) makes `execve` answer ETXTBSY for a moment.  The regenerated launch code does not fail the
run for that: for every option set of the family — in particular with a seccomp filter already loaded — an
ETXTBSY at the exec step is followed by a pause and another exec, and the program starts. (The tolerance itself is
bounded: 50 attempts a millisecond apart; beyond that the launch fails with the error.) -/
theorem C17_gen_etxtbsy_retried :
    etxtbsyFamily.all (fun o =>
      let k := (skeleton o).length - 1
      ((skeleton o).getD k .getpid == .execve || (skeleton o).getD k .getpid == .execveat) &&
      (match runFail o k 26 with
       | .ok r => r.execed && r.exitCode == none && r.reported == none
       | .error _ => false)) = true := by
  decide +kernel

end Etxtbsy

end GoSandbox.Props.C17
