/-
C20 — Cgroup handles control exactly their own group; usage in documented units.
Theorems about Model/Cgroup.lean: (d) ownership over all histories of mkdir/Destroy/external
changes (hand model, induction), (b) all interleavings of two concurrent creators at stat/mkdir
granularity, (a) cpu.stat conversion, (c) facts about the regenerated Destroy/EnsureDirExists/
AddProc evaluated by the kernel.  Tied to pkg/cgroup by the differential on the real cgroup v1
hierarchy and a real cgroup2 mount.  PROPERTY THEOREMS ONLY (helper lemmas marked private).
-/
import GoSandbox.Model.CpusetInherit
import GoSandbox.Model.Cgroup
namespace GoSandbox.Props.C20
open GoSandbox.Model.Cgroup

/-! ### ownership over histories -/

private theorem owner_cons (fs : List (Dir × Option Hid)) (d d' : Dir) (o : Option Hid) :
    owner ((d, o) :: fs) d' = if d = d' then some o else owner fs d' := by
  simp [owner]

private theorem owner_filter (fs : List (Dir × Option Hid)) (d d' : Dir) :
    owner (fs.filter (fun e => e.1 ≠ d)) d' = if d' = d then none else owner fs d' := by
  induction fs with
  | nil => simp [owner]
  | cons e r ih =>
    obtain ⟨k, o⟩ := e
    by_cases hk : k = d
    · subst hk
      simp only [List.filter, ne_eq, not_true_eq_false, decide_false]
      rw [ih]
      by_cases h : d' = k
      · simp [h]
      · have : ¬ k = d' := fun e => h e.symm
        simp [h, owner, this]
    · simp only [List.filter, ne_eq, hk, not_false_eq_true, decide_true]
      rw [owner_cons, ih]
      by_cases h : d' = d
      · subst h; simp [hk]
      · simp [h, owner]

private theorem setH_same (hs : Hid → Handle) (h : Hid) (v : Handle) : setH hs h v h = v := by simp [setH]
private theorem setH_other (hs : Hid → Handle) (h h' : Hid) (v : Handle) (hne : h' ≠ h) : setH hs h v h' = hs h' := by simp [setH, hne]

def okIs {α : Type} [BEq α] (r : Except String α) (v : α) : Bool := match r with | .ok x => x == v | .error _ => false

def Good (e : Hid × Dir × Option Hid) : Prop := e.2.2 = some e.1

/-- the invariant: a live handle's created directories exist and are recorded as made by it;
every removal so far removed a directory made by the removing handle -/
structure Inv (s : OSt) : Prop where
  own : ∀ h d, (s.hs h).dead = false → d ∈ (s.hs h).created → owner s.fs d = some (some h)
  log : ∀ e ∈ s.removed, Good e

private theorem destroyLoop_spec (par : Dir → Option Dir) (h : Hid) : ∀ (ds : List Dir) (fs : List (Dir × Option Hid)) (log : List (Hid × Dir × Option Hid)),
    (∀ d ∈ ds, owner fs d = some (some h) ∨ owner fs d = none) → (∀ e ∈ log, Good e) →
    (∀ e ∈ (destroyLoop par h ds fs log).2, Good e) ∧
    (∀ d', owner (destroyLoop par h ds fs log).1 d' = owner fs d' ∨ owner fs d' = some (some h)) := by
  intro ds
  induction ds with
  | nil => intro fs log _ hl; exact ⟨by simpa [destroyLoop] using hl, fun d' => Or.inl (by simp [destroyLoop])⟩
  | cons d rest ih =>
    intro fs log hds hl
    have hd := hds d (by simp)
    cases ho : owner fs d with
    | none =>
      simp only [destroyLoop, ho]
      exact ih fs log (fun x hx => hds x (by simp [hx])) hl
    | some o =>
      have ho' : o = some h := by
        rcases hd with hd | hd
        · rw [ho] at hd; exact Option.some.inj hd
        · rw [ho] at hd; cases hd
      simp only [destroyLoop, ho]
      by_cases hc : hasChild par fs d = true
      · simp only [hc, if_true]
        exact ih fs log (fun x hx => hds x (by simp [hx])) hl
      simp only [hc, Bool.false_eq_true, if_false]
      have hrest : ∀ x ∈ rest, owner (fs.filter (fun e => e.1 ≠ d)) x = some (some h) ∨ owner (fs.filter (fun e => e.1 ≠ d)) x = none := by
        intro x hx
        rw [owner_filter]
        by_cases hxd : x = d
        · simp [hxd]
        · simp only [hxd, if_false]; exact hds x (by simp [hx])
      have hlog : ∀ e ∈ (h, d, o) :: log, Good e := by
        intro e he
        rcases List.mem_cons.mp he with he | he
        · subst he; simp [Good, ho']
        · exact hl e he
      obtain ⟨g1, g2⟩ := ih _ _ hrest hlog
      refine ⟨g1, fun d' => ?_⟩
      rcases g2 d' with g | g
      · rw [g, owner_filter]
        by_cases hdd : d' = d
        · subst hdd; right; rw [ho, ho']
        · left; simp [hdd]
      · rw [owner_filter] at g
        by_cases hdd : d' = d
        · simp [hdd] at g
        · right; simpa [hdd] using g

theorem step_inv (s : OSt) (op : OOp) (hi : Inv s) : Inv (ostep s op) := by
  cases op with
  | mk h d =>
    simp only [ostep]
    by_cases hdead : (s.hs h).dead = true
    · simpa [hdead] using hi
    · simp only [hdead, Bool.false_eq_true, if_false]
      cases ho : owner s.fs d with
      | some o =>
        refine ⟨fun h' d' hl hm => ?_, hi.log⟩
        dsimp only at hl hm ⊢
        by_cases hh : h' = h
        · subst hh; rw [setH_same] at hm; exact hi.own _ _ (by simpa using hdead) hm
        · rw [setH_other _ _ _ _ hh] at hl hm; exact hi.own _ _ hl hm
      | none =>
        refine ⟨fun h' d' hl hm => ?_, hi.log⟩
        dsimp only at hl hm ⊢
        simp only [owner_cons]
        by_cases hh : h' = h
        · subst hh
          rw [setH_same] at hm
          simp only [List.mem_cons] at hm
          rcases hm with hm | hm
          · simp [hm]
          · have := hi.own _ _ (by simpa using hdead) hm
            by_cases hdd : d = d'
            · subst hdd; rw [ho] at this; cases this
            · simp [hdd, this]
        · rw [setH_other _ _ _ _ hh] at hl hm
          have := hi.own _ _ hl hm
          by_cases hdd : d = d'
          · subst hdd; rw [ho] at this; cases this
          · simp [hdd, this]
  | destroy h =>
    simp only [ostep]
    by_cases hdead : (s.hs h).dead = true
    · simpa [hdead] using hi
    · simp only [hdead, Bool.false_eq_true, if_false]
      by_cases hex : (s.hs h).existing = true
      · simp only [hex, if_true]
        refine ⟨fun h' d' hl hm => ?_, hi.log⟩
        dsimp only at hl hm ⊢
        by_cases hh : h' = h
        · subst hh; rw [setH_same] at hl; simp at hl
        · rw [setH_other _ _ _ _ hh] at hl hm; exact hi.own _ _ hl hm
      · simp only [hex, Bool.false_eq_true, if_false]
        have hd : (s.hs h).dead = false := by simpa using hdead
        obtain ⟨g1, g2⟩ := destroyLoop_spec s.par h (s.hs h).created s.fs s.removed
          (fun d hm => Or.inl (hi.own h d hd hm)) hi.log
        refine ⟨fun h' d' hl hm => ?_, g1⟩
        dsimp only at hl hm ⊢
        by_cases hh : h' = h
        · subst hh; rw [setH_same] at hl; simp at hl
        · rw [setH_other _ _ _ _ hh] at hl hm
          have hown := hi.own _ _ hl hm
          rcases g2 d' with g | g
          · rw [g]; exact hown
          · rw [hown] at g; exact absurd (Option.some.inj (Option.some.inj g)) hh
  | extMk d =>
    simp only [ostep]
    by_cases hp : (owner s.fs d).isSome = true
    · simpa [hp] using hi
    · simp only [hp, Bool.false_eq_true, if_false]
      refine ⟨fun h' d' hl hm => ?_, hi.log⟩
      have := hi.own _ _ hl hm
      rw [owner_cons]
      by_cases hdd : d = d'
      · subst hdd; rw [this] at hp; simp at hp
      · simp [hdd, this]
  | extRm d =>
    simp only [ostep]
    by_cases hp : owner s.fs d = some none
    · simp only [hp, if_true]
      refine ⟨fun h' d' hl hm => ?_, hi.log⟩
      have := hi.own _ _ hl hm
      rw [owner_filter]
      by_cases hdd : d' = d
      · subst hdd; rw [this] at hp; cases hp
      · simp [hdd, this]
    · simpa [hp] using hi

/-- the hierarchy before the library is used: any set of groups already there -/
def initial (pre : List Dir) : OSt := { fs := pre.map (fun d => (d, none)) }

theorem initial_inv (pre : List Dir) : Inv (initial pre) :=
  ⟨fun h d _ hm => by simp [initial] at hm, fun e he => by simp [initial] at he⟩

theorem run_inv (ops : List OOp) : ∀ s, Inv s → Inv (orun ops s) := by
  induction ops with
  | nil => intro s h; simpa [orun] using h
  | cons op rest ih => intro s h; simpa [orun] using ih _ (step_inv s op h)

/-- **Destroy removes only what the handle created**: over every history of creating calls (at the
granularity of single mkdirs, so concurrent creators are arbitrary interleavings), Destroys and
changes made by others, every directory removed by a Destroy had been made by that very handle. -/
theorem C20_destroy_only_own (pre : List Dir) (ops : List OOp) :
    ∀ e ∈ (orun ops (initial pre)).removed, e.2.2 = some e.1 :=
  (run_inv ops _ (initial_inv pre)).log

/-- **never a pre-existing one**: no Destroy ever removes a directory that was there before or
that someone else made. -/
theorem C20_never_preexisting (pre : List Dir) (ops : List OOp) :
    ∀ e ∈ (orun ops (initial pre)).removed, e.2.2 ≠ none := by
  intro e he h
  have := C20_destroy_only_own pre ops e he
  rw [h] at this; cases this

/-- **distinct groups**: two different live handles never both count one directory as created by
them — whatever the interleaving of their mkdirs. -/
theorem C20_created_distinct (pre : List Dir) (ops : List OOp) (h1 h2 : Hid) (d : Dir) (hne : h1 ≠ h2) :
    let s := orun ops (initial pre)
    (s.hs h1).dead = false → (s.hs h2).dead = false → d ∈ (s.hs h1).created → d ∉ (s.hs h2).created := by
  intro s l1 l2 m1 m2
  have i := run_inv ops _ (initial_inv pre)
  have a := i.own h1 d l1 m1
  have b := i.own h2 d l2 m2
  rw [a] at b
  exact hne (Option.some.inj (Option.some.inj b))

/-- **a handle on an existing group removes nothing** -/
theorem C20_existing_removes_nothing (s : OSt) (h : Hid) (hex : (s.hs h).existing = true) :
    (ostep s (.destroy h)).fs = s.fs ∧ (ostep s (.destroy h)).removed = s.removed := by
  simp only [ostep]
  by_cases hd : (s.hs h).dead = true <;> simp [hd, hex]

/-- non-vacuity: a history with a pre-existing group 0, two handles racing for group 1 (handle 7
wins), handle 8 opening the pre-existing group; all are destroyed; only 1 is removed, by 7. -/
example : (orun [.mk 7 1, .mk 8 1, .mk 9 0, .destroy 8, .destroy 9, .destroy 7] (initial [0])).removed = [(7, 1, some 7)] := by decide
example : ((orun [.mk 7 1, .mk 8 1, .mk 9 0, .destroy 8, .destroy 9, .destroy 7] (initial [0])).fs.map (·.1)) = [0] := by decide

/-! ### two concurrent creators, every interleaving -/

/-- **repaired tree**: with the atomic mkdir, in every interleaving exactly one of two concurrent
creators of a new group is its creator, and none when the group was already there. -/
theorem C20_concurrent_one_creator :
    (cterminals true false).all (fun s => (s.a = .done true ∧ s.b = .done false) ∨ (s.a = .done false ∧ s.b = .done true)) = true ∧
    (cterminals true true).all (fun s => s.a = .done false ∧ s.b = .done false) = true ∧
    (cterminals true false).length > 0 := by decide

/-- **pinned tree (defect #17, repaired by a fix: commit)**: with stat-then-MkdirAll there is an
interleaving in which both creators believe they created the group — each would remove it. -/
theorem C20_stat_then_mkdirall_double_owner :
    (cterminals false false).any (fun s => s.a = .done true ∧ s.b = .done true) = true := by decide

/-! ### usage units -/

/-- **CPU usage is nanoseconds**: whatever the content of cpu.stat, a value returned is 1000 times
the decimal second field of a two-field line whose first field is `usage_usec`. -/
theorem C20_cpu_usage_units (content : List Char) (v : Nat) (h : cpuUsage content = some v) :
    ∃ ln ∈ lines content, ∃ x n, fields ln = ["usage_usec".toList, x] ∧ atoi x = some n ∧ v = n * 1000 := by
  unfold cpuUsage at h
  split at h
  · rename_i ln hf
    have hm := List.mem_of_find?_eq_some hf
    have hp := List.find?_some hf
    refine ⟨ln, hm, ?_⟩
    split at h
    · rename_i k x hfl
      rw [hfl] at hp
      simp only at hp
      cases ha : atoi x with
      | none => simp [ha] at h
      | some n =>
        simp [ha] at h
        refine ⟨x, n, ?_, ha, h.symm⟩
        rw [hfl]
        simp only [beq_iff_eq] at hp
        rw [hp]
    · cases h
  · cases h

example : cpuUsage "user_usec 5\nusage_usec extra 9\nusage_usec 1234\nusage_usec 7\n".toList = some 1234000 := by decide
example : cpuUsage "user_usec 5\nusage_usec_total 3\n".toList = none := by decide
example : cpuUsage "usage_usec 18446744073709551\n".toList = some 18446744073709551000 := by decide

/-! ### the regenerated functions (evaluated by the kernel) -/

/-- Destroy of the regenerated code removes exactly the created directories of a creating handle
and nothing for a handle on an existing group (ties `ostep .destroy` to pkg/cgroup/v1_linux.go) -/
theorem C20_gen_destroy :
    okIs (genDestroyV1 ["/cg/cpu/a", "/cg/mem/a", "/cg/pids/a"] ["/cg/cpu/a", "/cg/pids/a"] false) ["rmdir /cg/cpu/a", "rmdir /cg/pids/a"] = true ∧
    okIs (genDestroyV1 ["/cg/cpu/a", "/cg/mem/a"] [] true) [] = true ∧
    okIs (genDestroyV1 ["/cg/cpu/a", "/cg/mem/a"] ["/cg/mem/a"] true) [] = true := by decide +kernel

/-- the regenerated EnsureDirExists makes the leaf with one Mkdir and reports ErrExist on EEXIST -/
theorem C20_gen_ensure_atomic :
    okIs (genEnsure "/cg/cpu/a/b" ["/cg/cpu"]) ("created", ["mkdirall /cg/cpu/a", "mkdir /cg/cpu/a/b"]) = true ∧
    okIs (genEnsure "/cg/cpu/a" ["/cg/cpu", "/cg/cpu/a"]) ("ErrExist", ["mkdirall /cg/cpu", "mkdir-eexist /cg/cpu/a"]) = true := by decide +kernel

/-- **creation is one atomic mkdir, and Existing() is its EEXIST** (regenerated `(*V2).New`, `(*V2).Nest`,
`newV2` on small worlds): the handle reports `existing` exactly when the mkdir of the group's own
directory found it there, nothing is stat'ed first, intermediate path elements of a prefix are
created without claiming them, a trailing slash does not change ownership, and `Nest` moves the
parent's processes. This is `ostep (.mk h d)` for the v2 code. -/
theorem C20_gen_v2_create :
    okIs (genNewSubV2 false "/cg/top" "a" ["/cg/top"]) (false, "/cg/top/a", ["/cg/top", "/cg/top/a"], ["mkdir /cg/top/a"]) = true ∧
    okIs (genNewSubV2 false "/cg/top" "a" ["/cg/top", "/cg/top/a"]) (true, "/cg/top/a", ["/cg/top", "/cg/top/a"], ["mkdir-eexist /cg/top/a"]) = true ∧
    okIs (genNewSubV2 true "/cg/top" "a" ["/cg/top"]) (false, "/cg/top/a", ["/cg/top", "/cg/top/a"], ["mkdir /cg/top/a", "addproc 2"]) = true ∧
    okIs (genNewSubV2 true "/cg/top" "a" ["/cg/top", "/cg/top/a"]) (true, "/cg/top/a", ["/cg/top", "/cg/top/a"], ["mkdir-eexist /cg/top/a", "addproc 2"]) = true ∧
    okIs (genNewV2 "x/y" ["/cg"]) (false, "/cg/x/y", ["/cg", "/cg/x", "/cg/x/y"], ["mkdir /cg/x", "mkdir /cg/x/y"]) = true ∧
    okIs (genNewV2 "x/y" ["/cg", "/cg/x"]) (false, "/cg/x/y", ["/cg", "/cg/x", "/cg/x/y"], ["mkdir-eexist /cg/x", "mkdir /cg/x/y"]) = true ∧
    okIs (genNewV2 "x/y" ["/cg", "/cg/x", "/cg/x/y"]) (true, "/cg/x/y", ["/cg", "/cg/x", "/cg/x/y"], ["mkdir-eexist /cg/x", "mkdir-eexist /cg/x/y"]) = true ∧
    okIs (genNewV2 "x/" ["/cg"]) (false, "/cg/x", ["/cg", "/cg/x"], ["mkdir /cg/x", "mkdir-eexist /cg/x"]) = true := by
  decide +kernel

/-- AddProc of the regenerated v1 code writes the pid to every controller of the handle -/
theorem C20_gen_addproc_all :
    okIs (genAddProcV1 ["/cg/cpu/a", "/cg/mem/a", "/cg/pids/a"]) ["addproc /cg/cpu/a", "addproc /cg/mem/a", "addproc /cg/pids/a"] = true := by decide +kernel

/-! ### limits written stay in force: opening a group again does not touch its cpuset -/

open GoSandbox.Model.CpusetInherit in
/-- **a cpuset that is set is never overwritten** (hand model, every tree, every depth): when the
group's own file has a value, `copyCgroupPropertyFromParent` writes nothing and changes nothing — so
every constructor that opens an existing v1 group (`New` on an existing name, `OpenExisting`, `Nest`)
leaves a limit written earlier through another handle in force -/
theorem C20_set_cpuset_is_kept (n : Nat) (fs : Files) (path name c : String)
    (h : lookup fs (path ++ "/" ++ name) = some c) (hc : blank c = false) :
    copyH (n + 1) fs path name = some (fs, []) := by
  simp [copyH, h, hc]

open GoSandbox.Model.CpusetInherit in
/-- the trees the tie is evaluated on: a group whose cpuset is narrower than its parent's (with and
without trailing newline, one and two levels deep), an empty new group under a set parent, an empty
group under an empty parent under a set grandparent, and a group whose files are missing -/
def cpusetTrees : List (String × Files) := [
  ("/cs/a", [("/cs/cpuset.cpus", "0-15\n"), ("/cs/cpuset.mems", "0\n"), ("/cs/a/cpuset.cpus", "0\n"), ("/cs/a/cpuset.mems", "0\n")]),
  ("/cs/a", [("/cs/cpuset.cpus", "0-15"), ("/cs/cpuset.mems", "0-1"), ("/cs/a/cpuset.cpus", "3"), ("/cs/a/cpuset.mems", "1")]),
  ("/cs/a/b", [("/cs/cpuset.cpus", "0-15\n"), ("/cs/cpuset.mems", "0\n"), ("/cs/a/cpuset.cpus", "0-7\n"), ("/cs/a/cpuset.mems", "0\n"),
               ("/cs/a/b/cpuset.cpus", "2\n"), ("/cs/a/b/cpuset.mems", "0\n")]),
  ("/cs/a", [("/cs/cpuset.cpus", "0-15\n"), ("/cs/cpuset.mems", "0\n"), ("/cs/a/cpuset.cpus", "\n"), ("/cs/a/cpuset.mems", "")]),
  ("/cs/a/b", [("/cs/cpuset.cpus", "0-3\n"), ("/cs/cpuset.mems", "0\n"), ("/cs/a/cpuset.cpus", ""), ("/cs/a/cpuset.mems", "\n"),
               ("/cs/a/b/cpuset.cpus", ""), ("/cs/a/b/cpuset.mems", "")]),
  ("/cs/a/b", [("/cs/cpuset.cpus", "0-3\n"), ("/cs/cpuset.mems", "0\n"), ("/cs/a/cpuset.cpus", "1\n"), ("/cs/a/cpuset.mems", "0\n"),
               ("/cs/a/b/cpuset.cpus", "5\n"), ("/cs/a/b/cpuset.mems", "")]),
  ("/cs/gone", [("/cs/cpuset.cpus", "0-15\n"), ("/cs/cpuset.mems", "0\n")])]

open GoSandbox.Model.CpusetInherit in
/-- **tie**: the regenerated `initCpuset` / `copyCgroupPropertyFromParent` compute the hand model on
those trees (files afterwards, writes made, error) — kernel-evaluated -/
theorem C20_gen_cpuset_init_matches : cpusetTrees.all (fun t => agrees t.1 t.2) = true := by
  decide +kernel

open GoSandbox.Model.CpusetInherit in
/-- and on the trees where the group's values are set, the regenerated code writes nothing at all -/
theorem C20_gen_reopen_keeps_cpuset :
    (cpusetTrees.take 3).all (fun t => match genInit t.1 t.2 with
      | .ok (false, f, w) => f == t.2 && w.isEmpty
      | _ => false) = true := by
  decide +kernel

/-- non-vacuity: an empty group under an empty parent inherits the grandparent's value, parent first -/
example : (GoSandbox.Model.CpusetInherit.initH (cpusetTrees.getD 4 ("", [])).2 "/cs/a/b").map (·.2) =
    some [("/cs/a/cpuset.cpus", "0-3\n"), ("/cs/a/b/cpuset.cpus", "0-3\n"), ("/cs/a/cpuset.mems", "0\n"), ("/cs/a/b/cpuset.mems", "0\n")] := by
  decide +kernel

/-- **a handle made under a parent handle owns exactly what its own mkdirs made** (regenerated `(*V1).New`, run
for every subset of already existing controller directories, with parents that have four and two controllers):
the handle uses every controller directory of the group; it counts as created by it exactly the directories
that were NOT there (in controller order) — which are exactly the directories it made; `Existing()` is set when
the first controller's directory was there; and `New` followed by the regenerated `Destroy` removes no
directory that existed before — it removes what was created when the handle is a creating one and nothing
otherwise.  This is the step `ostep (.mk h d)` of the ownership theorems, for the v1 code under a parent. -/
theorem C20_gen_v1_new :
    ([["cpu", "cpuset", "memory", "pids"], ["memory", "pids"]].all (fun ctrls =>
      let dirOf := fun (c : String) => "/cg/" ++ c ++ "/par/job"
      (subsets ctrls).all (fun pre =>
        let dirs := pre.map dirOf
        match genNewSubV1 ctrls "job" dirs, genNewThenDestroyV1 ctrls "job" dirs with
        | .ok (allP, createdP, existing, made), .ok removed =>
          allP == ctrls.map dirOf &&
          createdP == (ctrls.filter (fun c => !pre.contains c)).map dirOf &&
          made == createdP &&
          existing == pre.contains (ctrls.headD "") &&
          dirs.all (fun d => !removed.contains ("rmdir " ++ d)) &&
          removed == (if existing then [] else createdP.map (fun d => "rmdir " ++ d))
        | _, _ => false))) = true := by
  decide +kernel

end GoSandbox.Props.C20
