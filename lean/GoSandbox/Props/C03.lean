/-
C03 — Handler verdicts are enforced: banned and killed syscalls never take effect.
Theorems about Model/Verdict.lean: the regenerated handleTrap on a stopped tracee (kernel-evaluated),
the kernel's resume rule, and runs of arbitrary programs over arbitrary process trees with arbitrary
decision functions.  PROPERTY THEOREMS ONLY (helper lemmas are private).
-/
import GoSandbox.Model.Verdict
import GoSandbox.Model.SeccompGen
namespace GoSandbox.Props.C03
open GoSandbox.Model.Verdict

/-! ### one trap -/

/-- the regenerated handleTrap (+ skipSyscall, SetReturnValue, softBanSyscall) computes the hand
model on every verdict, for ordinary and extreme register contents, and does nothing when the
tracee has vanished -/
theorem C03_gen_trap_matches_model :
    ([Act.allow, .ban, .kill].all fun a =>
      [(⟨258, 5⟩ : Regs), ⟨2, 0⟩, ⟨0, 2 ^ 64 - 1⟩, ⟨437, 2 ^ 63⟩, ⟨2 ^ 32 + 59, 7⟩].all fun r =>
        (match genTrap a r with | .ok x => x == handleTrapM a r | .error _ => false) &&
        (match genTrap a r true with | .ok x => x == (r, false) | .error _ => false)) = true := by decide +kernel

/-- **ban**: after a ban the kernel skips the call and the program sees -BanRet, whatever the
registers were -/
theorem C03_ban_skips (r : Regs) :
    kernelResume (handleTrapM .ban r).1 = some (-(banRet : Int)) ∧ (handleTrapM .ban r).2 = false := by
  constructor
  · show kernelResume ({ origRax := 2 ^ 64 - 1, rax := 2 ^ 64 - banRet } : Regs) = some (-(banRet : Int))
    decide
  · rfl

/-- **allow**: the registers are untouched — the call the program made executes unmodified (for a
real syscall number) -/
theorem C03_allow_unmodified (r : Regs) (h : r.origRax < 2 ^ 31) :
    (handleTrapM .allow r) = (r, false) ∧ kernelResume r = none := by
  constructor
  · rfl
  · unfold kernelResume
    have : r.origRax % 2 ^ 32 = r.origRax := Nat.mod_eq_of_lt (by omega)
    simp only [this]
    split
    · omega
    · rfl

/-- **kill**: an error is returned (the run ends as Disallowed Syscall) and the tracee is never
resumed by handleTrap: its registers are as they were -/
theorem C03_kill_errors (r : Regs) : handleTrapM .kill r = (r, true) := rfl

/-! ### every process of the tree is traced -/

/-- the regenerated option word asks for seccomp events, kill-on-exit and auto-attach on
fork, vfork and clone -/
theorem C03_options :
    (match genOptionBits with
     | some b => kindsOf b == [Kind.fork, .vfork, .clone] &&
        (b &&& GoSandbox.Gen.Consts.unix_PTRACE_O_TRACESECCOMP != 0) &&
        (b &&& GoSandbox.Gen.Consts.unix_PTRACE_O_EXITKILL != 0) &&
        (b &&& GoSandbox.Gen.Consts.unix_PTRACE_O_TRACEEXEC != 0)
     | none => false) = true := by decide +kernel

/-- with those options every descendant, however it was created, is attached -/
theorem C03_all_processes_traced (lineage : List Kind) : tracedProc [Kind.fork, .vfork, .clone] lineage = true := by
  unfold tracedProc
  induction lineage with
  | nil => rfl
  | cons k rest ih =>
    simp only [List.all_cons, Bool.and_eq_true]
    exact ⟨by cases k <;> decide, ih⟩

/-! ### runs -/

/-- the call may execute: the filter allows it, or it is trapped in a traced process and the handler allows it -/
def mayExec (opts : List Kind) (decide : Nat → Act) (op : Op) : Prop :=
  op.fres = .allow ∨ (op.fres = .trace ∧ tracedProc opts op.lineage = true ∧ decide op.id = .allow)

/-- the call ends the run: the filter kills, or the handler kills -/
def killsRun (opts : List Kind) (decide : Nat → Act) (op : Op) : Prop :=
  op.fres = .kill ∨ (op.fres = .trace ∧ tracedProc opts op.lineage = true ∧ decide op.id = .kill)

private theorem step_effects (opts : List Kind) (decide : Nat → Act) (s : RunSt) (op : Op) :
    (stepOp opts decide s op).effects = s.effects ∨
    ((stepOp opts decide s op).effects = s.effects ++ [op.id] ∧ mayExec opts decide op) := by
  unfold stepOp
  by_cases h : s.status = .disallowed
  · simp [h]
  · simp only [h, if_false]
    cases hf : op.fres with
    | allow => right; exact ⟨rfl, Or.inl hf⟩
    | kill => left; rfl
    | trace =>
      by_cases ht : tracedProc opts op.lineage = true
      · simp only [ht, if_true]
        cases hd : decide op.id with
        | allow => right; exact ⟨rfl, Or.inr ⟨hf, ht, hd⟩⟩
        | ban => left; rfl
        | kill => left; rfl
      · simp only [ht]; left; rfl

/-- **nothing denied ever executes**: for every program, process tree, option set and decision
function, every call that took effect was allowed by the filter or allowed by the handler in a
traced process — never one that was banned, killed, or trapped without a tracer. -/
theorem C03_effects_were_allowed (opts : List Kind) (decide : Nat → Act) (ops : List Op) :
    ∀ (s : RunSt) (id : Nat), id ∈ (runOps opts decide ops s).effects →
      id ∈ s.effects ∨ ∃ op ∈ ops, op.id = id ∧ mayExec opts decide op := by
  induction ops with
  | nil => intro s id h; left; simpa [runOps] using h
  | cons op rest ih =>
    intro s id h
    simp only [runOps, List.foldl_cons] at h
    rcases ih (stepOp opts decide s op) id h with h1 | ⟨o, ho, hid, hm⟩
    · rcases step_effects opts decide s op with e | ⟨e, hm⟩
      · rw [e] at h1; exact Or.inl h1
      · rw [e] at h1
        rcases List.mem_append.mp h1 with h2 | h2
        · exact Or.inl h2
        · right; exact ⟨op, by simp, by simpa using (List.mem_singleton.mp h2).symm, hm⟩
    · right; exact ⟨o, by simp [ho], hid, hm⟩

private theorem run_after_end (opts : List Kind) (decide : Nat → Act) (ops : List Op) :
    ∀ s : RunSt, s.status = .disallowed → runOps opts decide ops s = s := by
  induction ops with
  | nil => intro s _; rfl
  | cons op rest ih =>
    intro s h
    simp only [runOps, List.foldl_cons]
    have : stepOp opts decide s op = s := by simp [stepOp, h]
    rw [this]; exact ih s h

private theorem step_kill (opts : List Kind) (decide : Nat → Act) (s : RunSt) (op : Op) (hk : killsRun opts decide op) :
    (stepOp opts decide s op).status = .disallowed ∧ (stepOp opts decide s op).effects = s.effects ∧
    (stepOp opts decide s op).rets = s.rets := by
  unfold stepOp
  by_cases h : s.status = .disallowed
  · simp [h]
  · simp only [h, if_false]
    rcases hk with hf | ⟨hf, ht, hd⟩
    · simp [hf]
    · simp [hf, ht, hd]

/-- **a killed syscall ends the run as Disallowed Syscall and nothing after it happens**: the call
itself does not execute, no later call of any process executes, the program sees nothing more. -/
theorem C03_kill_ends_run (opts : List Kind) (decide : Nat → Act) (pre post : List Op) (op : Op) (s : RunSt)
    (hk : killsRun opts decide op) :
    let mid := runOps opts decide pre s
    let fin := runOps opts decide (pre ++ op :: post) s
    fin.status = .disallowed ∧ fin.effects = mid.effects ∧ fin.rets = mid.rets := by
  intro mid fin
  have hfin : fin = runOps opts decide post (stepOp opts decide mid op) := by
    simp [fin, mid, runOps, List.foldl_append]
  obtain ⟨k1, k2, k3⟩ := step_kill opts decide mid op hk
  rw [hfin, run_after_end opts decide post _ k1]
  exact ⟨k1, k2, k3⟩

/-- **a banned syscall does not execute and the program sees the configured error** -/
theorem C03_ban_seen (opts : List Kind) (decide : Nat → Act) (s : RunSt) (op : Op)
    (hs : s.status = .normal) (hf : op.fres = .trace) (ht : tracedProc opts op.lineage = true) (hd : decide op.id = .ban) :
    (stepOp opts decide s op).effects = s.effects ∧
    (stepOp opts decide s op).rets = s.rets ++ [(op.id, -(banRet : Int))] ∧
    (stepOp opts decide s op).status = .normal := by
  simp [stepOp, hs, hf, ht, hd]

/-- **an allowed syscall executes** (while the run is on) -/
theorem C03_allowed_executes (opts : List Kind) (decide : Nat → Act) (s : RunSt) (op : Op)
    (hs : s.status = .normal) (hm : mayExec opts decide op) :
    (stepOp opts decide s op).effects = s.effects ++ [op.id] ∧ (stepOp opts decide s op).rets = s.rets ∧
    (stepOp opts decide s op).status = .normal := by
  rcases hm with hf | ⟨hf, ht, hd⟩
  · simp [stepOp, hs, hf]
  · simp [stepOp, hs, hf, ht, hd]

/-- non-vacuity: a program over a fork / vfork / thread tree with one ban and one kill -/
example :
    let d : Nat → Act := fun i => if i = 2 then .ban else if i = 4 then .kill else .allow
    runOps [Kind.fork, .vfork, .clone] d
      [⟨[], 0, .allow⟩, ⟨[.fork], 1, .trace⟩, ⟨[.fork, .clone], 2, .trace⟩, ⟨[.vfork], 3, .trace⟩, ⟨[.clone], 4, .trace⟩, ⟨[], 5, .allow⟩] {} =
    { effects := [0, 1, 3], rets := [(2, -13)], status := .disallowed } := by decide

/-- **a call the filter kills ends the whole program, not one thread** (regenerated `ToSeccompAction`,
kernel-evaluated): the library's kill action — named, unset (0) or unknown — is compiled to
SECCOMP_RET_KILL_PROCESS, which is not the thread-only kill: a multi-threaded program cannot lose one
thread to the filter and carry on (its exit would then be reported instead of Disallowed Syscall) -/
theorem C03_gen_filter_kill_is_process_wide :
    [Int.ofNat Gen.Consts.ActionKill, 0, 77].all (fun a =>
      match Model.SeccompGen.runAction a with
      | .ok r => r == Int.ofNat Gen.Consts.libseccomp_ActionKillProcess
      | .error _ => false) = true ∧
    Gen.Consts.libseccomp_ActionKillProcess ≠ Gen.Consts.libseccomp_ActionKillThread := by
  constructor <;> decide +kernel

end GoSandbox.Props.C03
