/-
C18 — Path-set policy admits only covered paths; counters never exceed their budget.
PROPERTY THEOREMS ONLY (helper lemmas live in Lemmas/FileSet.lean).
-/
import GoSandbox.Model.FileSet
import GoSandbox.Model.FileSetGen
import GoSandbox.Spec.Covers
import GoSandbox.Lemmas.FileSet
namespace GoSandbox.Props.C18
open GoSandbox.Model.FileSet GoSandbox.Spec GoSandbox.Lemmas.FileSet

/-- **Soundness of the set lookup**, for every set and every query string:
`IsInSetSmart` answers `true` only if some entry covers the path (or the path is `/` and the
system-root flag is set).  Hypothesis `AbsOrEmpty` is what the ptrace handler guarantees for
every string it passes (absolute, or "" for an unresolvable name); without it `{"/*"}` admits the
relative name `abc` (see `C18_relative_witness`). -/
theorem C18_sound (s : FileSet) (p : Str) (hp : AbsOrEmpty p)
    (h : inSetSmart s p = true) : admittedBy s p := by
  unfold inSetSmart at h
  by_cases h1 : p ∈ s.set
  · exact Or.inl ⟨p, h1, Or.inl rfl⟩
  · simp only [h1, if_false] at h
    by_cases h2 : p = ['/'] ∧ s.systemRoot = true
    · exact Or.inr h2
    · simp only [h2, if_false] at h
      have hl := loop_sound s.set p hp p.length 0 p (Nat.le_refl _) (Or.inl ⟨rfl, rfl⟩)
      cases hloop : loop s.set p.length 0 p with
      | none => exact Or.inl (hl.1 hloop)
      | some level =>
        have hinv := hl.2 level hloop
        rw [hloop] at h
        simp only at h
        by_cases h3 : level = 1 ∧ ['/', '*'] ∈ s.set
        · left; refine ⟨_, h3.2, ?_⟩
          rcases hinv with ⟨h0, _⟩ | ⟨_, rest, hrest, hno⟩
          · omega
          · right; right; exact ⟨[], rest, rfl, by simpa using hrest, hno h3.1⟩
        · simp only [h3, if_false] at h
          by_cases h4 : ['/'] ∈ s.set
          · left; refine ⟨_, h4, ?_⟩
            right; left; refine ⟨[], rfl, ?_⟩
            rcases hp with rfl | ⟨r, rfl⟩
            · left; rfl
            · right; exact ⟨r, rfl⟩
          · simp [h4] at h

/-- The excluded region is real: for a *relative* name the level counter treats `abc` as a child
of the root.  Reachable only by calling the exported method directly (the handler passes
absolute-or-empty strings), reported as an observation. -/
theorem C18_relative_witness :
    inSetSmart ⟨[['/', '*']], false⟩ ['a', 'b', 'c'] = true ∧
    ¬ admittedBy ⟨[['/', '*']], false⟩ ['a', 'b', 'c'] := by
  refine ⟨by decide, ?_⟩
  intro h
  rcases h with ⟨e, he, hc⟩ | ⟨h, _⟩
  · simp at he; subst he
    rcases hc with h | ⟨d, h, _⟩ | ⟨d, c, h1, h2, _⟩
    · simp at h
    · have := congrArg List.getLast? h; simp at this
    · have hd : d = [] := by
        have := congrArg List.length h1
        simp only [List.length_cons, List.length_nil, List.length_append] at this
        exact List.length_eq_zero_iff.mp (by omega)
      subst hd; simp at h2
  · simp at h

/-- Access-class cascade: an `allow` for a class is only given through that class' chain of sets
(write: W; read: W,R; stat: W,R,S), for the path or its real path. -/
theorem C18_cascade (fs : FileSets) (rp : Str → Str) (c : Cls) (p : Str)
    (hp : AbsOrEmpty p) (hrp : AbsOrEmpty (rp p))
    (h : check fs rp c p = .allow) : admitted fs rp c p := by
  have key : ∀ s, (inSetSmart s p || inSetSmart s (rp p)) = true →
      admittedBy s p ∨ admittedBy s (rp p) := by
    intro s hs
    rcases Bool.or_eq_true _ _ |>.mp hs with h | h
    · exact Or.inl (C18_sound s p hp h)
    · exact Or.inr (C18_sound s (rp p) hrp h)
  unfold admitted chain
  cases c <;> simp only [check, onDgs] at h
  · by_cases hw : isWritable fs rp p = true
    · exact ⟨fs.writable, by simp, key _ hw⟩
    · simp [hw] at h; split at h <;> simp at h
  · by_cases hr : isReadable fs rp p = true
    · unfold isReadable isWritable at hr
      simp only [Bool.or_eq_true] at hr
      rcases hr with ((hr | hr) | hr) | hr
      · exact ⟨fs.writable, by simp, key _ (by simp [hr])⟩
      · exact ⟨fs.writable, by simp, key _ (by simp [hr])⟩
      · exact ⟨fs.readable, by simp, key _ (by simp [hr])⟩
      · exact ⟨fs.readable, by simp, key _ (by simp [hr])⟩
    · simp [hr] at h; split at h <;> simp at h
  · by_cases hr : isStatable fs rp p = true
    · unfold isStatable isReadable isWritable at hr
      simp only [Bool.or_eq_true] at hr
      rcases hr with ((((hr | hr) | hr) | hr) | hr) | hr
      · exact ⟨fs.writable, by simp, key _ (by simp [hr])⟩
      · exact ⟨fs.writable, by simp, key _ (by simp [hr])⟩
      · exact ⟨fs.readable, by simp, key _ (by simp [hr])⟩
      · exact ⟨fs.readable, by simp, key _ (by simp [hr])⟩
      · exact ⟨fs.statable, by simp, key _ (by simp [hr])⟩
      · exact ⟨fs.statable, by simp, key _ (by simp [hr])⟩
    · simp [hr] at h; split at h <;> simp at h

/-- writable ⇒ readable ⇒ statable. -/
theorem C18_implies (fs : FileSets) (rp : Str → Str) (p : Str) :
    (isWritable fs rp p = true → isReadable fs rp p = true) ∧
    (isReadable fs rp p = true → isStatable fs rp p = true) := by
  constructor <;> intro h
  · simp [isReadable, h]
  · simp [isStatable, h]

/-- A refusal is a soft ban exactly when the soft-ban set covers the path (in the model:
`IsSoftBanFile`), otherwise a kill. -/
theorem C18_refusal_kind (fs : FileSets) (rp : Str → Str) (c : Cls) (p : Str)
    (h : check fs rp c p ≠ .allow) :
    (isSoftBan fs rp p = true → check fs rp c p = .ban) ∧
    (isSoftBan fs rp p = false → check fs rp c p = .kill) := by
  cases c <;> simp only [check, onDgs] at h ⊢ <;>
    (split at h
     · exact absurd rfl h
     · rename_i hx; simp only [hx]; constructor <;> intro hb <;> simp [hb])

/-- The empty path (unresolvable name) is admitted by a set only through a literal `"/"` entry
(the directory entry of the empty directory name). -/
theorem C18_empty_refused (s : FileSet) (h : inSetSmart s [] = true) :
    [] ∈ s.set ∨ ['/'] ∈ s.set := by
  unfold inSetSmart at h
  by_cases h1 : ([] : Str) ∈ s.set
  · exact Or.inl h1
  · right
    simp [h1, loop] at h
    exact h

/-! ### counters -/

theorem get_set (c : Counter) (k k' : Str) (v : Int) :
    (c.set k v).get? k' = if k = k' then some v else c.get? k' := by
  induction c with
  | nil => simp [Counter.set, Counter.get?]
  | cons hd tl ih =>
    obtain ⟨a, b⟩ := hd
    simp only [Counter.set]
    by_cases h : a = k
    · subst h; simp only [if_true, Counter.get?]
      by_cases h' : a = k' <;> simp [h']
    · simp only [h, if_false, Counter.get?]
      by_cases h' : a = k'
      · subst h'; simp [Ne.symm h]
      · simp [h', ih]

/-- run a history of `CheckSyscall` calls against a counter table. -/
def runHist (c : Counter) : List Str → List (Str × Action)
  | [] => []
  | n :: rest => let r := checkSyscall c n; (n, r.2) :: runHist r.1 rest

def allowedCount (name : Str) (l : List (Str × Action)) : Nat :=
  (l.filter (fun x => x.1 = name ∧ x.2 = .allow)).length

/-- **Budget**: over any call history a counted name is allowed at most `configured - 1`
(hence at most `configured`) times. Stated on unbounded `Int`; the Go `int` wraps only after
2^63 calls. -/
theorem C18_counter (hist : List Str) :
    ∀ (c : Counter) (name : Str) (n : Int), c.get? name = some n →
      allowedCount name (runHist c hist) ≤ (n - 1).toNat ∧
      allowedCount name (runHist c hist) ≤ n.toNat := by
  suffices H : ∀ (c : Counter) (name : Str) (n : Int), c.get? name = some n →
      allowedCount name (runHist c hist) ≤ (n - 1).toNat by
    intro c name n h; exact ⟨H c name n h, Nat.le_trans (H c name n h) (by omega)⟩
  induction hist with
  | nil => intro c name n _; simp [runHist, allowedCount]
  | cons x rest ih =>
    intro c name n hn
    simp only [runHist, allowedCount]
    by_cases hx : x = name
    · subst hx
      have hc : checkSyscall c x = (c.set x (n - 1), if n ≤ 1 then .kill else .allow) := by
        simp only [checkSyscall, counterCheck, hn]
        by_cases h1 : n ≤ 1 <;> simp [h1]
      have hget : (c.set x (n - 1)).get? x = some (n - 1) := by simp [get_set]
      have := ih (c.set x (n - 1)) x (n - 1) hget
      simp only [allowedCount] at this
      rw [hc]
      by_cases h1 : n ≤ 1
      · simp only [h1, if_true]
        rw [List.filter_cons]; simp only [reduceCtorEq, and_false, decide_false]
        simp only [if_false]
        omega
      · simp only [h1, if_false]
        rw [List.filter_cons]; simp only [and_self, decide_true, if_true, List.length_cons]
        omega
    · have hget : (checkSyscall c x).1.get? name = some n := by
        simp only [checkSyscall, counterCheck]
        cases hc : c.get? x with
        | none => simpa using hn
        | some m =>
          by_cases h1 : m ≤ 1 <;> simp [h1, get_set, hx, hn]
      have := ih _ name n hget
      simp only [allowedCount] at this
      rw [List.filter_cons]; simp only [hx, false_and, decide_false]
      simpa using this

/-- **Once refused, always refused**: when the counter of `name` is ≤ 1 (which is exactly when
a call is refused), every later call for `name` in any history is a kill. -/
theorem C18_counter_stays_refused (hist : List Str) :
    ∀ (c : Counter) (name : Str) (n : Int), c.get? name = some n → n ≤ 1 →
      ∀ x ∈ runHist c hist, x.1 = name → x.2 = .kill := by
  induction hist with
  | nil => intro c name n _ _ x hx; simp [runHist] at hx
  | cons y rest ih =>
    intro c name n hn hle x hx hxn
    simp only [runHist, List.mem_cons] at hx
    by_cases hy : y = name
    · subst hy
      have hc : checkSyscall c y = (c.set y (n - 1), .kill) := by
        simp [checkSyscall, counterCheck, hn, hle]
      rcases hx with rfl | hx
      · simp [hc]
      · rw [hc] at hx
        exact ih _ y (n - 1) (by simp [get_set]) (by omega) x hx hxn
    · rcases hx with rfl | hx
      · exact absurd (by simpa using hxn) hy
      · have hget : (checkSyscall c y).1.get? name = some n := by
          simp only [checkSyscall, counterCheck]
          cases hc : c.get? y with
          | none => simpa using hn
          | some m => by_cases h1 : m ≤ 1 <;> simp [h1, get_set, hy, hn]
        exact ih _ name n hget hle x hx hxn

/-- a refusal leaves the counter ≤ 1, so `C18_counter_stays_refused` applies afterwards. -/
theorem C18_refusal_sets_low (c : Counter) (name : Str)
    (h : (checkSyscall c name).2 = .kill) :
    ∃ n, (checkSyscall c name).1.get? name = some n ∧ n ≤ 1 := by
  simp only [checkSyscall, counterCheck] at h ⊢
  cases hc : c.get? name with
  | none => simp [hc] at h
  | some m =>
    by_cases h1 : m ≤ 1
    · simp [h1, get_set]; omega
    · simp [hc, h1] at h

/-- an uncounted traced syscall is soft-banned and the table is unchanged. -/
theorem C18_uncounted_banned (c : Counter) (name : Str) (h : c.get? name = none) :
    checkSyscall c name = (c, .ban) := by
  simp [checkSyscall, counterCheck, h]

/-! ### non-vacuity: concrete states meeting the hypotheses -/
example : AbsOrEmpty "/usr/lib/x".toList ∧
    inSetSmart ⟨["/usr/".toList], false⟩ "/usr/lib/x".toList = true := by
  refine ⟨Or.inr ⟨_, rfl⟩, by decide⟩
example : inSetSmart ⟨["/w/*".toList], false⟩ "/w/a".toList = true ∧
    inSetSmart ⟨["/w/*".toList], false⟩ "/w/a/b".toList = false := by decide
example : allowedCount "fork".toList (runHist [("fork".toList, 3)]
    ["fork".toList, "fork".toList, "fork".toList, "fork".toList]) = 2 := by decide

/-! ### the regenerated code computes the hand model (evaluated by the kernel) -/

open GoSandbox.Model.FileSetGen in
def tieSets : List FileSet :=
  let keys : List (List String) := [[], ["/"], ["/*"], ["/a"], ["/a/"], ["/a/*"], ["/a/a/"], ["/*", "/a/"], ["/a/a", "/a/*"], ["//"], ["*"], ["a/"]]
  keys.flatMap (fun k => [⟨k.map String.toList, false⟩, ⟨k.map String.toList, true⟩])

open GoSandbox.Model.FileSetGen in
/-- **tie of IsInSetSmart**: on every string over {'/', 'a', '*'} of length ≤ 3, ten longer names (two and
three levels deep, doubled slashes) and 24 sets (root
entries, directory entries, children entries, nested, malformed, with and without SystemRoot) the
regenerated `IsInSetSmart`/`dirname` return what the hand model returns -/
theorem C18_tie_inset :
    tieSets.all (fun s => (words ['/', 'a', '*'] 3 ++ ["/a/a", "/a/*", "/a/a/", "/a/a/a", "//a/", "/a//", "/a/a/a/a", "/*/a", "a/a/a", "/aa/a"].map String.toList).all
      (fun n => genInSet s n == some (inSetSmart s n))) = true := by
  decide +kernel

open GoSandbox.Model.FileSetGen in
/-- **tie of the class cascade**: IsWritableFile ⊆ IsReadableFile ⊆ IsStatableFile and IsSoftBanFile of the
regenerated code equal the hand model, with `realPath` the identity and with `realPath` = "" (unresolvable) -/
theorem C18_tie_classes :
    (let fs : FileSets := ⟨⟨["/w/".toList], false⟩, ⟨["/r/*".toList], false⟩, ⟨["/s".toList], true⟩, ⟨["/b/".toList], false⟩⟩
     ["/w/x", "/r/x", "/r/x/y", "/s", "/", "/b/q", "", "/zz"].all (fun n =>
       [fun (x : Str) => x, fun _ => ([] : Str)].all (fun rp =>
         genClasses fs rp n.toList == some (isWritable fs rp n.toList, isReadable fs rp n.toList, isStatable fs rp n.toList, isSoftBan fs rp n.toList)))) = true := by
  decide +kernel

open GoSandbox.Model.FileSetGen in
/-- **tie of the handler's verdicts**: the regenerated Handler.CheckWrite/CheckRead/CheckStat with the regenerated
onDgsFileDetect give the hand model's verdict (allow through the class' chain of sets, otherwise soft ban exactly
when the soft-ban set covers the name, otherwise kill) for each class on names of every kind — covered by each set,
by the soft-ban set only, by nothing, the root, the empty (unresolvable) name — with `realPath` the identity and
`realPath` = "" -/
theorem C18_tie_handler :
    (let fs : FileSets := ⟨⟨["/w/".toList], false⟩, ⟨["/r/*".toList], false⟩, ⟨["/s".toList], true⟩, ⟨["/b/".toList, "/s".toList], false⟩⟩
     ["/w/x", "/r/x", "/r/x/y", "/s", "/", "/b/q", "", "/zz"].all (fun n =>
       [fun (x : Str) => x, fun _ => ([] : Str)].all (fun rp =>
         [Cls.write, Cls.read, Cls.stat].all (fun c =>
           genCheck fs rp c n.toList == some (check fs rp c n.toList))))) = true := by
  decide +kernel

/-- call histories over a small alphabet of names -/
def histories (names : List Str) : Nat → List (List Str)
  | 0 => [[]]
  | n + 1 => (histories names n).flatMap (fun h => [] :: names.map (fun x => x :: h))

open GoSandbox.Model.FileSetGen in
/-- run a history through the regenerated CheckSyscall and through the hand model, comparing verdict and table after every call -/
def historyAgrees : Counter → List Str → Bool
  | _, [] => true
  | c, x :: rest =>
    match genCheckSyscall c x with
    | some (c', a) => (checkSyscall c x == (c', a)) && historyAgrees c' rest
    | none => false

open GoSandbox.Model.FileSetGen in
/-- **tie of the counter**: over every call history of length ≤ 4 on the names {a, b, u} from a table that counts
`a` down from 3 and `b` from 1 (and does not know `u`), the regenerated CheckSyscall + SyscallCounter.Check return
the hand model's verdict and leave the hand model's table after every call (so the theorems `C18_counter`,
`C18_counter_stays_refused`, `C18_uncounted_banned` speak about the code's table); budgets 0, 1, 2 and a negative
one; and the regenerated Add sets exactly one entry -/
theorem C18_tie_counter :
    ((histories ["a".toList, "b".toList, "u".toList] 4).all (fun h =>
       historyAgrees [("a".toList, 3), ("b".toList, 1)] h)) = true ∧
    ([0, 1, 2, -1].all (fun (k : Int) => historyAgrees [("a".toList, k)] ["a".toList, "a".toList, "a".toList])) = true ∧
    (genCounterAdd [("a".toList, 3)] "b".toList 2 == some [("a".toList, 3), ("b".toList, 2)] &&
     genCounterAdd [("a".toList, 3), ("b".toList, 1)] "a".toList 7 == some [("a".toList, 7), ("b".toList, 1)]) = true := by
  refine ⟨?_, ?_, ?_⟩ <;> decide +kernel

end GoSandbox.Props.C18
