/-
C14 — Host file operations are index-aligned and safe against planted objects.
PROPERTY THEOREMS ONLY.
-/
import GoSandbox.Model.Batch
namespace GoSandbox.Props.C14
open GoSandbox.Model.Batch

/-- does item c succeed? -/
def itemOk (c : OpenCmd) : Bool := !(c.mkdirAll && c.mkdirFails) && checkTarget c.kind && !c.openFails

/-- **index alignment**: for any batch and any mixture of successes and failures, pairing the
container's reply with the request on the host gives one result per item, in order; item k is a
file exactly when item k succeeded, and that file is the one opened for item k's path. -/
theorem C14_aligned : ∀ (cmds : List OpenCmd) (n : Nat),
    ∃ rs, assign (containerOpen cmds n).1 (containerOpen cmds n).2 (cmds.map (·.path)) = some rs ∧
      rs.length = cmds.length ∧
      ∀ k (h : k < cmds.length) (h' : k < rs.length),
        (itemOk cmds[k] = true → ∃ fd, rs[k] = .file fd cmds[k].path) ∧
        (itemOk cmds[k] = false → ∃ m, rs[k] = .err m ∧ m ≠ "") := by
  intro cmds
  induction cmds with
  | nil => intro n; exact ⟨[], rfl, rfl, fun k h => absurd h (by simp)⟩
  | cons c rest ih =>
    intro n
    have key : ∀ (e : String) (he : e ≠ "") (hok : itemOk c = false),
        containerOpen (c :: rest) n = (e :: (containerOpen rest n).1, (containerOpen rest n).2) →
        ∃ rs, assign (containerOpen (c :: rest) n).1 (containerOpen (c :: rest) n).2 ((c :: rest).map (·.path)) = some rs ∧
          rs.length = (c :: rest).length ∧
          ∀ k (h : k < (c :: rest).length) (h' : k < rs.length),
            (itemOk (c :: rest)[k] = true → ∃ fd, rs[k] = .file fd (c :: rest)[k].path) ∧
            (itemOk (c :: rest)[k] = false → ∃ m, rs[k] = .err m ∧ m ≠ "") := by
      intro e he hok hdef
      obtain ⟨rs, h1, h2, h3⟩ := ih n
      refine ⟨Res.err e :: rs, ?_, by simp [h2], ?_⟩
      · rw [hdef]; simp [assign, he, h1]
      · intro k hk hk'
        cases k with
        | zero =>
          simp only [List.getElem_cons_zero]
          exact ⟨fun h => by simp [hok] at h, fun _ => ⟨e, rfl, he⟩⟩
        | succ j =>
          have hj : j < rest.length := by simpa using hk
          have hj' : j < rs.length := by simpa using hk'
          simpa using h3 j hj hj'
    by_cases hm : (c.mkdirAll && c.mkdirFails) = true
    · exact key "mkdir" (by decide) (by simp [itemOk, hm]) (by simp [containerOpen, hm])
    · by_cases ht : checkTarget c.kind = true
      · by_cases ho : c.openFails = true
        · exact key "open-failed" (by decide) (by simp [itemOk, ho]) (by simp [containerOpen, hm, ht, ho])
        · -- success
          obtain ⟨rs, h1, h2, h3⟩ := ih (n + 1)
          have hdef : containerOpen (c :: rest) n = ("" :: (containerOpen rest (n + 1)).1, (n, c.path) :: (containerOpen rest (n + 1)).2) := by
            simp [containerOpen, hm, ht, ho]
          refine ⟨Res.file n c.path :: rs, ?_, by simp [h2], ?_⟩
          · rw [hdef]; simp [assign, h1]
          · intro k hk hk'
            cases k with
            | zero =>
              have : itemOk c = true := by simp [itemOk, hm, ht, ho]
              simp only [List.getElem_cons_zero]
              exact ⟨fun _ => ⟨n, rfl⟩, fun h => by simp [this] at h⟩
            | succ j =>
              have hj : j < rest.length := by simpa using hk
              have hj' : j < rs.length := by simpa using hk'
              simpa using h3 j hj hj'
      · exact key "not-regular" (by decide) (by simp [itemOk, ht]) (by simp [containerOpen, hm, ht])

/-- **only a regular file or a new one**: a descriptor is produced for an item only if `lstat`
found nothing there or a regular file — never through a final-component symlink planted by a
program, never a FIFO, socket, device or directory (so the open cannot block). -/
theorem C14_only_regular_or_new : ∀ (cmds : List OpenCmd) (n : Nat) (fd : Nat) (p : String),
    (fd, p) ∈ (containerOpen cmds n).2 → ∃ c ∈ cmds, c.path = p ∧ (c.kind = .absent ∨ c.kind = .regular) := by
  intro cmds
  induction cmds with
  | nil => intro n fd p h; simp [containerOpen] at h
  | cons c rest ih =>
    intro n fd p h
    simp only [containerOpen] at h
    split at h
    · obtain ⟨c', hc', hp⟩ := ih n fd p h; exact ⟨c', List.mem_cons_of_mem _ hc', hp⟩
    · split at h
      · obtain ⟨c', hc', hp⟩ := ih n fd p h; exact ⟨c', List.mem_cons_of_mem _ hc', hp⟩
      · rename_i hk
        split at h
        · obtain ⟨c', hc', hp⟩ := ih n fd p h; exact ⟨c', List.mem_cons_of_mem _ hc', hp⟩
        · simp only [List.mem_cons, Prod.mk.injEq] at h
          rcases h with ⟨_, rfl⟩ | h
          · refine ⟨c, List.mem_cons_self, rfl, ?_⟩
            simp only [checkTarget, Bool.not_eq_true, Bool.or_eq_false_iff, not_and] at hk
            cases hkind : c.kind <;> simp_all
          · obtain ⟨c', hc', hp⟩ := ih (n + 1) fd p h; exact ⟨c', List.mem_cons_of_mem _ hc', hp⟩

/-- **an inconsistent reply closes everything**: for *any* reply (not only honest ones) — a
length mismatch or fewer descriptors than successes — the host returns an error and every
descriptor that arrived with the reply is closed. -/
theorem C14_inconsistent_reply_closes_all (paths errs : List String) (fds : List (Nat × String))
    (h : (hostOpen paths errs fds).1 = none) : (hostOpen paths errs fds).2 = fds.map (·.1) := by
  unfold hostOpen at *
  split
  · rfl
  · cases hA : assign errs fds paths <;> simp_all

theorem containerOpen_length (cmds : List OpenCmd) : ∀ n, (containerOpen cmds n).1.length = cmds.length := by
  induction cmds with
  | nil => intro n; simp [containerOpen]
  | cons c rest ih => intro n; simp only [containerOpen]; (repeat' split) <;> simp [ih]

/-- and an honest reply is never rejected. -/
theorem C14_honest_reply_accepted (cmds : List OpenCmd) (n : Nat) :
    (hostOpen (cmds.map (·.path)) (containerOpen cmds n).1 (containerOpen cmds n).2).1.isSome = true := by
  obtain ⟨rs, h1, _, _⟩ := C14_aligned cmds n
  simp [hostOpen, containerOpen_length, h1]

/-! ### tie to the regenerated container side (kernel-evaluated on batches with every kind) -/

def sampleBatches : List (List OpenCmd) := [
  [],
  [⟨"/a", .regular, false, false, false⟩],
  [⟨"/a", .symlink, false, false, false⟩, ⟨"/b", .absent, false, false, false⟩],
  [⟨"/a", .regular, false, false, false⟩, ⟨"/b", .symlink, false, false, false⟩, ⟨"/c", .absent, true, false, false⟩, ⟨"/d", .fifo, false, false, false⟩,
   ⟨"/e", .regular, false, false, true⟩, ⟨"/f", .absent, true, true, false⟩, ⟨"/g", .dir, false, false, false⟩, ⟨"/h", .socket, false, false, false⟩,
   ⟨"/i", .device, false, false, false⟩, ⟨"/j", .lstatFails, false, false, false⟩, ⟨"/k", .regular, true, false, false⟩]]

theorem C14_tie_handleOpen :
    sampleBatches.all (fun b => match genContainerOpen b with
      | .ok (errs, fds, opened) =>
        let m := containerOpen b 10
        errs.map (· == "") == m.1.map (· == "") && fds == m.2.map (·.1) && opened == m.2
      | .error _ => false) = true := by decide +kernel

example : (containerOpen [⟨"/a", .symlink, false, false, false⟩, ⟨"/b", .absent, false, false, false⟩] 3) = (["not-regular", ""], [(3, "/b")]) := by decide

end GoSandbox.Props.C14
