/-
C12 — No residue: no processes, zombies, descriptors or goroutines left behind.
The process part is a theorem about the reaping handshake of the container init over an abstract
process forest (Kernel/Proc.lean), for every forest; ownership of descriptors is tied to the code
by extracted facts; the runtime counts (descriptors, children, goroutines of the host and of the
init) are explored by the harness over histories (partial).  PROPERTY THEOREMS ONLY.
-/
import GoSandbox.Kernel.Proc
import GoSandbox.Gen.C12
namespace GoSandbox.Props.C12
open GoSandbox.Kernel.Proc

theorem reap1_length (f f' : Forest) (h : reap1 f = some f') : f'.length + 1 = f.length := by
  induction f generalizing f' with
  | nil => simp [reap1] at h
  | cons p rest ih =>
    simp only [reap1] at h
    split at h
    · simp at h; subst h; simp
    · cases hr : reap1 rest with
      | none => simp [hr] at h
      | some r => simp [hr] at h; subst h; simp [ih r hr]

theorem reap1_none_of_all_dead_init (f : Forest) (hd : ∀ p ∈ f, p.alive = false ∧ p.parent = 1) (h : reap1 f = none) : f = [] := by
  cases f with
  | nil => rfl
  | cons p rest =>
    have := hd p List.mem_cons_self
    simp [reap1, this.1, this.2] at h

theorem reparent_killed (f : Forest) (hd : ∀ p ∈ f, p.alive = false) (hp : ∀ p ∈ f, p.parent = 1 ∨ isDead f p.parent = true) :
    ∀ p ∈ reparent f, p.alive = false ∧ p.parent = 1 := by
  intro p hpm
  simp only [reparent, List.mem_map] at hpm
  obtain ⟨q, hq, rfl⟩ := hpm
  rcases hp q hq with h | h
  · split <;> simp [hd q hq, h]
  · simp [h, hd q hq]

/-- all dead, all children of init ⇒ the wait loop empties the forest -/
theorem waitAll_empties : ∀ (fuel : Nat) (f : Forest), f.length ≤ fuel → (∀ p ∈ f, p.alive = false ∧ p.parent = 1) →
    waitAll fuel f = [] := by
  intro fuel
  induction fuel with
  | zero => intro f hl _; have : f = [] := List.length_eq_zero_iff.mp (by omega); subst this; rfl
  | succ fuel ih =>
    intro f hl hd
    have hrep : reparent f = f := by
      simp only [reparent]
      conv => rhs; rw [← List.map_id f]
      apply List.map_congr_left
      intro p hp
      have := hd p hp
      split
      · cases p; simp_all
      · rfl
    simp only [waitAll, hrep]
    cases hr : reap1 f with
    | none => exact reap1_none_of_all_dead_init f hd hr
    | some f' =>
      simp only
      have hlen := reap1_length f f' hr
      apply ih f' (by omega)
      intro p hp
      -- f' is f with one element removed
      have hsub : ∀ (g g' : Forest), reap1 g = some g' → ∀ x ∈ g', x ∈ g := by
        intro g
        induction g with
        | nil => intro g' h; simp [reap1] at h
        | cons y ys ihy =>
          intro g' h x hx
          simp only [reap1] at h
          split at h
          · simp at h; subst h; exact List.mem_cons_of_mem _ hx
          · cases hr' : reap1 ys with
            | none => simp [hr'] at h
            | some r =>
              simp [hr'] at h; subst h
              rcases List.mem_cons.mp hx with rfl | hx'
              · exact List.mem_cons_self
              · exact List.mem_cons_of_mem _ (ihy r hr' x hx')
      exact hd p (hsub f f' hr p hp)

/-- **C12_container_no_children**: whatever process tree the program built (any depth, fan-out,
double forks, orphans, processes that ignore signals or outlive their parent) — as long as every
process' parent is init or another process of the namespace — after init's `kill(-1, SIGKILL)` and
the wait-until-ECHILD loop, init has no child left, live or zombie. -/
theorem C12_container_no_children (f : Forest)
    (hp : ∀ p ∈ f, p.parent = 1 ∨ f.any (fun q => q.pid == p.parent) = true) :
    waitAll (f.length + 1) (killAll f) = [] := by
  have hd : ∀ p ∈ killAll f, p.alive = false := by
    intro p h; simp only [killAll, List.mem_map] at h; obtain ⟨q, _, rfl⟩ := h; rfl
  have hpar : ∀ p ∈ killAll f, p.parent = 1 ∨ isDead (killAll f) p.parent = true := by
    intro p h
    simp only [killAll, List.mem_map] at h
    obtain ⟨q, hq, rfl⟩ := h
    rcases hp q hq with h1 | h1
    · exact Or.inl h1
    · right
      simp only [isDead, killAll, List.any_map, List.any_eq_true] at h1 ⊢
      obtain ⟨r, hr, hrr⟩ := h1
      exact ⟨r, hr, by simpa using hrr⟩
  have h1 := reparent_killed (killAll f) hd hpar
  -- one unfolding: reparent makes everyone a dead child of init, then the loop lemma
  simp only [waitAll]
  cases hr : reap1 (reparent (killAll f)) with
  | none => exact reap1_none_of_all_dead_init _ h1 hr
  | some f' =>
    simp only
    have hlen := reap1_length _ f' hr
    have hl0 : (reparent (killAll f)).length = f.length := by simp [reparent, killAll]
    apply waitAll_empties f.length f' (by omega)
    intro p hpm
    have hsub : ∀ (g g' : Forest), reap1 g = some g' → ∀ x ∈ g', x ∈ g := by
      intro g
      induction g with
      | nil => intro g' h; simp [reap1] at h
      | cons y ys ihy =>
        intro g' h x hx
        simp only [reap1] at h
        split at h
        · simp at h; subst h; exact List.mem_cons_of_mem _ hx
        · cases hr' : reap1 ys with
          | none => simp [hr'] at h
          | some r =>
            simp [hr'] at h; subst h
            rcases List.mem_cons.mp hx with rfl | hx'
            · exact List.mem_cons_self
            · exact List.mem_cons_of_mem _ (ihy r hr' x hx')
    exact h1 p (hsub _ f' hr p hpm)

/-- **the handshake is what the code does**: on every path of handleExecve/handleExecveStarted
that started a program, `kill(-1, SIGKILL)` is issued and the wait-all request is sent to the
reaper before the function returns; descriptors received with the request are closed when the
handler returns; files opened for the host are closed by the send loop after sending. -/
theorem C12_code_facts :
    Gen.C12.execStartedPaths.all (fun path => path.contains "syscall.Kill(-1,syscall.SIGKILL)" && path.contains "c.waitAll<-") = true ∧
    Gen.C12.handleExecveDefers.contains "closeFds(msg.Fds)" = true ∧
    Gen.C12.sendLoopClosesFiles = true := by
  refine ⟨?_, ?_, ?_⟩ <;> decide +kernel

/-- **a Build that fails destroys the container it had started** (regenerated from container/environment_linux.go):
on every path through `Builder.Build` that does not return the environment — other than the failure of
`startContainer` itself, where nothing was started — `c.Destroy()` is the last thing done before the return
(ping not answered, temporary root cannot be made, working directory unknown, configuration refused).
(False before the `fix:` commit 1f2e1e4 for the two root-directory paths.) -/
theorem C12_gen_build_cleans_up :
    Gen.C12.buildPaths.all (fun p =>
      p.contains "return c" ||
      p == ["b.startContainer()", "return nil", "return err"] ||
      ((p.dropWhile (· != "c.Destroy()")).length == 3 && p.head? == some "b.startContainer()")) = true ∧
    Gen.C12.buildPaths.any (fun p => p.contains "return c") = true ∧
    (Gen.C12.buildPaths.filter (fun p => p.contains "c.Destroy()")).length ≥ 4 := by
  refine ⟨?_, ?_, ?_⟩ <;> decide +kernel

/-! non-vacuity: a double-fork orphan tree -/
example : waitAll 5 (killAll [⟨2, 1, true⟩, ⟨3, 2, true⟩, ⟨4, 3, false⟩, ⟨5, 3, true⟩]) = [] := by decide

end GoSandbox.Props.C12
