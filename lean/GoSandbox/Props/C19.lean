/-
C19 — The control socket delivers messages, descriptors and credentials intact or not at all.
Theorems about Model/Socket.lean (all histories, all buffer sizes), tied to pkg/unixsocket and to
the gob-framed layer (Model/Gob.lean: encoder, datagram queue, decoder; all histories) by the
regenerated (*socket).SendMsg/RecvMsg and the differential on real socketpairs.  PROPERTY THEOREMS ONLY.
-/
import GoSandbox.Model.Socket
import GoSandbox.Model.SocketGen
import GoSandbox.Model.Gob
import GoSandbox.Model.GobGen
import GoSandbox.Lemmas.Gob
namespace GoSandbox.Props.C19
open GoSandbox.Model.Socket

/-- **whole or not at all**: a receive either hands over exactly what one send queued — the same
bytes, the same files in the same order, the same credentials — or reports truncation and
delivers nothing as data. -/
theorem C19_whole_or_rejected (s : RState) (d f : Nat) (b : Bool) :
    match (recvMsg b s d f).1, s.queue with
    | .msg data files cred, p :: _ => data = p.data ∧ files = p.files ∧ cred = p.cred
    | .truncated, p :: _ => p.data.length > d ∨ p.files.length > f
    | .empty, q => q = []
    | _, [] => False := by
  unfold recvMsg
  cases hq : s.queue with
  | nil => simp
  | cons p rest =>
    simp only [krecv]
    by_cases h1 : p.data.length > d
    · simp [h1]
    · by_cases h2 : p.files.length > f
      · simp [h1, h2]
      · simp only [h1, h2, decide_false, Bool.or_self, Bool.false_eq_true, if_false]
        exact ⟨List.take_of_length_le (by omega), List.take_of_length_le (by omega), trivial⟩

/-- **no descriptor leak** (repaired code): over every history of sends and receives with any
buffer sizes, no descriptor installed by the kernel stays open unaccounted: the ledger of
"installed but neither handed over nor closed" stays empty. -/
theorem C19_no_fd_leak (ops : List Op) : ∀ (s : RState), s.leaked = [] → (run true ops s).2.2.leaked = [] := by
  induction ops with
  | nil => intro s h; simpa [run] using h
  | cons op rest ih =>
    intro s h
    cases op with
    | send p =>
      simp only [run]
      cases hs : send s.queue p with
      | none => simpa using ih s h
      | some q => simpa using ih { s with queue := q } h
    | recv d f =>
      simp only [run]
      have : (recvMsg true s d f).2.leaked = [] := by
        unfold recvMsg
        cases s.queue with
        | nil => simpa using h
        | cons p r => simp only; split <;> simpa using h
      simpa using ih _ this

/-- the pinned tree leaked: a message whose payload does not fit, carrying two descriptors. -/
theorem C19_trunc_witness :
    (run false [.send ⟨[1, 2, 3], [70, 71], none⟩, .recv 2 8] ⟨[], []⟩).2.2.leaked = [70, 71] ∧
    (run true [.send ⟨[1, 2, 3], [70, 71], none⟩, .recv 2 8] ⟨[], []⟩).2.2.leaked = [] := by
  constructor <;> decide

/-- **FIFO, in order**: when every receive buffer is large enough, the successful receives are
exactly the successful sends, in order. -/
theorem C19_fifo (ops : List Op) (hbig : ∀ op ∈ ops, match op with
      | .recv d f => ∀ op' ∈ ops, (match op' with | .send p => p.data.length ≤ d ∧ p.files.length ≤ f | _ => True)
      | _ => True) :
    ∀ (s : RState) (hq : ∀ p ∈ s.queue, ∀ op ∈ ops, match op with | .recv d f => p.data.length ≤ d ∧ p.files.length ≤ f | _ => True),
      ((run true ops s).2.1.filterMap (fun o => match o with | .msg d f c => some (⟨d, f, c⟩ : Packet) | _ => none)) <+:
        (s.queue ++ (run true ops s).1) := by
  induction ops with
  | nil => intro s _; simp [run]
  | cons op rest ih =>
    have hbig' : ∀ op ∈ rest, match op with
        | .recv d f => ∀ op' ∈ rest, (match op' with | .send p => p.data.length ≤ d ∧ p.files.length ≤ f | _ => True)
        | _ => True := by
      intro o ho
      have := hbig o (List.mem_cons_of_mem _ ho)
      cases o with
      | send p => trivial
      | recv d f => intro o' ho'; exact this o' (List.mem_cons_of_mem _ ho')
    intro s hq
    cases op with
    | send p =>
      simp only [run]
      cases hs : send s.queue p with
      | none =>
        simp only
        exact ih hbig' s (fun q hq' o ho => hq q hq' o (List.mem_cons_of_mem _ ho))
      | some q =>
        have hqq : q = s.queue ++ [p] := by
          simp only [send] at hs; split at hs <;> simp_all
        simp only
        have := ih hbig' { s with queue := q } (by
          intro x hx o ho
          subst hqq
          rcases List.mem_append.mp hx with hx | hx
          · exact hq x hx o (List.mem_cons_of_mem _ ho)
          · simp only [List.mem_singleton] at hx; subst hx
            have := hbig o (List.mem_cons_of_mem _ ho)
            cases o with
            | send _ => trivial
            | recv d f => exact this (.send x) List.mem_cons_self)
        subst hqq
        simpa [List.append_assoc] using this
    | recv d f =>
      simp only [run]
      cases hqs : s.queue with
      | nil =>
        have : recvMsg true s d f = (.empty, s) := by simp [recvMsg, hqs]
        rw [this]; simp only
        have := ih hbig' s (fun q hq' o ho => hq q hq' o (List.mem_cons_of_mem _ ho))
        simpa [hqs] using this
      | cons p r =>
        have hfit := hq p (by simp [hqs]) (.recv d f) List.mem_cons_self
        simp only at hfit
        have hr : recvMsg true s d f = (.msg p.data p.files p.cred, { queue := r, leaked := s.leaked }) := by
          simp only [recvMsg, hqs, krecv]
          have h1 : ¬ p.data.length > d := by omega
          have h2 : ¬ p.files.length > f := by omega
          simp [h1, h2, List.take_of_length_le hfit.1, List.take_of_length_le hfit.2]
        rw [hr]; simp only
        have := ih hbig' { queue := r, leaked := s.leaked } (by
          intro x hx o ho
          exact hq x (by simp [hqs, hx]) o (List.mem_cons_of_mem _ ho))
        simp only [List.filterMap_cons, List.cons_append]
        exact List.prefix_cons_inj _ |>.mpr this

/-- more than SCM_MAX_FD descriptors are refused on the sending side; nothing is queued. -/
theorem C19_too_many_fds_rejected (q : List Packet) (p : Packet) (h : p.files.length > scmMaxFd) : send q p = none := by
  simp [send, h]

/-! non-vacuity -/
example : (run true [.send ⟨[1, 2], [5], some (1, 0, 0)⟩, .send ⟨[3], [], none⟩, .recv 4 4, .recv 4 4] ⟨[], []⟩).2.1 =
    [.msg [1, 2] [5] (some (1, 0, 0)), .msg [3] [] none] := by decide

/-! ### the regenerated RecvMsg computes the hand model (evaluated by the kernel) -/

open GoSandbox.Model.SocketGen in
/-- **tie of RecvMsg/parseMsg**: for payloads of 1..3 bytes, 0..3 passed files, data buffers of 1..3
bytes, control buffers with room for 0..3 descriptors, with and without SO_PASSCRED (the kernel then
puts the credentials message BEFORE the rights message): the regenerated code hands over exactly
the model's message, or rejects it having closed exactly the descriptors the kernel installed. -/
theorem C19_tie_recv :
    ([1, 2, 3].all fun dl => [0, 1, 2, 3].all fun nf => [1, 2, 3].all fun dcap => [0, 1, 2, 3].all fun fcap => [false, true].all fun pc =>
      agrees ⟨List.replicate dl 7, (List.range nf).map (· + 10), none⟩ dcap fcap pc) = true := by
  decide +kernel

/-! ### the gob-framed layer (container/socket_linux.go) -/
section Gob
open GoSandbox.Model.Gob GoSandbox.Lemmas.Gob

/-- **gob layer: whole and in order, first use of each type included** — for every configuration of
message types (any sharing of nested type descriptors between them, any descriptor sizes, any cap) and
every history of sends and receives in which a send that is rejected for its size was not the first
use of a type on this encoder (`firstUsesFit`; what package container guarantees: its first command
and first reply are small): no receive ever fails to decode, and the values received so far followed
by the values still in flight are exactly the values of the accepted sends, in order. -/
theorem C19_gob_whole_in_order (c : Cfg) (ops : List Model.Gob.Op) (hfit : firstUsesFit c init ops = true) :
    (∀ o ∈ (run c init ops).2, o ≠ Out.decodeError) ∧
    gots (run c init ops).2 ++ pending (run c init ops).1.q = accepted c init ops := by
  have h := run_inv c ops init (init_inv c) hfit
  exact ⟨h.2.1, by simpa [pending, init] using h.2.2⟩

/-- **a message that does not fit is rejected on the sending side and nothing of it is delivered**:
a rejected send leaves the datagram queue and the receiver's decoder exactly as they were. -/
theorem C19_gob_rejected_sends_nothing (c : Cfg) (s : St) (k : Kind) (p : List Nat)
    (h : (step c s (.send k p)).2 = .rejected) :
    (step c s (.send k p)).1.q = s.q ∧ (step c s (.send k p)).1.known = s.known := by
  simp only [step, encode] at h ⊢
  by_cases hsz : frameSize c ((newDescs c s.sent k).map Item.desc ++ [Item.val k p]) > c.cap
  · simp [hsz]
  · simp [hsz] at h

/-- an accepted send never exceeds the cap, so the receiver's 32 KiB buffer always holds it whole
(the raw layer's truncation case cannot arise for gob-framed messages) -/
theorem C19_gob_accepted_fits (c : Cfg) (s : St) (k : Kind) (p : List Nat)
    (h : (step c s (.send k p)).2 = .sent) :
    ∃ f, (step c s (.send k p)).1.q = s.q ++ [f] ∧ frameSize c f ≤ c.cap ∧ valOf f = some (k, p) := by
  simp only [step, encode] at h ⊢
  by_cases hsz : frameSize c ((newDescs c s.sent k).map Item.desc ++ [Item.val k p]) > c.cap
  · simp [hsz] at h
  · simp only [hsz, if_false]
    exact ⟨_, rfl, by omega, valOf_encoded _ k p⟩

def tinyGob : Cfg := { descs := fun k => if k == 0 then [10, 11] else [11, 12], descSize := fun _ => 4, cap := 16 }

/-- **the open known finding `gob-unsent-oversize-first-use`, in the model**: the hypothesis of
`C19_gob_whole_in_order` is necessary.  An oversize message that is the first use of its type is
rejected, but the encoder has marked the type's descriptors as emitted: the next (small) message of
that type reaches a decoder that has never seen them and cannot be decoded — and, descriptor 11 being
shared, neither can a message of the other type. After a small first use the same oversize message is
harmless. -/
theorem C19_gob_oversize_first_use_witness :
    (run tinyGob init [.send 0 (List.replicate 20 1), .send 0 [1], .recv]).2 = [.rejected, .sent, .decodeError] ∧
    (run tinyGob init [.send 0 (List.replicate 20 1), .send 1 [1], .recv]).2 = [.rejected, .sent, .decodeError] ∧
    (run tinyGob init [.send 0 [2], .send 0 (List.replicate 20 1), .send 0 [1], .send 1 [3], .recv, .recv, .recv]).2
      = [.sent, .rejected, .sent, .sent, .got 0 [2], .got 0 [1], .got 1 [3]] ∧
    firstUsesFit tinyGob init [.send 0 (List.replicate 20 1), .send 0 [1], .recv] = false ∧
    firstUsesFit tinyGob init [.send 0 [2], .send 0 (List.replicate 20 1), .send 0 [1], .send 1 [3], .recv, .recv, .recv] = true := by
  refine ⟨?_, ?_, ?_, ?_, ?_⟩ <;> decide

open GoSandbox.Model.GobGen in
/-- **tie of the gob layer to the code**: the regenerated `(*socket).SendMsg` (reset the buffer, encode,
compare with bufferSize, hand the buffer to the raw socket) and `(*socket).RecvMsg` (receive a datagram,
point the decoder at exactly those bytes, decode) run over the model's encoder, queue and decoder give
the model's outcome and leave the model's state after every operation, on every history of length ≤ 4
over {small / oversize message of either of two types with a shared nested descriptor, receive} —
including the oversize first use, a receive on an empty queue, and sends after rejected sends (a buffer
that is not reset would accumulate). -/
theorem C19_tie_gob :
    ((histories [.send 0 [1], .send 0 (List.replicate 20 1), .send 1 [2, 3], .send 1 (List.replicate 9 5), .recv] 4).all
      (agrees tinyGob)) = true := by
  decide +kernel

/-! non-vacuity -/
example : (GoSandbox.Model.GobGen.histories [Model.Gob.Op.send 0 [1], .send 0 (List.replicate 20 1), .send 1 [2, 3], .send 1 (List.replicate 9 5), .recv] 4).length = 625 := by decide +kernel
example : firstUsesFit tinyGob init [.send 0 [1], .send 1 [2], .send 0 (List.replicate 20 1), .recv, .recv] = true := by decide

end Gob

end GoSandbox.Props.C19
