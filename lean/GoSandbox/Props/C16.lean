/-
C16 — If the controlling process dies, the sandbox dies with it.
Two independent mechanisms: (1) PDEATHSIG=SIGKILL on the container init and PTRACE_O_EXITKILL on
every tracee (kernel laws; presence tied to the code by extraction); (2) socket EOF: from every
reachable protocol state, once the host is gone the container init reaches exit on its own — every
blocking wait of the container has the `done` alternative (extracted select statements).
Kernel delivery of PDEATHSIG/EOF/EXITKILL is assumed (partial); the harness kills a real controller
at every announced protocol point.  PROPERTY THEOREMS ONLY.
-/
import GoSandbox.Model.Rpc
import GoSandbox.Gen.C16
namespace GoSandbox.Props.C16
open GoSandbox.Model.Rpc

/-- **by EOF alone**: kill the host in *any* reachable state of *any* operation (idle, during
synchronisation, while a program runs, during a file operation, with messages in flight): every
continuation ends with the container init exited (which kills its whole pid namespace). -/
theorem C16_container_dies_by_eof :
    allOps.all (fun op => [true, false].all (fun fixed =>
      (reachable ⟨fixed, op⟩).all (fun s => crashAllDie ⟨fixed, op⟩ 12 s))) = true := by
  decide +kernel

/-- the model's EOF rule is what the code does: every `select` of the container package that can
block has the `done` alternative — the only exception is the reaper goroutine's own loop, which
holds no protocol state (init's deferred os.Exit ends it). -/
theorem C16_selects_have_done :
    Gen.C16.selects.all (fun (_, fn, cases) => cases.contains "<-c.done" || fn == "waitLoop") = true ∧
    Gen.C16.selects.any (fun (_, fn, _) => fn == "handleExecveStarted") = true ∧
    Gen.C16.selects.any (fun (_, fn, _) => fn == "recvCmd") = true ∧
    Gen.C16.selects.any (fun (_, fn, _) => fn == "sendReplyFiles") = true := by
  refine ⟨?_, ?_, ?_, ?_⟩ <;> decide +kernel

/-- **by parent-death signal**: the container init is started with Pdeathsig = SIGKILL. -/
theorem C16_pdeathsig : Gen.C16.sysProcAttr.contains "Pdeathsig=syscall.SIGKILL" = true := by decide +kernel

/-- **tracees die with the tracer**: PTRACE_O_EXITKILL is among the options set on every tracee
(C09/C15: options are set at the first stop of every new tracee, before it is continued). -/
theorem C16_exitkill : Gen.C16.ptraceOptions.contains "PTRACE_O_EXITKILL" = true := by decide +kernel

/-! non-vacuity: the crash rule is exercised from states with messages in flight -/
example : (reachable ⟨true, .execve false .runs⟩).any (fun s => !s.h2c.isEmpty && s.c == .started) = true := by decide +kernel

end GoSandbox.Props.C16
