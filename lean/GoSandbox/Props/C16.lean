/-
C16 — If the controlling process dies, the sandbox dies with it.
Two independent mechanisms: (1) PDEATHSIG=SIGKILL on the container init and PTRACE_O_EXITKILL on
every tracee (kernel laws; presence tied to the code by extraction); (2) socket EOF: from every
reachable protocol state, once the host is gone the container init reaches exit on its own — every
blocking wait of the container has the `done` alternative (extracted select statements).
Kernel delivery of PDEATHSIG/EOF/EXITKILL is assumed (partial); the harness kills a real controller
at every announced protocol point.  PROPERTY THEOREMS ONLY.
-/
import GoSandbox.Model.Rpc
import GoSandbox.Gen.C16
import GoSandbox.Model.ForkSkeleton
namespace GoSandbox.Props.C16
open GoSandbox.Model.Rpc

/-- **by EOF alone**: kill the host in *any* reachable state of *any* operation (idle, during
synchronisation, while a program runs, during a file operation, with messages in flight): every
continuation ends with the container init exited (which kills its whole pid namespace). -/
theorem C16_container_dies_by_eof :
    allOps.all (fun op => [true, false].all (fun fixed =>
      (reachable ⟨fixed, op⟩).all (fun s => crashAllDie ⟨fixed, op⟩ 12 s))) = true := by
  decide +kernel

/-- the model's EOF rule is what the code does: every `select` of the container package that can
block has the `done` alternative — the only exception is the reaper goroutine's own loop, which
holds no protocol state (init's deferred os.Exit ends it). -/
theorem C16_selects_have_done :
    Gen.C16.selects.all (fun (_, fn, cases) => cases.contains "<-c.done" || fn == "waitLoop") = true ∧
    Gen.C16.selects.any (fun (_, fn, _) => fn == "handleExecveStarted") = true ∧
    Gen.C16.selects.any (fun (_, fn, _) => fn == "recvCmd") = true ∧
    Gen.C16.selects.any (fun (_, fn, _) => fn == "sendReplyFiles") = true := by
  refine ⟨?_, ?_, ?_, ?_⟩ <;> decide +kernel

/-- **by parent-death signal**: the container init is started with Pdeathsig = SIGKILL. -/
theorem C16_pdeathsig : Gen.C16.sysProcAttr.contains "Pdeathsig=syscall.SIGKILL" = true := by decide +kernel

/-- **tracees die with the tracer**: PTRACE_O_EXITKILL is among the options set on every tracee
(C09/C15: options are set at the first stop of every new tracee, before it is continued). -/
theorem C16_exitkill : Gen.C16.ptraceOptions.contains "PTRACE_O_EXITKILL" = true := by decide +kernel

open GoSandbox.Model.ForkSkeleton GoSandbox.Model.ForkOpts in
private theorem count_opt' (a : Step) (b : Bool) (l : List Step) : (opt b l).count a = if b then l.count a else 0 := by
  cases b <;> simp [opt]

open GoSandbox.Model.ForkSkeleton GoSandbox.Model.ForkOpts in
/-- **before the first stop**: PTRACE_O_EXITKILL only exists from the tracee's first stop on. For EVERY
option set, the launch makes itself traceable exactly as often as it asks for SIGKILL on the death of its
parent (PR_SET_PDEATHSIG), and with ptrace on it does both. (Statement about the launch skeleton, which C04
ties to the regenerated forkAndExecInChild; the order — pdeathsig, parent check, then traceme — is the
definition of `tracemeSteps` and is evaluated on a family below.) -/
theorem C16_traced_child_asks_pdeathsig (o : Opts) :
    (skeleton o).count Step.prctl_pdeathsig = (skeleton o).count Step.ptrace_traceme ∧
    (o.ptrace = true → Step.prctl_pdeathsig ∈ skeleton o) := by
  constructor
  · unfold skeleton syncBlock mountSteps tracemeSteps
    have hm : ∀ n : Nat, (List.flatMap (fun _ => [Step.mkdirat, Step.mount] ++ opt o.roBindMount [Step.statfs, Step.mount_remount]) (List.range n)).count Step.prctl_pdeathsig = 0 := by
      intro n; apply List.count_eq_zero.mpr; simp [opt]
    have hm2 : ∀ n : Nat, (List.flatMap (fun _ => [Step.mkdirat, Step.mount] ++ opt o.roBindMount [Step.statfs, Step.mount_remount]) (List.range n)).count Step.ptrace_traceme = 0 := by
      intro n; apply List.count_eq_zero.mpr; simp [opt]
    have hr : (List.replicate o.nRlimits Step.prlimit64).count Step.prctl_pdeathsig = 0 := by
      apply List.count_eq_zero.mpr; simp
    have hr2 : (List.replicate o.nRlimits Step.prlimit64).count Step.ptrace_traceme = 0 := by
      apply List.count_eq_zero.mpr; simp
    simp only [List.count_append, count_opt', hm, hm2, hr, hr2]
    cases o.ptrace <;> cases o.seccomp <;> simp (config := {decide := true}) [List.count_cons] <;> (repeat' split) <;> simp
  · intro h
    unfold skeleton tracemeSteps
    simp only [List.mem_append, List.mem_cons]
    cases hs : o.seccomp <;> simp [h, hs, opt]

open GoSandbox.Model.ForkSkeleton GoSandbox.Model.ForkOpts in
/-- the order on a family (kernel-evaluated; a bounded statement): for all 2^9 settings of the options that
shape the launch around the trace point (seccomp, sync callback, late cgroup unshare, credential, capability
drop, stop-before-seccomp, user namespace, pid namespace, exec descriptor), with ptrace on: the parent-death
request comes before the first PTRACE_TRACEME, and the parent check sits between them unless the pid
namespace is new -/
theorem C16_pdeathsig_before_traceme_family :
    ((List.range 512).all fun n =>
      let b (i : Nat) : Bool := n / 2 ^ i % 2 == 1
      let o : Opts := { ptrace := true, seccomp := b 0, syncFunc := b 1, ucas := b 2, cred := b 3, dropCaps := b 4, stopBefore := b 5,
                        newUser := b 6, newPid := b 7, execFile := if b 8 then 9 else 0, nMounts := 1, nRlimits := 1 }
      let l := skeleton o
      match l.findIdx? (· == Step.prctl_pdeathsig), l.findIdx? (· == Step.ptrace_traceme) with
      | some i, some j => i < j && (o.newPid || l.getD (i + 1) Step.execve == Step.getppid) && (j == i + (if o.newPid then 1 else 2))
      | _, _ => false) = true := by
  decide +kernel

open GoSandbox.Model.ForkSkeleton GoSandbox.Model.ForkOpts GoSandbox.Model.ForkChildRun in
/-- the regenerated child, orphaned before the trace point (getppid answers a pid that is not the launcher's —
pid 1 or any sub-reaper): it gives up with an error; it never makes itself traceable and never execs -/
def orphanGivesUp (o : Opts) (adopter : Int) : Bool :=
  match runChild (launchOf o) { fds := [(100, 50, true), (101, 50, true)], pipeIn := [0, 0, 0], ppidNow := adopter } with
  | .ok out =>
    let names := out.w.trace.reverse.map (fun s => sysName s.nr)
    !out.w.execed && out.w.exited.isSome && !names.contains "ptrace" && !names.contains "execve" && !names.contains "execveat"
  | .error _ => false

open GoSandbox.Model.ForkSkeleton GoSandbox.Model.ForkOpts GoSandbox.Model.ForkChildRun in
theorem C16_gen_orphan_gives_up :
    ([({ ptrace := true, seccomp := true, syncFunc := true } : Opts), { ptrace := true }, { ptrace := true, seccomp := true, cred := true, syncFunc := true }].all
      fun o => orphanGivesUp o 1 && orphanGivesUp o 77 && orphanGivesUp o 4242) = true := by
  decide +kernel

open GoSandbox.Model.ForkSkeleton GoSandbox.Model.ForkOpts in
/-- the regenerated child asks for the parent-death signal AFTER its credential change (the kernel clears the
setting whenever the effective ids change) and right before the parent check and PTRACE_TRACEME -/
theorem C16_gen_pdeathsig_after_credentials :
    ([({ ptrace := true, seccomp := true, syncFunc := true, cred := true } : Opts), { ptrace := true, cred := true },
      { ptrace := true, seccomp := true, cred := true, dropCaps := true, ucas := true, syncFunc := true }].all fun o =>
      match genLabels o with
      | .ok l =>
        (match l.findIdx? (· == Step.setuid), l.findIdx? (· == Step.prctl_pdeathsig), l.findIdx? (· == Step.ptrace_traceme) with
         | some u, some p, some t => u < p && p + 2 == t && l.getD (p + 1) Step.execve == Step.getppid &&
             l.count Step.prctl_pdeathsig == 1
         | _, _, _ => false)
      | .error _ => false) = true := by
  decide +kernel

open GoSandbox.Model.ForkSkeleton GoSandbox.Model.ForkOpts in
/-- **the child can see its launcher die while it waits for it** (every option set): the first thing the
launched child does is to close its copy of the launcher's end of the synchronisation socket, so every later
blocking read of that socket (id maps, synchronisation) returns end-of-file once the launcher is gone — the
child's own copy would keep the socket open for ever. Stated on the skeleton, which C04 ties to the regenerated
child; `C16_gen_child_closes_parent_end` evaluates the regenerated child directly. -/
theorem C16_child_closes_parent_end_first (o : Opts) :
    (skeleton o)[1]? = some Step.close_p0 ∧
    ((skeleton o)[0]? = some Step.clone ∨ (skeleton o)[0]? = some Step.clone3) := by
  unfold skeleton
  cases h : o.cgroupFd <;> simp [opt]

open GoSandbox.Model.ForkSkeleton GoSandbox.Model.ForkOpts in
/-- the regenerated child on a family of option sets with a synchronisation and/or a user namespace (the two
blocking reads): `close(p[0])` comes before the first read of the socket, exactly once (kernel-evaluated) -/
theorem C16_gen_child_closes_parent_end :
    ([({ syncFunc := true } : Opts), { ptrace := true, seccomp := true, syncFunc := true }, { newUser := true },
      { newUser := true, syncFunc := true, ucas := true }, { ptrace := true, seccomp := true, syncFunc := true, cred := true, newUser := true },
      { syncFunc := true, execFile := 9 }, { ptrace := true }].all fun o =>
      match genLabels o with
      | .ok l =>
        (match l.findIdx? (· == Step.close_p0) with
         | some c =>
           l.count Step.close_p0 == 1 &&
           (match l.findIdx? (fun s => s == Step.read_idmap || s == Step.read_sync) with
            | some r => c < r
            | none => !(o.syncFunc || o.newUser))
         | none => false)
      | .error _ => false) = true := by
  decide +kernel

/-! non-vacuity: the crash rule is exercised from states with messages in flight -/
example : (reachable ⟨true, .execve false .runs⟩).any (fun s => !s.h2c.isEmpty && s.c == .started) = true := by decide +kernel

/-- **end of file exists on the control socket**: the rule of the protocol model "a receive on the closed, empty
socket is end of file" (on which `C16_container_dies_by_eof` rests, and which is the only way out for an init
whose controller died before the parent-death signal was armed) needs a connection-oriented socket: the pair
is created as AF_LOCAL, SOCK_SEQPACKET, close-on-exec (regenerated from pkg/unixsocket/socket_linux.go). On a
datagram pair a blocked receive would never notice that the other end is gone. -/
theorem C16_gen_socket_is_seqpacket :
    Gen.C16.socketPairArgs = ["syscall.AF_LOCAL", "syscall.SOCK_SEQPACKET|syscall.SOCK_CLOEXEC", "0"] := by decide

end GoSandbox.Props.C16
