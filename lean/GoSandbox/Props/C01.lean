/-
C01 — The compiled seccomp filter implements the declared syscall policy exactly.
PROPERTY THEOREMS ONLY (lemmas: Lemmas/BPF.lean).
-/
import GoSandbox.Model.SeccompValidate
import GoSandbox.Model.SeccompGen
namespace GoSandbox.Props.C01
open GoSandbox.Kernel.BPF GoSandbox.Spec.SeccompPolicy GoSandbox.Lemmas.BPF GoSandbox.Model.SeccompValidate

/-- **Verified translation validator.**  If `validate prog pol` answers `true`, then for *every*
`seccomp_data` — all 2^32 syscall numbers, all architecture tags, arbitrary instruction pointer
and argument words — the cBPF program returns exactly the action the policy specifies:
ALLOW for allow-listed numbers of the native ABI, TRACE for trace-listed ones, the x32 refusal for
numbers carrying the x32 bit, the default action for every other number and for every foreign
architecture tag.  (Any program: the generator is not trusted, its output is validated.) -/
theorem C01_validator_sound (prog : List Insn) (p : Policy) (h : validate prog p = true) :
    ∀ d : Data, exec prog d = some (expected p d) := by
  intro d
  unfold validate at h
  simp only [Bool.and_eq_true] at h
  obtain ⟨hwf, hall⟩ := h
  let K := cutConsts prog p
  let d' : Data := ⟨rep K d.nr, rep K d.arch, zeroArgs⟩
  have hd : SimD K d d' := ⟨rep_sim K d.nr, rep_sim K d.arch⟩
  have h1 : exec prog d = exec prog d' := by
    unfold exec
    exact run_sim K _ prog 0 0 d d' hwf (fun k hk => (mem_dedup _ k).mpr (List.mem_append_left _ hk)) (sim_refl K 0) hd
  have h2 : exec prog d' = some (expected p d') := by
    have := List.all_eq_true.mp hall (rep K d.nr) (rep_mem K d.nr)
    have := List.all_eq_true.mp this (rep K d.arch) (rep_mem K d.arch)
    simpa using this
  have h3 : expected p d = expected p d' :=
    expected_sim p K d d' (fun k hk => (mem_dedup _ k).mpr (List.mem_append_right _ hk)) hd
  rw [h1, h2, h3]

/-- a foreign ABI is never treated better than the default action: another architecture tag gets
the default action whatever its number. -/
theorem C01_foreign_arch (p : Policy) (d : Data) (h : d.arch ≠ p.nativeArch) : expected p d = p.defaultRet := by
  simp [expected, h]

/-- numbers carrying the x32 bit are refused outright on the native ABI. -/
theorem C01_x32_refused (p : Policy) (d : Data) (ha : d.arch = p.nativeArch) (hx : d.nr ≥ p.x32Bit) :
    expected p d = p.x32Ret := by
  simp [expected, ha, hx]

/-! ### non-vacuity: a small real-shaped filter (arch check, x32 guard, one allow, one trace) validates,
and a filter with jt/jf swapped in the allow test does not -/

def tinyPolicy : Policy :=
  { allow := [1], trace := [59], defaultRet := 0x80000000, nativeArch := 0xc000003e,
    allowRet := 0x7fff0000, traceRet := 0x7ff00000, x32Bit := 0x40000000, x32Ret := 0x00050026 }

def tinyProg : List Insn := [
  ⟨0x20, 0, 0, 4⟩, ⟨0x15, 1, 0, 0xc000003e⟩, ⟨0x06, 0, 0, 0x80000000⟩,
  ⟨0x20, 0, 0, 0⟩, ⟨0x35, 0, 1, 0x40000000⟩, ⟨0x06, 0, 0, 0x00050026⟩,
  ⟨0x15, 0, 1, 1⟩, ⟨0x06, 0, 0, 0x7fff0000⟩,
  ⟨0x15, 0, 1, 59⟩, ⟨0x06, 0, 0, 0x7ff00000⟩,
  ⟨0x06, 0, 0, 0x80000000⟩]

def tinyProgSwapped : List Insn := tinyProg.set 6 ⟨0x15, 1, 0, 1⟩

theorem C01_tiny_validates : validate tinyProg tinyPolicy = true ∧ validate tinyProgSwapped tinyPolicy = false := by
  constructor <;> decide +kernel

example : ∀ d, exec tinyProg d = some (expected tinyPolicy d) := C01_validator_sound _ _ C01_tiny_validates.1

/-! ### the glue around the generator: regenerated code evaluated in the kernel -/
open GoSandbox.Model.SeccompGen

def KILL : Int := Gen.Consts.libseccomp_ActionKillProcess

/-- **fail closed**: every action value whose low 16 bits are not allow/errno/trace — the unset
value 0, the named kill action, unknown numbers, and any of those with high (return-data) bits —
is compiled to KILL_PROCESS; allow/errno/trace keep their meaning under high bits.
(Sample of the 32-bit domain, evaluated on the regenerated ToSeccompAction/Action.) -/
theorem C01_fail_closed :
    [0, 4, 5, 6, 7, 100, 0xffff, 0x10000, 0x10004, 0x20000, 0xffff0000, 0x7fff0000].all
      (fun a => match runAction a with | .ok r => r == KILL | .error _ => false) = true ∧
    [(1, Gen.Consts.libseccomp_ActionAllow), (2, Gen.Consts.libseccomp_ActionErrno), (3, Gen.Consts.libseccomp_ActionTrace),
     (0x10001, Gen.Consts.libseccomp_ActionAllow), (0x50002, Gen.Consts.libseccomp_ActionErrno), (0xffff0003, Gen.Consts.libseccomp_ActionTrace)].all
      (fun (a, w) => match runAction a with | .ok r => r == Int.ofNat w | .error _ => false) = true := by
  constructor <;> decide +kernel

/-- **the declared policy is what is handed to the generator**: `Build` passes exactly two groups,
(ALLOW, Allow names) then (TRACE, Trace names), and the default action is ToSeccompAction(Default). -/
theorem C01_build_groups :
    (match runBuild ["read", "write"] ["open"] 3 with
     | .ok (d, gs) => d == Int.ofNat Gen.Consts.libseccomp_ActionTrace &&
         gs == [(Int.ofNat Gen.Consts.libseccomp_ActionAllow, ["read", "write"]), (Int.ofNat Gen.Consts.libseccomp_ActionTrace, ["open"])]
     | .error _ => false) = true ∧
    (match runBuild [] ["execve"] 0 with
     | .ok (d, gs) => d == KILL && gs == [(Int.ofNat Gen.Consts.libseccomp_ActionAllow, []), (Int.ofNat Gen.Consts.libseccomp_ActionTrace, ["execve"])]
     | .error _ => false) = true := by
  constructor <;> decide +kernel

/-- **export is lossless**: sockFilter copies (op, jt, jf, k) field by field, in order. -/
theorem C01_export_lossless :
    (match runSockFilter [(0x20, 0, 0, 4), (0x15, 1, 2, 0xc000003e), (0x35, 7, 9, 0x40000000), (0x06, 0, 0, 0x7fff0000)] with
     | .ok l => l == [(0x20, 0, 0, 4), (0x15, 1, 2, 0xc000003e), (0x35, 7, 9, 0x40000000), (0x06, 0, 0, 0x7fff0000)]
     | .error _ => false) = true := by decide +kernel

/-- **cleanTrace**: allow and trace become disjoint sets with trace taking precedence. -/
theorem C01_cleanTrace :
    (match runCleanTrace ["a", "b", "c", "a"] ["b", "d", "b"] with
     | .ok (a, t) => a == ["a", "c"] && t == ["b", "d"]
     | .error _ => false) = true := by decide +kernel

end GoSandbox.Props.C01
