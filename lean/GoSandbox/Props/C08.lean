/-
C08 — Configured limits are in force; exhausting them yields the matching verdict.
PROPERTY THEOREMS ONLY.
-/
import GoSandbox.Model.RLimit
import GoSandbox.Model.Classify
namespace GoSandbox.Props.C08
open GoSandbox.Model.RLimit GoSandbox.Model.Classify GoSandbox.Kernel

/-- **every configured limit yields exactly one entry with cur = max = the configured value**
(CPU: hard = max(CPUHard, CPU)); unconfigured (zero) fields yield none; for every record. -/
theorem C08_prepare_exact (r : RLimits) :
    (∀ e ∈ prepare r, e.1 = rCPU → r.cpu > 0 ∧ e.2.1 = r.cpu ∧ e.2.2 = max r.cpuHard r.cpu) ∧
    (r.cpu > 0 → (rCPU, r.cpu, max r.cpuHard r.cpu) ∈ prepare r) ∧
    (r.data > 0 ↔ (rDATA, r.data, r.data) ∈ prepare r) ∧
    (r.fileSize > 0 ↔ (rFSIZE, r.fileSize, r.fileSize) ∈ prepare r) ∧
    (r.stack > 0 ↔ (rSTACK, r.stack, r.stack) ∈ prepare r) ∧
    (r.addressSpace > 0 ↔ (rAS, r.addressSpace, r.addressSpace) ∈ prepare r) ∧
    (r.openFile > 0 ↔ (rNOFILE, r.openFile, r.openFile) ∈ prepare r) ∧
    (r.disableCore = true ↔ (rCORE, 0, 0) ∈ prepare r) := by
  have hmax : (if r.cpuHard < r.cpu then r.cpu else r.cpuHard) = max r.cpuHard r.cpu := by
    split <;> omega
  simp only [prepare, rCPU, rDATA, rFSIZE, rSTACK, rAS, rNOFILE, rCORE, Gen.Consts.syscall_RLIMIT_CPU,
    Gen.Consts.syscall_RLIMIT_DATA, Gen.Consts.syscall_RLIMIT_FSIZE, Gen.Consts.syscall_RLIMIT_STACK,
    Gen.Consts.syscall_RLIMIT_AS, Gen.Consts.syscall_RLIMIT_NOFILE, Gen.Consts.syscall_RLIMIT_CORE, hmax]
  refine ⟨?_, ?_, ?_, ?_, ?_, ?_, ?_, ?_⟩
  · intro e he h0
    simp only [List.mem_append] at he
    rcases he with (((((he | he) | he) | he) | he) | he) | he <;>
      (split at he <;> simp at he <;> (try (subst he; simp_all)))
  · intro h; simp [h]
  all_goals (constructor <;> intro h <;> simp_all <;> omega)

/-- in-order application of an entry list whose resources are pairwise distinct: a listed
resource ends with its listed pair, an unlisted one keeps what it had (is inherited). -/
theorem apply_not_mem (es : List Entry) : ∀ (init : Nat → Nat × Nat) (res : Nat),
    res ∉ es.map (·.1) → applyEntries init es res = init res := by
  induction es with
  | nil => intro init res _; rfl
  | cons e es ih =>
    intro init res h
    simp only [List.map_cons, List.mem_cons, not_or] at h
    simp only [applyEntries, List.foldl_cons]
    have := ih (fun r => if r = e.1 then (e.2.1, e.2.2) else init r) res h.2
    simp only [applyEntries] at this
    rw [this]; simp [h.1]

theorem apply_mem (es : List Entry) : ∀ (init : Nat → Nat × Nat) (res c m : Nat),
    (es.map (·.1)).Nodup → (res, c, m) ∈ es → applyEntries init es res = (c, m) := by
  induction es with
  | nil => intro _ _ _ _ _ h; simp at h
  | cons e es ih =>
    intro init res c m hn hm
    simp only [List.map_cons, List.nodup_cons] at hn
    simp only [applyEntries, List.foldl_cons]
    rcases List.mem_cons.mp hm with h | h
    · subst h
      have := apply_not_mem es (fun r => if r = res then (c, m) else init r) res hn.1
      simp only [applyEntries] at this
      simpa using this
    · have := ih (fun r => if r = e.1 then (e.2.1, e.2.2) else init r) res c m hn.2 h
      simpa [applyEntries] using this

theorem prepare_keys_nodup (r : RLimits) : ((prepare r).map (·.1)).Nodup := by
  simp only [prepare, List.map_append]
  by_cases h1 : r.cpu > 0 <;> by_cases h2 : r.data > 0 <;> by_cases h3 : r.fileSize > 0 <;>
  by_cases h4 : r.stack > 0 <;> by_cases h5 : r.addressSpace > 0 <;> by_cases h6 : r.openFile > 0 <;>
  cases h7 : r.disableCore <;>
  simp [h1, h2, h3, h4, h5, h6, rCPU, rDATA, rFSIZE, rSTACK, rAS, rNOFILE, rCORE, Gen.Consts.syscall_RLIMIT_CPU,
    Gen.Consts.syscall_RLIMIT_DATA, Gen.Consts.syscall_RLIMIT_FSIZE, Gen.Consts.syscall_RLIMIT_STACK,
    Gen.Consts.syscall_RLIMIT_AS, Gen.Consts.syscall_RLIMIT_NOFILE, Gen.Consts.syscall_RLIMIT_CORE]

/-- **applied limits**: after the child applied the list in order, every configured resource has
exactly its configured (soft, hard) pair and every resource that was not configured keeps the
inherited pair. -/
theorem C08_applied (r : RLimits) (init : Nat → Nat × Nat) :
    (∀ res c m, (res, c, m) ∈ prepare r → applyEntries init (prepare r) res = (c, m)) ∧
    (∀ res, res ∉ (prepare r).map (·.1) → applyEntries init (prepare r) res = init res) :=
  ⟨fun res c m h => apply_mem _ init res c m (prepare_keys_nodup r) h, fun res h => apply_not_mem _ init res h⟩

/-- **usage verdict**: measured CPU time above the time bound is Time Limit Exceeded, peak memory
above the memory bound is Memory Limit Exceeded (memory takes precedence), and the result carries
the measured values (ns, bytes = KiB·1024); at or below both bounds the verdict is Normal. -/
theorem C08_usage_verdict (ut rss tl ml : Nat) :
    let r := checkUsage ut rss tl ml
    r.1 = ut ∧ r.2.1 = rss * 1024 ∧
    (rss * 1024 > ml → r.2.2 = .mle) ∧
    (rss * 1024 ≤ ml → ut > tl → r.2.2 = .tle) ∧
    (rss * 1024 ≤ ml → ut ≤ tl → r.2.2 = .normal) := by
  simp only [checkUsage]
  refine ⟨trivial, trivial, ?_, ?_, ?_⟩
  · intro h; simp [h]
  · intro h1 h2; simp [Nat.not_lt.mpr h1, h2]
  · intro h1 h2; simp [Nat.not_lt.mpr h1, Nat.not_lt.mpr h2]

/-- **capped collector**: whatever the chunking of the program's output, the collector retains at
most `cap` bytes, what it retains is a prefix of the output, and it consumes the whole output
(the drain after the capped copy reads until EOF, so the writer is never left blocked). -/
theorem C08_buffer_cap (cap : Nat) (chunks : List (List Nat)) :
    (collect cap chunks).1.length ≤ cap ∧ (collect cap chunks).1 <+: chunks.flatten ∧
    (collect cap chunks).2 = chunks.flatten.length := by
  refine ⟨?_, List.take_prefix _ _, rfl⟩
  simp [collect, List.length_take]; omega

/-! ### ties to the regenerated code (kernel-evaluated; finite samples are tests of the tie) -/

def sampleRecords : List RLimits :=
  [0, 3].flatMap fun cpu => [0, 2, 9].flatMap fun hard => [0, 4294967297].flatMap fun data => [0, 5].flatMap fun fs =>
  [0, 7].flatMap fun st => [true, false].map fun core => ⟨cpu, hard, data, fs, st, data, fs, core⟩

/-- regenerated `PrepareRLimit` = hand model on a grid of records (zero/non-zero masks, values above 2^32, soft>hard). -/
theorem C08_tie_prepare :
    sampleRecords.all (fun r => match genPrepare r with | .ok es => es == prepare r | .error _ => false) = true := by
  decide +kernel

def usageGrid : List (Nat × Nat × Nat × Nat) :=
  [0, 5, 6].flatMap fun ut => [0, 4, 5].flatMap fun rss => [5].flatMap fun tl => [4096, 5119, 5120].map fun ml => (ut, rss, tl, ml)

def verdictNum : Verdict → Nat
  | .normal => Gen.Consts.runner_StatusNormal
  | .tle => Gen.Consts.runner_StatusTimeLimitExceeded
  | .mle => Gen.Consts.runner_StatusMemoryLimitExceeded

/-- regenerated `checkUsage` = hand model on the boundary grid (equal / one above / one below each bound). -/
theorem C08_tie_usage :
    usageGrid.all (fun (ut, rss, tl, ml) => match genCheckUsage ut rss tl ml with
      | .ok (a, b, c) => let m := checkUsage ut rss tl ml
        a == Int.ofNat m.1 && b == Int.ofNat m.2.1 && c == Int.ofNat (verdictNum m.2.2)
      | .error _ => false) = true := by decide +kernel

/-- `NewBuffer(max)` asks the collector for `max+1` bytes, and the collector goroutine is
"copy at most cap, signal done, drain to EOF, close" in that order. -/
theorem C08_tie_buffer :
    [0, 1, 4096, 1000000].all (fun mx => match genBufferCap mx with | .ok k => k == Int.ofNat (mx + 1) | .error _ => false) = true ∧
    Gen.C08.newPipeGoroutine = ["io.CopyN(writer,r,int64(n))", "close(done)", "io.Copy(io.Discard,r)", "r.Close()"] := by
  constructor <;> decide +kernel

/-- **limit signals**: at a ptrace signal-delivery stop SIGXCPU is Time Limit Exceeded and SIGXFSZ
is Output Limit Exceeded (the terminated cases are in C09); on the regenerated classifier. -/
theorem C08_signal_verdict :
    (match runPtrace 4242 4242 (WaitStatus.ofStop Gen.Consts.unix_SIGXCPU 0) true true {} with
      | .ok r => r.status == Int.ofNat Gen.Consts.runner_StatusTimeLimitExceeded | _ => false) = true ∧
    (match runPtrace 4242 4242 (WaitStatus.ofStop Gen.Consts.unix_SIGXFSZ 0) true true {} with
      | .ok r => r.status == Int.ofNat Gen.Consts.runner_StatusOutputLimitExceeded | _ => false) = true := by
  constructor <;> decide +kernel

/-! non-vacuity -/
example : sampleRecords.length = 96 ∧ usageGrid.length = 27 := by decide +kernel
example : prepare ⟨3, 2, 0, 5, 0, 0, 0, true⟩ = [(0, 3, 3), (1, 5, 5), (4, 0, 0)] := by decide

end GoSandbox.Props.C08
