/-
C02 — File-access policy is consulted about the object the kernel will really touch.
Theorems about Model/PathResolve.lean: the hand model of the repaired resolveTraceePath computes
exactly the kernel's resolution (`Walk`) for every file system, start directory, component list
and link budget, and terminates; facts about the regenerated Go functions by kernel evaluation.
PROPERTY THEOREMS ONLY (helper lemmas are private).
-/
import GoSandbox.Model.PathResolve
import GoSandbox.Model.PathDispatch
namespace GoSandbox.Props.C02
open GoSandbox.Model.PathResolve GoSandbox.Model.PathDispatch

/-- **soundness**: a path the resolver presents (without having hit the link cap) is the path the
kernel's own resolution arrives at — for every file system, directory, pathname, budget. -/
theorem C02_resolve_sound (fs : FS) : ∀ (fuel : Nat) (cur : CPath) (todo : List Comp) (b : Nat) (r : CPath),
    resolve fs fuel cur todo b = some (r, false) → Walk fs cur todo b r := by
  intro fuel
  induction fuel with
  | zero => intro cur todo b r h; simp [resolve] at h
  | succ n ih =>
    intro cur todo b r h
    cases todo with
    | nil =>
      simp [resolve] at h
      rw [← h]; exact Walk.done cur b
    | cons c rest =>
      simp only [resolve] at h
      by_cases h1 : c = "" ∨ c = "."
      · simp only [h1, if_true] at h
        exact Walk.skip cur c rest b r h1 (ih _ _ _ _ h)
      · simp only [h1, if_false] at h
        have hc1 : c ≠ "" := fun e => h1 (Or.inl e)
        have hc2 : c ≠ "." := fun e => h1 (Or.inr e)
        by_cases h2 : c = ".."
        · subst h2
          simp only [if_true] at h
          exact Walk.up cur rest b r (ih _ _ _ _ h)
        · simp only [h2, if_false] at h
          cases hn : fs.node (cur ++ [c]) with
          | none =>
            simp only [hn] at h
            exact Walk.plain cur c rest b r hc1 hc2 h2 (by simp [hn, isLink]) (ih _ _ _ _ h)
          | some nd =>
            cases nd with
            | dir =>
              simp only [hn] at h
              exact Walk.plain cur c rest b r hc1 hc2 h2 (by simp [hn, isLink]) (ih _ _ _ _ h)
            | file =>
              simp only [hn] at h
              exact Walk.plain cur c rest b r hc1 hc2 h2 (by simp [hn, isLink]) (ih _ _ _ _ h)
            | link a t =>
              simp only [hn] at h
              cases b with
              | zero =>
                simp only [Option.map_eq_some_iff] at h
                obtain ⟨x, _, hx⟩ := h
                simp at hx
              | succ b' =>
                simp only at h
                exact Walk.link cur c rest b' r a t hc1 hc2 h2 hn (ih _ _ _ _ h)

/-- **completeness**: whenever the kernel's resolution exists, the resolver (given enough loop
iterations) presents exactly that path. -/
theorem C02_resolve_complete (fs : FS) (cur : CPath) (todo : List Comp) (b : Nat) (r : CPath)
    (h : Walk fs cur todo b r) : ∃ fuel, ∀ fuel', fuel ≤ fuel' → resolve fs fuel' cur todo b = some (r, false) := by
  induction h with
  | done cur b =>
    exact ⟨1, fun f hf => by cases f with | zero => omega | succ k => simp [resolve]⟩
  | skip cur c rest b r hc _ ih =>
    obtain ⟨f0, hf0⟩ := ih
    refine ⟨f0 + 1, fun f hf => ?_⟩
    cases f with
    | zero => omega
    | succ k => simp only [resolve, hc, if_true]; exact hf0 k (by omega)
  | up cur rest b r _ ih =>
    obtain ⟨f0, hf0⟩ := ih
    refine ⟨f0 + 1, fun f hf => ?_⟩
    cases f with
    | zero => omega
    | succ k =>
      have : ¬ ((".." : String) = "" ∨ (".." : String) = ".") := by decide
      simp only [resolve, this, if_false, if_true]; exact hf0 k (by omega)
  | plain cur c rest b r h1 h2 h3 hl _ ih =>
    obtain ⟨f0, hf0⟩ := ih
    refine ⟨f0 + 1, fun f hf => ?_⟩
    cases f with
    | zero => omega
    | succ k =>
      have hn : ¬ (c = "" ∨ c = ".") := fun e => e.elim h1 h2
      simp only [resolve, hn, h3, if_false]
      cases hnode : fs.node (cur ++ [c]) with
      | none => simp only; exact hf0 k (by omega)
      | some nd =>
        cases nd with
        | dir => simp only; exact hf0 k (by omega)
        | file => simp only; exact hf0 k (by omega)
        | link a t => rw [hnode] at hl; simp [isLink] at hl
  | link cur c rest b r a t h1 h2 h3 hnode _ ih =>
    obtain ⟨f0, hf0⟩ := ih
    refine ⟨f0 + 1, fun f hf => ?_⟩
    cases f with
    | zero => omega
    | succ k =>
      have hn : ¬ (c = "" ∨ c = ".") := fun e => e.elim h1 h2
      simp only [resolve, hn, h3, if_false, hnode]
      exact hf0 k (by omega)

/-- **the kernel's resolution is a function** (so "the" object the kernel touches is well defined) -/
theorem C02_walk_deterministic (fs : FS) (cur : CPath) (todo : List Comp) (b : Nat) (r r' : CPath)
    (h : Walk fs cur todo b r) (h' : Walk fs cur todo b r') : r = r' := by
  obtain ⟨f, hf⟩ := C02_resolve_complete fs cur todo b r h
  obtain ⟨f', hf'⟩ := C02_resolve_complete fs cur todo b r' h'
  have a := hf (max f f') (Nat.le_max_left _ _)
  have b' := hf' (max f f') (Nat.le_max_right _ _)
  rw [a] at b'
  exact (Prod.mk.inj (Option.some.inj b')).1

/-- **termination**: if no symlink target has more than `L` components, the loop needs at most
`|todo| + b·L + 1` iterations — for every file system (no run-away on symlink cycles). -/
theorem C02_resolve_terminates (fs : FS) (L : Nat)
    (hL : ∀ p a t, fs.node p = some (.link a t) → t.length ≤ L) :
    ∀ (fuel : Nat) (cur : CPath) (todo : List Comp) (b : Nat),
      todo.length + b * L < fuel → (resolve fs fuel cur todo b).isSome = true := by
  intro fuel
  induction fuel with
  | zero => intro cur todo b h; omega
  | succ n ih =>
    intro cur todo b h
    cases todo with
    | nil => simp [resolve]
    | cons c rest =>
      simp only [resolve]
      simp only [List.length_cons] at h
      by_cases h1 : c = "" ∨ c = "."
      · simp only [h1, if_true]; exact ih _ _ _ (by omega)
      · simp only [h1, if_false]
        by_cases h2 : c = ".."
        · simp only [h2, if_true]; exact ih _ _ _ (by omega)
        · simp only [h2, if_false]
          cases hn : fs.node (cur ++ [c]) with
          | none => simp only; exact ih _ _ _ (by omega)
          | some nd =>
            cases nd with
            | dir => simp only; exact ih _ _ _ (by omega)
            | file => simp only; exact ih _ _ _ (by omega)
            | link a t =>
              have ht := hL _ a t hn
              cases b with
              | zero =>
                simp only [Option.isSome_map]
                exact ih _ _ _ (by omega)
              | succ b' =>
                simp only
                apply ih
                simp only [List.length_append]
                have : (b' + 1) * L = b' * L + L := by rw [Nat.add_mul]; simp
                omega

/-- **the cap is the kernel's ELOOP**: when the resolver reports the cap, the kernel's resolution
does not exist within that budget (the call fails; no object is touched). -/
theorem C02_capped_means_no_resolution (fs : FS) (fuel : Nat) (cur : CPath) (todo : List Comp) (b : Nat) (r r' : CPath)
    (h : resolve fs fuel cur todo b = some (r, true)) : ¬ Walk fs cur todo b r' := by
  intro hw
  obtain ⟨f, hf⟩ := C02_resolve_complete fs cur todo b r' hw
  -- fuel monotonicity: a larger fuel keeps the answer
  have mono : ∀ (n : Nat) (cur : CPath) (todo : List Comp) (b : Nat) (x : CPath × Bool),
      resolve fs n cur todo b = some x → ∀ m, n ≤ m → resolve fs m cur todo b = some x := by
    intro n
    induction n with
    | zero => intro cur todo b x h; simp [resolve] at h
    | succ n ih =>
      intro cur todo b x h m hm
      cases m with
      | zero => omega
      | succ m =>
        cases todo with
        | nil => simpa [resolve] using h
        | cons c rest =>
          simp only [resolve] at h ⊢
          by_cases h1 : c = "" ∨ c = "."
          · simp only [h1, if_true] at h ⊢; exact ih _ _ _ _ h m (by omega)
          · simp only [h1, if_false] at h ⊢
            by_cases h2 : c = ".."
            · simp only [h2, if_true] at h ⊢; exact ih _ _ _ _ h m (by omega)
            · simp only [h2, if_false] at h ⊢
              cases hn : fs.node (cur ++ [c]) with
              | none => simp only [hn] at h ⊢; exact ih _ _ _ _ h m (by omega)
              | some nd =>
                cases nd with
                | dir => simp only [hn] at h ⊢; exact ih _ _ _ _ h m (by omega)
                | file => simp only [hn] at h ⊢; exact ih _ _ _ _ h m (by omega)
                | link a t =>
                  simp only [hn] at h ⊢
                  cases b with
                  | zero =>
                    simp only [Option.map_eq_some_iff] at h ⊢
                    obtain ⟨y, hy, hxy⟩ := h
                    exact ⟨y, ih _ _ _ _ hy m (by omega), hxy⟩
                  | succ b' => simp only at h ⊢; exact ih _ _ _ _ h m (by omega)
  have a := mono fuel cur todo b (r, true) h (max fuel f) (Nat.le_max_left _ _)
  have b' := hf (max fuel f) (Nat.le_max_right _ _)
  rw [a] at b'
  simp at b'

/-- non-vacuity and the shape of the repaired defect: `link/../x` with link → /a/b is /a/x for the
kernel and for the resolver (the pinned tree answered /w/x). -/
def exFS : FS where
  node p := if p = ["w", "link"] then some (.link true ["", "a", "b"]) else none

example : resolve exFS 50 ["w"] ["link", "..", "x"] 40 = some (["a", "x"], false) := by decide
example : Walk exFS ["w"] ["link", "..", "x"] 40 ["a", "x"] :=
  C02_resolve_sound exFS 50 _ _ _ _ (by decide)

/-! ### access class from the open flags -/

/-- **any open that can create, truncate or write is a write** — for every flag word -/
theorem C02_open_class (flags : Nat) : isOpenReadOnly flags = true → mayModify flags = false := by
  unfold isOpenReadOnly mayModify
  intro h
  simp only [Bool.and_eq_true, beq_iff_eq] at h
  obtain ⟨⟨⟨h1, h2⟩, _⟩, h4⟩ := h
  simp [h1, h2, h4]

/-- the regenerated isOpenReadOnly agrees with the hand model on every combination of the bits it
looks at (access mode, O_CREAT, O_EXCL, O_TRUNC), with and without unrelated bits set -/
theorem C02_gen_open_class :
    relevantFlagWords.all (fun f => genIsOpenReadOnly f == some (isOpenReadOnly f)) = true := by decide +kernel

/-! ### which arguments are the (directory descriptor, pathname) pair, and which class -/

/-- **dispatch**: for every path syscall the handler traps, the regenerated `Handle` passes the
argument registers the Linux ABI designates as (dirfd, pathname) to the check of the right class
(symlinkat: (newdirfd, linkpath) = registers 1, 2). -/
theorem C02_dispatch_matches_abi :
    abiTable.all (fun e => genDispatch e.1 == some e.2) = true := by decide +kernel

/-- every directory-descriptor argument is decoded as `int(int32(register))` -/
theorem C02_dirfd_sites_are_int32 : dirfdSites.all isInt32Chain = true ∧ dirfdSites.length ≥ 12 := by decide +kernel

/-- **AT_FDCWD in any register encoding**: the kernel reads the low 32 bits of the register as a
signed int; `int(int32(reg))` yields the same value for every 64-bit register content — in
particular -100 whether the upper half is zero- or sign-extended. -/
theorem C02_dirfd_decode (reg : Nat) (h : reg < 2 ^ 64) : decodeDirfd reg = kernelDirfd reg := by
  unfold decodeDirfd kernelDirfd
  simp only [GoSandbox.GoLite.conv, GoSandbox.GoLite.wrapS, GoSandbox.GoLite.wrapU]
  omega

example : decodeDirfd 0xffffff9c = -100 ∧ decodeDirfd 0xffffffffffffff9c = -100 := by decide

/-! ### the regenerated resolver on concrete forests (evaluated by the kernel) -/

theorem C02_gen_resolver_cases :
    genCases.all (fun c => match genResolve c.1 c.2.1 c.2.2.1 with | .ok s => s == c.2.2.2 | .error _ => false) = true ∧
    genCases.all (fun c => modelResolve c.1 c.2.1 c.2.2.1 == some (c.2.2.2, false)) = true := by decide +kernel

/-- **the link budget is the kernel's** — the constant: the resolver's `maxSymlinkDepth` (read from the source on
every run) is 40, the number of links the kernel follows in one lookup (MAXSYMLINKS) — and the comparison: with
the budget set to `b` = 2, 3, 4 in the regenerated resolveTraceePath and in the hand model alike, a lookup that
needs up to exactly `b` link expansions is resolved to its real target by both, and with `b+1`, `b+2` links both
report the cap, at the same place.  (An off-by-one presents the b-th link itself while the kernel opens what it
points to; the unbounded statement for the hand model is `C02_capped_means_no_resolution` / `C02_resolve_complete`.) -/
theorem C02_gen_link_budget :
    Gen.C02.maxSymlinkDepth = 40 ∧
    [2, 3, 4].all (fun b =>
      [b - 1, b].all (fun n =>
        (match genResolveB b (chainWorld n) "/w" "cx" with | .ok s => s == "/a/t" | .error _ => false) &&
        modelResolveB b (chainWorld n) "/w" "cx" == some ("/a/t", false)) &&
      [b + 1, b + 2].all (fun n =>
        match genResolveB b (chainWorld n) "/w" "cx", modelResolveB b (chainWorld n) "/w" "cx" with
        | .ok s, some (m, capped) => capped && s == m && s != "/a/t"
        | _, _ => false)) = true := by
  constructor
  · decide
  · decide +kernel

end GoSandbox.Props.C02
