/-
C15 — A sandboxed program cannot make the runner itself fail.
PROPERTY THEOREMS ONLY.  (String reading: hand model Model/GetString.lean, lemmas in
Lemmas/GetString.lean; tracer event handling: the regenerated Gen.C09.ptraceHandle /
Gen.C15.handleTrap evaluated in the kernel.)
-/
import GoSandbox.Model.GetString
import GoSandbox.Model.GetStringGen
import GoSandbox.Lemmas.GetString
import GoSandbox.Model.Classify
namespace GoSandbox.Props.C15
open GoSandbox.Model.GetString GoSandbox.Lemmas.GetString GoSandbox.Model.GetStringGen
open GoSandbox.Model.Classify GoSandbox.Kernel

/-- `clen` never exceeds the buffer, for every buffer (so `buff[:clen(buff)]` cannot panic). -/
theorem C15_clen_le (b : List Nat) : clen b ≤ b.length := clen_le b

/-- **GetString is total**: for every address space, every address (unterminated strings,
PATH_MAX-sized strings, strings running into unmapped pages, any pointer value) it returns a
string — no slice panic — of at most PATH_MAX bytes containing no NUL. -/
theorem C15_getstring_total (m : Mem) (addr pathMax : Nat) :
    ∃ s, getString m addr pathMax = .ok s ∧ s.length ≤ pathMax ∧ (∀ x ∈ s, x ≠ 0) := by
  unfold getString getStringWith
  obtain ⟨t', _, ht, hacc⟩ := readLoop_acc m addr (pathMax + 1) 0 pathMax
    (if m.P - addr % m.P = 0 then m.P else m.P - addr % m.P) [] (by simp [Mem.bytes])
  generalize hv : vmReadStr m addr pathMax = v
  obtain ⟨failed, acc⟩ := v
  have hacc' : acc = m.bytes addr t' := by
    have : (vmReadStr m addr pathMax).2 = m.bytes addr t' := hacc
    rw [hv] at this; exact this
  simp only
  generalize hb : (if failed = true then pad (peekPrefix m addr pathMax) pathMax else pad acc pathMax) = buff
  have hlen : buff.length = pathMax := by
    rw [← hb]; split
    · apply pad_length
      simp only [peekPrefix, List.length_map]
      exact Nat.le_trans (List.takeWhile_sublist _).length_le (by simp)
    · apply pad_length; rw [hacc']; simp [Mem.bytes]; omega
  refine ⟨buff.take (clen buff), ?_, ?_, ?_⟩
  · simp [sliceTo, clen_le]
  · rw [List.length_take]; omega
  · intro x hx
    rw [take_clen] at hx
    have hall := List.all_takeWhile (l := buff) (p := fun x => x != 0)
    have := List.all_eq_true.mp hall x hx
    simpa using this

/-- **content**: the returned string is exactly a NUL-free prefix of the tracee's bytes at
`addr` (never bytes from elsewhere, never bytes after a NUL). -/
theorem C15_getstring_content (m : Mem) (addr pathMax : Nat) :
    ∃ s n, getString m addr pathMax = .ok s ∧ n ≤ pathMax ∧ s = (m.bytes addr n).takeWhile (· != 0) := by
  unfold getString getStringWith
  obtain ⟨t', _, ht, hacc⟩ := readLoop_acc m addr (pathMax + 1) 0 pathMax
    (if m.P - addr % m.P = 0 then m.P else m.P - addr % m.P) [] (by simp [Mem.bytes])
  generalize hv : vmReadStr m addr pathMax = v
  obtain ⟨failed, acc⟩ := v
  have hacc' : acc = m.bytes addr t' := by
    have : (vmReadStr m addr pathMax).2 = m.bytes addr t' := hacc
    rw [hv] at this; exact this
  simp only
  cases failed
  · refine ⟨_, t', ?_, by omega, rfl⟩
    simp only [Bool.false_eq_true, if_false]
    simp [sliceTo, clen_le, take_clen, takeWhile_pad, hacc']
  · -- EFAULT: the buffer holds what PTRACE_PEEKDATA could read
    let k := ((List.range pathMax).takeWhile (fun i => m.readable (addr + i))).length
    have hk : peekPrefix m addr pathMax = m.bytes addr k := by
      simp only [peekPrefix, Mem.bytes, k]
      congr 1
      generalize hT : List.takeWhile (fun i => m.readable (addr + i)) (List.range pathMax) = T
      have hp : T <+: List.range pathMax := hT ▸ List.takeWhile_prefix _
      have ht := List.prefix_iff_eq_take.mp hp
      have hl : T.length ≤ pathMax := by simpa using hp.length_le
      conv => lhs; rw [ht]
      rw [List.take_range, Nat.min_eq_left hl]
    refine ⟨_, k, ?_, ?_, rfl⟩
    · simp [sliceTo, clen_le, take_clen, takeWhile_pad, hk]
    · exact Nat.le_trans (List.takeWhile_sublist _).length_le (by simp)

/-- **exactness (maximality)**: a C string that lies in readable memory — a NUL at offset `z` below
PATH_MAX, no NUL before it, every byte up to it readable, wherever the page boundaries fall — is
returned exactly: all `z` bytes, nothing more, nothing less. -/
theorem C15_getstring_exact (m : Mem) (hP : 0 < m.P) (addr pathMax z : Nat) (hz : z < pathMax)
    (h0 : m.byte (addr + z) = 0) (hnz : ∀ i, i < z → m.byte (addr + i) ≠ 0)
    (hread : ∀ i, i ≤ z → m.readable (addr + i) = true) :
    getString m addr pathMax = .ok (m.bytes addr z) := by
  unfold getString getStringWith vmReadStr
  have hnext : 0 < (if m.P - addr % m.P = 0 then m.P else m.P - addr % m.P) := by split <;> omega
  obtain ⟨t', ht, hrl⟩ := readLoop_exact m addr z hP h0 hnz hread (pathMax + 1) 0 pathMax _ [] (by simp [Mem.bytes]) (by omega) (by omega) hnext (by omega)
  simp only [hrl, Bool.false_eq_true, if_false]
  have hle : clen (pad (m.bytes addr t') pathMax) ≤ (pad (m.bytes addr t') pathMax).length := clen_le _
  simp only [sliceTo, hle, if_true]
  rw [take_clen, takeWhile_pad, takeWhile_bytes m addr z t' ht h0 hnz]

/-- **maximal prefix at a fault**: a string that runs into an unreadable page — the first
unreadable byte is at offset `u` below PATH_MAX, every byte before it is readable and none of them is
NUL — is returned up to exactly that byte: all `u` bytes the tracee can itself read there, nothing
invented after them, nothing dropped before them (wherever the page boundaries fall; `u = 0` is the
pointer into unmapped memory and yields the empty string). Together with `C15_getstring_exact` this
determines GetString for every string shorter than PATH_MAX. -/
theorem C15_getstring_fault_prefix (m : Mem) (hP : 0 < m.P) (addr pathMax u : Nat) (hu : u < pathMax)
    (hun : m.readable (addr + u) = false) (hnz : ∀ i, i < u → m.byte (addr + i) ≠ 0)
    (hread : ∀ i, i < u → m.readable (addr + i) = true) :
    getString m addr pathMax = .ok (m.bytes addr u) := by
  unfold getString getStringWith
  have hmod : addr % m.P < m.P := Nat.mod_lt _ hP
  have hnext : (if m.P - addr % m.P = 0 then m.P else m.P - addr % m.P) = m.P - addr % m.P := by
    split <;> omega
  have hfail : (vmReadStr m addr pathMax).1 = true := by
    unfold vmReadStr
    simp only [hnext]
    exact readLoop_fault m addr u hP hun hnz hread (pathMax + 1) 0 pathMax _ [] (by omega) (by omega) (by simp; omega) (by omega) (by omega)
  generalize hv : vmReadStr m addr pathMax = v at hfail
  obtain ⟨failed, acc⟩ := v
  simp only at hfail
  subst hfail
  simp only [if_true]
  have hpeek : peekPrefix m addr pathMax = m.bytes addr u := by
    unfold peekPrefix Mem.bytes
    rw [takeWhile_range_first (fun i => m.readable (addr + i)) u pathMax hu hread hun]
  have hle : clen (pad (peekPrefix m addr pathMax) pathMax) ≤ (pad (peekPrefix m addr pathMax) pathMax).length := clen_le _
  simp only [sliceTo, hle, if_true]
  rw [take_clen, takeWhile_pad, hpeek, takeWhile_bytes_all m addr u hnz]

/-- the pinned tree's `clen` (returns len+1 without NUL) makes GetString **panic** on a
PATH_MAX-long unterminated string: the witness that forced the `fix:` (page 4, PATH_MAX 8 scale). -/
theorem C15_clen_witness :
    (getStringOld ⟨4, fun _ => true, fun _ => 65⟩ 0 8).isOk = false ∧
    (match getString ⟨4, fun _ => true, fun _ => 65⟩ 0 8 with
     | .ok s => s == [65, 65, 65, 65, 65, 65, 65, 65] | .error _ => false) = true := by
  constructor <;> decide

/-! ### tie of the hand model to the regenerated code (a kernel-evaluated test of the tie) -/

def lists3 : Nat → List (List Nat)
  | 0 => [[]]
  | n + 1 => [] :: (lists3 n).flatMap (fun l => [0 :: l, 1 :: l, 7 :: l])

/-- regenerated `clen`/`hasNull` agree with the model on every byte list over {0,1,7} of length ≤ 5. -/
theorem C15_tie_clen :
    ((lists3 5).all (fun b =>
      (match genClen b with | .ok n => n == Int.ofNat (clen b) | .error _ => false) &&
      (match genHasNull b with | .ok r => r == hasNull b | .error _ => false))) = true := by
  decide +kernel

/-! ### a vanished tracee is not the runner's failure -/

def esrch : Option String := some "no such process"

/-- verdict of one event when ptrace requests on the stopped tracee answer ESRCH
(the tracee was SIGKILLed between the stop and the request) -/
def vanishedOk (ws pid : Nat) (traced : Bool) (decision : Nat) : Bool :=
  match runPtrace 4242 pid ws true traced { setOptFails := true, trapError := esrch, skipError := esrch, decision := decision } with
  | .ok r => r.status == Int.ofNat Gen.Consts.runner_StatusNormal && !r.finished && r.errStr == ""
  | .error _ => false

/-- stops whose handling issues ptrace requests on the tracee: first stop of a new tracee
(set-options) and seccomp traps (get-regs / set-regs) -/
def stopEvents : List Nat :=
  [5, 19].flatMap (fun s => [0, 1, 2, 3, 4, 7].map (fun ev => WaitStatus.ofStop s ev)) ++ [WaitStatus.ofStop 11 0]

/-- **C15_vanished_tracee**: when every ptrace request of an event answers ESRCH, the event yields
no verdict at all (status Normal, not finished, no error text) — never Runner Error or Disallowed
Syscall on the program's account; its exit arrives through wait4 and is classified by C09.
(False on the pinned tree; see KNOWN_FINDINGS "fixed".) -/
theorem C15_vanished_tracee :
    stopEvents.all (fun ws => [4242, 4243].all (fun pid => [true, false].all (fun tr => [0, 1, 2].all (fun d =>
      vanishedOk ws pid tr d)))) = true := by decide +kernel

/-- a failing set-regs for a *live* tracee still fails closed (Disallowed Syscall), i.e. the
ESRCH exemption does not weaken enforcement. -/
theorem C15_skip_failure_fails_closed :
    (match runPtrace 4242 4242 (WaitStatus.ofStop 5 7) true true { decision := 1, skipError := some "input/output error" } with
     | .ok r => r.status == Int.ofNat Gen.Consts.runner_StatusDisallowedSyscall
     | .error _ => false) = true := by decide +kernel

/-! non-vacuity -/
example : (lists3 5).length = 364 := by decide +kernel
example : stopEvents.length = 13 := by decide +kernel
example : getString ⟨4, fun p => p == 0, fun _ => 66⟩ 1 8 = .ok [66, 66, 66] :=
  C15_getstring_fault_prefix _ (by decide) 1 8 3 (by decide) (by decide) (by intro i _; simp) (by intro i hi; simp [Mem.readable]; omega)
example : (match getString ⟨4, fun p => p == 0, fun a => if a == 2 then 0 else 66⟩ 1 8 with
    | .ok s => s == [66] | .error _ => false) = true := by decide

end GoSandbox.Props.C15
