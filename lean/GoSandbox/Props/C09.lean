/-
C09 — Every way a program can end is classified per the documented status table.
The classifiers are the *regenerated* Go-lite translations of the three sites (Gen.C09, rebuilt
from /repo on every run); the theorems below evaluate them in the Lean kernel over the whole
finite domain (every exit code, every signal number ± core bit), so they are re-proved against
what the code says now.  PROPERTY THEOREMS ONLY.
-/
import GoSandbox.Model.Classify
namespace GoSandbox.Props.C09
open GoSandbox.Model.Classify GoSandbox.Kernel GoSandbox.Spec.StatusTable

def mainPid : Nat := 4242
def otherPid : Nat := 4243
/-- bounds far above any usage we feed (usage under the bounds: C08 covers the over-limit arms) -/
def big : Nat := 1000000000000

def okPtrace (ws : Nat) (o : Outcome) : Bool :=
  match runPtrace mainPid mainPid ws true true {} with
  | .ok r => statusOf r.status == some (table o).1 && r.exitStatus == Int.ofNat (table o).2
             && (r.finished || r.status != Int.ofNat Gen.Consts.runner_StatusNormal) && r.errStr == ""
  | .error _ => false

def okUnshare (ws : Nat) (o : Outcome) : Bool :=
  match runUnshare ws 5 5 big big with
  | .ok r => r.returned && statusOf r.status == some (table o).1 && r.exitStatus == Int.ofNat (table o).2
  | .error _ => false

def okContainer (ws : Nat) (o : Outcome) : Bool :=
  match runContainer ws false with
  | .ok r => r.returned && statusOf r.status == some (table o).1 && r.exitStatus == Int.ofNat (table o).2
  | .error _ => false

def exitCodes : List Nat := List.range 256
def signals : List Nat := (List.range 64).map (· + 1)

theorem ptrace_exit_tbl : exitCodes.all (fun c => okPtrace (WaitStatus.ofExit c) (.exit c)) = true := by decide +kernel
theorem ptrace_signal_tbl : signals.all (fun s => okPtrace (WaitStatus.ofSignal s false) (.killed s) &&
    okPtrace (WaitStatus.ofSignal s true) (.killed s)) = true := by decide +kernel
theorem unshare_exit_tbl : exitCodes.all (fun c => okUnshare (WaitStatus.ofExit c) (.exit c)) = true := by decide +kernel
theorem unshare_signal_tbl : signals.all (fun s => okUnshare (WaitStatus.ofSignal s false) (.killed s) &&
    okUnshare (WaitStatus.ofSignal s true) (.killed s)) = true := by decide +kernel
theorem container_exit_tbl : exitCodes.all (fun c => okContainer (WaitStatus.ofExit c) (.exit c)) = true := by decide +kernel
theorem container_signal_tbl : signals.all (fun s => okContainer (WaitStatus.ofSignal s false) (.killed s) &&
    okContainer (WaitStatus.ofSignal s true) (.killed s)) = true := by decide +kernel

/-- **ptrace runner**: every exit code 0..255 and every signal 1..64 (± core dump) of the main
process is classified per the documented table, and the run ends. -/
theorem C09_ptrace :
    (∀ c, c < 256 → okPtrace (WaitStatus.ofExit c) (.exit c) = true) ∧
    (∀ s, 1 ≤ s → s ≤ 64 → ∀ core, okPtrace (WaitStatus.ofSignal s core) (.killed s) = true) := by
  constructor
  · intro c hc
    exact List.all_eq_true.mp ptrace_exit_tbl c (List.mem_range.mpr hc)
  · intro s h1 h2 core
    have hm : s ∈ signals := List.mem_map.mpr ⟨s - 1, List.mem_range.mpr (by omega), by omega⟩
    have := List.all_eq_true.mp ptrace_signal_tbl s hm
    simp only [Bool.and_eq_true] at this
    cases core
    · exact this.1
    · exact this.2

/-- **namespace runner**, same domain. -/
theorem C09_unshare :
    (∀ c, c < 256 → okUnshare (WaitStatus.ofExit c) (.exit c) = true) ∧
    (∀ s, 1 ≤ s → s ≤ 64 → ∀ core, okUnshare (WaitStatus.ofSignal s core) (.killed s) = true) := by
  constructor
  · intro c hc
    exact List.all_eq_true.mp unshare_exit_tbl c (List.mem_range.mpr hc)
  · intro s h1 h2 core
    have hm : s ∈ signals := List.mem_map.mpr ⟨s - 1, List.mem_range.mpr (by omega), by omega⟩
    have := List.all_eq_true.mp unshare_signal_tbl s hm
    simp only [Bool.and_eq_true] at this
    cases core
    · exact this.1
    · exact this.2

/-- **container runner** (convertReply in init ∘ gob field mapping ∘ convertReplyResult on the
host), same domain. -/
theorem C09_container :
    (∀ c, c < 256 → okContainer (WaitStatus.ofExit c) (.exit c) = true) ∧
    (∀ s, 1 ≤ s → s ≤ 64 → ∀ core, okContainer (WaitStatus.ofSignal s core) (.killed s) = true) := by
  constructor
  · intro c hc
    exact List.all_eq_true.mp container_exit_tbl c (List.mem_range.mpr hc)
  · intro s h1 h2 core
    have hm : s ∈ signals := List.mem_map.mpr ⟨s - 1, List.mem_range.mpr (by omega), by omega⟩
    have := List.all_eq_true.mp container_signal_tbl s hm
    simp only [Bool.and_eq_true] at this
    cases core
    · exact this.1
    · exact this.2

/-- what a *child* of the program does when it exits or is killed by a signal other than SIGSYS
never finishes the ptrace run nor changes the verdict (the child is just continued/forgotten).
A child killed by SIGSYS — the seccomp filter's kill — ends the run as Disallowed Syscall (C03). -/
def childIgnored (ws : Nat) : Bool :=
  match runPtrace mainPid otherPid ws true true {} with
  | .ok r => !r.finished && r.status == Int.ofNat Gen.Consts.runner_StatusNormal
  | .error _ => false

def childDisallowed (ws : Nat) : Bool :=
  match runPtrace mainPid otherPid ws true true {} with
  | .ok r => r.status == Int.ofNat Gen.Consts.runner_StatusDisallowedSyscall
  | .error _ => false

theorem C09_children_ignored :
    exitCodes.all (fun c => childIgnored (WaitStatus.ofExit c)) = true ∧
    (signals.filter (· != 31)).all (fun s => childIgnored (WaitStatus.ofSignal s false) && childIgnored (WaitStatus.ofSignal s true)) = true ∧
    (childDisallowed (WaitStatus.ofSignal 31 false) && childDisallowed (WaitStatus.ofSignal 31 true)) = true := by
  refine ⟨?_, ?_, ?_⟩ <;> decide +kernel

/-- signals whose default action terminates and that the classifier does not turn into a limit
verdict at the signal-delivery stop (SIGXCPU/SIGXFSZ are C08's) -/
def fatalSignals : List Nat :=
  signals.filter (fun s => !([17, 18, 19, 20, 21, 22, 23, 28, 24, 25].contains s))

def delivered (pid s : Nat) : Bool :=
  match runPtrace mainPid pid (WaitStatus.ofStop s 0) true true {} with
  | .ok r => r.log == [s!"cont {pid} {s}"] && r.status == Int.ofNat Gen.Consts.runner_StatusNormal && !r.finished
  | .error _ => false

/-- **a fatal signal raised by the program reaches it**: at the signal-delivery stop of any
terminating signal (SIGTRAP included — a trap stop without ptrace event) the tracer continues
the tracee *with that signal*, so the kernel terminates it and `C09_ptrace` classifies the death.
(False before the `fix:` commit for SIGTRAP: the tracee was continued with signal 0.) -/
theorem C09_fatal_signal_delivered :
    fatalSignals.all (fun s => delivered mainPid s && delivered otherPid s) = true := by decide +kernel

/-- the finite alphabet of events used for the "Runner Error is explained" theorem -/
def eventAlphabet : List Nat :=
  [0, 1].map WaitStatus.ofExit ++ [9, 11].map (WaitStatus.ofSignal · false) ++
  ([5, 19, 24].flatMap (fun s => [0, 1, 4, 7].map (fun ev => WaitStatus.ofStop s ev)))

def explained (ws : Nat) (pid : Nat) (execved traced setOptFails : Bool) (trapErr : Option String) : Bool :=
  match runPtrace mainPid pid ws execved traced { setOptFails := setOptFails, trapError := trapErr } with
  | .ok r => r.status != Int.ofNat Gen.Consts.runner_StatusRunnerError || r.errStr != ""
  | .error _ => false

/-- every path of the ptrace classifier that yields Runner Error carries a non-empty explanation
(over the event alphabet × {main, child} × execved × already-traced × failing set-options ×
handler error). -/
theorem C09_runner_error_explained :
    eventAlphabet.all (fun ws => [mainPid, otherPid].all (fun pid => [true, false].all (fun ex =>
      [true, false].all (fun tr => [true, false].all (fun so => [none, some "disallowed"].all (fun te =>
        explained ws pid ex tr so te)))))) = true := by decide +kernel

/-- container: a failing wait4 or an unknown status is a Runner Error *with* a message. -/
theorem C09_container_error_explained :
    (match runContainer 0 true with | .ok r => statusOf r.status == some .runnerError && r.error != "" | _ => false) = true ∧
    (match runContainer (WaitStatus.ofStop 19 0) false with | .ok r => statusOf r.status == some .runnerError && r.error != "" | _ => false) = true := by
  constructor <;> decide +kernel

/-! non-vacuity: the domain lists are what they say -/
example : exitCodes.length = 256 ∧ signals.length = 64 ∧ signals.head? = some 1 ∧ signals.getLast? = some 64 := by decide +kernel
example : eventAlphabet.length = 16 := by decide +kernel
example : fatalSignals.length = 54 ∧ 5 ∈ fatalSignals ∧ 11 ∈ fatalSignals := by decide +kernel

end GoSandbox.Props.C09
