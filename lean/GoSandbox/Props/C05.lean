/-
C05 — FS confinement: only configured mounts visible; read-only means read-only.
Theorems about Model/MountNS.lean for EVERY mount table: after the mount sequence the namespace
consists of the read-only root and exactly the configured mounts with their declared read-only
bits (and the container's masks), the host's root tree is detached, old_root is gone, and every
directory made in the root is a prefix of a configured target.  Facts tying the sequence to the
regenerated code are in the second half.  PROPERTY THEOREMS ONLY (helper lemmas are private).
-/
import GoSandbox.Model.MountNS
import GoSandbox.Model.MountGen
namespace GoSandbox.Props.C05
open GoSandbox.Model.MountNS

private theorem posAux_append (a : List Mnt) (m : Mnt) :
    ∀ j cur, posAux (a ++ [m]) j cur = remap m (j + a.length) (posAux a j cur) := by
  induction a with
  | nil => intro j cur; simp [posAux]
  | cons x r ih =>
    intro j cur
    simp only [List.cons_append, posAux, List.length_cons]
    rw [ih]
    have : j + 1 + r.length = j + (r.length + 1) := by omega
    rw [this]

private theorem setRo_append_last (a : List Mnt) (m : Mnt) (ro : Bool) :
    setRo (a ++ [m]) a.length ro = a ++ [{ m with ro := ro }] := by
  induction a with
  | nil => simp [setRo]
  | cons x r ih => simp [setRo, ih]

private theorem posAux_setRo (ms : List Mnt) : ∀ (j : Nat) (ro : Bool) (k : Nat) (cur : Nat × Path),
    posAux (setRo ms j ro) k cur = posAux ms k cur := by
  induction ms with
  | nil => intro j ro k cur; simp [setRo]
  | cons m r ih =>
    intro j ro k cur
    cases j with
    | zero => simp [setRo, posAux, remap]
    | succ j => simp [setRo, posAux, ih]

private theorem run_append (a b : List Op) (ns : NS) : run (a ++ b) ns = (run a ns).bind (run b) := by
  simp only [run, List.foldlM_append]
  rfl

private theorem run_cons (o : Op) (b : List Op) (ns : NS) : run (o :: b) ns = (applyOp ns o).bind (run b) := by
  simp only [run, List.foldlM_cons]
  rfl

private theorem run_single (o : Op) (ns : NS) : run [o] ns = applyOp ns o := by
  simp [run, List.foldlM_cons]

private theorem run_nil (ns : NS) : run [] ns = some ns := by simp [run]

/-- nothing but `dirs` changes -/
def Frame (ns ns' : NS) : Prop :=
  ns'.mounts = ns.mounts ∧ ns'.host = ns.host ∧ ns'.links = ns.links ∧ ns'.pivoted = ns.pivoted ∧ ns'.priv = ns.priv

private theorem frame_refl (ns : NS) : Frame ns ns := ⟨rfl, rfl, rfl, rfl, rfl⟩
private theorem frame_trans {a b c : NS} (h1 : Frame a b) (h2 : Frame b c) : Frame a c :=
  ⟨h2.1.trans h1.1, h2.2.1.trans h1.2.1, h2.2.2.1.trans h1.2.2.1, h2.2.2.2.1.trans h1.2.2.2.1, h2.2.2.2.2.trans h1.2.2.2.2⟩

private theorem apply_mk (ns ns' : NS) (p : Path) (o : Op) (ho : o = .mkdir p ∨ o = .mknod p)
    (h : applyOp ns o = some ns') : Frame ns ns' ∧ ∀ d ∈ ns'.dirs, d ∈ ns.dirs ∨ d = p := by
  have key : (if ns.dirs.contains p then some ns
      else if (lookup ns p).1 == 0 then (if writable ns p then some { ns with dirs := ns.dirs ++ [p] } else none)
      else some ns) = some ns' := by
    rcases ho with ho | ho <;> (subst ho; simpa [applyOp] using h)
  split at key
  · cases key; exact ⟨frame_refl _, fun d hd => Or.inl hd⟩
  · split at key
    · split at key
      · cases key
        refine ⟨⟨rfl, rfl, rfl, rfl, rfl⟩, fun d hd => ?_⟩
        rcases List.mem_append.mp hd with h1 | h1
        · exact Or.inl h1
        · exact Or.inr (List.mem_singleton.mp h1)
      · cases key
    · cases key; exact ⟨frame_refl _, fun d hd => Or.inl hd⟩

private theorem run_mks (S : List Path) (ops : List Op) (hops : ∀ o ∈ ops, ∃ p ∈ S, o = .mkdir p ∨ o = .mknod p) :
    ∀ (ns ns' : NS), run ops ns = some ns' → Frame ns ns' ∧ ∀ d ∈ ns'.dirs, d ∈ ns.dirs ∨ d ∈ S := by
  induction ops with
  | nil => intro ns ns' h; rw [run_nil] at h; cases h; exact ⟨frame_refl _, fun d hd => Or.inl hd⟩
  | cons o rest ih =>
    intro ns ns' h
    rw [run_cons] at h
    cases h1 : applyOp ns o with
    | none => rw [h1] at h; cases h
    | some mid =>
      rw [h1] at h
      simp only [Option.bind] at h
      obtain ⟨p, hp, ho⟩ := hops o (by simp)
      obtain ⟨f1, d1⟩ := apply_mk ns mid p o ho h1
      obtain ⟨f2, d2⟩ := ih (fun o' ho' => hops o' (by simp [ho'])) mid ns' h
      refine ⟨frame_trans f1 f2, fun d hd => ?_⟩
      rcases d2 d hd with h2 | h2
      · rcases d1 d h2 with h3 | h3
        · exact Or.inl h3
        · exact Or.inr (h3 ▸ hp)
      · exact Or.inr h2

/-- the directory/node operations of one table entry only name prefixes of its target -/
private theorem dirOps_ok (m : MSpec) :
    ∀ o ∈ (if m.isFile then (prefixes m.target).dropLast.map Op.mkdir ++ [Op.mknod m.target] else (prefixes m.target).map Op.mkdir),
      ∃ p ∈ m.target :: prefixes m.target, o = .mkdir p ∨ o = .mknod p := by
  intro o ho
  split at ho
  · rcases List.mem_append.mp ho with h | h
    · obtain ⟨p, hp, rfl⟩ := List.mem_map.mp h
      exact ⟨p, List.mem_cons_of_mem _ ((List.dropLast_sublist _).subset hp), Or.inl rfl⟩
    · rw [List.mem_singleton] at h
      exact ⟨m.target, by simp, Or.inr h⟩
  · obtain ⟨p, hp, rfl⟩ := List.mem_map.mp ho
    exact ⟨p, List.mem_cons_of_mem _ hp, Or.inl rfl⟩

/-- what one table entry looks like once mounted -/
def specMnt (ns : NS) (m : MSpec) : Mnt :=
  ⟨(lookup ns m.target).1, (lookup ns m.target).2, m.target, m.fs, m.rdonly⟩

private theorem lookup_after_mount (ns : NS) (hroot : ns.mounts ≠ []) (t : Path) (fs : Fs) (ro : Bool) :
    lookup { ns with mounts := ns.mounts ++ [⟨(lookup ns t).1, (lookup ns t).2, t, fs, ro⟩] } t = (ns.mounts.length, []) := by
  have hlen : ns.mounts.length ≠ 0 := by
    intro h; exact hroot (List.length_eq_zero_iff.mp h)
  simp only [lookup, posAux_append, Nat.zero_add]
  unfold remap
  simp [hlen]

private theorem apply_remount_last (ns : NS) (hroot : ns.mounts ≠ []) (t : Path) (fs : Fs) (ro b r : Bool) :
    applyOp { ns with mounts := ns.mounts ++ [⟨(lookup ns t).1, (lookup ns t).2, t, fs, ro⟩] } (.remount t b r) =
      some { ns with mounts := ns.mounts ++ [⟨(lookup ns t).1, (lookup ns t).2, t, fs, r⟩] } := by
  simp only [applyOp]
  rw [lookup_after_mount ns hroot t fs ro]
  simp [setRo_append_last]

/-- **one table entry**: its operations add exactly one mount with the declared read-only bit —
for a read-only bind thanks to the remount, which lands on the mount just made — and create only
prefixes of its target. -/
theorem C05_one_mount (m : MSpec) (ns ns' : NS) (hroot : ns.mounts ≠ []) (h : run (opsForMount m) ns = some ns') :
    ∃ mid : NS, Frame ns mid ∧ ns'.mounts = ns.mounts ++ [specMnt mid m] ∧ ns'.host = ns.host ∧ ns'.links = ns.links ∧
      ns'.pivoted = ns.pivoted ∧ ns'.priv = ns.priv ∧ ∀ d ∈ ns'.dirs, d ∈ ns.dirs ∨ d ∈ m.target :: prefixes m.target := by
  unfold opsForMount at h
  rw [run_append, run_append] at h
  cases h1 : run (if m.isFile then (prefixes m.target).dropLast.map Op.mkdir ++ [Op.mknod m.target] else (prefixes m.target).map Op.mkdir) ns with
  | none => rw [h1] at h; cases h
  | some mid =>
    rw [h1] at h
    simp only [Option.bind_some] at h
    obtain ⟨f1, d1⟩ := run_mks (m.target :: prefixes m.target) _ (dirOps_ok m) ns mid h1
    have hroot' : mid.mounts ≠ [] := by rw [f1.1]; exact hroot
    refine ⟨mid, f1, ?_⟩
    rw [run_single] at h
    simp only [applyOp, Option.bind_some] at h
    cases hb : m.bind <;> cases hr : m.rdonly <;> simp only [hb, hr, Bool.and_false, Bool.and_true, Bool.false_and, if_false, if_true, Bool.false_eq_true] at h
    all_goals first
      | (rw [run_nil] at h; cases h
         exact ⟨by simp [specMnt, hb, hr, f1.1], f1.2.1, f1.2.2.1, f1.2.2.2.1, f1.2.2.2.2, d1⟩)
      | (rw [run_single] at h
         rw [apply_remount_last mid hroot' m.target m.fs false true true] at h
         cases h
         exact ⟨by simp [specMnt, hr, f1.1], f1.2.1, f1.2.2.1, f1.2.2.2.1, f1.2.2.2.2, d1⟩)

def specView (m : MSpec) : Path × Fs × Bool := (m.target, m.fs, m.rdonly)
def maskView (m : Path × Bool) : Path × Fs × Bool := (m.1, if m.2 then Fs.emptyTmpfs else Fs.devnull, m.2)

private theorem all_mounts (ms : List MSpec) : ∀ (ns ns' : NS), ns.mounts ≠ [] → run (ms.flatMap opsForMount) ns = some ns' →
    ns'.mounts.map view = ns.mounts.map view ++ ms.map specView ∧ ns'.host = ns.host ∧ ns'.links = ns.links ∧
    ns'.pivoted = ns.pivoted ∧ ns'.priv = ns.priv ∧ ∀ d ∈ ns'.dirs, d ∈ ns.dirs ∨ ∃ m ∈ ms, d ∈ m.target :: prefixes m.target := by
  induction ms with
  | nil =>
    intro ns ns' _ h
    simp only [List.flatMap_nil] at h
    rw [run_nil] at h; cases h
    exact ⟨by simp, rfl, rfl, rfl, rfl, fun d hd => Or.inl hd⟩
  | cons m rest ih =>
    intro ns ns' hroot h
    simp only [List.flatMap_cons] at h
    rw [run_append] at h
    cases h1 : run (opsForMount m) ns with
    | none => rw [h1] at h; cases h
    | some n1 =>
      rw [h1] at h
      simp only [Option.bind_some] at h
      obtain ⟨mid, _, hm, hh, hl, hp, hpr, hd⟩ := C05_one_mount m ns n1 hroot h1
      have hroot1 : n1.mounts ≠ [] := by rw [hm]; simp
      obtain ⟨a, b, c, d, dpr, e⟩ := ih n1 ns' hroot1 h
      refine ⟨?_, b.trans hh, c.trans hl, d.trans hp, dpr.trans hpr, fun x hx => ?_⟩
      · rw [a, hm]; simp [view, specView, specMnt]
      · rcases e x hx with h2 | ⟨m', hm', hx'⟩
        · rcases hd x h2 with h3 | h3
          · exact Or.inl h3
          · exact Or.inr ⟨m, by simp, h3⟩
        · exact Or.inr ⟨m', by simp [hm'], hx'⟩

private theorem ite_some {c : Prop} [Decidable c] {α : Type} {x y : α}
    (h : (if c then some x else none) = some y) : c ∧ x = y := by
  split at h
  · exact ⟨‹c›, Option.some.inj h⟩
  · cases h

private theorem pivot_ops (s s' : NS) (h : run [.mkdirOld, .pivot, .umountOld, .rmdirOld] s = some s') :
    s'.mounts = s.mounts ∧ s'.host = none ∧ s'.pivoted = true ∧ s'.links = s.links ∧ s.host = some [] ∧ s'.priv = s.priv ∧
    ∀ d ∈ s'.dirs, d ∈ s.dirs := by
  rw [run_cons] at h
  cases h1 : applyOp s .mkdirOld with
  | none => rw [h1] at h; cases h
  | some a =>
    rw [h1, Option.bind_some, run_cons] at h
    simp only [applyOp] at h1
    obtain ⟨_, rfl⟩ := ite_some h1
    cases h2 : applyOp _ Op.pivot with
    | none => rw [h2] at h; cases h
    | some b =>
      rw [h2, Option.bind_some, run_cons] at h
      simp only [applyOp] at h2
      obtain ⟨hc, rfl⟩ := ite_some h2
      cases h3 : applyOp _ Op.umountOld with
      | none => rw [h3] at h; cases h
      | some c =>
        rw [h3, Option.bind_some, run_single] at h
        simp only [applyOp] at h3
        obtain ⟨_, rfl⟩ := ite_some h3
        simp only [applyOp] at h
        obtain ⟨_, rfl⟩ := ite_some h
        refine ⟨rfl, rfl, rfl, rfl, hc.2, rfl, fun d hd => ?_⟩
        simp only [List.mem_filter, List.mem_append, List.mem_singleton] at hd
        rcases hd.1 with h4 | h4
        · exact h4
        · exfalso; simpa [h4] using hd.2

/-- operations that only create directories and symlinks in the root -/
private theorem run_links (S : List Path) (ops : List Op)
    (hops : ∀ o ∈ ops, (∃ p ∈ S, o = .mkdir p) ∨ ∃ p t, o = .symlink p t) :
    ∀ (ns ns' : NS), run ops ns = some ns' → ns'.mounts = ns.mounts ∧ ns'.host = ns.host ∧ ns'.pivoted = ns.pivoted ∧ ns'.priv = ns.priv ∧
      ∀ d ∈ ns'.dirs, d ∈ ns.dirs ∨ d ∈ S := by
  induction ops with
  | nil => intro ns ns' h; rw [run_nil] at h; cases h; exact ⟨rfl, rfl, rfl, rfl, fun d hd => Or.inl hd⟩
  | cons o rest ih =>
    intro ns ns' h
    rw [run_cons] at h
    cases h1 : applyOp ns o with
    | none => rw [h1] at h; cases h
    | some mid =>
      rw [h1, Option.bind_some] at h
      obtain ⟨a, b, c, cpr, d⟩ := ih (fun o' ho' => hops o' (by simp [ho'])) mid ns' h
      rcases hops o (by simp) with ⟨p, hp, ho⟩ | ⟨p, t, ho⟩
      · obtain ⟨f1, d1⟩ := apply_mk ns mid p o (Or.inl ho) h1
        refine ⟨a.trans f1.1, b.trans f1.2.1, c.trans f1.2.2.2.1, cpr.trans f1.2.2.2.2, fun x hx => ?_⟩
        rcases d x hx with h2 | h2
        · rcases d1 x h2 with h3 | h3
          · exact Or.inl h3
          · exact Or.inr (h3 ▸ hp)
        · exact Or.inr h2
      · subst ho
        simp only [applyOp] at h1
        obtain ⟨_, rfl⟩ := ite_some h1
        exact ⟨a, b, c, cpr, d⟩

private theorem run_masks (masks : List (Path × Bool)) : ∀ (ns ns' : NS),
    run (masks.map (fun m => Op.mount m.1 (if m.2 then Fs.emptyTmpfs else Fs.devnull) (!m.2) m.2)) ns = some ns' →
    ns'.mounts.map view = ns.mounts.map view ++ masks.map maskView ∧ ns'.host = ns.host ∧ ns'.pivoted = ns.pivoted ∧ ns'.dirs = ns.dirs ∧ ns'.priv = ns.priv := by
  induction masks with
  | nil => intro ns ns' h; simp only [List.map_nil] at h; rw [run_nil] at h; cases h; simp
  | cons m rest ih =>
    intro ns ns' h
    simp only [List.map_cons] at h
    rw [run_cons] at h
    simp only [applyOp, Option.bind_some] at h
    obtain ⟨a, b, c, d, e⟩ := ih _ ns' h
    refine ⟨?_, b, c, d, e⟩
    rw [a]
    cases hm : m.2 <;> simp [view, maskView, hm]

private theorem setRo_zero_view (ms : List Mnt) (r : Mnt) (ro : Bool) :
    (setRo (r :: ms) 0 ro).map view = (r.target, r.fs, ro) :: ms.map view := by
  simp [setRo, view]

/-- **the namespace of the sandboxed program, for every mount table** (both implementations; the raw
child has no symlinks and masks): if the sequence succeeds, then
* the mounts are the root tmpfs, read-only, followed by exactly the configured entries — each with
  its declared file system and read-only bit — followed by the masks;
* the host's root tree is detached (nothing of it is reachable, not even through old_root) and the
  namespace was made private first: later mount events of the host do not propagate into it;
* every directory made in the root is a prefix of a configured target or symlink path. -/
theorem C05_namespace (ms : List MSpec) (x : Extra) (ns' : NS) (h : run (opsFor ms x) {} = some ns') :
    ns'.mounts.map view = (([], Fs.rootTmpfs, true) : Path × Fs × Bool) :: (ms.map specView ++ x.masks.map maskView) ∧
    ns'.host = none ∧ ns'.pivoted = true ∧ ns'.priv = true ∧
    ∀ d ∈ ns'.dirs, (∃ m ∈ ms, d ∈ m.target :: prefixes m.target) ∨ (∃ l ∈ x.symlinks, d ∈ prefixes l.1.dropLast) := by
  unfold opsFor at h
  simp only [List.append_assoc] at h
  rw [run_append, run_single] at h
  simp only [applyOp, List.isEmpty_nil, if_true, Option.bind_some] at h
  rw [run_append, run_single] at h
  simp only [applyOp, Option.bind_some] at h
  rw [run_append] at h
  cases h1 : run (ms.flatMap opsForMount) { mounts := [⟨0, [], [], Fs.rootTmpfs, false⟩], priv := true } with
  | none => rw [h1] at h; cases h
  | some n1 =>
    rw [h1, Option.bind_some, run_append] at h
    obtain ⟨a1, b1, _, d1, pr1, e1⟩ := all_mounts ms _ n1 (by simp) h1
    cases h2 : run [Op.mkdirOld, .pivot, .umountOld, .rmdirOld] n1 with
    | none => rw [h2] at h; cases h
    | some n2 =>
      rw [h2, Option.bind_some, run_append] at h
      obtain ⟨a2, b2, c2, _, _, pr2, e2⟩ := pivot_ops n1 n2 h2
      cases h3 : run (x.symlinks.flatMap (fun l => (prefixes l.1.dropLast).map Op.mkdir ++ [Op.symlink l.1 l.2])) n2 with
      | none => rw [h3] at h; cases h
      | some n3 =>
        rw [h3, Option.bind_some, run_append] at h
        have hops : ∀ o ∈ x.symlinks.flatMap (fun l => (prefixes l.1.dropLast).map Op.mkdir ++ [Op.symlink l.1 l.2]),
            (∃ p ∈ x.symlinks.flatMap (fun l => prefixes l.1.dropLast), o = .mkdir p) ∨ ∃ p t, o = .symlink p t := by
          intro o ho
          obtain ⟨l, hl, hol⟩ := List.mem_flatMap.mp ho
          rcases List.mem_append.mp hol with h4 | h4
          · obtain ⟨p, hp, rfl⟩ := List.mem_map.mp h4
            exact Or.inl ⟨p, List.mem_flatMap.mpr ⟨l, hl, hp⟩, rfl⟩
          · rw [List.mem_singleton] at h4
            exact Or.inr ⟨l.1, l.2, h4⟩
        obtain ⟨a3, b3, c3, pr3, e3⟩ := run_links _ _ hops n2 n3 h3
        cases h4 : run (x.masks.map (fun m => Op.mount m.1 (if m.2 then Fs.emptyTmpfs else Fs.devnull) (!m.2) m.2)) n3 with
        | none => rw [h4] at h; cases h
        | some n4 =>
          rw [h4, Option.bind_some, run_single] at h
          obtain ⟨a4, b4, c4, e4, pr4⟩ := run_masks x.masks n3 n4 h4
          simp only [applyOp] at h
          cases h
          refine ⟨?_, ?_, ?_, ?_, ?_⟩
          · -- the mount list
            have hv : n4.mounts.map view = (([], Fs.rootTmpfs, false) : Path × Fs × Bool) :: (ms.map specView ++ x.masks.map maskView) := by
              rw [a4, a3, a2, a1]; simp [view]
            cases hm : n4.mounts with
            | nil => rw [hm] at hv; simp at hv
            | cons r rest =>
              rw [hm] at hv
              simp only [List.map_cons, List.cons.injEq] at hv
              rw [setRo_zero_view]
              have hr : r.target = [] ∧ r.fs = Fs.rootTmpfs := by
                have := hv.1; simp [view] at this; exact ⟨this.1, this.2.1⟩
              rw [hr.1, hr.2, hv.2]
          · show n4.host = none
            rw [b4, b3, b2]
          · show n4.pivoted = true
            rw [c4, c3, c2]
          · show n4.priv = true
            rw [pr4, pr3, pr2, pr1]
          · intro d hd
            have hd : d ∈ n4.dirs := hd
            rw [e4] at hd
            rcases e3 d hd with h5 | h5
            · rcases e1 d (e2 d h5) with h6 | h6
              · simp at h6
              · exact Or.inl h6
            · obtain ⟨l, hl, hp⟩ := List.mem_flatMap.mp h5
              exact Or.inr ⟨l, hl, hp⟩

/-- **read-only means read-only, writable means writable**: a path is writable exactly when the
mount it lands in was not made read-only — in particular nothing in the root itself is. -/
theorem C05_writable_iff (ns : NS) (p : Path) (m : Mnt) (h : ns.mounts[(lookup ns p).1]? = some m) :
    writable ns p = !m.ro := by
  simp [writable, h]

/-- non-vacuity: a table with a nested read-only file bind, a tmpfs, read-only proc, a mask and a symlink -/
def exTable : List MSpec :=
  [⟨["usr"], .host "/usr", true, true, false⟩, ⟨["w"], .tmpfs, false, false, false⟩,
   ⟨["usr", "x"], .host "/etc/passwd", true, true, true⟩, ⟨["proc"], .proc, false, true, false⟩]
def exExtra : Extra := { masks := [(["proc", "acpi"], true)], symlinks := [(["dev", "fd"], "/proc/self/fd")] }

example : (match run (opsFor exTable exExtra) {} with
    | some ns => writable ns ["w", "a"] && !writable ns ["usr", "bin"] && !writable ns ["usr", "x"] && !writable ns ["new"] &&
        !writable ns ["proc", "acpi", "f"] && ns.host.isNone && ns.priv
    | none => false) = true := by decide

/-! ### the regenerated code produces that sequence (evaluated by the kernel) -/

open GoSandbox.Model.MountGen in
/-- mount tables for the tie: read-only and writable directory binds, read-only and writable file
binds (top level and nested inside another bind), tmpfs, proc read-only and read-write, a deep target -/
def tieTables : List (List Entry) := [
  [],
  [.bind "/usr" "usr" true false, .tmpfs "w", .bind "/etc/passwd" "usr/x" true true, .proc false, .bind "/data" "data/deep" false false],
  [.bind "/f" "f" true true, .bind "/g" "g" false true, .proc true, .tmpfs "tmp", .tmpfs "a/b/c"],
  [.bind "/lib" "lib" true false, .bind "/lib64" "lib64" true false, .bind "/bin" "bin" true false, .bind "/usr" "usr" true false, .tmpfs "w", .tmpfs "tmp", .proc false]]

open GoSandbox.Model.MountGen in
/-- **raw in-child implementation**: the syscall trace of the regenerated forkAndExecInChild, with the
table built by the regenerated Builder/pathPrefix/isBindMountFileOrNotExists, is the sequence of `opsFor` -/
theorem C05_gen_raw_matches :
    tieTables.all (fun es => match genRawOps es with | .ok a => a == opsFor (tableOf es) {} | .error _ => false) = true := by
  decide +kernel

open GoSandbox.Model.MountGen in
/-- **container implementation**: initFileSystem + Mount.Mount + ensureMountTargetExists + maskPath
produce the same sequence, followed by the symlinks, the masks (file: /dev/null bind; directory:
read-only empty tmpfs) and the read-only remount of the root -/
theorem C05_gen_container_matches :
    tieTables.all (fun es =>
      let sl := [("/dev/fd", "/proc/self/fd"), ("/a/b/link", "/w")]
      let mk := [("/proc/acpi", true), ("/proc/kcore", false), ("/sys/firmware", true)]
      match genContainerOps es sl mk with
      | .ok a => a == opsFor (tableOf es) (extraOf sl mk)
      | .error _ => false) = true := by
  decide +kernel

open GoSandbox.Model.MountGen in
/-- **no silent half-built root**: when a mask (or any step of the sequence) cannot be applied, the
regenerated initFileSystem reports the failure — it does not return success with the remaining
steps (later masks, the read-only remount of the root) skipped -/
theorem C05_gen_container_failure_is_reported :
    (match genContainerMaskFailure [.bind "/usr" "usr" true false, .tmpfs "w"] "/usr/secret" with
     | .ok claimedSuccess => !claimedSuccess
     | .error _ => false) = true := by
  decide +kernel

open GoSandbox.Model.MountGen in
/-- the builder's flag words: binds are MS_BIND|MS_REC|MS_PRIVATE|MS_NOSUID (+MS_RDONLY when declared),
tmpfs is NOSUID|NODEV|NOATIME, proc is NOSUID|NODEV|NOEXEC (+RDONLY unless writable) -/
theorem C05_builder_flags :
    (match builtFlags [.bind "/a" "a" true false, .bind "/a" "a" false false, .tmpfs "t", .proc false, .proc true] with
     | .ok [bro, brw, tm, pro, prw] =>
        let c := GoSandbox.Gen.Consts.unix_MS_BIND + GoSandbox.Gen.Consts.unix_MS_REC + GoSandbox.Gen.Consts.unix_MS_PRIVATE + GoSandbox.Gen.Consts.unix_MS_NOSUID
        bro == c + GoSandbox.Gen.Consts.unix_MS_RDONLY && brw == c &&
        tm == GoSandbox.Gen.Consts.unix_MS_NOSUID + GoSandbox.Gen.Consts.unix_MS_NODEV + GoSandbox.Gen.Consts.unix_MS_NOATIME &&
        prw == GoSandbox.Gen.Consts.unix_MS_NOSUID + GoSandbox.Gen.Consts.unix_MS_NODEV + GoSandbox.Gen.Consts.unix_MS_NOEXEC &&
        pro == prw + GoSandbox.Gen.Consts.unix_MS_RDONLY
     | _ => false) = true := by
  decide +kernel

end GoSandbox.Props.C05
