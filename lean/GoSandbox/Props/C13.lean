/-
C13 — Pooled containers carry no state between runs; sealed executables are immutable.
PROPERTY THEOREMS ONLY.  Kernel unlink/seal semantics are assumptions (partial); the harness
builds hostile trees and inspects the mounts from the host, and attacks a real sealed memfd.
-/
import GoSandbox.Model.Reset
namespace GoSandbox.Props.C13
open GoSandbox.Model.Reset

/-- **Reset empties every tmpfs mount**: if nothing fails, after removeContents no entry remains,
whatever was there (any names, types, depths, modes). -/
theorem C13_removeContents_empties (children : List Node) :
    (removeContents children (fun _ => false)).1 = [] ∧ (removeContents children (fun _ => false)).2 = false := by
  simp [removeContents]

/-- **every writable (tmpfs) mount is cleaned, in order, and a failure is reported**: on the hand
model for every mount table — exactly the tmpfs targets are cleaned; the reply is an error iff one
of them failed, and nothing is reported as success after a failure. -/
theorem C13_reset_model (mounts : List Mnt) :
    (reset mounts []).2 = some true ∧
    (reset mounts []).1 = (mounts.filter (fun m => m.fsType == "tmpfs")).map (fun m => if m.target.startsWith "/" then m.target else "/" ++ m.target) := by
  have key : ∀ (ms : List Mnt) (acc : List String),
      reset.go [] ms acc = (acc ++ (ms.filter (fun m => m.fsType == "tmpfs")).map (fun m => if m.target.startsWith "/" then m.target else "/" ++ m.target), some true) := by
    intro ms
    induction ms with
    | nil => intro acc; simp [reset.go]
    | cons m rest ih =>
      intro acc
      simp only [reset.go]
      by_cases h : m.fsType = "tmpfs"
      · simp [h, ih, List.filter_cons]
      · simp [h, ih, List.filter_cons]
  simp [reset, key]

def sampleTables : List (List Mnt × List String) := [
  ([], []),
  ([⟨"usr", ""⟩, ⟨"w", "tmpfs"⟩, ⟨"tmp", "tmpfs"⟩, ⟨"proc", "proc"⟩], []),
  ([⟨"usr", ""⟩, ⟨"w", "tmpfs"⟩, ⟨"tmp", "tmpfs"⟩, ⟨"proc", "proc"⟩], ["/w"]),
  ([⟨"w", "tmpfs"⟩, ⟨"w/sub", "tmpfs"⟩, ⟨"tmp", "tmpfs"⟩], ["/tmp"]),
  ([⟨"dev/shm", "tmpfs"⟩, ⟨"lib", ""⟩], [])]

/-- the regenerated handleReset behaves as the model: tmpfs filter, "/"+target, order, error reply
at the first failing mount, success reply otherwise (kernel-evaluated on sample tables). -/
theorem C13_tie_reset :
    sampleTables.all (fun (ms, fl) => match genReset ms fl with
      | .ok r => r == reset ms fl | .error _ => false) = true := by decide +kernel

/-- **removeContents removes every entry** (regenerated code, kernel-evaluated): whatever the names look
like — hidden, with spaces, a name that is a dangling link or a FIFO is just a name here —, however many
there are (1100 entries: more than any bounded batch a directory read might be given), and whichever
removals fail, every name the directory holds is handed to `RemoveAll`, and the error is reported iff a
removal failed or the directory could not be opened. (`RemoveAll` itself — `C13_removeContents_empties` —
removes whatever the name designates without following it.) -/
theorem C13_gen_removeContents_every_entry :
    removesEverything "/w" [] = true ∧
    removesEverything "/w" [".hidden", "..x", "a b", "dangling", "fifo", "-", "loopa", ".", "sub"] = true ∧
    removesEverything "/tmp" ["a", "b", "c"] ["/tmp/b"] = true ∧
    (genRemoveContents "/w" ["a"] [] true).toOption = some (true, []) := by
  refine ⟨?_, ?_, ?_, ?_⟩ <;> decide +kernel

/-- the same for a directory with 300 entries, and the directory is read with ONE call that asks for
everything (a count ≤ 0: os.File returns all names then) — not with a bounded batch that would leave the
rest of a large directory behind -/
theorem C13_gen_removeContents_many_entries :
    removesEverything "/w" ((List.range 300).map (fun k => String.ofList (Nat.toDigits 10 k))) = true ∧
    (genReadCounts "/w" ["a", "b"]).toOption = some [-1] := by
  constructor <;> decide +kernel

/-- **sealed executable**: DupToMemfd creates, copies, seals with roSeal, rewinds — in that order —
returns a file only if every step succeeded and closes the file on every failing path. -/
theorem C13_dup_sequence :
    (match genDup none with
     | .ok (calls, ok) => ok && calls == ["New", "file.ReadFrom", s!"unix.FcntlInt({Gen.Consts.unix_F_ADD_SEALS},{Gen.Consts.roSeal})", "file.Seek(0,0)"]
     | .error _ => false) = true ∧
    ["file.ReadFrom", "unix.FcntlInt", "file.Seek"].all (fun step => match genDup (some step) with
     | .ok (calls, ok) => !ok && calls.getLast? == some "file.Close" | .error _ => false) = true ∧
    (match genDup (some "New") with | .ok (_, ok) => !ok | .error _ => false) = true := by
  refine ⟨?_, ?_, ?_⟩ <;> decide +kernel

/-- with the seal set the code applies, every modifying operation is denied: write, pwrite,
shrinking and growing truncate, fallocate, a shared writable mapping, adding/removing seals, and
writing through a descriptor re-opened from /proc/self/fd/N. -/
theorem C13_sealed : allMOps.all (denied Gen.Consts.roSeal) = true ∧
    Gen.Consts.createFlag &&& Gen.Consts.unix_MFD_ALLOW_SEALING ≠ 0 ∧ Gen.Consts.createFlag &&& Gen.Consts.unix_MFD_CLOEXEC ≠ 0 := by
  refine ⟨?_, ?_, ?_⟩ <;> decide

/-! non-vacuity -/
example : reset [⟨"usr", ""⟩, ⟨"w", "tmpfs"⟩, ⟨"tmp", "tmpfs"⟩] ["/tmp"] = (["/w", "/tmp"], some false) := by decide +kernel

end GoSandbox.Props.C13
