/-
C10 — The container RPC never desynchronises; program-caused failures keep it usable.
Theorems about the protocol LTS Model/Rpc.lean (hand model of both endpoints), tied to the
implementation by trace inclusion of the message logs recorded at both endpoints (verif hooks)
for every operation of random histories.  PROPERTY THEOREMS ONLY.
-/
import GoSandbox.Model.Rpc
import GoSandbox.Model.Reaper
import GoSandbox.Gen.C12
import GoSandbox.Gen.C10
namespace GoSandbox.Props.C10
open GoSandbox.Model.Rpc

/-- per call: every maximal interleaving (all orders of child exit, cancel, kill and reply) ends
with the host returned, the container back in `serve` and both channels empty -/
def callOk (fixed : Bool) (op : Op) : Bool :=
  let ts := terminals ⟨fixed, op⟩
  !ts.isEmpty && ts.all inSync

theorem every_call_in_sync : allOps.all (callOk true) = true := by decide +kernel

/-- states after a history of API calls: each call starts where the previous one ended -/
inductive After : List Op → St → Prop
  | nil : After [] St.init
  | snoc {ops : List Op} {s t : St} {op : Op} : After ops s → op ∈ allOps →
      t ∈ terminals ⟨true, op⟩ → After (ops ++ [op]) t

/-- **C10_in_sync**: after any finite sequence of environment operations — every Execve
independently failing before fork, before sync, at the callback, after the ack, or running, under
every interleaving of exit, cancel, kill and reply — host and container agree that no command is
in progress and nothing is in flight: no reply can be consumed by a later call, no command can be
interpreted in the wrong state. -/
theorem C10_in_sync : ∀ (ops : List Op) (s : St), After ops s → ops ≠ [] → inSync s = true := by
  intro ops s h
  cases h with
  | nil => intro h; exact absurd rfl h
  | snoc _ hop ht =>
    intro _
    have hall := List.all_eq_true.mp every_call_in_sync _ hop
    simp only [callOk, Bool.and_eq_true] at hall
    exact List.all_eq_true.mp hall.2 _ ht

/-- **one answer, its own**: every call returns exactly once, having consumed every reply
produced for it (nothing is left in the container→host channel). -/
theorem C10_one_answer (ops : List Op) (s : St) (h : After ops s) (hne : ops ≠ []) :
    (∃ b, s.h = .returned b) ∧ s.c2h = [] := by
  have := C10_in_sync ops s h hne
  simp only [inSync, Bool.and_eq_true, List.isEmpty_iff] at this
  refine ⟨?_, this.2⟩
  cases hs : s.h <;> simp [hs] at this ⊢

/-- **program-caused failures keep the environment usable**: whatever happened before, a Ping
afterwards is answered (every terminal of a Ping from an in-sync state returns ok). -/
theorem C10_usable_after_failures :
    (terminals ⟨true, .simple .ping false⟩).all (fun s => s.h == .returned true && inSync s) = true := by
  decide +kernel

/-- the pinned tree's container (which did not consume the kill after an exec failure following
the ack) desynchronises: the witness that forced the `fix:`. -/
theorem C10_failAfterAck_witness :
    callOk false (.execve false .failAfterAck) = false ∧ callOk true (.execve false .failAfterAck) = true := by
  constructor <;> decide +kernel

/-- **transport loss is prompt**: once the container is gone, a waiting host call returns an
error in one step (every wait has the `done` alternative); no reachable state with a dead
container leaves the host blocked. -/
theorem C10_transport_loss_prompt :
    allOps.all (fun op => (reachable ⟨false, op⟩).all (fun s =>
      !(s.c == .dead && s.c2h.isEmpty) || (match s.h with | .returned _ | .idle => true | _ => !(steps ⟨false, op⟩ s).isEmpty))) = true := by
  decide +kernel

/-! ### the hand-off between the command server and the reaper goroutine of the container init

Every Execve that started a program goes through `c.waitPid <- pid`, a result on `c.waitPidResult`,
`c.waitAll <- {}` and `<-c.waitAllDone` (Model/Reaper.lean).  That the call gets *its own* answer — the wait
status of its own program, not "wait4: no child processes" because the clean-up of the previous run collected
it — and that the next call is served at all rests on this hand-off being balanced. -/
section Reaper
open GoSandbox.Model.Reaper

def real1 : GoSandbox.Model.Reaper.Cfg := ⟨.real, 1⟩
def oneRunStates : List GoSandbox.Model.Reaper.St := reachableFrom real1 GoSandbox.Model.Reaper.init
def oneRunTerminals : List GoSandbox.Model.Reaper.St := oneRunStates.filter (stuck real1)

/-- **one started Execve, every interleaving** (program ends on its own or is killed at any moment, leaves any
number of processes behind, alive or dead, which die whenever they like; the reaper is scheduled whenever it
likes): the explored set is closed under the step relation (so it is all that can happen); every result the
server takes is the wait status of its own program; neither hand-over ever finds the reaper busy
(`c.waitPid <-` and `c.waitAll <-` are unbuffered); and every maximal run ends with the server back in
`serve`, the reaper in its select, both buffered channels empty and no child of init left. -/
theorem C10_reaper_one_run :
    closed real1 oneRunStates = true ∧
    oneRunStates.all (fun s => s.reported.all id) = true ∧
    oneRunStates.all (fun s => match s.srv with
      | .started | .gotResult _ => s.rp == .atSelect
      | _ => true) = true ∧
    (!oneRunTerminals.isEmpty && oneRunTerminals.all (fun s => quiet s && s.reported == [true] && s.runs == 1)) = true := by
  refine ⟨?_, ?_, ?_, ?_⟩ <;> decide +kernel

/-- forget the bookkeeping of earlier runs -/
def fresh (s : GoSandbox.Model.Reaper.St) : GoSandbox.Model.Reaper.St := { s with runs := 0, reported := [] }

/-- the states after `n` started Execves, each starting where the previous one ended -/
inductive AfterRuns : Nat → GoSandbox.Model.Reaper.St → Prop
  | zero : AfterRuns 0 GoSandbox.Model.Reaper.init
  | succ {n : Nat} {s t : GoSandbox.Model.Reaper.St} : AfterRuns n s →
      t ∈ (reachableFrom real1 (fresh s)).filter (stuck real1) → AfterRuns (n + 1) t

theorem fresh_quiet (s : GoSandbox.Model.Reaper.St) (h : quiet s = true) : fresh s = GoSandbox.Model.Reaper.init := by
  obtain ⟨srv, rp, resBuf, doneBuf, prog, living, zombies, runs, reported⟩ := s
  simp only [quiet, Bool.and_eq_true, beq_iff_eq, Bool.not_eq_true'] at h
  obtain ⟨⟨⟨⟨⟨⟨h1, h2⟩, h3⟩, h4⟩, h5⟩, h6⟩, h7⟩ := h
  subst h1 h2 h3 h4 h5 h6 h7
  rfl

/-- **any number of Execves on one environment**: after every one of them the hand-off is balanced again —
server in `serve`, reaper in its select, `waitPidResult` and `waitAllDone` empty, init without children — and
the answer the call got was the wait status of its own program.  (So the next `c.waitPid <- pid` is taken at
once, and no program is ever collected by the clean-up of the run before it.) -/
theorem C10_reaper_balanced : ∀ (n : Nat) (s : GoSandbox.Model.Reaper.St), AfterRuns n s → quiet s = true ∧ s.reported.all id = true := by
  intro n s h
  induction h with
  | zero => exact ⟨by decide, by decide⟩
  | succ hprev ht ih =>
    rw [fresh_quiet _ ih.1] at ht
    have hall := C10_reaper_one_run.2.2.2
    simp only [Bool.and_eq_true] at hall
    have := List.all_eq_true.mp hall.2 _ ht
    simp only [Bool.and_eq_true, beq_iff_eq] at this
    exact ⟨this.1.1, by rw [this.1.2]; decide⟩

/-- three Execves in a row explored as one system (a bounded cross-check of the composition used above) -/
theorem C10_reaper_three_runs :
    (let g : GoSandbox.Model.Reaper.Cfg := ⟨.real, 3⟩
     let l := reachableFrom g GoSandbox.Model.Reaper.init
     closed g l && l.all (fun s => s.reported.all id) && (l.filter (stuck g)).all (fun s => quiet s && s.runs == 3)) = true := by
  decide +kernel

/-- **why the final `<-c.waitAllDone` matters (1)**: a server that serves the next command without waiting
for the end of the reaping can start the next program while `wait4(-1)` is still collecting: the program is
collected there, `wait4(pid)` fails, and the call is answered "wait4: no child processes" (Runner Error)
instead of its own status. -/
theorem C10_reaper_nowait_witness :
    (reachableFrom ⟨.noWaitDone, 2⟩ GoSandbox.Model.Reaper.init).any (fun s => s.reported.contains false) = true ∧
    (reachableFrom ⟨.real, 2⟩ GoSandbox.Model.Reaper.init).any (fun s => s.reported.contains false) = false := by
  constructor <;> decide +kernel

/-- **why it matters (2)**: if only the kill branch returns without consuming the token, nothing shows after one
killed run (the channel has room for one token) and nothing after two — the third Execve blocks for ever in
`c.waitPid <- pid`, with the reaper blocked on the full `waitAllDone`: no answer, no reaction to a kill. -/
theorem C10_reaper_killbranch_witness :
    ((reachableFrom ⟨.killBranchReturnsEarly, 2⟩ GoSandbox.Model.Reaper.init).filter (stuck ⟨.killBranchReturnsEarly, 2⟩)).all (fun s => s.srv == .idle) = true ∧
    ((reachableFrom ⟨.killBranchReturnsEarly, 3⟩ GoSandbox.Model.Reaper.init).filter (stuck ⟨.killBranchReturnsEarly, 3⟩)).any
      (fun s => s.srv == .started && s.rp == .haveDone && s.doneBuf) = true := by
  constructor <;> decide +kernel

/-- the operations on the four hand-off channels, in the words of the extractor -/
def handoffOps : List String :=
  ["c.waitPid<-", "case <-c.recvCh", "case <-c.waitPidResult", "<-c.waitPidResult", "syscall.Kill(-1,syscall.SIGKILL)", "c.waitAll<-", "<-c.waitAllDone"]

/-- **the server of the model is the server of the code** (regenerated from container_exec_linux.go on every
run): the paths of `handleExecveStarted` that return success are exactly the kill branch and the result branch
of the model — hand the pid over; on a kill command kill everything, take the result, request the reaping; on a
result kill everything and request the reaping — and BOTH end with `<-c.waitAllDone`; every path that has started
a program requests the reaping. -/
theorem C10_gen_reaper_server :
    ((Gen.C12.execStartedPaths.filter (fun p => p.head? == some "c.waitPid<-" && p.getLast? == some "return nil")).map
        (fun p => p.filter handoffOps.contains)) =
      [["c.waitPid<-", "case <-c.recvCh", "syscall.Kill(-1,syscall.SIGKILL)", "<-c.waitPidResult", "c.waitAll<-", "<-c.waitAllDone"],
       ["c.waitPid<-", "case <-c.waitPidResult", "syscall.Kill(-1,syscall.SIGKILL)", "c.waitAll<-", "<-c.waitAllDone"]] ∧
    (Gen.C12.execStartedPaths.filter (fun p => p.head? == some "c.waitPid<-")).all
      (fun p => p.contains "c.waitAll<-" && (p.getLast? == some "return nil" || p.getLast? == some "return err")) = true := by
  constructor <;> decide +kernel

/-- **the reaper of the model is `waitLoop`** (regenerated from container_init_linux.go): one iteration either
takes a pid, waits for exactly that pid and sends exactly one result, or takes a reaping request, loops on
`wait4(-1)` and then sends exactly one token as its last action; the channels have the capacities the model
gives them (`waitPid`, `waitAll` unbuffered; `waitPidResult`, `waitAllDone` one slot). -/
theorem C10_gen_reaper_loop :
    Gen.C12.reaperChanCaps = ["waitPid=0", "waitPidResult=1", "waitAll=0", "waitAllDone=1"] ∧
    (!Gen.C12.waitLoopPaths.isEmpty && Gen.C12.waitLoopPaths.all (fun p =>
      (p.head? == some "case <-c.waitPid" && (p.filter (· == "c.waitPidResult<-")).length == 1 && !p.contains "c.waitAllDone<-" &&
         p.contains "syscall.Wait4(pid,&waitStatus,0,&rusage)" && !p.contains "syscall.Wait4(-1,nil,0,nil)") ||
      (p.head? == some "case <-c.waitAll" && (p.filter (· == "c.waitAllDone<-")).length == 1 && p.getLast? == some "c.waitAllDone<-" &&
         !p.contains "c.waitPidResult<-" && p.contains "syscall.Wait4(-1,nil,0,nil)"))) = true ∧
    Gen.C12.waitLoopPaths.any (fun p => p.head? == some "case <-c.waitPid") = true ∧
    Gen.C12.waitLoopPaths.any (fun p => p.head? == some "case <-c.waitAll") = true := by
  refine ⟨?_, ?_, ?_, ?_⟩ <;> decide +kernel

/-! non-vacuity -/
example : oneRunStates.length = 44 := by decide +kernel
example : AfterRuns 1 { reported := [true], runs := 1 } :=
  AfterRuns.succ AfterRuns.zero (by decide +kernel)

end Reaper

/-! ### the host endpoint of the model is the host endpoint of the code -/

/-- a path of `Execve` with `execveSyncKill` written out (send kill, receive one reply) -/
def expandKill (p : List String) : List String :=
  p.flatMap (fun x => if x == "execveSyncKill" then (Gen.C10.execveSyncKillPaths.headD []) else [x])

/-- what the host automaton of Model/Rpc.lean does during an Execve, location by location:
idle →(send execve) sentExecve →(receive) { error reply: return | sync: callback → { fails: killAfterCallback
→(send kill) waitAfterKill →(receive) return | ok: →(send ok) waitForDone } } -/
def modelHostPaths : List (List String) :=
  [["send execve", "recv", "return error"],
   ["send execve", "recv", "callback", "send kill", "recv", "return error"],
   ["send execve", "recv", "callback", "send ok", "return waitForDone"],
   ["send execve", "recv", "send ok", "return waitForDone"]]

/-- returns forced by a failing send or receive (the transport is lost: the model's "every wait has the done
alternative"), and the defensive path for a sync message without credentials (two kills, two replies) -/
def transportOrDefensivePaths : List (List String) :=
  [["send execve", "return error"],
   ["send execve", "recv", "callback", "send ok", "return error"],
   ["send execve", "recv", "send ok", "return error"],
   ["send execve", "recv", "send kill", "recv", "send kill", "recv", "return error"]]

/-- **the host side of the protocol model is what `Execve` / `waitForDone` do** (regenerated from
container/host_exec_linux.go on every run): every path through `Execve`, with `execveSyncKill` written out, is
a path of the model's host automaton, or a return forced by a failing send/receive, or the defensive no-pid
path; every path of the model occurs; `execveSyncKill` is "send kill, receive one reply"; and `waitForDone`
has exactly the model's three continuations — transport lost: nothing is sent; cancelled: one kill, then
exactly one reply is consumed; result arrived: one kill, no further receive (so no reply of this call is left
for the next one, and none of the next one is taken by this call). -/
theorem C10_gen_host_paths :
    (Gen.C10.hostExecvePaths.map expandKill).all (fun p => modelHostPaths.contains p || transportOrDefensivePaths.contains p) = true ∧
    modelHostPaths.all (fun p => (Gen.C10.hostExecvePaths.map expandKill).contains p) = true ∧
    Gen.C10.execveSyncKillPaths = [["send kill", "recv"]] ∧
    Gen.C10.waitForDonePaths =
      [["case <-c.done", "return result"],
       ["case <-ctx.Done()", "send kill", "recv", "return result"],
       ["case <-c.recvCh", "send kill", "return result"]] := by
  refine ⟨?_, ?_, ?_, ?_⟩ <;> decide +kernel

/-- **the container endpoint of the model is `handleExecve`** (regenerated from container/container_exec_linux.go):
its paths, projected onto what touches the socket, the program and the reaper, are exactly
* a refusal before anything is started: one error reply (model: execRecv → serve with errReply);
* a failed start: one error reply, and — only after the host was acknowledged — the host's kill is consumed
  (model: atSync → consumeKill → serve; the pinned tree lacked the receive, see `C10_failAfterAck_witness`);
* a refused synchronisation after exec: kill everything FIRST, then hand the pid over, take the result, send it,
  request the reaping and wait for its end (kill before wait: the program may never end by itself);
* the started program: `handleExecveStarted` (with or without the after-exec synchronisation before it);
and the synchronisation closure sends the sync message and receives exactly one command (ok or kill). -/
theorem C10_gen_container_paths :
    Gen.C10.containerExecvePaths =
      [["send error reply"],
       ["start", "send error reply"],
       ["start", "send error reply", "recv"],
       ["start", "syncPid", "kill all", "c.waitPid<-", "<-c.waitPidResult", "send result", "c.waitAll<-", "<-c.waitAllDone"],
       ["start", "syncPid", "started"],
       ["start", "started"]] ∧
    Gen.C10.syncPidPaths = [["send sync"], ["send sync", "recv"]] := by
  constructor <;> decide +kernel

/-- **one command, one answer, on every path of every simple call** (regenerated from container/host_cmd_linux.go):
Ping, conf, Open, Symlink, Delete and Reset each send exactly one command and then receive exactly one reply —
or return at once when the send itself failed; no path sends twice, receives twice, or receives without having
sent (the model's `simple` operation: idle →(send m) sentSimple →(receive) returned). -/
theorem C10_gen_simple_calls :
    (Gen.C10.simpleCallPaths.map (·.1)) = ["Ping", "conf", "Open", "Symlink", "Delete", "Reset"] ∧
    Gen.C10.simpleCallPaths.all (fun m =>
      m.2.all (fun p => p == ["send"] || p == ["send", "recv"]) && m.2.contains ["send", "recv"]) = true := by
  constructor <;> decide +kernel

/-! non-vacuity -/
example : allOps.length = 22 := by decide
example : (reachable ⟨true, .execve false .runs⟩).length = 27 := by decide +kernel

end GoSandbox.Props.C10
