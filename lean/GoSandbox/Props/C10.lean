/-
C10 — The container RPC never desynchronises; program-caused failures keep it usable.
Theorems about the protocol LTS Model/Rpc.lean (hand model of both endpoints), tied to the
implementation by trace inclusion of the message logs recorded at both endpoints (verif hooks)
for every operation of random histories.  PROPERTY THEOREMS ONLY.
-/
import GoSandbox.Model.Rpc
namespace GoSandbox.Props.C10
open GoSandbox.Model.Rpc

/-- per call: every maximal interleaving (all orders of child exit, cancel, kill and reply) ends
with the host returned, the container back in `serve` and both channels empty -/
def callOk (fixed : Bool) (op : Op) : Bool :=
  let ts := terminals ⟨fixed, op⟩
  !ts.isEmpty && ts.all inSync

theorem every_call_in_sync : allOps.all (callOk true) = true := by decide +kernel

/-- states after a history of API calls: each call starts where the previous one ended -/
inductive After : List Op → St → Prop
  | nil : After [] St.init
  | snoc {ops : List Op} {s t : St} {op : Op} : After ops s → op ∈ allOps →
      t ∈ terminals ⟨true, op⟩ → After (ops ++ [op]) t

/-- **C10_in_sync**: after any finite sequence of environment operations — every Execve
independently failing before fork, before sync, at the callback, after the ack, or running, under
every interleaving of exit, cancel, kill and reply — host and container agree that no command is
in progress and nothing is in flight: no reply can be consumed by a later call, no command can be
interpreted in the wrong state. -/
theorem C10_in_sync : ∀ (ops : List Op) (s : St), After ops s → ops ≠ [] → inSync s = true := by
  intro ops s h
  cases h with
  | nil => intro h; exact absurd rfl h
  | snoc _ hop ht =>
    intro _
    have hall := List.all_eq_true.mp every_call_in_sync _ hop
    simp only [callOk, Bool.and_eq_true] at hall
    exact List.all_eq_true.mp hall.2 _ ht

/-- **one answer, its own**: every call returns exactly once, having consumed every reply
produced for it (nothing is left in the container→host channel). -/
theorem C10_one_answer (ops : List Op) (s : St) (h : After ops s) (hne : ops ≠ []) :
    (∃ b, s.h = .returned b) ∧ s.c2h = [] := by
  have := C10_in_sync ops s h hne
  simp only [inSync, Bool.and_eq_true, List.isEmpty_iff] at this
  refine ⟨?_, this.2⟩
  cases hs : s.h <;> simp [hs] at this ⊢

/-- **program-caused failures keep the environment usable**: whatever happened before, a Ping
afterwards is answered (every terminal of a Ping from an in-sync state returns ok). -/
theorem C10_usable_after_failures :
    (terminals ⟨true, .simple .ping false⟩).all (fun s => s.h == .returned true && inSync s) = true := by
  decide +kernel

/-- the pinned tree's container (which did not consume the kill after an exec failure following
the ack) desynchronises: the witness that forced the `fix:`. -/
theorem C10_failAfterAck_witness :
    callOk false (.execve false .failAfterAck) = false ∧ callOk true (.execve false .failAfterAck) = true := by
  constructor <;> decide +kernel

/-- **transport loss is prompt**: once the container is gone, a waiting host call returns an
error in one step (every wait has the `done` alternative); no reachable state with a dead
container leaves the host blocked. -/
theorem C10_transport_loss_prompt :
    allOps.all (fun op => (reachable ⟨false, op⟩).all (fun s =>
      !(s.c == .dead && s.c2h.isEmpty) || (match s.h with | .returned _ | .idle => true | _ => !(steps ⟨false, op⟩ s).isEmpty))) = true := by
  decide +kernel

/-! non-vacuity -/
example : allOps.length = 22 := by decide
example : (reachable ⟨true, .execve false .runs⟩).length = 27 := by decide +kernel

end GoSandbox.Props.C10
