/-
C11 — Cancel/Destroy at any moment end the run promptly with a truthful verdict.
ptrace runner: exhaustive exploration of the cancellation race (Model/Cancel.lean) + the
regenerated trace loop; container: the protocol LTS of C10 with cancellation enabled at every
host location.  Real-time bounds are observed by the harness, not proved (partial).
PROPERTY THEOREMS ONLY.
-/
import GoSandbox.Gen.C17
import GoSandbox.Model.Cancel
import GoSandbox.Model.Rpc
namespace GoSandbox.Props.C11
open GoSandbox.Model.Cancel GoSandbox.Kernel

/-- **never lost** (ptrace runner): under every interleaving of the child's launch (clone, setsid,
self-stop, run, exit), the cancellation and the canceller goroutine: every run ends with a verdict;
once the canceller has issued its kill the program is never running again (so it cannot complete
later); and a Normal verdict is only given to a program that had ended on its own before that kill
(its genuine verdict) — otherwise the verdict is Time Limit Exceeded. -/
theorem C11_never_lost :
    (reachable true).all (fun s => !(s.cancellerDone && s.child == .running)) = true ∧
    (terminals true).all (fun s => s.verdict != .none && (s.verdict == .tle || !s.exitAfterKill)) = true ∧
    !(terminals true).isEmpty = true := by
  refine ⟨?_, ?_, ?_⟩ <;> decide +kernel

/-- without the repeated kill (the pinned tree) the cancellation can be lost: the canceller's
kill(-pgid) runs while the child has not yet called setsid (ESRCH), the program keeps running and
completes after the kill. -/
theorem C11_lost_witness :
    (reachable false).any (fun s => s.cancellerDone && s.child == .running) = true ∧
    (terminals false).any (fun s => s.exitAfterKill && s.verdict == .normal) = true := by
  constructor <;> decide +kernel

/-- **a genuine verdict is kept**: a program that ended on its own before any cancellation is
reported with its own verdict, not TLE. -/
theorem C11_genuine_verdict :
    (terminals true).all (fun s => s.cancelBeforeExit || s.verdict == .normal) = true := by decide +kernel

def mainPid : Nat := 4242

/-- **tie to the code**: in the regenerated trace loop, once the context is cancelled every
iteration issues the group kill before the event is handled (and none when not cancelled), for the
first stop of the child, a later stop and an exit event. -/
theorem C11_tie_rekill :
    [(WaitStatus.ofStop 19 0, false), (WaitStatus.ofStop 5 4, false), (WaitStatus.ofStop 11 0, true), (WaitStatus.ofExit 0, true)].all
      (fun (ws, ex) =>
        (match iteration mainPid mainPid ws ex true with
         | .ok l => l == ["wait4", s!"killAll {mainPid}", "handle"] | .error _ => false) &&
        (match iteration mainPid mainPid ws ex false with
         | .ok l => l == ["wait4", "handle"] | .error _ => false)) = true := by decide +kernel

/-- killAll signals the whole process group with SIGKILL, in both runners. -/
theorem C11_killAll_group :
    [Gen.C11.killAllPtrace, Gen.C11.killAllUnshare].all (fun f =>
      match killTargets f 4242 with | .ok l => l == [(-4242, Int.ofNat Gen.Consts.unix_SIGKILL)] | .error _ => false) = true := by
  decide +kernel

/-- **the clean-up after a (cancelled) run waits for the run's own processes only** (regenerated fact): every
`wait4` of the ptrace tracer and of the namespace runner selects the program's pid or its process group — a
wait for "any child" would block until unrelated children of the host process (another run, a container
environment) end, and the run would not return within bounded time. -/
theorem C11_gen_cleanup_waits_own_group :
    (Gen.C17.waitSites.filter (fun s => s.1 == "ptracer/tracer_track_linux.go" || s.1 == "runner/unshare/run_linux.go")).all
      (fun s => s.2.2 == "pgid" || s.2.2 == "-pgid") = true ∧
    (Gen.C17.waitSites.filter (fun s => s.2.1 == "collectZombie")).map (·.2.2) = ["-pgid", "-pgid"] := by
  constructor <;> decide +kernel

/-- **container**: cancellation is enabled at every host location of an Execve in the protocol
model; every maximal run still ends with the host returned and the environment in sync, in a
bounded number of steps (no run exhausts the exploration depth). -/
theorem C11_container_cancel_terminates :
    [true, false].all (fun sa => [Model.Rpc.Outcome.runs, .callbackFails, .failAfterAck].all (fun o =>
      (Model.Rpc.runs ⟨true, .execve sa o⟩ 30 Model.Rpc.St.init).all (fun r =>
        r.1.length < 30 && Model.Rpc.inSync r.2 && (Model.Rpc.steps ⟨true, .execve sa o⟩ r.2).isEmpty))) = true := by
  decide +kernel

/-! non-vacuity -/
example : (reachable true).length ≥ 10 := by decide +kernel
example : (terminals true).any (fun s => s.cancelBeforeExit) = true ∧ (terminals true).any (fun s => !s.cancelBeforeExit) = true := by
  constructor <;> decide +kernel

end GoSandbox.Props.C11
