/-
C06 — The program's descriptor table is exactly the caller's list, nothing more.
The subject is the *regenerated* `forkAndExecInChild` (Gen.ForkChild) run by the Go-lite
interpreter on an abstract descriptor table (Model/FdShuffleRun.lean).
`C06_small_scope` is a kernel-evaluated statement over an explicit family of layouts (it is a
bounded statement, labelled as such); the driver evaluates the same predicate exhaustively over
all lists of length ≤ 3 (quick) / ≤ 4 (thorough) on every run, and the harness launches real
processes.  An unbounded induction over the list is NOT proved here (see DESIGN.md, C06 partial).
PROPERTY THEOREMS ONLY.
-/
import GoSandbox.Model.FdShuffleRun
namespace GoSandbox.Props.C06
open GoSandbox.Model.FdShuffleRun

def M : Int := marker

/-- (files, p0, p1, exec, open descriptors, vfork) — order, repeats, gaps, overlaps with 0..n-1,
with the sync pipe and with the exec descriptor, the close marker, sources above the list length,
the exec descriptor in the slot right above everything (the former clobber slot). -/
def layouts : List (List Int × Nat × Nat × Nat × List Nat × Bool) := [
  ([], 3, 4, 0, [0, 1, 2, 3, 4], true),
  ([], 3, 0, 1, [0, 1, 3], true),                         -- former witness: pipe 0, exec 1
  ([], 3, 0, 1, [0, 1, 3], false),
  ([0], 3, 2, 1, [0, 1, 2, 3], true),                     -- former witness of the vfork write-back
  ([0, 1, 2], 3, 4, 0, [0, 1, 2, 3, 4], true),            -- identity
  ([2, 1, 0], 3, 4, 0, [0, 1, 2, 3, 4], false),           -- reversal
  ([1, 0], 5, 6, 0, [0, 1, 5, 6], true),                  -- swap
  ([5, 5, 5], 3, 4, 0, [3, 4, 5], true),                  -- repeats of a high source
  ([0, 0, 0], 6, 3, 2, [0, 2, 3, 6], true),               -- repeats of a low source, exec inside 0..n-1
  ([M, 0, M], 4, 5, 0, [0, 4, 5], false),                 -- close markers
  ([5, 1, 0], 100, 101, 0, [0, 1, 2, 5, 100, 101], false),
  ([40, 41, 42], 3, 4, 43, [0, 1, 2, 3, 4, 40, 41, 42, 43], true),   -- former witness: exec = max+1 above the pipe
  ([40, 41, 42], 3, 4, 43, [0, 1, 2, 3, 4, 40, 41, 42, 43], false),
  ([3, 4], 0, 1, 2, [0, 1, 2, 3, 4], true),               -- pipe at 0/1 (inside the target range), exec at 2
  ([1, 1], 0, 2, 3, [0, 1, 2, 3], false),
  ([2, 0, 1], 4, 1, 5, [0, 1, 2, 4, 5], true),            -- the pipe is itself a listed number
  ([4, M, 4, 0], 1, 2, 3, [0, 1, 2, 3, 4], true),
  ([0, 4, M], 6, 7, 1, [0, 1, 4, 6, 7], true),
  ([7, 6, 5, 4], 0, 1, 2, [0, 1, 2, 4, 5, 6, 7], false),
  ([1, 2, 3, 0], 8, 4, 5, [0, 1, 2, 3, 4, 5, 8], true)]

/-- **C06 (small scope, kernel-evaluated on the regenerated child)**: on every layout of the
family the descriptor table at exec is exactly `i ↦ file(Files[i])` with close-on-exec cleared and
nothing else open, the descriptor handed to `execveat` is the caller's file, the child did not
fail, and under vfork the caller's Runner is unchanged.  Hypotheses as in the driver: every
descriptor of the launcher is close-on-exec; pipe ends, exec descriptor pairwise distinct. -/
theorem C06_small_scope :
    layouts.all (fun l => okLayout l.1 l.2.1 l.2.2.1 l.2.2.2.1 l.2.2.2.2.1 l.2.2.2.2.2) = true := by
  decide +kernel

/-- the oracle itself, on a reading example: `[5, marker, 0]` means fd0 = file of 5, fd1 closed, fd2 = file of 0 -/
example : expectTable [5, M, 0] = [(0, 1005), (2, 1000)] := by decide +kernel
example : layouts.length = 20 := by decide

end GoSandbox.Props.C06
