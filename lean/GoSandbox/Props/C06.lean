/-
C06 — The program's descriptor table is exactly the caller's list, nothing more.
The subject is the *regenerated* `forkAndExecInChild` (Gen.ForkChild) run by the Go-lite
interpreter on an abstract descriptor table (Model/FdShuffleRun.lean).
`C06_shuffle_exact` is the unbounded theorem: for descriptor lists of ANY length and any layout of
the launcher's table, the hand model of the shuffle (Model/FdShuffle.lean: prepareFds' scratch start,
the moves of the sync pipe and the exec descriptor, pass 1, pass 2) leaves exactly the caller's list
after exec.  `C06_small_scope` is the kernel-evaluated tie of that model to the *regenerated*
forkAndExecInChild on an explicit family of layouts (a bounded statement, labelled as such); the
driver compares hand model, regenerated code and the property oracle exhaustively over all lists of
length ≤ 3 (quick) / ≤ 4 (thorough) on every run, and the harness launches real processes.
PROPERTY THEOREMS ONLY.
-/
import GoSandbox.Model.FdShuffleRun
import GoSandbox.Lemmas.FdShuffle
namespace GoSandbox.Props.C06
open GoSandbox.Model.FdShuffleRun

def M : Int := marker

/-- (files, p0, p1, exec, open descriptors, vfork) — order, repeats, gaps, overlaps with 0..n-1,
with the sync pipe and with the exec descriptor, the close marker, sources above the list length,
the exec descriptor in the slot right above everything (the former clobber slot). -/
def layouts : List (List Int × Nat × Nat × Nat × List Nat × Bool) := [
  ([], 3, 4, 0, [0, 1, 2, 3, 4], true),
  ([], 3, 0, 1, [0, 1, 3], true),                         -- former witness: pipe 0, exec 1
  ([], 3, 0, 1, [0, 1, 3], false),
  ([0], 3, 2, 1, [0, 1, 2, 3], true),                     -- former witness of the vfork write-back
  ([0, 1, 2], 3, 4, 0, [0, 1, 2, 3, 4], true),            -- identity
  ([2, 1, 0], 3, 4, 0, [0, 1, 2, 3, 4], false),           -- reversal
  ([1, 0], 5, 6, 0, [0, 1, 5, 6], true),                  -- swap
  ([5, 5, 5], 3, 4, 0, [3, 4, 5], true),                  -- repeats of a high source
  ([0, 0, 0], 6, 3, 2, [0, 2, 3, 6], true),               -- repeats of a low source, exec inside 0..n-1
  ([M, 0, M], 4, 5, 0, [0, 4, 5], false),                 -- close markers
  ([5, 1, 0], 100, 101, 0, [0, 1, 2, 5, 100, 101], false),
  ([40, 41, 42], 3, 4, 43, [0, 1, 2, 3, 4, 40, 41, 42, 43], true),   -- former witness: exec = max+1 above the pipe
  ([40, 41, 42], 3, 4, 43, [0, 1, 2, 3, 4, 40, 41, 42, 43], false),
  ([3, 4], 0, 1, 2, [0, 1, 2, 3, 4], true),               -- pipe at 0/1 (inside the target range), exec at 2
  ([1, 1], 0, 2, 3, [0, 1, 2, 3], false),
  ([2, 0, 1], 4, 1, 5, [0, 1, 2, 4, 5], true),            -- the pipe is itself a listed number
  ([4, M, 4, 0], 1, 2, 3, [0, 1, 2, 3, 4], true),
  ([0, 4, M], 6, 7, 1, [0, 1, 4, 6, 7], true),
  ([7, 6, 5, 4], 0, 1, 2, [0, 1, 2, 4, 5, 6, 7], false),
  ([1, 2, 3, 0], 8, 4, 5, [0, 1, 2, 3, 4, 5, 8], true)]

/-- **C06 (small scope, kernel-evaluated on the regenerated child)**: on every layout of the
family the descriptor table at exec is exactly `i ↦ file(Files[i])` with close-on-exec cleared and
nothing else open, the descriptor handed to `execveat` is the caller's file, the child did not
fail, and under vfork the caller's Runner is unchanged.  Hypotheses as in the driver: every
descriptor of the launcher is close-on-exec; pipe ends, exec descriptor pairwise distinct. -/
theorem C06_small_scope :
    layouts.all (fun l => okLayout l.1 l.2.1 l.2.2.1 l.2.2.2.1 l.2.2.2.2.1 l.2.2.2.2.2) = true := by
  decide +kernel

/-- **tie of the hand model**: on every layout of the family the regenerated child and the hand
model of the shuffle (the subject of `C06_shuffle_exact`) leave the same table and hand the same
file to `execveat` -/
theorem C06_hand_model_tie :
    layouts.all (fun l => handAgrees l.1 l.2.1 l.2.2.1 l.2.2.2.1 l.2.2.2.2.1 l.2.2.2.2.2) = true := by
  decide +kernel

/-- (files, p0, p1, exec, open descriptors, vfork, inheritable descriptors of the launcher): the
launcher holds descriptors that are NOT close-on-exec at numbers inside `0..n-1` — at a slot marked
"close", at a listed slot, and both — as a process does whose own stdio is inheritable. -/
def layoutsInh : List (List Int × Nat × Nat × Nat × List Nat × Bool × List Nat) := [
  ([M, 4, 4], 5, 6, 0, [0, 1, 2, 4, 5, 6], true, [0]),            -- marker on the launcher's inheritable stdin
  ([M, M, M], 3, 4, 0, [0, 1, 2, 3, 4], false, [0, 1, 2]),        -- every slot marked, all three inheritable
  ([5, M, 0], 6, 7, 8, [0, 1, 2, 5, 6, 7, 8], true, [0, 1, 2]),   -- marker between listed slots, exec above
  ([1, 0, M, M], 7, 8, 0, [0, 1, 2, 3, 7, 8], false, [2, 3]),     -- swap below two marked inheritable slots
  ([2, M], 0, 1, 3, [0, 1, 2, 3], true, [1]),                     -- the marked slot is the pipe's own number, inheritable
  ([M], 3, 4, 0, [0, 3, 4], true, [0])]

/-- **C06 (small scope) with a launcher that holds inheritable descriptors inside `0..n-1`**: the
table at exec is still exactly the caller's list — a slot marked "close" is closed whatever the
launcher had there (kernel-evaluated on the regenerated child) -/
theorem C06_small_scope_inheritable :
    layoutsInh.all (fun l => okLayout l.1 l.2.1 l.2.2.1 l.2.2.2.1 l.2.2.2.2.1 l.2.2.2.2.2.1 l.2.2.2.2.2.2) = true := by
  decide +kernel

/-- the hand model agrees with the regenerated child on those layouts too -/
theorem C06_hand_model_tie_inheritable :
    layoutsInh.all (fun l => handAgrees l.1 l.2.1 l.2.2.1 l.2.2.2.1 l.2.2.2.2.1 l.2.2.2.2.2.1 l.2.2.2.2.2.2) = true := by
  decide +kernel

/-- the oracle itself, on a reading example: `[5, marker, 0]` means fd0 = file of 5, fd1 closed, fd2 = file of 0 -/
example : expectTable [5, M, 0] = [(0, 1005), (2, 1000)] := by decide +kernel
example : layouts.length = 20 := by decide

/-! ### the unbounded theorem about the shuffle -/

open GoSandbox.Model.FdShuffle GoSandbox.Lemmas.FdShuffle in
/-- **C06 for every descriptor list** (hand model of the shuffle).  Whatever the launcher's
descriptor table `t` (close-on-exec at every number at or above the list length: Go opens everything
so; below the list length the launcher may hold inheritable descriptors, e.g. its own stdio), the list `files` (any length; any
order, repeats, gaps; `none` = close marker), the sync pipe and the optional exec descriptor
(distinct from each other; they may lie anywhere, also inside `0..n-1` or among the listed numbers):
after the shuffle and `execve`
* descriptor `k < n` is the file the caller listed at position `k` (closed for a marker),
* nothing else is open,
* the pipe and the exec descriptor still refer to their files, at numbers ≥ n (so pass 2 did not
  overwrite them) — `execveat` runs the caller's file and errors can still be reported. -/
theorem C06_shuffle_exact (t : Table) (files : List (Option Nat)) (pipe : Nat) (exec : Option Nat)
    (hcx : ∀ k e, t k = some e → files.length ≤ k → e.2 = true) (hne : exec ≠ some pipe) :
    (∀ (k f : Nat), files[k]? = some (some f) → atExec (shuffle t files pipe exec).t k = fileAt t f) ∧
    (∀ k : Nat, files[k]? = some none → atExec (shuffle t files pipe exec).t k = none) ∧
    (∀ k, files.length ≤ k → atExec (shuffle t files pipe exec).t k = none) ∧
    (fileAt (shuffle t files pipe exec).t (shuffle t files pipe exec).pipe = fileAt t pipe ∧ files.length ≤ (shuffle t files pipe exec).pipe) ∧
    (∀ e, exec = some e → ∃ e', (shuffle t files pipe exec).exec = some e' ∧
        fileAt (shuffle t files pipe exec).t e' = fileAt t e ∧ files.length ≤ e') := by
  obtain ⟨hlen, hsrc⟩ := scratchStart_spec files
  obtain ⟨p1, p2, p3, p4, p5, p6, p7⟩ := prelude_spec t pipe exec (scratchStart files) hne
  have hsrc' : ∀ f, some f ∈ files → f < (prelude t pipe exec (scratchStart files)).next := fun f hf => by
    have := hsrc f hf; omega
  obtain ⟨q1, q2, q3, q4, q5, q6⟩ := pass1_spec (prelude t pipe exec (scratchStart files)).pipe (prelude t pipe exec (scratchStart files)).exec
    files 0 (prelude t pipe exec (scratchStart files)).t (prelude t pipe exec (scratchStart files)).next hsrc' (by omega)
  have hlocs : ∀ (k f : Nat), (pass1 (prelude t pipe exec (scratchStart files)).pipe (prelude t pipe exec (scratchStart files)).exec 0 files
      (prelude t pipe exec (scratchStart files)).t (prelude t pipe exec (scratchStart files)).next).1[k]? = some (some f) → 0 + k ≤ f := by
    intro k f hk
    have hk1 : k < files.length := by
      rw [← q1]; exact (List.getElem?_eq_some_iff.mp hk).1
    cases hf : files[k]? with
    | none => exact absurd hf (by simp [List.getElem?_eq_none_iff]; omega)
    | some v =>
      cases v with
      | none => rw [q3 k hf] at hk; cases hk
      | some f0 =>
        obtain ⟨g, g1, g2, _⟩ := q2 k f0 hf
        rw [g1] at hk
        have : g = f := by cases hk; rfl
        omega
  obtain ⟨r1, r2, r3⟩ := pass2_spec _ 0 (pass1 (prelude t pipe exec (scratchStart files)).pipe (prelude t pipe exec (scratchStart files)).exec 0 files
      (prelude t pipe exec (scratchStart files)).t (prelude t pipe exec (scratchStart files)).next).2.1 hlocs
  have hat : ∀ (T : Table) (k : Nat) (v : Option (Nat × Bool)), T k = v.map (fun e => (e.1, false)) → atExec T k = v.map (·.1) := by
    intro T k v h
    unfold atExec
    rw [h]
    cases v <;> rfl
  -- close-on-exec of everything at or above the list length
  have hhigh : ∀ k, files.length ≤ k → atExec (shuffle t files pipe exec).t k = none := by
    intro k hk
    have h1 := r3 k (Or.inr (by rw [q1]; omega))
    simp only [Model.FdShuffle.shuffle, atExec]
    rw [h1]
    rcases q6 k with h2 | ⟨e, h2 | h2⟩
    · rw [h2]
      rcases p7 k with h3 | ⟨x, h3 | h3⟩
      · rw [h3]
        cases htk : t k with
        | none => rfl
        | some v =>
          have := hcx k v htk hk
          obtain ⟨a, b⟩ := v
          simp only at this
          subst this; rfl
      · rw [h3]
      · rw [h3]
    · rw [h2]
    · rw [h2]
  have hpipe : (Model.FdShuffle.shuffle t files pipe exec).pipe = (prelude t pipe exec (scratchStart files)).pipe := rfl
  refine ⟨?_, ?_, hhigh, ⟨?_, by rw [hpipe]; omega⟩, ?_⟩
  · intro k f hk
    obtain ⟨g, g1, _, g3⟩ := q2 k f hk
    have h1 := r1 k g g1
    simp only [Nat.zero_add] at h1
    have h2 := hat (Model.FdShuffle.shuffle t files pipe exec).t k _ h1
    rw [h2]
    have : f < scratchStart files := hsrc f (List.mem_of_getElem? hk)
    have h3 : fileAt t f = fileAt (prelude t pipe exec (scratchStart files)).t f := by rw [fileAt, fileAt, p6 f this]
    rw [h3, ← g3]; rfl
  · intro k hk
    have h1 := r2 k (q3 k hk)
    simp only [Nat.zero_add] at h1
    simp only [Model.FdShuffle.shuffle, atExec]
    rw [h1]
  · simp only [Model.FdShuffle.shuffle]
    rw [fileAt, r3 _ (Or.inr (by rw [q1]; omega)), q5 _ (Or.inl rfl)]
    exact p3
  · intro e he
    obtain ⟨e', e1, e2, _, e4⟩ := p5 e he
    refine ⟨e', e1, ?_, by omega⟩
    simp only [Model.FdShuffle.shuffle]
    rw [fileAt, r3 _ (Or.inr (by rw [q1]; omega)), q5 _ (Or.inr e1)]
    exact e4

open GoSandbox.Model.FdShuffle in
/-- non-vacuity: reversal with the pipe inside the target range and an exec descriptor right above -/
example :
    let t : Table := fun k => if k < 6 then some (1000 + k, true) else none
    let o := shuffle t [some 2, some 1, some 0, none, some 2] 1 (some 5)
    ((List.range 8).map (atExec o.t) = [some 1002, some 1001, some 1000, none, some 1002, none, none, none]) ∧
    fileAt o.t o.pipe = some 1001 ∧ (o.exec.bind (fileAt o.t)) = some 1005 := by decide

end GoSandbox.Props.C06
