import GoSandbox.Model.FileSet
import GoSandbox.Spec.Covers
namespace GoSandbox.Lemmas.FileSet
open GoSandbox.Model.FileSet GoSandbox.Spec

theorem dirname_length_le (n : Str) : (dirname n).length ≤ n.length - 1 := by
  induction n with
  | nil => simp [dirname]
  | cons c cs ih =>
    simp only [dirname]
    split
    · rename_i h
      have : cs ≠ [] := by intro e; subst e; simp at h
      have : 0 < cs.length := List.length_pos_iff.mpr this
      simp only [List.length_cons]; omega
    · simp

/-- if `n` contains a slash, `n = dirname n ++ '/' :: r` with no slash in `r`. -/
theorem dirname_split (n : Str) (h : '/' ∈ n) :
    ∃ r, n = dirname n ++ '/' :: r ∧ '/' ∉ r := by
  induction n with
  | nil => simp at h
  | cons c cs ih =>
    simp only [dirname]
    by_cases hs : '/' ∈ cs
    · simp only [hs, if_true]
      obtain ⟨r, hr, hn⟩ := ih hs
      exact ⟨r, by rw [List.cons_append, ← hr], hn⟩
    · simp only [hs, if_false]
      have : c = '/' := by
        rcases List.mem_cons.mp h with h | h
        · exact h.symm
        · exact absurd h hs
      subst this
      exact ⟨cs, rfl, hs⟩

theorem dirname_noslash (n : Str) (h : '/' ∉ n) : dirname n = [] := by
  cases n with
  | nil => rfl
  | cons c cs =>
    simp only [dirname]
    have : '/' ∉ cs := fun h' => h (List.mem_cons_of_mem _ h')
    simp [this]

/-- Loop invariant: `name` is the `level`-th `dirname` of `p`. -/
def Inv (p : Str) (level : Nat) (name : Str) : Prop :=
  (level = 0 ∧ name = p) ∨
  (1 ≤ level ∧ ∃ rest, p = name ++ '/' :: rest ∧ (level = 1 → '/' ∉ rest))

theorem inv_step (p : Str) (hp : AbsOrEmpty p) (level : Nat) (name : Str)
    (hne : name ≠ []) (h : Inv p level name) : Inv p (level + 1) (dirname name) := by
  -- under AbsOrEmpty every non-empty name of the walk starts with '/'
  have hslash : '/' ∈ name := by
    rcases h with ⟨_, rfl⟩ | ⟨_, rest, hrest, _⟩
    · rcases hp with rfl | ⟨r, rfl⟩
      · exact absurd rfl hne
      · simp
    · rcases hp with rfl | ⟨r, hr⟩
      · cases name <;> simp at hrest
      · cases name with
        | nil => exact absurd rfl hne
        | cons c cs =>
          rw [hr] at hrest
          simp only [List.cons_append, List.cons.injEq] at hrest
          rw [← hrest.1]; simp
  obtain ⟨r, hr, hnr⟩ := dirname_split name hslash
  right
  refine ⟨by omega, ?_⟩
  rcases h with ⟨h0, rfl⟩ | ⟨h1, rest, hrest, _⟩
  · exact ⟨r, hr, fun _ => hnr⟩
  · refine ⟨r ++ '/' :: rest, ?_, fun h => by omega⟩
    rw [hrest]; conv => lhs; rw [hr]
    simp

theorem loop_sound (S : List Str) (p : Str) (hp : AbsOrEmpty p) :
    ∀ (fuel level : Nat) (name : Str), name.length ≤ fuel → Inv p level name →
      (loop S fuel level name = none → ∃ e ∈ S, covers e p) ∧
      (∀ l, loop S fuel level name = some l → Inv p l []) := by
  intro fuel
  induction fuel with
  | zero =>
    intro level name hl hinv
    have : name = [] := List.length_eq_zero_iff.mp (by omega)
    subst this
    simp [loop]; exact hinv
  | succ fuel ih =>
    intro level name hl hinv
    unfold loop
    by_cases hne : name = []
    · subst hne; simp; exact hinv
    · simp only [hne, if_false]
      by_cases h1 : level = 1 ∧ (name ++ ['/', '*']) ∈ S
      · simp only [h1, and_self, if_true]
        refine ⟨fun _ => ⟨_, h1.2, ?_⟩, by simp⟩
        rcases hinv with ⟨h0, _⟩ | ⟨_, rest, hrest, hno⟩
        · omega
        · right; right; exact ⟨name, rest, rfl, by simp [hrest], hno h1.1⟩
      · simp only [h1, if_false]
        by_cases h2 : (name ++ ['/']) ∈ S
        · simp only [h2, if_true]
          refine ⟨fun _ => ⟨_, h2, ?_⟩, by simp⟩
          right; left
          refine ⟨name, rfl, ?_⟩
          rcases hinv with ⟨_, rfl⟩ | ⟨_, rest, hrest, _⟩
          · left; rfl
          · right; exact ⟨rest, by simp [hrest]⟩
        · simp only [h2, if_false]
          have hlen : (dirname name).length ≤ fuel := by
            have := dirname_length_le name
            have : 0 < name.length := List.length_pos_iff.mpr hne
            omega
          exact ih (level + 1) (dirname name) hlen (inv_step p hp level name hne hinv)

end GoSandbox.Lemmas.FileSet
