import GoSandbox.Model.Gob
namespace GoSandbox.Lemmas.Gob
open GoSandbox.Model.Gob

/-- every frame in flight decodes, one after the other, starting from what the decoder knows -/
def deliverable (c : Cfg) : List Nat → List Frame → Bool
  | _, [] => true
  | known, f :: r => (decode c known f).2.isSome && deliverable c (decode c known f).1 r

/-- what the decoder knows after it has consumed everything in flight -/
def finalKnown (c : Cfg) : List Nat → List Frame → List Nat
  | known, [] => known
  | known, f :: r => finalKnown c (decode c known f).1 r

def pending (q : List Frame) : List (Kind × List Nat) := q.filterMap valOf

structure Inv (c : Cfg) (s : St) : Prop where
  deliv : deliverable c s.known s.q = true
  covers : ∀ d, d ∈ s.sent → d ∈ finalKnown c s.known s.q

theorem decode_descs (c : Cfg) (ds : List Nat) (known : List Nat) (rest : Frame) :
    decode c known (ds.map Item.desc ++ rest) = decode c (ds.reverse ++ known) rest := by
  induction ds generalizing known with
  | nil => simp
  | cons d ds ih => simp [decode, ih]

theorem decode_some_valOf (c : Cfg) (known : List Nat) (f : Frame) (k' : List Nat) (v : Kind × List Nat)
    (h : decode c known f = (k', some v)) : valOf f = some v := by
  induction f generalizing known with
  | nil => simp [decode] at h
  | cons it r ih =>
    cases it with
    | desc d => simp only [decode] at h; simpa [valOf] using ih _ h
    | val k p =>
      simp only [decode] at h
      split at h
      · simp only [Prod.mk.injEq, Option.some.injEq] at h; simp [valOf, h.2]
      · simp at h

/-- a frame made by the encoder decodes to its value for a decoder that knows what the encoder had
emitted before, and the decoder then knows what the encoder has emitted now -/
theorem decode_encode (c : Cfg) (sent known : List Nat) (k : Kind) (p : List Nat)
    (hsub : ∀ d, d ∈ sent → d ∈ known) :
    (decode c known (encode c sent k p).2).2 = some (k, p) ∧
    (∀ d, d ∈ (encode c sent k p).1 → d ∈ (decode c known (encode c sent k p).2).1) ∧
    (∀ d, d ∈ known → d ∈ (decode c known (encode c sent k p).2).1) := by
  simp only [encode, decode_descs, decode]
  have hall : (c.descs k).all (fun d => ((newDescs c sent k).reverse ++ known).contains d) = true := by
    rw [List.all_eq_true]
    intro d hd
    rw [List.contains_iff_mem, List.mem_append, List.mem_reverse]
    by_cases hs : d ∈ sent
    · exact Or.inr (hsub d hs)
    · left
      simp only [newDescs, List.mem_filter]
      exact ⟨hd, by simpa using hs⟩
  simp only [hall, if_true, true_and]
  refine ⟨?_, ?_⟩
  · intro d hd
    rw [List.mem_append] at hd
    rw [List.mem_append, List.mem_reverse]
    cases hd with
    | inl h => exact Or.inr (hsub d h)
    | inr h => exact Or.inl h
  · intro d hd
    rw [List.mem_append]; exact Or.inr hd

theorem deliverable_append (c : Cfg) (known : List Nat) (q : List Frame) (f : Frame) :
    deliverable c known (q ++ [f]) = (deliverable c known q && (decode c (finalKnown c known q) f).2.isSome) := by
  induction q generalizing known with
  | nil => simp [deliverable, finalKnown]
  | cons g r ih => simp [deliverable, finalKnown, ih, Bool.and_assoc]

theorem finalKnown_append (c : Cfg) (known : List Nat) (q : List Frame) (f : Frame) :
    finalKnown c known (q ++ [f]) = (decode c (finalKnown c known q) f).1 := by
  induction q generalizing known with
  | nil => simp [finalKnown]
  | cons g r ih => simp [finalKnown, ih]

theorem init_inv (c : Cfg) : Inv c init := ⟨by simp [init, deliverable], by intro d hd; simp [init] at hd⟩

theorem valOf_encoded (ds : List Nat) (k : Kind) (p : List Nat) :
    valOf (ds.map Item.desc ++ [Item.val k p]) = some (k, p) := by
  induction ds with
  | nil => simp [valOf]
  | cons d ds ih => simpa [valOf] using ih

/-- one operation keeps the invariant (a rejected send must not have carried a descriptor), never
yields a decode error, and what has been received plus what is in flight is what was accepted -/
theorem step_inv (c : Cfg) (s : St) (op : Op) (h : Inv c s) (hfit : firstUsesFit c s [op] = true) :
    Inv c (step c s op).1 ∧ (step c s op).2 ≠ .decodeError ∧
    gots [(step c s op).2] ++ pending (step c s op).1.q = pending s.q ++ accepted c s [op] := by
  cases op with
  | send k p =>
    have hde := decode_encode c s.sent (finalKnown c s.known s.q) k p h.covers
    simp only [encode] at hde
    have hfit' : frameSize c ((newDescs c s.sent k).map Item.desc ++ [Item.val k p]) ≤ c.cap ∨ newDescs c s.sent k = [] := by
      have hf2 := hfit
      simp only [firstUsesFit, encode, Bool.and_true, Bool.or_eq_true, List.isEmpty_iff] at hf2
      cases hf2 with
      | inl h => exact Or.inl (of_decide_eq_true h)
      | inr h => exact Or.inr h
    by_cases hsz : frameSize c ((newDescs c s.sent k).map Item.desc ++ [Item.val k p]) > c.cap
    · -- rejected: no descriptor was new, the encoder is where it was
      have hnd : newDescs c s.sent k = [] := by
        cases hfit' with
        | inl h1 => omega
        | inr h2 => exact h2
      have hst : step c s (.send k p) = ({ s with sent := s.sent ++ newDescs c s.sent k }, .rejected) := by
        simp [step, encode, hsz]
      rw [hst]
      refine ⟨⟨h.deliv, ?_⟩, by simp, ?_⟩
      · intro d hd; simp only [hnd, List.append_nil] at hd; exact h.covers d hd
      · simp [gots, accepted, hst]
    · have hst : step c s (.send k p) = ({ s with sent := s.sent ++ newDescs c s.sent k, q := s.q ++ [(newDescs c s.sent k).map Item.desc ++ [Item.val k p]] }, .sent) := by
        simp [step, encode, hsz]
      rw [hst]
      refine ⟨⟨?_, ?_⟩, by simp, ?_⟩
      · simp only [deliverable_append, h.deliv, Bool.true_and]
        simp [hde.1]
      · intro d hd
        simp only [finalKnown_append]
        exact hde.2.1 d hd
      · simp [gots, accepted, hst, pending, List.filterMap_append, valOf_encoded]
  | recv =>
    cases hq : s.q with
    | nil =>
      have hst : step c s .recv = (s, .empty) := by simp [step, hq]
      rw [hst]
      exact ⟨h, by simp, by simp [gots, accepted, hst, hq]⟩
    | cons f rest =>
      have hd := h.deliv
      rw [hq] at hd
      simp only [deliverable, Bool.and_eq_true] at hd
      generalize hdec : decode c s.known f = r at hd
      obtain ⟨known', ov⟩ := r
      cases ov with
      | none => simp at hd
      | some v =>
        obtain ⟨k, p⟩ := v
        have hv := decode_some_valOf c s.known f known' (k, p) hdec
        have hst : step c s .recv = ({ s with q := rest, known := known' }, .got k p) := by simp [step, hq, hdec]
        rw [hst]
        refine ⟨⟨hd.2, ?_⟩, by simp, ?_⟩
        · intro d hdm
          have := h.covers d hdm
          rw [hq] at this
          simpa [finalKnown, hdec] using this
        · simp [gots, accepted, hst, pending, List.filterMap_cons, hv]

theorem firstUsesFit_cons (c : Cfg) (s : St) (op : Op) (rest : List Op) :
    firstUsesFit c s (op :: rest) = (firstUsesFit c s [op] && firstUsesFit c (step c s op).1 rest) := by
  cases op <;> simp [firstUsesFit]

theorem accepted_cons (c : Cfg) (s : St) (op : Op) (rest : List Op) :
    accepted c s (op :: rest) = accepted c s [op] ++ accepted c (step c s op).1 rest := by
  cases op with
  | recv => simp [accepted]
  | send k p =>
    simp only [accepted]
    split <;> simp_all

theorem gots_append (a b : List Out) : gots (a ++ b) = gots a ++ gots b := by
  induction a with
  | nil => rfl
  | cons o r ih => cases o <;> simp [gots, ih]

/-- over every history whose first uses fit: the invariant is kept, no receive ever fails to decode,
and received ++ in flight = accepted (same values, same order) -/
theorem run_inv (c : Cfg) (ops : List Op) : ∀ (s : St), Inv c s → firstUsesFit c s ops = true →
    Inv c (run c s ops).1 ∧ (∀ o ∈ (run c s ops).2, o ≠ .decodeError) ∧
    gots (run c s ops).2 ++ pending (run c s ops).1.q = pending s.q ++ accepted c s ops := by
  induction ops with
  | nil => intro s h _; exact ⟨h, by simp [run], by simp [run, gots, accepted]⟩
  | cons op rest ih =>
    intro s h hf
    rw [firstUsesFit_cons, Bool.and_eq_true] at hf
    obtain ⟨h1, h2, h3⟩ := step_inv c s op h hf.1
    obtain ⟨i1, i2, i3⟩ := ih (step c s op).1 h1 hf.2
    simp only [run]
    refine ⟨i1, ?_, ?_⟩
    · intro o ho
      simp only [List.mem_cons] at ho
      cases ho with
      | inl e => rw [e]; exact h2
      | inr m => exact i2 o m
    · rw [accepted_cons, ← List.append_assoc, ← h3]
      have : gots ((step c s op).2 :: (run c (step c s op).1 rest).2) = gots [(step c s op).2] ++ gots (run c (step c s op).1 rest).2 := by
        rw [← gots_append]; rfl
      rw [this, List.append_assoc, i3, List.append_assoc]

end GoSandbox.Lemmas.Gob
