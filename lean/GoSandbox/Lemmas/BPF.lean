import GoSandbox.Kernel.BPF
import GoSandbox.Spec.SeccompPolicy
namespace GoSandbox.Lemmas.BPF
open GoSandbox.Kernel.BPF GoSandbox.Spec.SeccompPolicy

/-- `a` and `b` are indistinguishable by comparisons against the constants in `K` -/
def Sim (K : List Nat) (a b : Nat) : Prop :=
  ∀ k ∈ K, (a = k ↔ b = k) ∧ (a > k ↔ b > k) ∧ (a ≥ k ↔ b ≥ k)

def SimD (K : List Nat) (d d' : Data) : Prop := Sim K d.nr d'.nr ∧ Sim K d.arch d'.arch

theorem sim_refl (K : List Nat) (a : Nat) : Sim K a a := fun _ _ => ⟨Iff.rfl, Iff.rfl, Iff.rfl⟩

theorem wf_drop (l : List Insn) (n : Nat) (h : wf l = true) : wf (l.drop n) = true := by
  unfold wf at *
  rw [List.all_eq_true] at *
  intro x hx
  exact h x (List.mem_of_mem_drop hx)

theorem consts_drop (l : List Insn) (n : Nat) : ∀ k ∈ consts (l.drop n), k ∈ consts l := by
  intro k hk
  unfold consts at *
  rw [List.mem_map] at *
  obtain ⟨i, hi, rfl⟩ := hk
  rw [List.mem_filter] at hi
  exact ⟨i, List.mem_filter.mpr ⟨List.mem_of_mem_drop hi.1, hi.2⟩, rfl⟩

theorem run_sim (K : List Nat) : ∀ (fuel : Nat) (prog : List Insn) (a a' : Nat) (d d' : Data),
    wf prog = true → (∀ k ∈ consts prog, k ∈ K) → Sim K a a' → SimD K d d' →
    run fuel prog a d = run fuel prog a' d' := by
  intro fuel
  induction fuel with
  | zero => intros; rfl
  | succ fuel ih =>
    intro prog a a' d d' hwf hc hs hd
    cases prog with
    | nil => rfl
    | cons i rest =>
      have hwr : wf rest = true := by
        unfold wf at *; simp only [List.all_cons, Bool.and_eq_true] at hwf; exact hwf.2
      have hwi : wfInsn i = true := by
        unfold wf at hwf; simp only [List.all_cons, Bool.and_eq_true] at hwf; exact hwf.1
      have hcr : ∀ k ∈ consts rest, k ∈ K := by
        intro k hk; apply hc
        unfold consts at *
        rw [List.mem_map] at *
        obtain ⟨j, hj, rfl⟩ := hk
        rw [List.mem_filter] at hj
        exact ⟨j, List.mem_filter.mpr ⟨List.mem_cons_of_mem _ hj.1, hj.2⟩, rfl⟩
      have hik : (i.code = opJeq ∨ i.code = opJgt ∨ i.code = opJge) → i.k ∈ K := by
        intro h; apply hc
        unfold consts
        rw [List.mem_map]
        refine ⟨i, List.mem_filter.mpr ⟨List.mem_cons_self, ?_⟩, rfl⟩
        rcases h with h | h | h <;> simp [h]
      have hdrop : ∀ n, run fuel (rest.drop n) a d = run fuel (rest.drop n) a' d' :=
        fun n => ih _ a a' d d' (wf_drop rest n hwr) (fun k hk => hcr k (consts_drop rest n k hk)) hs hd
      simp only [run]
      by_cases h1 : i.code = opLdAbs
      · simp only [h1, if_true]
        have hk : i.k = 0 ∨ i.k = 4 := by
          simp only [wfInsn, h1, opLdAbs, opRet, opJa, opJeq, opJgt, opJge] at hwi
          simpa using hwi
        apply ih _ _ _ d d' hwr hcr _ hd
        rcases hk with hk | hk <;> simp [load, hk, hd.1, hd.2]
      · simp only [h1, if_false]
        by_cases h2 : i.code = opRet
        · simp [h2]
        · simp only [h2, if_false]
          by_cases h3 : i.code = opJa
          · simp only [h3, if_true]; exact hdrop _
          · simp only [h3, if_false]
            by_cases h4 : i.code = opJeq
            · simp only [h4, if_true]
              have := (hs i.k (hik (Or.inl h4))).1
              by_cases hak : a = i.k
              · rw [if_pos hak, if_pos (this.mp hak)]; exact hdrop _
              · have hak' : ¬ a' = i.k := fun h => hak (this.mpr h)
                rw [if_neg hak, if_neg hak']; exact hdrop _
            · simp only [h4, if_false]
              by_cases h5 : i.code = opJgt
              · simp only [h5, if_true]
                have := (hs i.k (hik (Or.inr (Or.inl h5)))).2.1
                by_cases hak : a > i.k
                · rw [if_pos hak, if_pos (this.mp hak)]; exact hdrop _
                · have hak' : ¬ a' > i.k := fun h => hak (this.mpr h)
                  rw [if_neg hak, if_neg hak']; exact hdrop _
              · simp only [h5, if_false]
                by_cases h6 : i.code = opJge
                · simp only [h6, if_true]
                  have := (hs i.k (hik (Or.inr (Or.inr h6)))).2.2
                  by_cases hak : a ≥ i.k
                  · rw [if_pos hak, if_pos (this.mp hak)]; exact hdrop _
                  · have hak' : ¬ a' ≥ i.k := fun h => hak (this.mpr h)
                    rw [if_neg hak, if_neg hak']; exact hdrop _
                · simp [h6]

/-! ### representatives -/

def maxl : List Nat → Nat
  | [] => 0
  | x :: xs => max x (maxl xs)

theorem le_maxl (l : List Nat) : ∀ x ∈ l, x ≤ maxl l := by
  induction l with
  | nil => intro x h; simp at h
  | cons y ys ih =>
    intro x h
    simp only [maxl]
    rcases List.mem_cons.mp h with h | h
    · subst h; exact Nat.le_max_left _ _
    · exact Nat.le_trans (ih x h) (Nat.le_max_right _ _)

theorem maxl_mem (l : List Nat) (h : l ≠ []) : maxl l ∈ l := by
  induction l with
  | nil => exact absurd rfl h
  | cons y ys ih =>
    simp only [maxl]
    by_cases hy : ys = []
    · subst hy; simp [maxl]
    · have := ih hy
      by_cases hm : y ≥ maxl ys
      · rw [Nat.max_eq_left hm]; exact List.mem_cons_self
      · rw [Nat.max_eq_right (by omega)]; exact List.mem_cons_of_mem _ this

/-- the representative of `v` among the cells cut by `K` -/
def rep (K : List Nat) (v : Nat) : Nat :=
  if v ∈ K then v
  else if K.filter (· < v) = [] then 0 else maxl (K.filter (· < v)) + 1

def reps (K : List Nat) : List Nat := 0 :: (K ++ K.map (· + 1))

theorem rep_mem (K : List Nat) (v : Nat) : rep K v ∈ reps K := by
  unfold rep reps
  by_cases h : v ∈ K
  · simp [h]
  · simp only [h, if_false]
    by_cases hb : K.filter (· < v) = []
    · simp [hb]
    · simp only [hb, if_false]
      have hm := maxl_mem _ hb
      have : maxl (K.filter (· < v)) ∈ K := (List.mem_filter.mp hm).1
      apply List.mem_cons_of_mem
      apply List.mem_append_right
      exact List.mem_map.mpr ⟨_, this, rfl⟩

theorem rep_sim (K : List Nat) (v : Nat) : Sim K v (rep K v) := by
  unfold rep
  by_cases h : v ∈ K
  · simp only [h, if_true]; exact sim_refl K v
  · simp only [h, if_false]
    by_cases hb : K.filter (· < v) = []
    · simp only [hb, if_true]
      intro k hk
      have hkv : ¬ k < v := by
        intro hlt
        have : k ∈ K.filter (· < v) := List.mem_filter.mpr ⟨hk, by simpa using hlt⟩
        rw [hb] at this; simp at this
      have hne : v ≠ k := fun e => h (e ▸ hk)
      refine ⟨?_, ?_, ?_⟩ <;> constructor <;> intro hh <;> omega
    · simp only [hb, if_false]
      have hm := maxl_mem _ hb
      have hmK : maxl (K.filter (· < v)) ∈ K := (List.mem_filter.mp hm).1
      have hmv : maxl (K.filter (· < v)) < v := by simpa using (List.mem_filter.mp hm).2
      intro k hk
      have hne : v ≠ k := fun e => h (e ▸ hk)
      by_cases hkv : k < v
      · have : k ≤ maxl (K.filter (· < v)) := le_maxl _ k (List.mem_filter.mpr ⟨hk, by simpa using hkv⟩)
        refine ⟨?_, ?_, ?_⟩ <;> constructor <;> intro hh <;> omega
      · refine ⟨?_, ?_, ?_⟩ <;> constructor <;> intro hh <;> omega

def dedup : List Nat → List Nat
  | [] => []
  | x :: xs => if x ∈ xs then dedup xs else x :: dedup xs

theorem mem_dedup (l : List Nat) (x : Nat) : x ∈ dedup l ↔ x ∈ l := by
  induction l with
  | nil => simp [dedup]
  | cons y ys ih =>
    simp only [dedup]
    by_cases h : y ∈ ys
    · simp only [h, if_true, ih, List.mem_cons]
      constructor
      · exact Or.inr
      · rintro (rfl | h') <;> assumption
    · simp only [h, if_false, List.mem_cons, ih]

theorem sim_mono (K K' : List Nat) (a b : Nat) (h : ∀ k ∈ K', k ∈ K) (hs : Sim K a b) : Sim K' a b :=
  fun k hk => hs k (h k hk)

theorem expected_sim (p : Policy) (K : List Nat) (d d' : Data) (hK : ∀ k ∈ specConsts p, k ∈ K)
    (hd : SimD K d d') : expected p d = expected p d' := by
  have ha : (d.arch = p.nativeArch ↔ d'.arch = p.nativeArch) := (hd.2 _ (hK _ (by simp [specConsts]))).1
  have hx : (d.nr ≥ p.x32Bit ↔ d'.nr ≥ p.x32Bit) := (hd.1 _ (hK _ (by simp [specConsts]))).2.2
  have hmem : ∀ l : List Nat, (∀ k ∈ l, k ∈ K) → (d.nr ∈ l ↔ d'.nr ∈ l) := by
    intro l hl
    constructor
    · intro h; have := (hd.1 _ (hl _ h)).1.mp rfl; rw [this]; exact h
    · intro h; have := (hd.1 _ (hl _ h)).1.mpr rfl; rw [this]; exact h
  have hal := hmem p.allow (fun k hk => hK k (by simp [specConsts, hk]))
  have htr := hmem p.trace (fun k hk => hK k (by simp [specConsts, hk]))
  unfold expected
  by_cases h1 : d.arch = p.nativeArch
  · have h1' := ha.mp h1
    simp only [h1, h1', ne_eq, not_true_eq_false, if_false]
    by_cases h2 : d.nr ≥ p.x32Bit
    · simp [h2, hx.mp h2]
    · have h2' : ¬ d'.nr ≥ p.x32Bit := fun h => h2 (hx.mpr h)
      simp only [h2, h2', if_false]
      by_cases h3 : d.nr ∈ p.allow
      · simp [h3, hal.mp h3]
      · have h3' : d'.nr ∉ p.allow := fun h => h3 (hal.mpr h)
        simp only [h3, h3', if_false]
        by_cases h4 : d.nr ∈ p.trace
        · simp [h4, htr.mp h4]
        · have h4' : d'.nr ∉ p.trace := fun h => h4 (htr.mpr h)
          simp [h4, h4']
  · have h1' : ¬ d'.arch = p.nativeArch := fun h => h1 (ha.mpr h)
    simp [h1, h1']

end GoSandbox.Lemmas.BPF
