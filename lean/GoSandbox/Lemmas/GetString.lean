import GoSandbox.Model.GetString
namespace GoSandbox.Lemmas.GetString
open GoSandbox.Model.GetString

theorem clen_le (b : List Nat) : clen b ≤ b.length := by
  induction b with
  | nil => simp [clen]
  | cons x xs ih => simp only [clen]; split <;> simp <;> omega

theorem take_clen (b : List Nat) : b.take (clen b) = b.takeWhile (· != 0) := by
  induction b with
  | nil => simp [clen]
  | cons x xs ih =>
    simp only [clen]
    by_cases h : x = 0
    · subst h; simp
    · simp [h, ih]

theorem takeWhile_append_zeros (l : List Nat) (k : Nat) :
    (l ++ List.replicate k 0).takeWhile (· != 0) = l.takeWhile (· != 0) := by
  induction l with
  | nil => cases k <;> simp [List.replicate_succ]
  | cons x xs ih =>
    simp only [List.cons_append, List.takeWhile_cons]
    by_cases h : x = 0
    · simp [h]
    · simp [h, ih]

theorem takeWhile_pad (l : List Nat) (n : Nat) :
    (pad l n).takeWhile (· != 0) = l.takeWhile (· != 0) := takeWhile_append_zeros l _

theorem pad_length (l : List Nat) (n : Nat) (h : l.length ≤ n) : (pad l n).length = n := by
  simp [pad]; omega

theorem bytes_append (m : Mem) (a t n : Nat) : m.bytes a t ++ m.bytes (a + t) n = m.bytes a (t + n) := by
  unfold Mem.bytes
  rw [List.range_add, List.map_append, List.map_map]
  congr 1
  apply List.map_congr_left
  intro i _
  simp [Nat.add_assoc]

/-- the bytes `vmReadStr` leaves at the front of the buffer are the tracee's bytes from `addr`. -/
theorem readLoop_acc (m : Mem) (addr : Nat) :
    ∀ (fuel total rem next : Nat) (acc : List Nat), acc = m.bytes addr total →
      ∃ t', total ≤ t' ∧ t' ≤ total + rem ∧ (readLoop m addr fuel total rem next acc).2 = m.bytes addr t' := by
  intro fuel
  induction fuel with
  | zero => intro total rem next acc h; exact ⟨total, Nat.le_refl _, by omega, by simp [readLoop, h]⟩
  | succ fuel ih =>
    intro total rem next acc h
    unfold readLoop
    by_cases hr : rem = 0
    · simp only [hr, if_true]; exact ⟨total, Nat.le_refl _, by omega, h⟩
    · simp only [hr, if_false]
      generalize hn : (if rem < next then rem else next) = nx
      have hnx : nx ≤ rem := by rw [← hn]; split <;> omega
      unfold vmRead
      by_cases hm : m.readable (addr + total) = true
      · simp only [hm, if_true]
        have hc : acc ++ m.bytes (addr + total) nx = m.bytes addr (total + nx) := by rw [h]; exact bytes_append m addr total nx
        by_cases hz : hasNull (m.bytes (addr + total) nx) = true
        · simp only [hz, if_true]
          exact ⟨total + nx, by omega, by omega, hc⟩
        · simp only [hz, if_false]
          obtain ⟨t', h1, h2, h3⟩ := ih (total + nx) (rem - nx) m.P _ hc
          exact ⟨t', by omega, by omega, h3⟩
      · simp only [hm, if_false]
        exact ⟨total, Nat.le_refl _, by omega, h⟩

theorem hasNull_bytes_iff (m : Mem) (a n : Nat) : hasNull (m.bytes a n) = true ↔ ∃ i, i < n ∧ m.byte (a + i) = 0 := by
  simp [hasNull, Mem.bytes]

theorem takeWhile_bytes (m : Mem) (a z t : Nat) (hz : z < t) (h0 : m.byte (a + z) = 0) (hnz : ∀ i, i < z → m.byte (a + i) ≠ 0) :
    (m.bytes a t).takeWhile (· != 0) = m.bytes a z := by
  have hsplit : m.bytes a t = m.bytes a z ++ m.bytes (a + z) (t - z) := by
    rw [bytes_append]; congr 1; omega
  rw [hsplit, List.takeWhile_append_of_pos]
  · have ht : t - z = (t - z - 1) + 1 := by omega
    rw [ht]
    simp only [Mem.bytes, List.range_succ_eq_map, List.map_cons, Nat.add_zero, List.takeWhile_cons, h0]
    simp
  · intro x hx
    simp only [Mem.bytes, List.mem_map, List.mem_range] at hx
    obtain ⟨i, hi, rfl⟩ := hx
    simpa using hnz i hi

/-- under "a NUL at offset z, nothing before it, everything up to it readable" the loop of
vmReadStr ends without EFAULT having read past z -/
theorem readLoop_exact (m : Mem) (addr z : Nat) (hP : 0 < m.P) (h0 : m.byte (addr + z) = 0)
    (hnz : ∀ i, i < z → m.byte (addr + i) ≠ 0) (hread : ∀ i, i ≤ z → m.readable (addr + i) = true) :
    ∀ (fuel total rem next : Nat) (acc : List Nat), acc = m.bytes addr total → total ≤ z → z < total + rem →
      0 < next → rem ≤ fuel →
      ∃ t', z < t' ∧ readLoop m addr fuel total rem next acc = (false, m.bytes addr t') := by
  intro fuel
  induction fuel with
  | zero => intro total rem next acc _ h1 h2 _ h4; omega
  | succ fuel ih =>
    intro total rem next acc h h1 h2 h3 h4
    unfold readLoop
    have hr : rem ≠ 0 := by omega
    simp only [hr, if_false]
    generalize hn : (if rem < next then rem else next) = nx
    have hnx : nx ≤ rem ∧ 0 < nx := by rw [← hn]; split <;> omega
    unfold vmRead
    simp only [hread total h1, if_true]
    have hc : acc ++ m.bytes (addr + total) nx = m.bytes addr (total + nx) := by rw [h]; exact bytes_append m addr total nx
    by_cases hz : z < total + nx
    · have hnull : hasNull (m.bytes (addr + total) nx) = true := by
        rw [hasNull_bytes_iff]
        refine ⟨z - total, by omega, ?_⟩
        rw [show addr + total + (z - total) = addr + z by omega]; exact h0
      simp only [hnull, if_true]
      exact ⟨total + nx, hz, by rw [hc]⟩
    · have hnull : ¬ hasNull (m.bytes (addr + total) nx) = true := by
        rw [hasNull_bytes_iff]
        rintro ⟨i, hi, hb⟩
        exact hnz (total + i) (by omega) (by rw [← Nat.add_assoc]; exact hb)
      simp only [hnull, if_false]
      exact ih (total + nx) (rem - nx) m.P _ hc (by omega) (by omega) hP (by omega)

/-- two addresses inside one chunk that does not cross a page boundary lie in the same page -/
theorem same_page (P a k nx : Nat) (hP : 0 < P) (hk : k < nx) (hfit : a % P + nx ≤ P) : (a + k) / P = a / P := by
  have ha := Nat.div_add_mod a P
  have : a + k = P * (a / P) + (a % P + k) := by omega
  have hlt : a % P + k < P := by omega
  rw [this, Nat.mul_add_div hP, Nat.div_eq_of_lt hlt]
  simp

theorem page_end_mod (P a nx : Nat) (hP : 0 < P) (hfit : a % P + nx = P) : (a + nx) % P = 0 := by
  have ha := Nat.div_add_mod a P
  have : a + nx = P * (a / P + 1) := by rw [Nat.mul_add, Nat.mul_one]; omega
  rw [this]; exact Nat.mul_mod_right _ _

/-- a string that runs into an unreadable page at offset `u` (nothing before it is NUL, everything
before it is readable): the loop of vmReadStr ends with EFAULT. -/
theorem readLoop_fault (m : Mem) (addr u : Nat) (hP : 0 < m.P) (hun : m.readable (addr + u) = false)
    (hnz : ∀ i, i < u → m.byte (addr + i) ≠ 0) (hread : ∀ i, i < u → m.readable (addr + i) = true) :
    ∀ (fuel total rem next : Nat) (acc : List Nat), total ≤ u → u < total + rem →
      (addr + total) % m.P + next = m.P → 0 < next → rem ≤ fuel →
      (readLoop m addr fuel total rem next acc).1 = true := by
  intro fuel
  induction fuel with
  | zero => intro total rem next acc h1 h2 _ _ h4; omega
  | succ fuel ih =>
    intro total rem next acc h1 h2 hfit h3 h4
    unfold readLoop
    have hr : rem ≠ 0 := by omega
    simp only [hr, if_false]
    unfold vmRead
    by_cases htu : total = u
    · subst htu; simp [hun]
    · have hlt : total < u := by omega
      simp only [hread total hlt, if_true]
      generalize hn : (if rem < next then rem else next) = nx
      have hnx : nx ≤ rem ∧ 0 < nx ∧ nx ≤ next := by rw [← hn]; split <;> omega
      -- the chunk lies in one readable page, so it ends at or before u
      have hend : total + nx ≤ u := by
        apply Nat.le_of_not_lt
        intro hc
        have hsame := same_page m.P (addr + total) (u - total) nx hP (by omega) (by omega)
        have h1' : addr + total + (u - total) = addr + u := by omega
        rw [h1'] at hsame
        have hr1 := hread total hlt
        unfold Mem.readable at hun hr1
        rw [hsame, hr1] at hun
        exact Bool.noConfusion hun
      have hfull : nx = next := by
        rw [← hn]; split
        · rename_i hlt2; rw [← hn] at hend; simp only [hlt2, if_true] at hend; omega
        · rfl
      have hnull : ¬ hasNull (m.bytes (addr + total) nx) = true := by
        rw [hasNull_bytes_iff]
        rintro ⟨i, hi, hb⟩
        exact hnz (total + i) (by omega) (by rw [← Nat.add_assoc]; exact hb)
      simp only [hnull, if_false]
      apply ih (total + nx) (rem - nx) m.P _ hend (by omega) _ hP (by omega)
      rw [← Nat.add_assoc, hfull, page_end_mod m.P (addr + total) next hP hfit]; omega

theorem takeWhile_range_first (p : Nat → Bool) (u n : Nat) (hu : u < n) (hp : ∀ i, i < u → p i = true) (hq : p u = false) :
    (List.range n).takeWhile p = List.range u := by
  have hn : n = u + (n - u - 1 + 1) := by omega
  rw [hn, List.range_add, List.takeWhile_append_of_pos]
  · simp [List.range_succ_eq_map, hq]
  · intro x hx; exact hp x (List.mem_range.mp hx)

theorem takeWhile_bytes_all (m : Mem) (a u : Nat) (hnz : ∀ i, i < u → m.byte (a + i) ≠ 0) :
    (m.bytes a u).takeWhile (· != 0) = m.bytes a u := by
  have h := List.takeWhile_append_of_pos (p := (· != 0)) (l₁ := m.bytes a u) (l₂ := []) (by
    intro x hx
    simp only [Mem.bytes, List.mem_map, List.mem_range] at hx
    obtain ⟨i, hi, rfl⟩ := hx
    simpa using hnz i hi)
  simpa using h

end GoSandbox.Lemmas.GetString
