/- helper lemmas about Model/FdShuffle.lean (used by Props/C06.lean) -/
import GoSandbox.Model.FdShuffle
namespace GoSandbox.Lemmas.FdShuffle
open GoSandbox.Model.FdShuffle

theorem skip_spec (p : Nat) (e : Option Nat) (n : Nat) :
    n ≤ skip p e n ∧ skip p e n ≠ p ∧ e ≠ some (skip p e n) := by
  unfold skip
  cases e with
  | none =>
    simp only [reduceCtorEq, or_false, ne_eq, not_false_eq_true, and_true]
    split <;> (try split) <;> omega
  | some x =>
    simp only [Option.some.injEq, ne_eq]
    split <;> (try split) <;> omega

theorem pass2_spec : ∀ (locs : List (Option Nat)) (i : Nat) (t : Table),
    (∀ k f, locs[k]? = some (some f) → i + k ≤ f) →
    (∀ k f, locs[k]? = some (some f) → pass2 i locs t (i + k) = (t f).map (fun e => (e.1, false))) ∧
    (∀ k, locs[k]? = some none → pass2 i locs t (i + k) = none) ∧
    (∀ j, j < i ∨ i + locs.length ≤ j → pass2 i locs t j = t j) := by
  intro locs
  induction locs with
  | nil => intro i t _; simp [pass2]
  | cons a r ih =>
    intro i t h
    have hr : ∀ k f, r[k]? = some (some f) → i + 1 + k ≤ f := by
      intro k f hk
      have := h (k + 1) f (by simpa using hk)
      omega
    cases a with
    | none =>
      simp only [pass2]
      obtain ⟨a1, a2, a3⟩ := ih (i + 1) (closeFd t i) hr
      refine ⟨?_, ?_, ?_⟩
      · intro k f hk
        cases k with
        | zero => simp at hk
        | succ k =>
          have hk' : r[k]? = some (some f) := by simpa using hk
          have := a1 k f hk'
          have hf := hr k f hk'
          rw [show i + (k + 1) = i + 1 + k by omega, this]
          simp only [closeFd]
          have : ¬ f = i := by omega
          simp [this]
      · intro k hk
        cases k with
        | zero =>
          have := a3 i (Or.inl (by omega))
          simp only [Nat.add_zero, this, closeFd]
          simp
        | succ k =>
          have hk' : r[k]? = some none := by simpa using hk
          rw [show i + (k + 1) = i + 1 + k by omega]
          exact a2 k hk'
      · intro j hj
        have : j < i + 1 ∨ i + 1 + r.length ≤ j := by
          rcases hj with hj | hj
          · left; omega
          · right; simp only [List.length_cons] at hj; omega
        rw [a3 j this]
        simp only [closeFd]
        have : ¬ j = i := by
          rcases hj with hj | hj
          · omega
          · simp only [List.length_cons] at hj; omega
        simp [this]
    | some f0 =>
      simp only [pass2]
      have hf0 : i ≤ f0 := by have := h 0 f0 (by simp); omega
      -- the table after the step
      have hstep : ∀ j, (if f0 = i then clearCx t i else dup3 t f0 i false) j =
          if j = i then (t f0).map (fun e => (e.1, false)) else t j := by
        intro j
        by_cases hfi : f0 = i
        · subst hfi; simp [clearCx]
        · simp [hfi, dup3]
      obtain ⟨a1, a2, a3⟩ := ih (i + 1) (if f0 = i then clearCx t i else dup3 t f0 i false) hr
      refine ⟨?_, ?_, ?_⟩
      · intro k f hk
        cases k with
        | zero =>
          have hff : f0 = f := by simpa using hk
          subst hff
          have := a3 i (Or.inl (by omega))
          simp only [Nat.add_zero, this, hstep]
          simp
        | succ k =>
          have hk' : r[k]? = some (some f) := by simpa using hk
          have hf := hr k f hk'
          rw [show i + (k + 1) = i + 1 + k by omega, a1 k f hk', hstep]
          have : ¬ f = i := by omega
          simp [this]
      · intro k hk
        cases k with
        | zero => simp at hk
        | succ k =>
          have hk' : r[k]? = some none := by simpa using hk
          rw [show i + (k + 1) = i + 1 + k by omega]
          exact a2 k hk'
      · intro j hj
        have : j < i + 1 ∨ i + 1 + r.length ≤ j := by
          rcases hj with hj | hj
          · left; omega
          · right; simp only [List.length_cons] at hj; omega
        rw [a3 j this, hstep]
        have : ¬ j = i := by
          rcases hj with hj | hj
          · omega
          · simp only [List.length_cons] at hj; omega
        simp [this]

theorem pass1_spec (pipe : Nat) (exec : Option Nat) : ∀ (files : List (Option Nat)) (i : Nat) (t : Table) (n : Nat),
    (∀ f, some f ∈ files → f < n) → i + files.length ≤ n →
    (pass1 pipe exec i files t n).1.length = files.length ∧
    (∀ (k f : Nat), files[k]? = some (some f) → ∃ g, (pass1 pipe exec i files t n).1[k]? = some (some g) ∧ i + k ≤ g ∧
        fileAt (pass1 pipe exec i files t n).2.1 g = fileAt t f) ∧
    (∀ k : Nat, files[k]? = some none → (pass1 pipe exec i files t n).1[k]? = some none) ∧
    (∀ j, j < n → (pass1 pipe exec i files t n).2.1 j = t j) ∧
    (∀ j, j = pipe ∨ exec = some j → (pass1 pipe exec i files t n).2.1 j = t j) ∧
    (∀ j, (pass1 pipe exec i files t n).2.1 j = t j ∨ ∃ e, (pass1 pipe exec i files t n).2.1 j = some (e, true) ∨ (pass1 pipe exec i files t n).2.1 j = none) := by
  intro files
  induction files with
  | nil => intro i t n _ _; simp [pass1]
  | cons a r ih =>
    intro i t n hsrc hlen
    have hsrc_r : ∀ f, some f ∈ r → f < n := fun f hf => hsrc f (List.mem_cons_of_mem _ hf)
    simp only [List.length_cons] at hlen
    cases a with
    | none =>
      simp only [pass1]
      obtain ⟨b1, b2, b3, b4, b5, b6⟩ := ih (i + 1) t n hsrc_r (by omega)
      refine ⟨by simp [b1], ?_, ?_, b4, b5, b6⟩
      · intro k f hk
        cases k with
        | zero => simp at hk
        | succ k =>
          obtain ⟨g, g1, g2, g3⟩ := b2 k f (by simpa using hk)
          exact ⟨g, by simpa using g1, by omega, g3⟩
      · intro k hk
        cases k with
        | zero => simp
        | succ k => simpa using b3 k (by simpa using hk)
    | some f0 =>
      have hf0 : f0 < n := hsrc f0 (by simp)
      by_cases hlt : f0 < i
      · -- moved to a scratch slot
        simp only [pass1, hlt, if_true]
        obtain ⟨s1, s2, s3⟩ := skip_spec pipe exec n
        have hsrc' : ∀ f, some f ∈ r → f < skip pipe exec n + 1 := fun f hf => by have := hsrc_r f hf; omega
        obtain ⟨b1, b2, b3, b4, b5, b6⟩ := ih (i + 1) (dup3 t f0 (skip pipe exec n) true) (skip pipe exec n + 1) hsrc' (by omega)
        have hd : ∀ j, j ≠ skip pipe exec n → dup3 t f0 (skip pipe exec n) true j = t j := by
          intro j hj; simp [dup3, hj]
        refine ⟨by simp [b1], ?_, ?_, ?_, ?_, ?_⟩
        · intro k f hk
          cases k with
          | zero =>
            have hff : f0 = f := by simpa using hk
            subst hff
            refine ⟨skip pipe exec n, by simp, by omega, ?_⟩
            rw [fileAt, b4 _ (by omega)]
            simp [dup3, fileAt, Option.map_map]
            cases t f0 <;> rfl
          | succ k =>
            have hk' : r[k]? = some (some f) := by simpa using hk
            obtain ⟨g, g1, g2, g3⟩ := b2 k f hk'
            have hfn : f < n := hsrc_r f (List.mem_of_getElem? hk')
            refine ⟨g, by simpa using g1, by omega, ?_⟩
            rw [g3, fileAt, fileAt, hd f (by omega)]
        · intro k hk
          cases k with
          | zero => simp at hk
          | succ k => simpa using b3 k (by simpa using hk)
        · intro j hj
          rw [b4 j (by omega), hd j (by omega)]
        · intro j hj
          rw [b5 j hj]
          apply hd
          rcases hj with hj | hj
          · subst hj; exact fun h => s2 h.symm
          · intro h; subst h; exact s3 hj
        · intro j
          rcases b6 j with h1 | ⟨e, h1⟩
          · by_cases hj : j = skip pipe exec n
            · right
              rw [h1, hj]
              simp only [dup3, if_true]
              cases t f0 with
              | none => exact ⟨0, Or.inr rfl⟩
              | some v => exact ⟨v.1, Or.inl rfl⟩
            · left; rw [h1, hd j hj]
          · exact Or.inr ⟨e, h1⟩
      · simp only [pass1, hlt, if_false]
        obtain ⟨b1, b2, b3, b4, b5, b6⟩ := ih (i + 1) t n hsrc_r (by omega)
        refine ⟨by simp [b1], ?_, ?_, b4, b5, b6⟩
        · intro k f hk
          cases k with
          | zero =>
            have hff : f0 = f := by simpa using hk
            subst hff
            exact ⟨f0, by simp, by omega, by rw [fileAt, fileAt, b4 f0 hf0]⟩
          | succ k =>
            obtain ⟨g, g1, g2, g3⟩ := b2 k f (by simpa using hk)
            exact ⟨g, by simpa using g1, by omega, g3⟩
        · intro k hk
          cases k with
          | zero => simp at hk
          | succ k => simpa using b3 k (by simpa using hk)

private theorem foldl_max_ge (l : List (Option Nat)) : ∀ acc : Nat,
    acc ≤ l.foldl (fun acc f => match f with | some k => max acc k | none => acc) acc ∧
    ∀ f, some f ∈ l → f ≤ l.foldl (fun acc f => match f with | some k => max acc k | none => acc) acc := by
  induction l with
  | nil => intro acc; simp
  | cons a r ih =>
    intro acc
    cases a with
    | none =>
      simp only [List.foldl_cons]
      obtain ⟨h1, h2⟩ := ih acc
      refine ⟨h1, fun f hf => ?_⟩
      rcases List.mem_cons.mp hf with h | h
      · cases h
      · exact h2 f h
    | some k =>
      simp only [List.foldl_cons]
      obtain ⟨h1, h2⟩ := ih (max acc k)
      have m1 := Nat.le_max_left acc k
      have m2 := Nat.le_max_right acc k
      refine ⟨Nat.le_trans m1 h1, fun f hf => ?_⟩
      rcases List.mem_cons.mp hf with h | h
      · have : f = k := by cases h; rfl
        subst this; exact Nat.le_trans m2 h1
      · exact h2 f h

theorem scratchStart_spec (files : List (Option Nat)) :
    files.length < scratchStart files ∧ ∀ f, some f ∈ files → f < scratchStart files := by
  unfold scratchStart
  obtain ⟨h1, h2⟩ := foldl_max_ge files files.length
  exact ⟨Nat.lt_succ_of_le h1, fun f hf => Nat.lt_succ_of_le (h2 f hf)⟩

theorem prelude_spec (t : Table) (pipe : Nat) (exec : Option Nat) (next : Nat) (hne : exec ≠ some pipe) :
    next ≤ (prelude t pipe exec next).next ∧
    next ≤ (prelude t pipe exec next).pipe ∧
    fileAt (prelude t pipe exec next).t (prelude t pipe exec next).pipe = fileAt t pipe ∧
    (exec = none → (prelude t pipe exec next).exec = none) ∧
    (∀ e, exec = some e → ∃ e', (prelude t pipe exec next).exec = some e' ∧ next ≤ e' ∧ e' ≠ (prelude t pipe exec next).pipe ∧
        fileAt (prelude t pipe exec next).t e' = fileAt t e) ∧
    (∀ j, j < next → (prelude t pipe exec next).t j = t j) ∧
    (∀ j, (prelude t pipe exec next).t j = t j ∨ ∃ x, (prelude t pipe exec next).t j = some (x, true) ∨ (prelude t pipe exec next).t j = none) := by
  have hmap : ∀ (o : Option (Nat × Bool)), Option.map (fun e => e.1) (Option.map (fun e => (e.1, true)) o) = Option.map (fun e => e.1) o := by
    intro o; cases o <;> rfl
  have hcx : ∀ (o : Option (Nat × Bool)), ∃ x, Option.map (fun e => (e.1, true)) o = some (x, true) ∨ Option.map (fun e => (e.1, true)) o = none := by
    intro o; cases o with
    | none => exact ⟨0, Or.inr rfl⟩
    | some v => exact ⟨v.1, Or.inl rfl⟩
  cases exec with
  | none =>
    by_cases hp : pipe < next
    · have hP : prelude t pipe none next = ⟨dup3 t pipe next true, next, none, next + 1⟩ := by
        simp [prelude, hp]
      rw [hP]; dsimp only
      refine ⟨by omega, by omega, by simp [fileAt, dup3, hmap], (fun _ => rfl), (fun e he => by cases he), fun j hj => ?_, fun j => ?_⟩
      · have : ¬ (j = next) := by omega
        simp [dup3, this]
      · by_cases hj : j = next
        · right; subst hj; simpa [dup3] using hcx (t pipe)
        · left; simp [dup3, hj]
    · have hP : prelude t pipe none next = ⟨t, pipe, none, next⟩ := by simp [prelude, hp]
      rw [hP]; dsimp only
      exact ⟨by omega, by omega, rfl, (fun _ => rfl), (fun e he => by cases he), fun j _ => rfl, fun j => Or.inl rfl⟩
  | some e =>
    have hep : e ≠ pipe := fun h => hne (by rw [h])
    by_cases hp : pipe < next
    · by_cases hen : e = next
      · subst hen
        have hP : prelude t pipe (some e) e = ⟨dup3 (dup3 t pipe (e + 1) true) e (e + 1 + 1) true, e + 1, some (e + 1 + 1), e + 1 + 1 + 1⟩ := by
          have h1 : e < e + 1 + 1 := by omega
          have h2 : ¬ (e + 1 + 1 = e + 1) := by omega
          simp [prelude, hp, h1, h2]
        rw [hP]; dsimp only
        refine ⟨by omega, by omega, ?_, (fun h => by cases h), ?_, ?_, ?_⟩
        · have : ¬ (e + 1 = e + 1 + 1) := by omega
          simp [fileAt, dup3, this, hmap]
        · intro e0 he0
          have : e0 = e := by cases he0; rfl
          subst this
          refine ⟨e0 + 1 + 1, rfl, by omega, by omega, ?_⟩
          have : ¬ (e0 = e0 + 1) := by omega
          simp [fileAt, dup3, this, hmap]
        · intro j hj
          have a : ¬ (j = e + 1 + 1) := by omega
          have b : ¬ (j = e + 1) := by omega
          simp [dup3, a, b]
        · intro j
          by_cases ha : j = e + 1 + 1
          · right; subst ha
            have : ¬ (e = e + 1) := by omega
            simp only [dup3, if_true, this, if_false]
            exact hcx (t e)
          · by_cases hb : j = e + 1
            · right; subst hb
              simp only [dup3, ha, if_false, if_true]
              exact hcx (t pipe)
            · left; simp [dup3, ha, hb]
      · have hen' : ¬ (some e = some next) := fun h => hen (Option.some.inj h)
        by_cases hlt : e < next + 1
        · have hel : e < next := by omega
          have hP : prelude t pipe (some e) next = ⟨dup3 (dup3 t pipe next true) e (next + 1) true, next, some (next + 1), next + 1 + 1⟩ := by
            have h2 : ¬ (next + 1 = next) := by omega
            simp [prelude, hp, hen, hlt, h2]
          rw [hP]; dsimp only
          refine ⟨by omega, by omega, ?_, (fun h => by cases h), ?_, ?_, ?_⟩
          · have : ¬ (next = next + 1) := by omega
            simp [fileAt, dup3, this, hmap]
          · intro e0 he0
            have : e0 = e := by cases he0; rfl
            subst this
            refine ⟨next + 1, rfl, by omega, by omega, ?_⟩
            have : ¬ (e0 = next) := by omega
            simp [fileAt, dup3, this, hmap]
          · intro j hj
            have a : ¬ (j = next + 1) := by omega
            have b : ¬ (j = next) := by omega
            simp [dup3, a, b]
          · intro j
            by_cases ha : j = next + 1
            · right; subst ha
              have : ¬ (e = next) := by omega
              simp only [dup3, if_true, this, if_false]
              exact hcx (t e)
            · by_cases hb : j = next
              · right; subst hb
                simp only [dup3, ha, if_false, if_true]
                exact hcx (t pipe)
              · left; simp [dup3, ha, hb]
        · have hP : prelude t pipe (some e) next = ⟨dup3 t pipe next true, next, some e, next + 1⟩ := by
            simp [prelude, hp, hen, hlt]
          rw [hP]; dsimp only
          refine ⟨by omega, by omega, by simp [fileAt, dup3, hmap], (fun h => by cases h), ?_, ?_, ?_⟩
          · intro e0 he0
            have : e0 = e := by cases he0; rfl
            subst this
            refine ⟨e0, rfl, by omega, by omega, ?_⟩
            have : ¬ (e0 = next) := by omega
            simp [fileAt, dup3, this]
          · intro j hj
            have b : ¬ (j = next) := by omega
            simp [dup3, b]
          · intro j
            by_cases hb : j = next
            · right; subst hb; simpa [dup3] using hcx (t pipe)
            · left; simp [dup3, hb]
    · by_cases hlt : e < next
      · have hn : ∃ n, next ≤ n ∧ n ≠ pipe ∧ e < n ∧
            prelude t pipe (some e) next = ⟨dup3 t e n true, pipe, some n, n + 1⟩ := by
          by_cases h2 : next = pipe
          · subst h2
            exact ⟨next + 1, by omega, by omega, by omega, by simp [prelude, hlt]⟩
          · exact ⟨next, by omega, h2, hlt, by simp [prelude, hp, hlt, h2]⟩
        obtain ⟨n, n1, n2, n3, hP⟩ := hn
        rw [hP]; dsimp only
        refine ⟨by omega, by omega, ?_, (fun h => by cases h), ?_, ?_, ?_⟩
        · have : ¬ (pipe = n) := fun h => n2 h.symm
          simp [fileAt, dup3, this]
        · intro e0 he0
          have : e0 = e := by cases he0; rfl
          subst this
          exact ⟨n, rfl, n1, n2, by simp [fileAt, dup3, hmap]⟩
        · intro j hj
          have b : ¬ (j = n) := by omega
          simp [dup3, b]
        · intro j
          by_cases hb : j = n
          · right; subst hb; simpa [dup3] using hcx (t e)
          · left; simp [dup3, hb]
      · have hP : prelude t pipe (some e) next = ⟨t, pipe, some e, next⟩ := by simp [prelude, hp, hlt]
        rw [hP]; dsimp only
        refine ⟨by omega, by omega, rfl, (fun h => by cases h), ?_, fun j _ => rfl, fun j => Or.inl rfl⟩
        intro e0 he0
        have : e0 = e := by cases he0; rfl
        subst this
        exact ⟨e0, rfl, by omega, hep, rfl⟩

end GoSandbox.Lemmas.FdShuffle
