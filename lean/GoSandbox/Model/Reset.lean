/-
C13: Reset of a pooled container and the sealed in-memory executable.
Directory trees with arbitrary entries; `removeContents` (readdirnames + RemoveAll of each name,
as the namespace root); Go-lite runs of the regenerated handleReset and DupToMemfd against small
worlds; the seal semantics of memfd.  Core-only.
-/
import GoSandbox.GoLite.Exec
import GoSandbox.Gen.C13
import GoSandbox.Gen.Consts
namespace GoSandbox.Model.Reset
open GoSandbox.GoLite

/-! ### trees -/

inductive Node where
  | file (name : String) (mode : Nat)
  | symlink (name : String) (target : String)
  | fifo (name : String)
  | socket (name : String)
  | dir (name : String) (mode : Nat) (children : List Node)
deriving Repr

/-- os.RemoveAll as the namespace root (CAP_DAC_OVERRIDE): removes the entry and, for a directory,
everything beneath it, whatever names, types and permission bits — never follows a symlink. -/
def removeAllOk (_ : Node) : Bool := true

/-- Go: removeContents(dir): every name returned by Readdirnames(-1) is removed with RemoveAll;
the last error (if any) is returned. -/
def removeContents (children : List Node) (fails : Node → Bool) : List Node × Bool :=
  (children.filter fails, children.any fails)

/-! ### handleReset on a mount table -/

structure Mnt where
  target : String
  fsType : String
deriving DecidableEq, Repr

structure RW where
  cleaned : List String := []       -- directories handed to removeContents, in order
  failOn : List String := []        -- removeContents fails for these
  reply : Option Bool := none       -- some true = ok reply, some false = error reply

def rext (name : String) (args : List Val) (env : Env) (w : RW) : Except String (Val × RW) :=
  match name, args with
  | "m.IsTmpFs", [] => .ok (match env.get? "m" with
      | some (.strct fs) => .bool (match recGet fs "FsType" with | some (.str t) => t == "tmpfs" | _ => false)
      | _ => .bool false, w)
  | "filepath.Join", [.str a, .str b] =>
    -- Join("/", target): a clean absolute path (targets are relative names such as "w", "tmp")
    .ok (.str (if b.startsWith "/" then b else a ++ b), w)
  | "removeContents", [.str d] =>
    .ok (if w.failOn.contains d then .str "remove failed" else .nil, { w with cleaned := w.cleaned ++ [d] })
  | "c.sendErrorReply", _ => .ok (.nil, { w with reply := some false })
  | "c.sendReply", _ => .ok (.nil, { w with reply := some true })
  | _, _ => .error s!"unknown call {name}"

def rcfg : Cfg RW := { ext := rext, glob := fun _ => none }

def genReset (mounts : List Mnt) (failOn : List String) : Except String (List String × Option Bool) :=
  let c : Val := .strct [("Mounts", .list (mounts.map (fun m => Val.strct [("Target", .str m.target), ("FsType", .str m.fsType)])))]
  match runBody rcfg [] Gen.C13.handleReset.body [("c", c)] { failOn := failOn } 2000 with
  | .ok (_, _, w) => .ok (w.cleaned, w.reply)
  | .error e => .error e

/-- hand model: clean every tmpfs mount in order; stop with an error reply at the first failure -/
def reset (mounts : List Mnt) (failOn : List String) : List String × Option Bool :=
  let rec go : List Mnt → List String → List String × Option Bool
    | [], acc => (acc, some true)
    | m :: rest, acc =>
      if m.fsType != "tmpfs" then go rest acc
      else
        let d := if m.target.startsWith "/" then m.target else "/" ++ m.target
        if failOn.contains d then (acc ++ [d], some false) else go rest (acc ++ [d])
  go mounts []

/-! ### memfd -/

structure MW where
  calls : List String := []
  failAt : Option String := none

def mext (name : String) (args : List Val) (_ : Env) (w : MW) : Except String (Val × MW) :=
  let fails := w.failAt == some name
  let r (v : Val) : Except String (Val × MW) := .ok (v, { w with calls := w.calls ++ [name ++ (match args with
      | [_, .int a, .int b] => s!"({a},{b})"
      | [.int a, .int b] => s!"({a},{b})"
      | _ => "")] })
  match name with
  | "New" => r (.tup [.strct [("fd", .int 5)], if fails then .str "e" else .nil])
  | "file.ReadFrom" => r (.tup [.int 0, if fails then .str "e" else .nil])
  | "file.Fd" => .ok (.int 5, w)
  | "unix.FcntlInt" => r (.tup [.int 0, if fails then .str "e" else .nil])
  | "file.Seek" => r (.tup [.int 0, if fails then .str "e" else .nil])
  | "file.Close" => r .nil
  | "fmt.Errorf" => .ok (.str "wrapped", w)
  | _ => .error s!"unknown call {name}"

def mcfg : Cfg MW := { ext := mext, glob := fun n => (Gen.Consts.table.find? (fun p => p.1 == n)).map (fun p => Val.int p.2) }

/-- (calls made, returned a file?) -/
def genDup (failAt : Option String) : Except String (List String × Bool) :=
  match runBody mcfg [] Gen.C13.dupToMemfd.body [("reader", .nil), ("name", .str "n")] { failAt := failAt } 500 with
  | .ok (some [f, e], _, w) => .ok (w.calls, (match f with | .nil => false | _ => true) && (match e with | .nil => true | _ => false))
  | .ok _ => .error "shape"
  | .error e => .error e

/-- modifying operations on a memfd and the seal each is denied by (kernel: mm/memfd.c, shmem.c) -/
inductive MOp | write | pwrite | truncateShrink | truncateGrow | fallocateGrow | mmapSharedWritable | addSeals | writeViaReopened
deriving DecidableEq, Repr

def allMOps : List MOp := [.write, .pwrite, .truncateShrink, .truncateGrow, .fallocateGrow, .mmapSharedWritable, .addSeals, .writeViaReopened]

def bitSet (seals bit : Nat) : Bool := seals &&& bit != 0

def denied (seals : Nat) : MOp → Bool
  | .write | .pwrite | .mmapSharedWritable | .writeViaReopened => bitSet seals Gen.Consts.unix_F_SEAL_WRITE
  | .truncateShrink => bitSet seals Gen.Consts.unix_F_SEAL_SHRINK
  | .truncateGrow | .fallocateGrow => bitSet seals Gen.Consts.unix_F_SEAL_GROW
  | .addSeals => bitSet seals Gen.Consts.unix_F_SEAL_SEAL

/-! ### removeContents (container/utils.go) on regenerated code: one directory read, every name removed -/

structure CW where
  entries : List String            -- the names the directory holds (whatever they look like)
  failRm : List String := []       -- RemoveAll fails for these paths
  openFails : Bool := false
  removed : List String := []      -- paths handed to RemoveAll, latest first
  readArgs : List Int := []        -- the counts the directory reads were made with

/-- `Readdirnames(n)`: everything for n ≤ 0, at most n names otherwise (os.File's contract) -/
def readNames (entries : List String) (n : Int) : List String :=
  if n ≤ 0 then entries else entries.take n.toNat

def cext (name : String) (args : List Val) (_ : Env) (w : CW) : Except String (Val × CW) :=
  match name, args with
  | "os.Open", [.str _] => .ok (.tup [.str "dir", if w.openFails then .str "EACCES" else .nil], w)
  | "d.Readdirnames", [.int n] => .ok (.tup [.list ((readNames w.entries n).map Val.str), .nil], { w with readArgs := w.readArgs ++ [n] })
  | "filepath.Join", [.str a, .str b] => .ok (.str (a ++ "/" ++ b), w)
  | "os.RemoveAll", [.str p] => .ok (if w.failRm.contains p then .str "EBUSY" else .nil, { w with removed := p :: w.removed })
  | _, _ => .error s!"unknown call {name}"

/-- the regenerated removeContents (its deferred Close left out): (error reported, paths removed) -/
def genRemoveContents (dir : String) (entries : List String) (failRm : List String := []) (openFails : Bool := false) :
    Except String (Bool × List String) :=
  let body := Gen.C13.removeContents.body.filter (fun s => match s with | .other "defer" => false | _ => true)
  match runBody { ext := cext, glob := fun _ => none } [] body [("dir", .str dir)] { entries := entries, failRm := failRm, openFails := openFails } 1000000 with
  | .ok (some [v], _, w) => .ok (!Val.beq v .nil, w.removed.reverse)
  | .ok (_, _, _) => .error "no result"
  | .error e => .error e

/-- the counts the regenerated removeContents reads the directory with -/
def genReadCounts (dir : String) (entries : List String) : Except String (List Int) :=
  let body := Gen.C13.removeContents.body.filter (fun s => match s with | .other "defer" => false | _ => true)
  match runBody { ext := cext, glob := fun _ => none } [] body [("dir", .str dir)] { entries := entries } 1000000 with
  | .ok (_, _, w) => .ok w.readArgs
  | .error e => .error e

/-- what the property needs: every entry is handed to RemoveAll, whatever its name; an error is
reported iff the directory could not be opened or some removal failed -/
def removesEverything (dir : String) (entries : List String) (failRm : List String := []) : Bool :=
  match genRemoveContents dir entries failRm with
  | .ok (e, r) => r == entries.map (fun n => dir ++ "/" ++ n) && e == entries.any (fun n => failRm.contains (dir ++ "/" ++ n))
  | .error _ => false

end GoSandbox.Model.Reset
