/-
C19 (gob-framed layer): the regenerated (*socket).SendMsg / (*socket).RecvMsg of container/socket_linux.go
(Gen.C19.gobSendMsg / gobRecvMsg) run by Go-lite over the gob model's encoder, datagram queue and decoder
as the world, for comparison with Model/Gob.lean `step`.  Core-only.
-/
import GoSandbox.GoLite.Exec
import GoSandbox.Gen.C19
import GoSandbox.Model.Gob
namespace GoSandbox.Model.GobGen
open GoSandbox.GoLite GoSandbox.Model.Gob

structure GW where
  st : St
  sendBuf : Frame := []                       -- s.sendBuff (bytes.Buffer the encoder writes to)
  dgram : Frame := []                         -- what the last Socket.RecvMsg put into s.buff[:n]
  recvBuf : Frame := []                       -- the buffer the decoder reads from (s.recvBuff)
  recvd : Option (Kind × List Nat) := none

def eVal (k : Kind) (p : List Nat) : Val := .strct [("k", .int (Int.ofNat k)), ("p", .list (p.map (fun x => Val.int (Int.ofNat x))))]

def ofEVal : Val → Option (Kind × List Nat)
  | .strct [("k", .int k), ("p", .list l)] => some (k.toNat, l.filterMap (fun v => match v with | .int i => some i.toNat | _ => none))
  | _ => none

def ext (c : Cfg) (name : String) (args : List Val) (_ : Env) (w : GW) : Except String (Val × GW) :=
  match name, args with
  | "s.sendBuff.Reset", [] => .ok (.nil, { w with sendBuf := [] })
  | "s.encoder.Encode", [e] =>
    (match ofEVal e with
     | some (k, p) =>
       let (sent', f) := encode c w.st.sent k p
       .ok (.nil, { w with st := { w.st with sent := sent' }, sendBuf := w.sendBuf ++ f })
     | none => .error "Encode: value")
  | "s.sendBuff.Len", [] => .ok (.int (frameSize c w.sendBuf), w)
  | "s.sendBuff.Bytes", [] => .ok (.str "sendBuff", w)
  | "s.Socket.SendMsg", [.str "sendBuff", _] => .ok (.nil, { w with st := { w.st with q := w.st.q ++ [w.sendBuf] } })
  | "fmt.Errorf", (.str f) :: _ => .ok (.str f, w)
  | "s.Socket.RecvMsg", [_] =>
    (match w.st.q with
     | [] => .ok (.tup [.int 0, .str "msg", .str "empty"], w)
     | f :: r => .ok (.tup [.int 1, .str "msg", .nil], { w with st := { w.st with q := r }, dgram := f }))
  | "bytes.NewBuffer", [.list [_]] => .ok (.str "dgram", w)
  | "bytes.NewBuffer", [.list []] => .ok (.str "nothing", w)
  | "s.recvBuff.Rotate", [.str "dgram"] => .ok (.nil, { w with recvBuf := w.dgram })
  | "s.recvBuff.Rotate", [.str "nothing"] => .ok (.nil, { w with recvBuf := [] })
  | "s.decoder.Decode", [_] =>
    (match decode c w.st.known w.recvBuf with
     | (known', some v) => .ok (.nil, { w with st := { w.st with known := known' }, recvd := some v })
     | (known', none) => .ok (.str "gob: decode error", { w with st := { w.st with known := known' } }))
  | _, _ => .error s!"unknown call {name}"

def cfgOf (c : Cfg) : GoLite.Cfg GW :=
  { ext := ext c, glob := fun n => if n == "bufferSize" then some (.int c.cap) else none }

def sVal : Val := .strct [("buff", .list [.int 0])]

/-- one operation through the regenerated code; the socket's state (send buffer, receive buffer) persists -/
def genStep (c : Cfg) (w : GW) : Op → Option (GW × Out)
  | .send k p =>
    match runBody (cfgOf c) [] Gen.C19.gobSendMsg.body [("msg", .str "m"), ("e", eVal k p), ("s", sVal)] w 400 with
    | .ok (some [.nil], _, w') => some (w', .sent)
    | .ok (some [.str "send msg: payload too large: %d > %d"], _, w') => some (w', .rejected)
    | _ => none
  | .recv =>
    match runBody (cfgOf c) ["msg", "err"] Gen.C19.gobRecvMsg.body [("err", .nil), ("msg", .nil), ("e", .str "e"), ("s", sVal)] { w with recvd := none } 400 with
    | .ok (some [_, .nil], _, w') => (match w'.recvd with | some (k, p) => some (w', .got k p) | none => none)
    | .ok (some [_, .str "recv msg: decode: %w"], _, w') => some (w', .decodeError)
    | .ok (some [_, .str "recv msg: %w"], _, w') => some (w', .empty)
    | _ => none

def genRun (c : Cfg) : GW → List Op → Option (GW × List Out)
  | w, [] => some (w, [])
  | w, op :: rest =>
    match genStep c w op with
    | some (w', o) => (match genRun c w' rest with | some (w'', os) => some (w'', o :: os) | none => none)
    | none => none

def stEq (a b : St) : Bool := a.sent == b.sent && a.q == b.q && a.known == b.known

/-- a history through the regenerated code and through the model: same outcomes, same final encoder,
queue and decoder -/
def agrees (c : Cfg) (ops : List Op) : Bool :=
  match genRun c { st := init } ops with
  | some (w, outs) => stEq w.st (run c init ops).1 && outs == (run c init ops).2
  | none => false

def histories (alpha : List Op) : Nat → List (List Op)
  | 0 => [[]]
  | n + 1 => (histories alpha n).flatMap (fun h => alpha.map (fun x => x :: h))

end GoSandbox.Model.GobGen
