/-
C06: hand model of the descriptor shuffle of forkAndExecInChild (pkg/forkexec/fork_child_linux.go,
"Pass 1 & pass 2") on an abstract descriptor table, for descriptor lists of ANY length.
`prepare` = prepareFds' scratch start; `prelude` = moving the sync pipe and the exec descriptor out
of the way; `pass1` = sources below their target index are copied to fresh scratch slots;
`pass2` = every listed descriptor is put on its index (close marker: closed).  Core-only.
-/
namespace GoSandbox.Model.FdShuffle

/-- descriptor table: fd ↦ (open file, close-on-exec) -/
abbrev Table := Nat → Option (Nat × Bool)

def fileAt (t : Table) (k : Nat) : Option Nat := (t k).map (·.1)

/-- dup3(old, new, flags) with old ≠ new: `new` refers to old's file, close-on-exec as asked -/
def dup3 (t : Table) (old new : Nat) (cx : Bool) : Table :=
  fun k => if k = new then (t old).map (fun e => (e.1, cx)) else t k

def closeFd (t : Table) (k : Nat) : Table := fun j => if j = k then none else t j

/-- fcntl(fd, F_SETFD, 0) -/
def clearCx (t : Table) (k : Nat) : Table := fun j => if j = k then (t k).map (fun e => (e.1, false)) else t j

/-- prepareFds: one more than the largest of the list length and every listed descriptor
(`none` is the close marker) -/
def scratchStart (files : List (Option Nat)) : Nat :=
  files.foldl (fun acc f => match f with | some k => max acc k | none => acc) files.length + 1

/-- `for nextfd == pipe || (execFile > 0 && nextfd == execFile) { nextfd++ }` -/
def skip (pipe : Nat) (exec : Option Nat) (n : Nat) : Nat :=
  let n1 := if n = pipe ∨ exec = some n then n + 1 else n
  if n1 = pipe ∨ exec = some n1 then n1 + 1 else n1

structure Pre where
  t : Table
  pipe : Nat
  exec : Option Nat
  next : Nat

/-- the two moves before pass 1 -/
def prelude (t : Table) (pipe : Nat) (exec : Option Nat) (next : Nat) : Pre :=
  let a : Pre :=
    if pipe < next then
      let n := if exec = some next then next + 1 else next
      ⟨dup3 t pipe n true, n, exec, n + 1⟩
    else ⟨t, pipe, exec, next⟩
  match a.exec with
  | some e =>
    if e < a.next then
      let n := if a.next = a.pipe then a.next + 1 else a.next
      ⟨dup3 a.t e n true, a.pipe, some n, n + 1⟩
    else a
  | none => a

/-- pass 1 from index `i` on the remaining list: (new locations, table, next scratch) -/
def pass1 (pipe : Nat) (exec : Option Nat) : Nat → List (Option Nat) → Table → Nat → List (Option Nat) × Table × Nat
  | _, [], t, n => ([], t, n)
  | i, none :: r, t, n =>
    let x := pass1 pipe exec (i + 1) r t n
    (none :: x.1, x.2.1, x.2.2)
  | i, some f :: r, t, n =>
    if f < i then
      let s := skip pipe exec n
      let x := pass1 pipe exec (i + 1) r (dup3 t f s true) (s + 1)
      (some s :: x.1, x.2.1, x.2.2)
    else
      let x := pass1 pipe exec (i + 1) r t n
      (some f :: x.1, x.2.1, x.2.2)

/-- pass 2 from index `i` -/
def pass2 : Nat → List (Option Nat) → Table → Table
  | _, [], t => t
  | i, none :: r, t => pass2 (i + 1) r (closeFd t i)
  | i, some f :: r, t => pass2 (i + 1) r (if f = i then clearCx t i else dup3 t f i false)

structure Out where
  t : Table
  pipe : Nat
  exec : Option Nat

/-- the whole shuffle -/
def shuffle (t : Table) (files : List (Option Nat)) (pipe : Nat) (exec : Option Nat) : Out :=
  let p := prelude t pipe exec (scratchStart files)
  let x := pass1 p.pipe p.exec 0 files p.t p.next
  ⟨pass2 0 x.1 x.2.1, p.pipe, p.exec⟩

/-- what survives `execve`: close-on-exec descriptors are gone -/
def atExec (t : Table) (k : Nat) : Option Nat :=
  match t k with
  | some (f, false) => some f
  | _ => none

end GoSandbox.Model.FdShuffle
