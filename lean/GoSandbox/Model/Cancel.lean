/-
Cancellation of a ptrace run: (a) a small LTS of child progress × canceller × trace loop, explored
exhaustively; (b) one iteration of the regenerated trace loop (Gen.C11.traceLoop) run in Go-lite
to tie the "repeat the group kill at every event once cancelled" step to the code. Core-only.
-/
import GoSandbox.GoLite.Exec
import GoSandbox.Gen.C11
import GoSandbox.Model.Classify
namespace GoSandbox.Model.Cancel
open GoSandbox.GoLite

/-! ### (a) the race -/

inductive Child
  | cloned          -- after clone, before setsid: no process group `pgid` exists yet
  | grouped         -- after setsid, before the self-stop
  | stopReported    -- stopped itself (SIGSTOP); the stop is waiting to be reported by wait4
  | running         -- continued by the tracer
  | exitReported    -- exited on its own; the exit is waiting to be reported
  | killedReported  -- killed by SIGKILL; waiting to be reported
deriving DecidableEq, Repr

inductive Verdict | none | normal | tle
deriving DecidableEq, Repr

structure S where
  child : Child
  cancelled : Bool          -- the context is cancelled
  cancellerDone : Bool      -- the canceller goroutine has issued its kill(-pgid)
  cancelBeforeExit : Bool   -- ghost: the cancel happened before the program ended on its own
  exitAfterKill : Bool      -- ghost: the program ended on its own AFTER the canceller had issued its kill
  verdict : Verdict
deriving DecidableEq, Repr

def S.init : S := ⟨.cloned, false, false, false, false, .none⟩

/-- kill(-pgid, SIGKILL): ESRCH (no effect) while no process group exists or after the end -/
def groupKill (c : Child) : Child :=
  match c with
  | .grouped | .stopReported | .running => .killedReported
  | c => c

/-- `rekill` = the trace loop repeats the group kill at every event once the context is cancelled -/
def steps (rekill : Bool) (s : S) : List S :=
  if s.verdict ≠ .none then [] else
  -- the child makes progress
  (match s.child with
   | .cloned => [{ s with child := .grouped }]
   | .grouped => [{ s with child := .stopReported }]
   | .running => [{ s with child := .exitReported, exitAfterKill := s.cancellerDone }]
   | _ => []) ++
  -- the context is cancelled (at any moment), then the canceller goroutine runs
  (if ¬ s.cancelled then [{ s with cancelled := true, cancelBeforeExit := s.child ≠ .exitReported }] else []) ++
  (if s.cancelled ∧ ¬ s.cancellerDone then [{ s with cancellerDone := true, child := groupKill s.child }] else []) ++
  -- the trace loop takes an event from wait4
  (match s.child with
   | .stopReported =>
     let c := if rekill ∧ s.cancelled then groupKill s.child else s.child
     [{ s with child := if c = .killedReported then .killedReported else .running }]
   | .exitReported => [{ s with verdict := .normal }]
   | .killedReported => [{ s with verdict := .tle }]
   | _ => [])

def insertNew (seen : List S) (xs : List S) : List S × List S :=
  xs.foldl (fun (acc : List S × List S) x => if acc.1.contains x then acc else (x :: acc.1, x :: acc.2)) (seen, [])

def explore (rekill : Bool) : Nat → List S → List S → List S
  | 0, seen, _ => seen
  | fuel + 1, seen, frontier =>
    if frontier.isEmpty then seen else
    let (seen', new) := insertNew seen (frontier.flatMap (steps rekill))
    explore rekill fuel seen' new

def reachable (rekill : Bool) : List S := explore rekill 30 [S.init] [S.init]
def terminals (rekill : Bool) : List S := (reachable rekill).filter (fun s => (steps rekill s).isEmpty)

/-! ### (b) one iteration of the regenerated trace loop -/

structure LW where
  log : List String := []
  cancelled : Bool := false
  event : Nat × Nat := (0, 0)       -- (pid, wait status) returned by wait4
  pending : List (String × Val) := []

def lext (name : String) (args : List Val) (env : Env) (w : LW) : Except String (Val × LW) :=
  match name, args with
  | "#zero", _ => .ok (.int 0, w)
  | "unix.Wait4", _ => .ok (.tup [.int w.event.1, .nil], { w with log := w.log ++ ["wait4"], pending := [("wstatus", .int w.event.2)] })
  | "t.Handler.Debug", _ => .ok (.nil, w)
  | "c.Err", [] => .ok (if w.cancelled then .str "context canceled" else .nil, w)
  | "killAll", [p] => .ok (.nil, { w with log := w.log ++ [s!"killAll {Classify.showVal p}"] })
  | "t.checkUsage", _ => .ok (.tup [.int 0, .int 0, .int Gen.Consts.runner_StatusNormal], w)
  | "ph.handle", [pid, ws] =>
    match pid, ws, env.get? "ph" with
    | .int p, .int s, some (.strct fs) =>
      let ex := match recGet fs "execved" with | some (.bool b) => b | _ => false
      let pg := match recGet fs "pgid" with | some (.int g) => g.toNat | _ => 0
      (match Classify.runPtrace pg p.toNat s.toNat ex true {} with
       | .ok r => .ok (.tup [.int r.status, .int r.exitStatus, .str r.errStr, .bool r.finished],
                       { w with log := w.log ++ ["handle"], pending := [("ph", .strct (recSet fs "execved" (.bool r.execved)))] })
       | .error e => .error e)
    | _, _, _ => .error "handle args"
  | "err.Error", _ => .ok (.str "err", w)
  | _, _ => .error s!"unknown call {name}"

def lcfg : Cfg LW := { ext := lext, glob := Classify.glob, flush := fun w => (w.pending, { w with pending := [] }) }

/-- log of one loop iteration for an event, with the context cancelled or not -/
def iteration (pgid pid ws : Nat) (execved cancelled : Bool) : Except String (List String) :=
  let ph : Val := .strct [("pgid", .int pgid), ("execved", .bool execved)]
  let env : Env := [("result", .strct [("Status", .int 0)]), ("ph", ph), ("pgid", .int pgid), ("t", .nil), ("c", .nil)]
  match runBody lcfg ["result"] Gen.C11.traceLoop.body env { cancelled := cancelled, event := (pid, ws) } 3000 with
  | .ok (_, _, w) => .ok w.log
  | .error e => .error e

/-- the targets of killAll in the two runners: (signal target, signal) -/
def killTargets (f : Func) (pgid : Int) : Except String (List (Int × Int)) :=
  let c : Cfg (List (Int × Int)) :=
    { ext := fun n args _ w => match n, args with
        | "unix.Kill", [.int t, .int s] => .ok (.nil, w ++ [(t, s)])
        | _, _ => .error s!"unknown call {n}", glob := Classify.glob }
  match runBody c [] f.body [("pgid", .int pgid)] [] 100 with
  | .ok (_, _, w) => .ok w
  | .error e => .error e

end GoSandbox.Model.Cancel
