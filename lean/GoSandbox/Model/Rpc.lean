/-
Model of the container RPC protocol (container/host_*.go, container/container_*.go):
a labelled transition system host × container × two FIFO channels (the SEQPACKET socket in each
direction; the capacity-1 Go channels of the send/recv loops are extra queue slots and are folded
into the FIFOs).  Environment choices: how each Execve ends, whether/when the context is cancelled,
when the program exits.  `explore` enumerates every interleaving of one API call.  Core-only.
-/
namespace GoSandbox.Model.Rpc

/-- host → container -/
inductive HMsg | ping | conf | open_ | delete | reset | symlink | execve | ok | kill
deriving DecidableEq, Repr

/-- container → host -/
inductive CMsg | reply | errReply | sync | result
deriving DecidableEq, Repr

/-- how an Execve ends (environment / program / request) -/
inductive Outcome
  | rejectBeforeFork     -- nil parameter, unknown / non-executable name (lookPath), bad fds
  | failBeforeSync       -- Start fails before the sync point (bad workdir, rlimit, …; empty argv)
  | callbackFails        -- the host's SyncFunc returns an error
  | failAfterAck         -- execve fails after the host acknowledged (ENOEXEC, missing interpreter)
  | runs                 -- the program runs and eventually exits (or is cancelled)
deriving DecidableEq, Repr

inductive Op
  | simple (m : HMsg) (fails : Bool)          -- Ping/Open/Delete/Reset/Symlink/conf; container answers reply or errReply
  | execve (syncAfter : Bool) (o : Outcome)
deriving DecidableEq, Repr

inductive HLoc
  | idle | sentSimple | sentExecve | killAfterCallback | waitAfterKill | waitForDone | cancelledWait
  | returned (ok : Bool)          -- the API call returned (ok = no error / a verdict about the program)
deriving DecidableEq, Repr

inductive CLoc
  | serve | execRecv | atSync | started | sentResult | consumeKill
  | dead                            -- init exited ("unknown command") : the whole container is gone
deriving DecidableEq, Repr

structure St where
  h : HLoc
  c : CLoc
  h2c : List HMsg
  c2h : List CMsg
  cancelled : Bool      -- the caller's context has been cancelled
  exited : Bool         -- the program has exited on its own
deriving DecidableEq, Repr

def St.init : St := ⟨.idle, .serve, [], [], false, false⟩

/-- `fixed` selects the repaired container (consumes the host's kill when exec fails after the ack) -/
structure Cfg where
  fixed : Bool
  op : Op
deriving DecidableEq, Repr

/-- all successor states (host steps, container steps, environment events) -/
def steps (g : Cfg) (s : St) : List St :=
  -- host
  (match s.h, g.op with
   | .idle, .simple m _ => [{ s with h := .sentSimple, h2c := s.h2c ++ [m] }]
   | .idle, .execve _ _ => [{ s with h := .sentExecve, h2c := s.h2c ++ [.execve] }]
   | .sentSimple, _ => (match s.c2h with
      | .reply :: r => [{ s with h := .returned true, c2h := r }]
      | _ :: r => [{ s with h := .returned false, c2h := r }]
      | [] => [])
   | .sentExecve, .execve _ o => (match s.c2h with
      | .sync :: r =>
        if o = .callbackFails then [{ s with h := .killAfterCallback, c2h := r }]
        else [{ s with h := .waitForDone, c2h := r, h2c := s.h2c ++ [.ok] }]
      | _ :: r => [{ s with h := .returned false, c2h := r }]      -- error reply: the call fails
      | [] => [])
   | .killAfterCallback, _ => [{ s with h := .waitAfterKill, h2c := s.h2c ++ [.kill] }]
   | .waitAfterKill, _ => (match s.c2h with
      | _ :: r => [{ s with h := .returned false, c2h := r }]
      | [] => [])
   | .waitForDone, _ =>
      (match s.c2h with
       | m :: r => [{ s with h := .returned (m = .result), c2h := r, h2c := s.h2c ++ [.kill] }]
       | [] => []) ++
      (if s.cancelled then [{ s with h := .cancelledWait, h2c := s.h2c ++ [.kill] }] else [])
   | .cancelledWait, _ => (match s.c2h with
      | m :: r => [{ s with h := .returned (m = .result), c2h := r }]
      | [] => [])
   | _, _ => []) ++
  -- transport lost: the container is gone and nothing is left to read: `done` is closed, every wait returns
  (if s.c = .dead ∧ s.c2h = [] then
     (match s.h with
      | .returned _ => []
      | .idle => []
      | _ => [{ s with h := .returned false }])
   else []) ++
  -- container
  (match s.c, g.op with
   | .serve, op => (match s.h2c with
      | .execve :: r => [{ s with c := .execRecv, h2c := r }]
      | .ok :: r => [{ s with c := .dead, h2c := r }]
      | .kill :: r => [{ s with c := .dead, h2c := r }]
      | _ :: r => (match op with
          | .simple _ fails => [{ s with h2c := r, c2h := s.c2h ++ [if fails then .errReply else .reply] }]
          | _ => [{ s with h2c := r, c2h := s.c2h ++ [.reply] }])
      | [] => [])
   | .execRecv, .execve _ o =>
      if o = .rejectBeforeFork ∨ o = .failBeforeSync then [{ s with c := .serve, c2h := s.c2h ++ [.errReply] }]
      else [{ s with c := .atSync, c2h := s.c2h ++ [.sync] }]
   | .atSync, .execve syncAfter o => (match s.h2c with
      | .kill :: r => [{ s with c := .serve, h2c := r, c2h := s.c2h ++ [if syncAfter then .result else .errReply] }]
      | .ok :: r =>
        if o = .failAfterAck ∧ ¬ syncAfter then
          (if g.fixed then [{ s with c := .consumeKill, h2c := r, c2h := s.c2h ++ [.errReply] }]
           else [{ s with c := .serve, h2c := r, c2h := s.c2h ++ [.errReply] }])
        else [{ s with c := .started, h2c := r }]
      | _ :: r => [{ s with c := .started, h2c := r }]   -- any other command counts as "not kill"
      | [] => [])
   | .started, _ =>
      (match s.h2c with
       | _ :: r => [{ s with c := .serve, h2c := r, c2h := s.c2h ++ [.result] }]    -- kill received: kill all, report
       | [] => []) ++
      (if s.exited then [{ s with c := .sentResult, c2h := s.c2h ++ [.result] }] else [])
   | .sentResult, _ => (match s.h2c with
      | _ :: r => [{ s with c := .serve, h2c := r }]
      | [] => [])
   | .consumeKill, _ => (match s.h2c with
      | _ :: r => [{ s with c := .serve, h2c := r }]
      | [] => [])
   | _, _ => []) ++
  -- environment: the program exits / the context is cancelled, at any moment of a running Execve
  (match g.op with
   | .execve _ _ =>
     (if ¬ s.exited ∧ s.c = .started then [{ s with exited := true }] else []) ++
     (if ¬ s.cancelled then [{ s with cancelled := true }] else [])
   | _ => [])

def insertNew (seen : List St) (xs : List St) : List St × List St :=
  xs.foldl (fun (acc : List St × List St) x => if acc.1.contains x then acc else (x :: acc.1, x :: acc.2)) (seen, [])

/-- breadth-first closure: all states reachable from `frontier` (fuel bounds the depth) -/
def explore (g : Cfg) : Nat → List St → List St → List St
  | 0, seen, _ => seen
  | fuel + 1, seen, frontier =>
    if frontier.isEmpty then seen else
    let nxt := frontier.flatMap (steps g)
    let (seen', new) := insertNew seen nxt
    explore g fuel seen' new

def reachable (g : Cfg) : List St := explore g 40 [St.init] [St.init]

/-- terminal: nothing can happen any more — no protocol step and no environment event (the
program's exit and the cancellation are eventually delivered: every run is extended until then) -/
def quiescent (g : Cfg) (s : St) : Bool := (steps g s).isEmpty

/-- host and container agree that no command is in progress and nothing is in flight -/
def inSync (s : St) : Bool :=
  (match s.h with | .returned _ => true | _ => false) && s.c == .serve && s.h2c.isEmpty && s.c2h.isEmpty

def terminals (g : Cfg) : List St := (reachable g).filter (quiescent g)

def allOps : List Op :=
  [HMsg.ping, .conf, .open_, .delete, .reset, .symlink].flatMap (fun m => [Op.simple m false, Op.simple m true]) ++
  [true, false].flatMap (fun sa => [Outcome.rejectBeforeFork, .failBeforeSync, .callbackFails, .failAfterAck, .runs].map (fun o => Op.execve sa o))

/-! ### the controlling process dies (C16) -/

/-- steps after the host process has been killed in state `s`: the host never moves again; the
container consumes what was already in flight; a receive on the empty, closed socket is EOF
(`done` is closed: every select of the container has that alternative) and init exits. -/
def crashSteps (g : Cfg) (s : St) : List St :=
  if s.c = .dead then [] else
  let s' := { s with h := .returned false }
  let cs := (steps g s').filter (fun t => t.c ≠ s'.c ∨ t.h2c ≠ s'.h2c ∨ t.c2h ≠ s'.c2h ∨ t.exited ≠ s'.exited)
  if cs.isEmpty then [{ s' with c := .dead }] else cs

/-- longest crash run from `s` reaches `dead` within the fuel? (all maximal runs) -/
def crashAllDie (g : Cfg) : Nat → St → Bool
  | 0, s => s.c == .dead
  | fuel + 1, s =>
    if s.c == .dead then true else
    match crashSteps g s with
    | [] => false
    | nxt => nxt.all (crashAllDie g fuel)

/-! ### observable events and trace inclusion -/

inductive Ev
  | hs (m : HMsg) | hr (m : CMsg)      -- host sends / receives
  | cr (m : HMsg) | cs (m : CMsg)      -- container receives / sends
deriving DecidableEq, Repr

/-- the messages moved by a step s → t (receive before send within one step) -/
def eventsOf (s t : St) : List Ev :=
  (if t.c2h.length < s.c2h.length ∧ s.h ≠ t.h then (match s.c2h.head? with | some m => [Ev.hr m] | none => []) else []) ++
  (if t.h2c.length > s.h2c.length ∧ s.h ≠ t.h then (match t.h2c.getLast? with | some m => [Ev.hs m] | none => []) else []) ++
  (if s.c ≠ t.c ∨ s.h = t.h then
    (if t.h2c.length < s.h2c.length then (match s.h2c.head? with | some m => [Ev.cr m] | none => []) else []) ++
    (if t.c2h.length > s.c2h.length then (match t.c2h.getLast? with | some m => [Ev.cs m] | none => []) else [])
   else [])

def hostEv : Ev → Bool | .hs _ | .hr _ => true | _ => false

/-- all maximal runs from `s`, as (event list, final state); depth-bounded -/
def runs (g : Cfg) : Nat → St → List (List Ev × St)
  | 0, s => [([], s)]
  | fuel + 1, s =>
    match steps g s with
    | [] => [([], s)]
    | nxt => nxt.flatMap (fun t => (runs g fuel t).map (fun r => (eventsOf s t ++ r.1, r.2)))

def isHs : Ev → Bool | .hs _ => true | _ => false
def isHr : Ev → Bool | .hr _ => true | _ => false
def isCr : Ev → Bool | .cr _ => true | _ => false
def isCs : Ev → Bool | .cs _ => true | _ => false

/-- are the four per-goroutine message sequences (host sent / host received / container received /
container sent) and the API result the observation of some run of the model? -/
def explains (g : Cfg) (hs hr cr cs : List Ev) (apiOk : Bool) : Bool :=
  (runs g 30 St.init).any (fun r =>
    r.1.filter isHs == hs && r.1.filter isHr == hr && r.1.filter isCr == cr && r.1.filter isCs == cs &&
    r.2.h == .returned apiOk)

end GoSandbox.Model.Rpc
