import GoSandbox.Base.Proto
import GoSandbox.Model.FdShuffleRun
namespace GoSandbox.Driver.C06
open GoSandbox.Proto GoSandbox.Model.FdShuffleRun

def handle : List String → Option String
  | ["c06.shuffle", files, p0, p1, exec, openFds, vf] => do
    let fs ← (splitList files).mapM intOf
    match shuffle fs (← p0.toNat?) (← p1.toNat?) (← exec.toNat?) (← natList openFds) (vf == "1") with
    | .ok r =>
      let t := joinList (r.table.map (fun e => s!"{e.1}:{e.2}"))
      let ef := match r.execFdFile with | some f => toString f | none => "-"
      let ex := match r.exited with | some c => toString c | none => "-"
      let hand := if handAgrees fs (← p0.toNat?) (← p1.toNat?) (← exec.toNat?) (← natList openFds) (vf == "1") then "1" else "0"
      some s!"{t} execfile={ef} caller_exec={r.callerExec} exited={ex} hand={hand}"
    | .error e => some ("error " ++ hex e.toList)
  | _ => none

end GoSandbox.Driver.C06
