/-
C02: which registers of a trapped path syscall are (dirfd, pathname), which access class is asked,
how a directory descriptor is decoded, and the open-flag classification — read off the regenerated
`Handle`/`check*` functions (Gen.C02) by the Go-lite interpreter and by AST inspection.  Core-only.
-/
import GoSandbox.GoLite.Exec
import GoSandbox.Gen.C02
import GoSandbox.Gen.Consts
import GoSandbox.Model.PathResolve
namespace GoSandbox.Model.PathDispatch
open GoSandbox.GoLite GoSandbox.Model.PathResolve

/-! ### open flags -/

def O_ACCMODE : Nat := Gen.Consts.syscall_O_ACCMODE
def O_CREAT : Nat := Gen.Consts.syscall_O_CREAT
def O_EXCL : Nat := Gen.Consts.syscall_O_EXCL
def O_TRUNC : Nat := Gen.Consts.syscall_O_TRUNC

/-- hand model of Go `isOpenReadOnly` -/
def isOpenReadOnly (flags : Nat) : Bool :=
  (flags &&& O_ACCMODE == 0) && (flags &&& O_CREAT == 0) && (flags &&& O_EXCL == 0) && (flags &&& O_TRUNC == 0)

/-- kernel: the open may write (access mode not O_RDONLY), create or truncate -/
def mayModify (flags : Nat) : Bool :=
  (flags &&& O_ACCMODE != 0) || (flags &&& O_CREAT != 0) || (flags &&& O_TRUNC != 0)

def constGlob (n : String) : Option Val :=
  (Gen.Consts.table.find? (fun p => p.1 == n)).map (fun p => Val.int p.2)

def genIsOpenReadOnly (flags : Nat) : Option Bool :=
  match runBody ({ ext := fun n _ _ _ => .error s!"unknown call {n}", glob := constGlob } : Cfg Unit) [] Gen.C02.isOpenReadOnly.body [("flags", .int flags)] () 200 with
  | .ok (some [.bool b], _, _) => some b
  | _ => none

/-- every subset of {access-mode bits, O_CREAT, O_EXCL, O_TRUNC}, alone and with unrelated bits
(O_CLOEXEC|O_DIRECTORY|O_NOFOLLOW|O_PATH|O_APPEND = 0o2000000|0o200000|0o400000|0o10000000|0o2000) -/
def relevantFlagWords : List Nat :=
  let bits := [1, 2, O_CREAT, O_EXCL, O_TRUNC]
  let subsets := bits.foldl (fun acc b => acc ++ acc.map (· + b)) [0]
  subsets ++ subsets.map (· + 0o2000000 + 0o200000 + 0o400000 + 0o10000000 + 0o2000) ++ subsets.map (· + 2 ^ 40)

/-! ### dispatch -/

structure DW where
  log : List (String × List Int) := []

def intsOf (l : List Val) : List Int := l.filterMap (fun v => match v with | .int i => some i | _ => none)

def dext (sysName : String) (name : String) (args : List Val) (_ : Env) (w : DW) : Except String (Val × DW) :=
  match name with
  | "ctx.SyscallNo" => .ok (.int 0, w)
  | "libseccomp.ToSyscallName" => .ok (.tup [.str sysName, .nil], w)
  | "h.Debug" => .ok (.nil, w)
  | "ctx.Arg0" => .ok (.int 0, w) | "ctx.Arg1" => .ok (.int 1, w) | "ctx.Arg2" => .ok (.int 2, w)
  | "ctx.Arg3" => .ok (.int 3, w) | "ctx.Arg4" => .ok (.int 4, w) | "ctx.Arg5" => .ok (.int 5, w)
  | "combineTraceActions" => .ok (.str "allow", w)
  | "softBanSyscall" => .ok (.str "ban", w)
  | "h.Handler.CheckSyscall" => .ok (.str "allow", { w with log := w.log ++ [("CheckSyscall", [])] })
  | _ =>
    if name.startsWith "h.check" then .ok (.str "allow", { w with log := w.log ++ [(String.ofList (name.toList.drop 2), intsOf args)] })
    else .error s!"unknown call {name}"

def dglob (n : String) : Option Val :=
  match n with
  | "ptracer.TraceAllow" => some (.str "allow")
  | "ptracer.TraceBan" => some (.str "ban")
  | "ptracer.TraceKill" => some (.str "kill")
  | _ => none

/-- the checks `Handle` performs for a syscall name, with the argument registers they receive -/
def genDispatch (sysName : String) : Option (List (String × List Int)) :=
  match runBody ({ ext := dext sysName, glob := dglob } : Cfg DW) [] Gen.C02.h_Handle.body
      [("ctx", .strct [("Pid", .int 1)]), ("h", .strct [("Unsafe", .bool false)])] {} 2000 with
  | .ok (some [.str "allow"], _, w) => some w.log
  | _ => none

/-- the Linux ABI: which registers are the (dirfd, pathname[, flags/how]) of each path syscall the
handler traps (transcribed from the kernel's syscall prototypes) -/
def abiTable : List (String × List (String × List Int)) := [
  ("open", [("checkOpen", [0, 1])]),                       -- open(path, flags, mode)
  ("openat", [("checkOpenAt", [0, 1, 2])]),                -- openat(dfd, path, flags, mode)
  ("openat2", [("checkOpenAt2", [0, 1, 2])]),              -- openat2(dfd, path, how, size)
  ("readlink", [("checkRead", [0])]),
  ("readlinkat", [("checkReadAt", [0, 1])]),
  ("unlink", [("checkWrite", [0])]),
  ("unlinkat", [("checkWriteAt", [0, 1])]),
  ("mkdirat", [("checkWriteAt", [0, 1])]),
  ("mknodat", [("checkWriteAt", [0, 1])]),
  ("fchmodat", [("checkWriteAt", [0, 1])]),
  ("fchmodat2", [("checkWriteAt", [0, 1])]),
  ("symlinkat", [("checkWriteAt", [1, 2])]),               -- symlinkat(target, newdfd, linkpath)
  ("linkat", [("checkWriteAt", [0, 1]), ("checkWriteAt", [2, 3])]),
  ("renameat", [("checkWriteAt", [0, 1]), ("checkWriteAt", [2, 3])]),
  ("renameat2", [("checkWriteAt", [0, 1]), ("checkWriteAt", [2, 3])]),
  ("access", [("checkStat", [0])]),
  ("faccessat", [("checkStatAt", [0, 1])]),
  ("faccessat2", [("checkStatAt", [0, 1])]),
  ("stat", [("checkStat", [0])]),
  ("lstat", [("checkStat", [0])]),
  ("statx", [("checkStatAt", [0, 1])]),
  ("newfstatat", [("checkStatAt", [0, 1])]),
  ("execve", [("checkRead", [0])]),
  ("execveat", [("checkReadAt", [0, 1])]),
  ("chmod", [("checkWrite", [0])]),
  ("rename", [("checkWrite", [0]), ("checkWrite", [1])]),
  ("getpid", [("CheckSyscall", [])])]

/-! ### the class each check asks for -/

structure CW where
  log : List String := []

def cext (ro : Bool) (howOk : Bool) (name : String) (_ : List Val) (_ : Env) (w : CW) : Except String (Val × CW) :=
  match name with
  | "h.getString" | "h.getStringAt" => .ok (.str "/P", { w with log := w.log ++ [name] })
  | "h.checkProcPath" => .ok (.tup [.bool false, .str "allow"], w)
  | "h.Debug" | "getFileMode" => .ok (.nil, w)
  | "isOpenReadOnly" => .ok (.bool ro, w)
  | "uint64" | "uint" | "uintptr" => .ok (.int 0, w)
  | "readOpenHowFlags" => .ok (.tup [.int 0, if howOk then .nil else .str "EIO"], w)
  | "h.Handler.CheckRead" => .ok (.str "allow", { w with log := w.log ++ ["CheckRead"] })
  | "h.Handler.CheckWrite" => .ok (.str "allow", { w with log := w.log ++ ["CheckWrite"] })
  | "h.Handler.CheckStat" => .ok (.str "allow", { w with log := w.log ++ ["CheckStat"] })
  | _ => .error s!"unknown call {name}"

def genCheck (f : Func) (ro howOk : Bool) : Option (List String) :=
  let args : Env := (f.params.map (fun p => (p, if p == "ctx" then Val.strct [("Pid", .int 1)] else if p == "h" then Val.strct [] else Val.int 7))).reverse
  match runBody ({ ext := cext ro howOk, glob := dglob } : Cfg CW) [] f.body args {} 400 with
  | .ok (some [.str "allow"], _, w) => some w.log
  | _ => none

/-- (function, flags read-only?, open_how readable?) ↦ how the path is obtained and the class asked -/
def classTable : List (Func × Bool × Bool × List String) := [
  (Gen.C02.h_checkOpen, true, true, ["h.getString", "CheckRead"]),
  (Gen.C02.h_checkOpen, false, true, ["h.getString", "CheckWrite"]),
  (Gen.C02.h_checkOpenAt, true, true, ["h.getStringAt", "CheckRead"]),
  (Gen.C02.h_checkOpenAt, false, true, ["h.getStringAt", "CheckWrite"]),
  (Gen.C02.h_checkOpenAt2, true, true, ["h.getStringAt", "CheckRead"]),
  (Gen.C02.h_checkOpenAt2, false, true, ["h.getStringAt", "CheckWrite"]),
  (Gen.C02.h_checkOpenAt2, true, false, ["h.getStringAt", "CheckWrite"]),     -- unreadable open_how: fail closed
  (Gen.C02.h_checkRead, true, true, ["h.getString", "CheckRead"]),
  (Gen.C02.h_checkReadAt, true, true, ["h.getStringAt", "CheckRead"]),
  (Gen.C02.h_checkWrite, true, true, ["h.getString", "CheckWrite"]),
  (Gen.C02.h_checkWriteAt, true, true, ["h.getStringAt", "CheckWrite"]),
  (Gen.C02.h_checkStat, true, true, ["h.getString", "CheckStat"]),
  (Gen.C02.h_checkStatAt, true, true, ["h.getStringAt", "CheckStat"])]

/-! ### directory-descriptor decoding -/

/-! all call expressions in a statement list (fuel-bounded traversal) -/
mutual
def callsE : Nat → Expr → List (String × List Expr)
  | 0, _ => []
  | f + 1, e =>
    match e with
    | .call g args => (dotted g, args) :: (callsE f g ++ callsEs f args)
    | .sel x _ => callsE f x
    | .bin _ a b => callsE f a ++ callsE f b
    | .un _ a => callsE f a
    | .idx a i => callsE f a ++ callsE f i
    | .star a => callsE f a
    | _ => []
def callsEs : Nat → List Expr → List (String × List Expr)
  | 0, _ => []
  | _ + 1, [] => []
  | f + 1, e :: r => callsE f e ++ callsEs f r
end

mutual
def callsS : Nat → Stmt → List (String × List Expr)
  | 0, _ => []
  | f + 1, s =>
    match s with
    | .assign l _ r => callsEs f l ++ callsEs f r
    | .decl _ v => callsEs f v
    | .expr e => callsE f e
    | .ifs i c t e => callsSs f i ++ callsE f c ++ callsSs f t ++ callsSs f e
    | .for_ i c p b => callsSs f i ++ (match c with | some c => callsE f c | none => []) ++ callsSs f p ++ callsSs f b
    | .range _ _ x b => callsE f x ++ callsSs f b
    | .switch i t cs => callsSs f i ++ (match t with | some t => callsE f t | none => []) ++ callsCases f cs
    | .ret v => callsEs f v
    | .block b => callsSs f b
    | _ => []
def callsSs : Nat → List Stmt → List (String × List Expr)
  | 0, _ => []
  | _ + 1, [] => []
  | f + 1, s :: r => callsS f s ++ callsSs f r
def callsCases : Nat → List (List Expr × List Stmt) → List (String × List Expr)
  | 0, _ => []
  | _ + 1, [] => []
  | f + 1, c :: r => callsEs f c.1 ++ callsSs f c.2 ++ callsCases f r
end

/-- the dirfd argument expression of every `h.check*At` call in the regenerated Handle -/
def dirfdSites : List Expr :=
  (callsSs 60 Gen.C02.h_Handle.body).filterMap (fun c =>
    if c.1.startsWith "h.check" && (c.1.endsWith "At" || c.1.endsWith "At2") then c.2[1]? else none)

def isInt32Chain : Expr → Bool
  | .call (.id "int") [.call (.id "int32") [.call (.sel (.id "ctx") _) []]] => true
  | _ => false

/-- `int(int32(reg))` with the interpreter's conversions -/
def decodeDirfd (reg : Nat) : Int :=
  match conv "int32" (.int reg) with
  | some v => (match conv "int" v with | some (.int i) => i | _ => 0)
  | none => 0

/-- the kernel: `int dfd` = the low 32 bits of the register, as a signed number -/
def kernelDirfd (reg : Nat) : Int :=
  let lo : Int := (reg % 2 ^ 32 : Nat)
  if lo < 2 ^ 31 then lo else lo - 2 ^ 32

/-! ### concrete forests for the regenerated resolver -/

def wA : World where
  cwd := "/w"
  fds := [(5, "/a/b")]
  links := [("/w/link", "/a/b"), ("/a/l2", "b/../c"), ("/w/rel", "../a/l2"), ("/a/b/up", ".."), ("/w/chain", "link/up/l2")]

/-- (world, base, path, expected canonical path) -/
def genCases : List (World × String × String × String) := [
  (wA, "/w", "link/../x", "/a/x"),                 -- ".." after a symlink (pinned tree: /w/x)
  (wA, "/w", "rel/y", "/a/c/y"),                   -- relative target ending in a link with ".." inside
  (wA, "/w", "chain", "/a/c"),                     -- link → link/up/l2
  (wA, "/w", "./link//up/./b", "/a/b"),
  (wA, "/", "/proc/self/status", "/proc/4242/status"),
  (wA, "/", "/w/../proc/./self/../thread-self/x", "/proc/4242/task/4242/x"),
  (wA, "/w", "../../../a", "/a"),
  (wA, "/w", "", "/w")]

/-! ### chains of links at the kernel's limit (40 links followed per lookup) -/

def chainName (i : Nat) : String := "c" ++ String.ofList (List.replicate i 'x')

/-- `/w/cx -> cxx -> … -> c(x^n) -> /a/t`: a chain of exactly `n` links -/
def chainWorld (n : Nat) : World where
  cwd := "/w"
  fds := []
  links := (List.range n).map (fun i => ("/w/" ++ chainName (i + 1), if i + 1 == n then "/a/t" else chainName (i + 2)))


end GoSandbox.Model.PathDispatch
