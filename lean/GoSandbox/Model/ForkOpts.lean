/-
Option sets of a launch (`forkexec.Runner` abstracted to what forkAndExecInChild branches on) and
their encoding as the Go-lite value of `r`. Core-only.
-/
import GoSandbox.Model.ForkChildRun
namespace GoSandbox.Model.ForkOpts
open GoSandbox.GoLite GoSandbox.Model.ForkChildRun

structure Opts where
  cred : Bool := false
  noSetGroups : Bool := false
  gidMappings : Bool := false
  enableSetgroups : Bool := false
  groups : Nat := 0            -- number of supplementary groups in the credential
  dropCaps : Bool := false
  nnp : Bool := false
  seccomp : Bool := false
  ptrace : Bool := false
  stopBefore : Bool := false
  syncFunc : Bool := false
  ucas : Bool := false          -- UnshareCgroupAfterSync
  newUser : Bool := false
  newPid : Bool := false
  newNs : Bool := false
  newUts : Bool := false
  newIpc : Bool := false
  newNet : Bool := false
  newCgroup : Bool := false
  pivot : Bool := false
  cgroupFd : Bool := false
  ctty : Bool := false
  workdir : Bool := false
  hostname : Bool := false
  domainname : Bool := false
  files : List Int := []        -- as uintptr values (2^64-1 = "close this slot")
  execFile : Nat := 0
  nMounts : Nat := 0
  roBindMount : Bool := false   -- make the mounts read-only binds (remount path)
  nRlimits : Nat := 0
deriving Repr, DecidableEq, Inhabited

def cloneFlags (o : Opts) : Int :=
  (if o.newUser then cNat "unix.CLONE_NEWUSER" else 0) + (if o.newPid then cNat "unix.CLONE_NEWPID" else 0) +
  (if o.newNs then cNat "unix.CLONE_NEWNS" else 0) + (if o.newUts then cNat "unix.CLONE_NEWUTS" else 0) +
  (if o.newIpc then cNat "unix.CLONE_NEWIPC" else 0) + (if o.newNet then cNat "unix.CLONE_NEWNET" else 0) +
  (if o.newCgroup then cNat "unix.CLONE_NEWCGROUP" else 0)

def mountVal (o : Opts) (i : Nat) : Val :=
  .strct [("Source", .str s!"src{i}"), ("Target", .str s!"tgt{i}"), ("FsType", .str ""), ("Data", .nil),
    ("Flags", .int (if o.roBindMount then cNat "bindRo" else cNat "syscall.MS_BIND")),
    ("Prefixes", .list [.str s!"tgt{i}"]), ("MakeNod", .bool false)]

def rOf (o : Opts) : Val :=
  .strct [
    ("Files", .list (o.files.map Val.int)),
    ("ExecFile", .int o.execFile),
    ("CloneFlags", .int (cloneFlags o)),
    ("SyncFunc", if o.syncFunc then .str "func" else .nil),
    ("Seccomp", if o.seccomp then .str "filter" else .nil),
    ("Ptrace", .bool o.ptrace),
    ("StopBeforeSeccomp", .bool o.stopBefore),
    ("NoNewPrivs", .bool o.nnp),
    ("DropCaps", .bool o.dropCaps),
    ("UnshareCgroupAfterSync", .bool o.ucas),
    ("CTTY", .bool o.ctty),
    ("CgroupFd", .int (if o.cgroupFd then 77 else 0)),
    ("Credential", if o.cred then .strct [("Uid", .int 1000), ("Gid", .int 1001),
        ("Groups", .list (List.replicate o.groups (.int 5))), ("NoSetGroups", .bool o.noSetGroups)] else .nil),
    ("GIDMappings", if o.gidMappings then .list [.str "map"] else .nil),
    ("GIDMappingsEnableSetgroups", .bool o.enableSetgroups),
    ("Mounts", .list ((List.range o.nMounts).map (mountVal o))),
    ("RLimits", .list ((List.range o.nRlimits).map (fun (i : Nat) => Val.strct [("Res", .int (Int.ofNat i)), ("Rlim", .strct [("Cur", .int 5), ("Max", .int 6)])]))),
    ("HostName", .str "host"), ("DomainName", .str "dom")]

def launchOf (o : Opts) (p0 p1 : Nat := 100) : Launch :=
  { r := rOf o,
    workdir := if o.workdir then .str "/w" else .nil,
    hostname := if o.hostname then .str "host" else .nil,
    domainname := if o.domainname then .str "dom" else .nil,
    pivotRoot := if o.pivot then .str "/root" else .nil,
    p0 := p0, p1 := p1 }

/-- syscall names of the child's trace, oldest first -/
def traceNames (w : KW) : List String := w.trace.reverse.map (fun s => sysName s.nr)

end GoSandbox.Model.ForkOpts
