/-
Model of pkg/unixsocket over an abstract SOCK_SEQPACKET socketpair (C19).
Kernel side: a FIFO of packets (payload, passed files, credentials); recvmsg with a data buffer
of `dcap` bytes and room for `fcap` descriptors in the control buffer delivers the head packet,
truncating data (MSG_TRUNC) or control data (MSG_CTRUNC) — descriptors that fit are installed in
the receiver's table even when the message is truncated.  Library side: SendMsg, RecvMsg
(reject-on-truncation, closing what the kernel installed), with the receiver's descriptor ledger.
Core-only.
-/
namespace GoSandbox.Model.Socket

structure Packet where
  data : List Nat
  files : List Nat          -- identities of the open files passed with the message
  cred : Option (Nat × Nat × Nat)
deriving DecidableEq, Repr

def scmMaxFd : Nat := 253

/-- sendmsg: refused outright when more than SCM_MAX_FD descriptors are attached; otherwise queued whole -/
def send (q : List Packet) (p : Packet) : Option (List Packet) :=
  if p.files.length > scmMaxFd then none else some (q ++ [p])

structure Recv where
  data : List Nat
  files : List Nat
  cred : Option (Nat × Nat × Nat)
  trunc : Bool          -- MSG_TRUNC | MSG_CTRUNC
deriving DecidableEq, Repr

/-- kernel recvmsg on the head packet -/
def krecv (p : Packet) (dcap fcap : Nat) : Recv :=
  ⟨p.data.take dcap, p.files.take fcap, p.cred, p.data.length > dcap || p.files.length > fcap⟩

/-- receiver state: queue, and the ledger of descriptors currently open in the receiving process
that came from this socket and have not been handed to the caller -/
structure RState where
  queue : List Packet
  leaked : List Nat := []      -- installed by the kernel, neither handed over nor closed
deriving DecidableEq, Repr

inductive ROut
  | msg (data : List Nat) (files : List Nat) (cred : Option (Nat × Nat × Nat))
  | truncated
  | empty
deriving DecidableEq, Repr

/-- Go: `(*Socket).RecvMsg`. `closeOnReject` = the repaired code closes the descriptors that
arrived with a rejected message; the pinned tree returned before looking at the control data. -/
def recvMsg (closeOnReject : Bool) (s : RState) (dcap fcap : Nat) : ROut × RState :=
  match s.queue with
  | [] => (.empty, s)
  | p :: rest =>
    let r := krecv p dcap fcap
    if r.trunc then
      (.truncated, { queue := rest, leaked := if closeOnReject then s.leaked else s.leaked ++ r.files })
    else (.msg r.data r.files r.cred, { queue := rest, leaked := s.leaked })

/-- a history of operations on one direction of the socket -/
inductive Op
  | send (p : Packet)
  | recv (dcap fcap : Nat)
deriving DecidableEq, Repr

/-- run a history; returns the successful sends, the successful receives (in order) and the final state -/
def run (closeOnReject : Bool) : List Op → RState → List Packet × List ROut × RState
  | [], s => ([], [], s)
  | .send p :: rest, s =>
    match send s.queue p with
    | none => run closeOnReject rest s
    | some q =>
      let r := run closeOnReject rest { s with queue := q }
      (p :: r.1, r.2.1, r.2.2)
  | .recv d f :: rest, s =>
    let (o, s') := recvMsg closeOnReject s d f
    let r := run closeOnReject rest s'
    (r.1, o :: r.2.1, r.2.2)

end GoSandbox.Model.Socket
