/-
Hand model of the parent side of a launch: forkexec.syncWithChild / handlePipeError /
handleChildFailed, as a function of what the child sends on the sync socket.  (The Go function
uses `goto`, which the Go-lite subset does not cover; it is tied by the real fault-injection
differential of the harness.)  Core-only.
-/
namespace GoSandbox.Model.SyncParent

structure ChildError where
  err : Nat
  location : Nat
  index : Nat
deriving DecidableEq, Repr

/-- one read from the sync socket as the parent sees it: number of bytes and the (partially
filled) ChildError buffer; `n = 0` is EOF (child exec'd or died without writing) -/
structure Msg where
  n : Nat
  ce : ChildError
deriving DecidableEq, Repr

inductive Act | closeP1 | closeP0 | writeIdmapResult (e : Nat) | callSyncFunc | ackChild | kill | wait4 | spawnReader
deriving DecidableEq, Repr

structure Cfg where
  unshareUser : Bool
  hasSyncFunc : Bool
  earlyReturn : Bool      -- StopBeforeSeccomp || (Seccomp && Ptrace)
deriving DecidableEq, Repr

inductive Res
  | pid
  | childError (ce : ChildError)
  | otherError      -- error value of the sync callback
deriving DecidableEq, Repr

def sizeofErrno : Nat := 8
def sizeofChildError : Nat := 24
def EPIPE : Nat := 32
def locClone : Nat := 1

/-- Go: handlePipeError -/
def handlePipeError (n errno : Nat) : Nat := if n ≥ sizeofErrno then errno else EPIPE

/-- Go: syncWithChild. `cloneErr` = errno of clone (0 = ok); `idmapErr` = result of writeIDMaps;
`first` = the read before the callback (only with a sync callback); `syncErr` = the callback failed;
`second` = the read after the ack (only without early return). -/
def syncWithChild (c : Cfg) (cloneErr idmapErr : Nat) (first : Msg) (syncErr : Bool) (second : Msg) : Res × List Act :=
  if cloneErr ≠ 0 then (.childError ⟨cloneErr, locClone, 0⟩, [.closeP1, .closeP0]) else
  let a0 := [Act.closeP1] ++ (if c.unshareUser then [Act.writeIdmapResult idmapErr] else [])
  let fail (ce : ChildError) (acts : List Act) (other : Bool) : Res × List Act :=
    (if ce.err = 0 ∧ other then .otherError else .childError ce, acts ++ [.kill, .wait4])
  if c.hasSyncFunc then
    if (first.n ≠ sizeofErrno ∧ first.n ≠ sizeofChildError) ∨ first.ce.err ≠ 0 then
      fail { first.ce with err := handlePipeError first.n first.ce.err } (a0 ++ [.closeP0]) false
    else if syncErr then
      fail first.ce (a0 ++ [.callSyncFunc, .closeP0]) true
    else
      let a1 := a0 ++ [.callSyncFunc, .ackChild]
      if c.earlyReturn then (.pid, a1 ++ [.spawnReader]) else
      if second.n ≠ 0 then fail { second.ce with err := handlePipeError second.n second.ce.err } (a1 ++ [.closeP0]) false
      else (.pid, a1 ++ [.closeP0])
  else
    if c.earlyReturn then (.pid, a0 ++ [.spawnReader]) else
    if second.n ≠ 0 then fail { second.ce with err := handlePipeError second.n second.ce.err } (a0 ++ [.closeP0]) false
    else (.pid, a0 ++ [.closeP0])

end GoSandbox.Model.SyncParent
