import GoSandbox.Base.Proto
import GoSandbox.Model.Classify
namespace GoSandbox.Driver.C09
open GoSandbox.Proto GoSandbox.Model.Classify

def b (s : String) : Bool := s == "1"

def handle : List String → Option String
  | ["c09.ptrace", pgid, pid, ws, ex, tr, so, te] => do
    let te' ← if te == "-" then some none else (unhex te).map (fun l => some (String.ofList l))
    match runPtrace (← pgid.toNat?) (← pid.toNat?) (← ws.toNat?) (b ex) (b tr) { setOptFails := b so, trapError := te' } with
    | .ok r => some s!"{r.status} {r.exitStatus} {bool01 r.finished} {bool01 r.execved} {hex r.errStr.toList}"
    | .error e => some ("error " ++ hex e.toList)
  | ["c09.container", ws, we] => do
    match runContainer (← ws.toNat?) (b we) with
    | .ok r => some s!"{r.status} {r.exitStatus} {bool01 (r.error != "")}"
    | .error e => some ("error " ++ hex e.toList)
  | ["c09.unshare", ws, ut, rss, tl, ml] => do
    match runUnshare (← ws.toNat?) (← ut.toNat?) (← rss.toNat?) (← tl.toNat?) (← ml.toNat?) with
    | .ok r => some s!"{bool01 r.returned} {r.status} {r.exitStatus}"
    | .error e => some ("error " ++ hex e.toList)
  | _ => none

end GoSandbox.Driver.C09
