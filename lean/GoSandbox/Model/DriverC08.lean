import GoSandbox.Base.Proto
import GoSandbox.Model.RLimit
namespace GoSandbox.Driver.C08
open GoSandbox.Proto GoSandbox.Model.RLimit

def showEntries (es : List Entry) : String :=
  joinList (es.map (fun e => s!"{e.1}:{e.2.1}:{e.2.2}"))

def handle : List String → Option String
  | ["c08.prepare", cpu, hard, data, fs, st, as, nf, core] => do
    let r : RLimits := ⟨← cpu.toNat?, ← hard.toNat?, ← data.toNat?, ← fs.toNat?, ← st.toNat?, ← as.toNat?, ← nf.toNat?, core == "1"⟩
    let g := match genPrepare r with | .ok es => showEntries es | .error e => "error:" ++ e
    some s!"{g} {showEntries (prepare r)}"
  | ["c08.usage", ut, rss, tl, ml] => do
    let (ut, rss, tl, ml) := (← ut.toNat?, ← rss.toNat?, ← tl.toNat?, ← ml.toNat?)
    let g := match genCheckUsage ut rss tl ml with | .ok (a, b, c) => s!"{a} {b} {c}" | .error e => "error:" ++ e
    let m := checkUsage ut rss tl ml
    let v := match m.2.2 with | .normal => Gen.Consts.runner_StatusNormal | .tle => Gen.Consts.runner_StatusTimeLimitExceeded | .mle => Gen.Consts.runner_StatusMemoryLimitExceeded
    some s!"{g}|{m.1} {m.2.1} {v}"
  | ["c08.collect", cap, v] => do
    -- a stream of v bytes in 4 KiB chunks
    let v ← v.toNat?
    let chunks := (List.replicate (v / 4096) (List.replicate 4096 120)) ++ [List.replicate (v % 4096) 120]
    let r := collect (← cap.toNat?) chunks
    some s!"{r.1.length} {r.2}"
  | _ => none

end GoSandbox.Driver.C08
