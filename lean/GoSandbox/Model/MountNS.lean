/-
C05: the mount namespace built for a sandboxed program.
* `NS` / `applyOp` — an abstract kernel: mounts attached at (parent mount, path inside it), per-mount
  read-only bit (a new bind mount ignores MS_RDONLY; MS_REMOUNT|MS_BIND sets it), pivot_root,
  lazy unmount of the old root, directories created in the root tmpfs;
* `opsFor` — hand skeleton of the mount sequence (the raw in-child one and the container's
  initFileSystem differ only in the container's symlinks and masks), as a function of the table;
* `lookup`/`writable` — what a path inside the sandbox resolves to.
Core-only.
-/
namespace GoSandbox.Model.MountNS

abbrev Path := List String

inductive Fs
  | rootTmpfs
  | host (src : String)      -- a bind of a host file or directory
  | tmpfs
  | proc
  | devnull                  -- mask of a file
  | emptyTmpfs               -- mask of a directory
deriving DecidableEq, Repr

structure Mnt where
  parent : Nat        -- index of the mount it is attached in
  at_ : Path          -- path inside the parent
  target : Path       -- as named when it was created (relative to the new root)
  fs : Fs
  ro : Bool
deriving DecidableEq, Repr

structure NS where
  mounts : List Mnt := []
  /-- where the host's root tree is reachable from: `some []` = we still live in it,
  `some [old_root]` after pivot_root, `none` after it was detached -/
  host : Option Path := some []
  dirs : List Path := []         -- created in the root tmpfs (mkdirat / mknodat / MkdirAll)
  links : List (Path × String) := []
  pivoted : Bool := false
  /-- the namespace's mounts were made private (recursively) before anything else: mount and unmount events of
  the host's peer groups no longer propagate into it (a mount namespace created together with a user
  namespace receives its mounts as slaves of the host's) -/
  priv : Bool := false
deriving DecidableEq, Repr

/-- one mount remaps the positions under its attach point into itself -/
def remap (m : Mnt) (j : Nat) (cur : Nat × Path) : Nat × Path :=
  if j ≠ 0 ∧ cur.1 = m.parent ∧ m.at_.isPrefixOf cur.2 then (j, cur.2.drop m.at_.length) else cur

/-- where a path lands: fold over the mounts in creation order (index 0 is the root itself).
Equivalent to the kernel's walk: a mount created on top of an existing mount point is attached to
the root of the mount found there, so later mounts hide earlier ones exactly as positions are
remapped here. -/
def posAux : List Mnt → Nat → Nat × Path → Nat × Path
  | [], _, cur => cur
  | m :: rest, j, cur => posAux rest (j + 1) (remap m j cur)

def lookup (ns : NS) (p : Path) : Nat × Path := posAux ns.mounts 0 (0, p)

def writable (ns : NS) (p : Path) : Bool :=
  match ns.mounts[(lookup ns p).1]? with
  | some m => !m.ro
  | none => false

inductive Op
  | makePrivate                                   -- mount("none", "/", NULL, MS_REC|MS_PRIVATE)
  | mountRoot                                     -- mount("tmpfs", root, "tmpfs", 0); chdir(root)
  | mkdir (p : Path)                              -- mkdirat / MkdirAll component; EEXIST tolerated
  | mknod (p : Path)
  | mount (target : Path) (fs : Fs) (bind rdonly : Bool)        -- a new mount
  | remount (target : Path) (bind rdonly : Bool)                -- MS_REMOUNT
  | mkdirOld | pivot | umountOld | rmdirOld
  | symlink (p : Path) (target : String)
  | remountRootRo
deriving DecidableEq, Repr

def setRo : List Mnt → Nat → Bool → List Mnt
  | [], _, _ => []
  | m :: r, 0, ro => { m with ro := ro } :: r
  | m :: r, j + 1, ro => m :: setRo r j ro

/-- kernel semantics of one step; `none` = the call fails (the launch is aborted) -/
def applyOp (ns : NS) : Op → Option NS
  | .makePrivate => if ns.mounts.isEmpty then some { ns with priv := true } else none
  | .mountRoot => some { ns with mounts := [⟨0, [], [], .rootTmpfs, false⟩] }
  | .mkdir p | .mknod p =>
    if ns.dirs.contains p then some ns
    else if (lookup ns p).1 == 0 then (if writable ns p then some { ns with dirs := ns.dirs ++ [p] } else none)
    else some ns      -- inside another mount: exists there already or fails there; nothing changes in the root
  | .mount target fs bind rdonly =>
    let (par, rel) := lookup ns target
    -- a new bind mount ignores MS_RDONLY; other file systems honour it
    some { ns with mounts := ns.mounts ++ [⟨par, rel, target, fs, if bind then false else rdonly⟩] }
  | .remount target _ rdonly =>
    let (j, rel) := lookup ns target
    if rel == [] then some { ns with mounts := setRo ns.mounts j rdonly } else none
  | .mkdirOld => if writable ns ["old_root"] ∧ ¬ ns.dirs.contains ["old_root"] then some { ns with dirs := ns.dirs ++ [["old_root"]] } else none
  | .pivot => if ns.dirs.contains ["old_root"] ∧ ns.host = some [] then some { ns with host := some ["old_root"], pivoted := true } else none
  | .umountOld => if ns.host = some ["old_root"] then some { ns with host := none } else none
  | .rmdirOld => if ns.host = none ∧ writable ns ["old_root"] then some { ns with dirs := ns.dirs.filter (· != ["old_root"]) } else none
  | .symlink p t => if writable ns p then some { ns with links := ns.links ++ [(p, t)] } else none
  | .remountRootRo => some { ns with mounts := setRo ns.mounts 0 true }

def run (ops : List Op) (ns : NS) : Option NS :=
  ops.foldlM applyOp ns

/-! ### the mount table and the sequence built from it -/

structure MSpec where
  target : Path
  fs : Fs
  bind : Bool
  rdonly : Bool
  isFile : Bool := false        -- bind of a file: the target node is made with mknod
deriving DecidableEq, Repr

def prefixes (p : Path) : List Path := (List.range p.length).map (fun i => p.take (i + 1))

def opsForMount (m : MSpec) : List Op :=
  (if m.isFile then (prefixes m.target).dropLast.map Op.mkdir ++ [Op.mknod m.target] else (prefixes m.target).map Op.mkdir) ++
  [Op.mount m.target m.fs m.bind m.rdonly] ++
  (if m.bind && m.rdonly then [Op.remount m.target true true] else [])

structure Extra where
  symlinks : List (Path × String) := []
  masks : List (Path × Bool) := []      -- (path, is a directory)
deriving DecidableEq, Repr

/-- the whole sequence (both implementations; the raw child has no symlinks and masks) -/
def opsFor (ms : List MSpec) (x : Extra) : List Op :=
  [Op.makePrivate] ++ [Op.mountRoot] ++ ms.flatMap opsForMount ++ [.mkdirOld, .pivot, .umountOld, .rmdirOld] ++
  x.symlinks.flatMap (fun l => (prefixes l.1.dropLast).map Op.mkdir ++ [Op.symlink l.1 l.2]) ++
  x.masks.map (fun m => Op.mount m.1 (if m.2 then Fs.emptyTmpfs else Fs.devnull) (!m.2) m.2) ++
  [.remountRootRo]

/-- what the program can observe of a mount -/
def view (m : Mnt) : Path × Fs × Bool := (m.target, m.fs, m.ro)

end GoSandbox.Model.MountNS
