/-
C18: the regenerated FileSet.IsInSetSmart / dirname / FileSets.Is*File (Gen.C18) run by Go-lite,
for comparison with the hand model Model/FileSet.lean.  Core-only.
-/
import GoSandbox.GoLite.Exec
import GoSandbox.Gen.C18
import GoSandbox.Model.FileSet
namespace GoSandbox.Model.FileSetGen
open GoSandbox.GoLite GoSandbox.Model.FileSet

def lastIndexSlash (s : String) : Int :=
  let cs := s.toList
  match (List.range cs.length).reverse.find? (fun i => cs.getD i ' ' == '/') with
  | some i => i
  | none => -1

def setVal (s : FileSet) : Val :=
  .strct [("Set", .strct (s.set.map (fun k => (String.ofList k, Val.bool true)))), ("SystemRoot", .bool s.systemRoot)]

def ext0 (name : String) (args : List Val) (_ : Env) (w : Unit) : Except String (Val × Unit) :=
  match name, args with
  | "strings.LastIndex", [.str s, .str "/"] => .ok (.int (lastIndexSlash s), w)
  | _, _ => .error s!"unknown call {name}"

def cfg0 : Cfg Unit := { ext := ext0, glob := fun _ => none }

def ext1 (name : String) (args : List Val) (env : Env) (w : Unit) : Except String (Val × Unit) :=
  match name, args with
  | "dirname", [p] =>
    (match runBody cfg0 [] Gen.C18.dirname.body [("path", p)] () 100 with
     | .ok (some [v], _, _) => .ok (v, w)
     | _ => .error "dirname")
  | _, _ => ext0 name args env w

def cfg1 : Cfg Unit := { ext := ext1, glob := fun _ => none }

def genInSet (s : FileSet) (name : Str) : Option Bool :=
  match runBody cfg1 [] Gen.C18.isInSetSmart.body [("name", .str (String.ofList name)), ("s", setVal s)] () (200 + 40 * name.length) with
  | .ok (some [.bool b], _, _) => some b
  | _ => none

/-- the four class predicates of FileSets with `realPath` a parameter -/
def ext2 (rp : Str → Str) (name : String) (args : List Val) (env : Env) (w : Unit) : Except String (Val × Unit) :=
  let inSet (field : String) (n : Val) : Except String (Val × Unit) :=
    match env.get? "s", n with
    | some (.strct fs), .str nm =>
      (match recGet fs field with
       | some sv =>
         (match runBody cfg1 [] Gen.C18.isInSetSmart.body [("name", .str nm), ("s", sv)] () (200 + 40 * nm.length) with
          | .ok (some [v], _, _) => .ok (v, w)
          | _ => .error "isInSetSmart")
       | none => .error "field")
    | _, _ => .error "receiver"
  match name, args with
  | "s.Writable.IsInSetSmart", [n] => inSet "Writable" n
  | "s.Readable.IsInSetSmart", [n] => inSet "Readable" n
  | "s.Statable.IsInSetSmart", [n] => inSet "Statable" n
  | "s.SoftBan.IsInSetSmart", [n] => inSet "SoftBan" n
  | "realPath", [.str n] => .ok (.str (String.ofList (rp n.toList)), w)
  | _, _ => .error s!"unknown call {name}"

def ext3 (rp : Str → Str) (name : String) (args : List Val) (env : Env) (w : Unit) : Except String (Val × Unit) :=
  let sub (f : Func) : Except String (Val × Unit) :=
    match runBody ({ ext := ext2 rp, glob := fun _ => none } : Cfg Unit) [] f.body [("name", args.headD .nil), ("s", (env.get? "s").getD .nil)] () 4000 with
    | .ok (some [v], _, _) => .ok (v, w)
    | _ => .error f.name
  match name with
  | "s.IsWritableFile" => sub Gen.C18.isWritableFile
  | _ => ext2 rp name args env w

def ext4 (rp : Str → Str) (name : String) (args : List Val) (env : Env) (w : Unit) : Except String (Val × Unit) :=
  let sub (f : Func) : Except String (Val × Unit) :=
    match runBody ({ ext := ext3 rp, glob := fun _ => none } : Cfg Unit) [] f.body [("name", args.headD .nil), ("s", (env.get? "s").getD .nil)] () 6000 with
    | .ok (some [v], _, _) => .ok (v, w)
    | _ => .error f.name
  match name with
  | "s.IsReadableFile" => sub Gen.C18.isReadableFile
  | _ => ext3 rp name args env w

def setsVal (fs : FileSets) : Val :=
  .strct [("Writable", setVal fs.writable), ("Readable", setVal fs.readable), ("Statable", setVal fs.statable), ("SoftBan", setVal fs.softBan)]

/-- (writable, readable, statable, softban) of a name by the regenerated code -/
def genClasses (fs : FileSets) (rp : Str → Str) (n : Str) : Option (Bool × Bool × Bool × Bool) :=
  let run (f : Func) : Option Bool :=
    match runBody ({ ext := ext4 rp, glob := fun _ => none } : Cfg Unit) [] f.body [("name", .str (String.ofList n)), ("s", setsVal fs)] () 9000 with
    | .ok (some [.bool b], _, _) => some b
    | _ => none
  match run Gen.C18.isWritableFile, run Gen.C18.isReadableFile, run Gen.C18.isStatableFile, run Gen.C18.isSoftBanFile with
  | some a, some b, some c, some d => some (a, b, c, d)
  | _, _, _, _ => none

/-! ### Handler.Check{Read,Write,Stat}, onDgsFileDetect, CheckSyscall, SyscallCounter.Check (regenerated) -/

def actGlob (n : String) : Option Val :=
  match n with
  | "ptracer.TraceAllow" => some (.str "allow")
  | "ptracer.TraceBan" => some (.str "ban")
  | "ptracer.TraceKill" => some (.str "kill")
  | _ => none

def actOfVal : Val → Option Action
  | .str "allow" => some .allow
  | .str "ban" => some .ban
  | .str "kill" => some .kill
  | _ => none

/-- the handler's calls into its FileSets run the regenerated Is*File; `h.onDgsFileDetect` runs the
regenerated onDgsFileDetect -/
def extH (rp : Str → Str) (fs : FileSets) : Nat → String → List Val → Env → Unit → Except String (Val × Unit)
  | d, name, args, _, w =>
    let cls (f : Func) : Except String (Val × Unit) :=
      match runBody ({ ext := ext4 rp, glob := fun _ => none } : Cfg Unit) [] f.body [("name", args.headD .nil), ("s", setsVal fs)] () 9000 with
      | .ok (some [v], _, _) => .ok (v, w)
      | _ => .error f.name
    match name with
    | "h.FileSet.IsReadableFile" => cls Gen.C18.isReadableFile
    | "h.FileSet.IsWritableFile" => cls Gen.C18.isWritableFile
    | "h.FileSet.IsStatableFile" => cls Gen.C18.isStatableFile
    | "h.FileSet.IsSoftBanFile" => cls Gen.C18.isSoftBanFile
    | "h.onDgsFileDetect" =>
      (match d with
       | 0 => .error "depth"
       | d + 1 =>
         match runBody ({ ext := extH rp fs d, glob := actGlob } : Cfg Unit) [] Gen.C18.onDgsFileDetect.body [("name", args.headD .nil), ("h", .strct [])] () 200 with
         | .ok (some [v], _, _) => .ok (v, w)
         | _ => .error "onDgsFileDetect")
    | _ => .error s!"unknown call {name}"

/-- verdict of the regenerated Handler.Check<class>(n) -/
def genCheck (fs : FileSets) (rp : Str → Str) (c : Cls) (n : Str) : Option Action :=
  let f := match c with | .write => Gen.C18.checkWrite | .read => Gen.C18.checkRead | .stat => Gen.C18.checkStat
  match runBody ({ ext := extH rp fs 2, glob := actGlob } : Cfg Unit) [] f.body [("fn", .str (String.ofList n)), ("h", .strct [])] () 200 with
  | .ok (some [v], _, _) => actOfVal v
  | _ => none

def counterVal (c : Counter) : Val := .strct (c.map (fun p => (String.ofList p.1, Val.int p.2)))

def counterOfVal : Val → Option Counter
  | .strct fs => fs.mapM (fun p => match p.2 with | .int i => some (p.1.toList, i) | _ => none)
  | _ => none

/-- the regenerated SyscallCounter.Check on a map value: (updated map, inside, allow).  The map is a
reference in Go: the write `s[name] = n - 1` is read back from the callee's environment. -/
def genCounterCheck (c : Val) (name : Val) : Except String (Val × Val × Val) :=
  match runBody ({ ext := fun n _ _ _ => .error s!"unknown call {n}", glob := fun _ => none } : Cfg Unit) []
      Gen.C18.counterCheck.body [("name", name), ("s", c)] () 200 with
  | .ok (some [a, b], env, _) => (match env.get? "s" with | some s => .ok (s, a, b) | none => .error "s")
  | _ => .error "Check"

/-- the regenerated Handler.CheckSyscall with the counter map as the world -/
def genCheckSyscall (c : Counter) (name : Str) : Option (Counter × Action) :=
  let cfg : Cfg Val := { ext := fun n args _ w => match n, args with
      | "h.SyscallCounter.Check", [nm] => (match genCounterCheck w nm with
          | .ok (s, a, b) => .ok (.tup [a, b], s)
          | .error e => .error e)
      | _, _ => .error s!"unknown call {n}", glob := actGlob }
  match runBody cfg [] Gen.C18.checkSyscall.body [("syscallName", .str (String.ofList name)), ("h", .strct [])] (counterVal c) 200 with
  | .ok (some [v], _, w) => (match counterOfVal w, actOfVal v with | some c', some a => some (c', a) | _, _ => none)
  | _ => none

/-- the regenerated SyscallCounter.Add -/
def genCounterAdd (c : Counter) (name : Str) (count : Int) : Option Counter :=
  match runBody ({ ext := fun n _ _ _ => .error s!"unknown call {n}", glob := fun _ => none } : Cfg Unit) []
      Gen.C18.counterAdd.body [("count", .int count), ("name", .str (String.ofList name)), ("s", counterVal c)] () 100 with
  | .ok (_, env, _) => (env.get? "s").bind counterOfVal
  | _ => none

/-- all strings over an alphabet up to a length -/
def words (alpha : List Char) : Nat → List Str
  | 0 => [[]]
  | n + 1 => let w := words alpha n; w ++ (w.filter (·.length == n)).flatMap (fun x => alpha.map (fun c => x ++ [c]))

end GoSandbox.Model.FileSetGen
