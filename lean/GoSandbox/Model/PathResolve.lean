/-
C02: path resolution of the ptrace file-access handler.
* `Walk` — the kernel's own resolution of a component list from a directory, as an inductive
  relation (the specification; errors such as ENOENT/ENOTDIR/ELOOP have no derivation);
* `resolve` — hand model of the repaired `resolveTraceePath` (a work-list loop with a link budget);
* lexical string functions of Go's path/filepath used by the code (Clean, Join, Dir, IsAbs, Split);
* `genResolve`/`genAbsPathAt` — the regenerated Go functions run by the Go-lite interpreter on a
  concrete forest (`World`), reading links through the *tracer's* view of /proc.
Core-only.
-/
import GoSandbox.GoLite.Exec
import GoSandbox.Gen.C02
namespace GoSandbox.Model.PathResolve
open GoSandbox.GoLite

abbrev Comp := String
/-- canonical absolute path: the components below the root -/
abbrev CPath := List Comp

inductive Node
  | dir
  | file
  | link (abs : Bool) (target : List Comp)     -- target text split at '/'
deriving Repr, DecidableEq

/-- the tracee's view of its file system -/
structure FS where
  node : CPath → Option Node

def parent (c : CPath) : CPath := c.dropLast

def isLink : Option Node → Bool
  | some (.link _ _) => true
  | _ => false

/-- **specification**: the kernel walks `todo` from directory `cur` with `b` symlink expansions
left and arrives at `r` (every final symlink followed). -/
inductive Walk (fs : FS) : CPath → List Comp → Nat → CPath → Prop
  | done (cur : CPath) (b : Nat) : Walk fs cur [] b cur
  | skip (cur : CPath) (c : Comp) (rest : List Comp) (b : Nat) (r : CPath) :
      (c = "" ∨ c = ".") → Walk fs cur rest b r → Walk fs cur (c :: rest) b r
  | up (cur : CPath) (rest : List Comp) (b : Nat) (r : CPath) :
      Walk fs (parent cur) rest b r → Walk fs cur (".." :: rest) b r
  | plain (cur : CPath) (c : Comp) (rest : List Comp) (b : Nat) (r : CPath) :
      c ≠ "" → c ≠ "." → c ≠ ".." → isLink (fs.node (cur ++ [c])) = false →
      Walk fs (cur ++ [c]) rest b r → Walk fs cur (c :: rest) b r
  | link (cur : CPath) (c : Comp) (rest : List Comp) (b : Nat) (r : CPath) (a : Bool) (t : List Comp) :
      c ≠ "" → c ≠ "." → c ≠ ".." → fs.node (cur ++ [c]) = some (.link a t) →
      Walk fs (if a then [] else cur) (t ++ rest) b r → Walk fs cur (c :: rest) (b + 1) r

/-- **hand model of the repaired resolveTraceePath loop**: `(result, capped)`; `capped` = a link
was met with the budget used up (the code then keeps the name; the kernel fails with ELOOP). -/
def resolve (fs : FS) : Nat → CPath → List Comp → Nat → Option (CPath × Bool)
  | 0, _, _, _ => none
  | _ + 1, cur, [], _ => some (cur, false)
  | fuel + 1, cur, c :: rest, b =>
    if c = "" ∨ c = "." then resolve fs fuel cur rest b
    else if c = ".." then resolve fs fuel (parent cur) rest b
    else match fs.node (cur ++ [c]) with
      | some (.link a t) =>
        match b with
        | 0 => (resolve fs fuel (cur ++ [c]) rest 0).map (fun x => (x.1, true))
        | b' + 1 => resolve fs fuel (if a then [] else cur) (t ++ rest) b'
      | _ => resolve fs fuel (cur ++ [c]) rest b

/-! ### lexical string functions (Go: strings.Split, path/filepath Clean/Join/Dir/IsAbs) -/

def splitSlash (s : String) : List String :=
  let rec go : List Char → List Char → List String
    | [], cur => [String.ofList cur.reverse]
    | c :: rest, cur => if c == '/' then String.ofList cur.reverse :: go rest [] else go rest (c :: cur)
  go s.toList []

def isAbs (s : String) : Bool := s.toList.head? == some '/'

/-- lexical clean of a component list: (components, rooted) -/
def cleanComps (rooted : Bool) : List String → List String → List String
  | [], acc => acc.reverse
  | c :: rest, acc =>
    if c == "" || c == "." then cleanComps rooted rest acc
    else if c == ".." then
      match acc with
      | [] => if rooted then cleanComps rooted rest [] else cleanComps rooted rest [".."]
      | a :: acc' => if a == ".." then cleanComps rooted rest (".." :: a :: acc') else cleanComps rooted rest acc'
    else cleanComps rooted rest (c :: acc)

def clean (s : String) : String :=
  if s == "" then "." else
  let rooted := isAbs s
  let cs := cleanComps rooted (splitSlash s) []
  if rooted then "/" ++ String.intercalate "/" cs
  else if cs.isEmpty then "." else String.intercalate "/" cs

def join (elems : List String) : String :=
  let ne := elems.filter (· != "")
  if ne.isEmpty then "" else clean (String.intercalate "/" ne)

def dir (s : String) : String :=
  let cs := s.toList
  let upto := (cs.reverse.dropWhile (· != '/')).reverse     -- up to and including the last '/'
  clean (String.ofList upto)

def toCPath (s : String) : CPath := cleanComps true (splitSlash s) []
def ofCPath (c : CPath) : String := "/" ++ String.intercalate "/" c

/-! ### concrete forests and the regenerated code -/

structure World where
  pid : Nat := 4242                  -- the tracee
  tracer : Nat := 77                 -- the process reading /proc (what /proc/self means to it)
  cwd : String := "/"
  fds : List (Nat × String) := []    -- open directory descriptors of the tracee (readlink of /proc/pid/fd/N)
  links : List (String × String) := []   -- canonical path ↦ symlink target text (tracee's root)
deriving Repr

/-- the tracee's view as an `FS`: the forest's links plus the two procfs magic names -/
def World.fs (w : World) : FS where
  node p :=
    if p = ["proc", "self"] then some (.link false [toString w.pid])
    else if p = ["proc", "thread-self"] then some (.link false [toString w.pid, "task", toString w.pid])
    else match w.links.find? (fun e => toCPath e.1 = p) with
      | some e => some (.link (isAbs e.2) (splitSlash e.2))
      | none => none

def pext (wd : World) (name : String) (args : List Val) (_ : Env) (w : Unit) : Except String (Val × Unit) :=
  match name, args with
  | "filepath.IsAbs", [.str s] => .ok (.bool (isAbs s), w)
  | "filepath.Clean", [.str s] => .ok (.str (clean s), w)
  | "filepath.Dir", [.str s] => .ok (.str (dir s), w)
  | "filepath.Join", l => .ok (.str (join (l.map (fun v => match v with | .str s => s | _ => "?"))), w)
  | "strings.Split", [.str s, .str "/"] => .ok (.list ((splitSlash s).map Val.str), w)
  | "strings.HasPrefix", [.str s, .str p] => .ok (.bool (s.startsWith p), w)
  | "strings.TrimPrefix", [.str s, .str p] => .ok (.str (if s.startsWith p then String.ofList (s.toList.drop p.length) else s), w)
  | "strconv.Itoa", [.int n] => .ok (.str (toString n), w)
  | "strconv.Atoi", [.str s] => .ok (match s.toNat? with
      | some n => .tup [.int n, .nil] | none => .tup [.int 0, .str "syntax"], w)
  | "getProcCwd", [_] => .ok (.str wd.cwd, w)
  | "readTraceeLink", [_, .str p] =>
    -- the tracer's view: /proc/self is the tracer
    if p == "/proc/self" then .ok (.tup [.str (toString wd.tracer), .bool true], w)
    else if p == "/proc/thread-self" then .ok (.tup [.str s!"{wd.tracer}/task/{wd.tracer}", .bool true], w)
    else match wd.links.find? (fun e => clean e.1 == p) with
      | some e => .ok (.tup [.str e.2, .bool true], w)
      | none => .ok (.tup [.str "", .bool false], w)
  | "fmt.Sprintf", [.str "/proc/%d/fd/%d", .int _, .int fd] => .ok (.str s!"#fd{fd}", w)
  | "os.Readlink", [.str s] =>
    match wd.fds.find? (fun e => s!"#fd{e.1}" == s) with
    | some e => .ok (.tup [.str e.2, .nil], w)
    | none => .ok (.tup [.str "", .str "ENOENT"], w)
  | "#zero", _ => .ok (.nil, w)
  | _, _ => .error s!"unknown call {name}"

def pglob (n : String) : Option Val :=
  match n with
  | "maxSymlinkDepth" => some (.int Gen.C02.maxSymlinkDepth)
  | "atFDCWD" => some (.int (-100))
  | _ => none

def callF (cfg : Cfg Unit) (f : Func) (args : List Val) (fuel : Nat) : Except String Val :=
  match runBody cfg f.results f.body ((f.params.zip args).reverse) () fuel with
  | .ok (some [v], _, _) => .ok v
  | .ok _ => .error s!"{f.name}: no single result"
  | .error e => .error e

def cfg1 (wd : World) : Cfg Unit := { ext := pext wd, glob := pglob }

/-- level 2: calls of resolveTraceePath / normalizeProcMagicPath from the other functions -/
def pext2 (wd : World) (name : String) (args : List Val) (env : Env) (w : Unit) : Except String (Val × Unit) :=
  match name with
  | "resolveTraceePath" => (callF (cfg1 wd) Gen.C02.resolveTraceePath args 6000).map (·, w)
  | "normalizeProcMagicPath" => (callF (cfg1 wd) Gen.C02.normalizeProcMagicPath args 2000).map (·, w)
  | _ => pext wd name args env w

def cfg2 (wd : World) : Cfg Unit := { ext := pext2 wd, glob := pglob }

def pext3 (wd : World) (name : String) (args : List Val) (env : Env) (w : Unit) : Except String (Val × Unit) :=
  match name with
  | "getProcFd" => (callF (cfg2 wd) Gen.C02.getProcFd args 3000).map (·, w)
  | _ => pext2 wd name args env w

def cfg3 (wd : World) : Cfg Unit := { ext := pext3 wd, glob := pglob }

def genResolve (wd : World) (base p : String) : Except String String :=
  match callF (cfg1 wd) Gen.C02.resolveTraceePath [.int wd.pid, .str base, .str p] 6000 with
  | .ok (.str s) => .ok s
  | .ok _ => .error "shape"
  | .error e => .error e

def genAbsPathAt (wd : World) (dirfd : Int) (p : String) : Except String String :=
  match callF (cfg3 wd) Gen.C02.absPathAt [.int wd.pid, .int dirfd, .str p] 3000 with
  | .ok (.str s) => .ok s
  | .ok _ => .error "shape"
  | .error e => .error e

/-- the hand model on a concrete world: start directory `base` (a canonical path), text `p` -/
def modelResolve (wd : World) (base p : String) : Option (String × Bool) :=
  let start : CPath := if isAbs p then [] else toCPath base
  (resolve wd.fs 4000 start (splitSlash p) 40).map (fun r => (ofCPath r.1, r.2))

/-- the same with a link budget `b` in both the regenerated code (its constant replaced) and the hand model -/
def pglobB (b : Nat) (n : String) : Option Val := if n == "maxSymlinkDepth" then some (.int b) else pglob n

def genResolveB (b : Nat) (wd : World) (base p : String) : Except String String :=
  match callF ({ ext := pext wd, glob := pglobB b } : Cfg Unit) Gen.C02.resolveTraceePath [.int wd.pid, .str base, .str p] 6000 with
  | .ok (.str s) => .ok s
  | .ok _ => .error "shape"
  | .error e => .error e

def modelResolveB (b : Nat) (wd : World) (base p : String) : Option (String × Bool) :=
  let start : CPath := if isAbs p then [] else toCPath base
  (resolve wd.fs 4000 start (splitSlash p) b).map (fun r => (ofCPath r.1, r.2))

end GoSandbox.Model.PathResolve
