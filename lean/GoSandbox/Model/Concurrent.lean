/-
C17: the three protocol-level mechanisms that keep concurrent runs in one process apart, as
abstract machines over arbitrary schedules:
(A) descriptor inheritance: descriptors created in the host process vs forks of other runs;
(B) wait routing: which tracer's wait4 can return an event of which process;
(C) the per-environment mutex around an RPC on the shared control socket.
And the structural facts about the source the models depend on (Gen.C17, regenerated).
Core-only.
-/
import GoSandbox.Gen.C17
import GoSandbox.Gen.Consts
namespace GoSandbox.Model.Concurrent

/-! ### (A) descriptors -/

structure Fd where
  id : Nat
  owner : Nat          -- the run that created it
  cloexec : Bool
deriving DecidableEq, Repr

inductive FEv
  | create (run id : Nat) (cloexec : Bool)   -- cloexec: set atomically by the creating call
  | setCloexec (id : Nat)                    -- a later fcntl (the non-atomic way)
  | close (id : Nat)
  | fork (run : Nat)                         -- the run forks its child and the child execs
deriving DecidableEq, Repr

structure FState where
  table : List Fd := []
  /-- (run, descriptors of other runs its program inherited across exec) -/
  leaked : List (Nat × List Nat) := []
deriving DecidableEq, Repr

def fstep (s : FState) : FEv → FState
  | .create r i c => { s with table := ⟨i, r, c⟩ :: s.table }
  | .setCloexec i => { s with table := s.table.map (fun f => if f.id = i then { f with cloexec := true } else f) }
  | .close i => { s with table := s.table.filter (fun f => f.id ≠ i) }
  | .fork r =>
    -- the child gets a copy of the whole table; exec closes the close-on-exec ones
    let foreign := (s.table.filter (fun f => !f.cloexec && f.owner ≠ r)).map (·.id)
    { s with leaked := (r, foreign) :: s.leaked }

def frun (evs : List FEv) (s : FState) : FState := evs.foldl fstep s

def allAtomic (evs : List FEv) : Bool := evs.all (fun e => match e with | .create _ _ c => c | _ => true)

/-! ### (B) wait routing -/

structure Proc where
  pid : Nat
  pgid : Nat
  run : Nat
deriving DecidableEq, Repr

inductive Sel
  | pid (p : Nat)        -- wait4(p)
  | group (g : Nat)      -- wait4(-g)
  | any                  -- wait4(-1)
deriving DecidableEq, Repr

/-- can a wait4 with this selector, issued in the host process, return an event of `p`?
(all sandboxed processes are children of the one host process; ptrace stops of a tracee can be
collected by any thread of the tracer's process that selects it) -/
def selects : Sel → Proc → Bool
  | .pid q, p => p.pid == q
  | .group g, p => p.pgid == g
  | .any, _ => true

/-- the processes of the runs: run i has root pid `root i`; all its processes are in the group of the root -/
def WellGrouped (root : Nat → Nat) (ps : List Proc) : Prop :=
  (∀ p ∈ ps, p.pgid = root p.run) ∧ (∀ i j, root i = root j → i = j) ∧
  (∀ p ∈ ps, ∀ i, p.pid = root i → p.run = i)

/-! ### (C) the environment mutex -/

structure RState where
  holder : Option Nat := none
  phase : Nat := 0                 -- of the holder: 0 acquired, 1 request sent, 2 reply received
  h2c : List Nat := []             -- requests in flight, tagged with the caller
  c2h : List Nat := []             -- replies in flight, tagged with the caller whose request they answer
  got : List (Nat × Nat) := []     -- (caller, whose request the reply it received answers)
deriving DecidableEq, Repr

inductive REv
  | acquire (a : Nat) | send (a : Nat) | serve | recv (a : Nat) | release (a : Nat)
deriving DecidableEq, Repr

/-- with `locked`, a caller only sends/receives while it holds the mutex (every RPC method starts
with c.mu.Lock(); defer c.mu.Unlock()); without, anybody may at any time -/
def rstep (locked : Bool) (s : RState) : REv → RState
  | .acquire a => if locked ∧ s.holder = none then { s with holder := some a, phase := 0 } else s
  | .send a =>
    if locked then (if s.holder = some a ∧ s.phase = 0 then { s with h2c := s.h2c ++ [a], phase := 1 } else s)
    else { s with h2c := s.h2c ++ [a] }
  | .serve => match s.h2c with
    | [] => s
    | r :: rest => { s with h2c := rest, c2h := s.c2h ++ [r] }
  | .recv a =>
    if locked then
      (if s.holder = some a ∧ s.phase = 1 then
        match s.c2h with
        | [] => s
        | r :: rest => { s with c2h := rest, got := (a, r) :: s.got, phase := 2 }
       else s)
    else match s.c2h with
      | [] => s
      | r :: rest => { s with c2h := rest, got := (a, r) :: s.got }
  | .release a => if locked ∧ s.holder = some a ∧ s.phase = 2 then { s with holder := none, phase := 0 } else s

def rrun (locked : Bool) (evs : List REv) (s : RState) : RState := evs.foldl (rstep locked) s

/-! ### facts about the source (regenerated on every run) -/

open GoSandbox.Gen.C17

def idxOf (l : List String) (x : String) : Nat := (l.findIdx? (· == x)).getD l.length

/-- every wait4 of the host side selects the run's own child or its own process group -/
def waitSitesOwn : Bool := waitSites.all (fun s => ["pgid", "-pgid", "pid"].contains s.2.2) && !waitSites.isEmpty

/-- Trace pins the goroutine to its OS thread before anything else and releases it only on return -/
def tracePinned : Bool :=
  traceCalls.take 2 == ["runtime.LockOSThread", "defer runtime.UnlockOSThread"] && traceCalls.contains "t.Runner.Start"

/-- the fork lock is taken before the clone and released after it returned in the parent -/
def forkLockAroundClone : Bool :=
  idxOf forkChildCalls "syscall.ForkLock.Lock" < idxOf forkChildCalls "vfork.RawVforkSyscall" &&
  idxOf forkChildCalls "vfork.RawVforkSyscall" < forkChildCalls.length &&
  idxOf startCalls "forkAndExecInChild" < idxOf startCalls "syscall.ForkLock.Unlock" &&
  idxOf startCalls "syscall.ForkLock.Unlock" < startCalls.length

def hasSubL : List Char → List Char → Bool
  | [], sub => sub.isEmpty
  | c :: r, sub => sub.isPrefixOf (c :: r) || hasSubL r sub

def hasSub (s sub : String) : Bool := hasSubL s.toList sub.toList

/-- every raw descriptor creation of the host side asks for close-on-exec atomically -/
def creationsAtomic : Bool :=
  rawFdCreations.all (fun c => hasSub c.2.2 "CLOEXEC" ||
    (c.2.1 == "unix.MemfdCreate" && hasSub c.2.2 "createFlag" && Gen.Consts.createFlag &&& Gen.Consts.unix_MFD_CLOEXEC != 0)) &&
  rawFdCreations.any (fun c => c.1 == "pkg/forkexec/fork_linux.go") && rawFdCreations.any (fun c => c.1 == "pkg/unixsocket/socket_linux.go")

def usesRpc (m : String × List String) : Bool :=
  m.2.any (fun c => c == "c.sendCmd" || c == "c.recvReply" || c == "c.recvAckReply")

def calledBy (name : String) (m : String × List String) : Bool := m.2.contains ("c." ++ name)

def isLocked (m : String × List String) : Bool := m.2.take 2 == ["c.mu.Lock", "defer c.mu.Unlock"]

/-- every method that talks on the control socket either starts with the mutex, or is only called
from methods that do (transitively, two levels are enough for this code) -/
def rpcUnderMutex : Bool :=
  let ms := containerMethods.filter (fun m => m.1 != "sendCmd" && m.1 != "recvReply")
  let users := ms.filter usesRpc
  users.all (fun m => isLocked m ||
    (let callers := ms.filter (calledBy m.1)
     !callers.isEmpty && callers.all (fun c => isLocked c ||
       (let cc := ms.filter (calledBy c.1)
        !cc.isEmpty && cc.all isLocked)))) &&
  users.length ≥ 7

end GoSandbox.Model.Concurrent
