/-
Model of the hand-off between the container init's command server and its reaper goroutine
(container/container_exec_linux.go handleExecveStarted, container/container_init_linux.go waitLoop):

  server (one started Execve)            reaper (waitLoop, for ever)
    r.Start()            -- program exists   select {
    c.waitPid <- pid     -- unbuffered         case pid := <-c.waitPid:  wait4(pid); c.waitPidResult <- result   (cap 1)
    select {                                   case <-c.waitAll:         for wait4(-1) succeeds {}; c.waitAllDone <- {}  (cap 1)
      kill command:  kill(-1); ret = <-c.waitPidResult; c.waitAll <- {}   }
      ret = <-c.waitPidResult:  kill(-1); c.waitAll <- {}
    }
    (reply / consume the kill)
    <-c.waitAllDone

Kernel: wait4(pid) collects the program once it is a zombie and fails with ECHILD when somebody else
collected it; wait4(-1) collects ANY zombie child of init — a program of a later run included — blocks
while children live and none is a zombie, and fails with ECHILD when init has no child at all.
Processes the program leaves behind are abstracted to two flags (some are alive / some are zombies):
collecting a zombie may or may not have been the last one, so the model covers any number of them.

`Variant` selects the server: the code as it is (`real`), and two variants used as witnesses that the
final `<-c.waitAllDone` on every path is what the properties rest on.  Core-only.
-/
namespace GoSandbox.Model.Reaper

inductive PSt | running | zombie | gone
deriving DecidableEq, Repr

inductive Variant
  | real
  | noWaitDone               -- the server does not wait for the end of the reaping (serves the next command at once)
  | killBranchReturnsEarly   -- the kill branch returns right after its reply, the result branch waits
deriving DecidableEq, Repr

inductive Srv
  | idle                        -- in serve(), between commands
  | started                     -- r.Start() returned: the program exists; next `c.waitPid <- pid`
  | select_                     -- handed over; waiting for the kill command or the result
  | killed                      -- kill branch: kill(-1) done; next `<-c.waitPidResult`
  | gotResult (viaKill : Bool)  -- result in hand and kill(-1) done; next `c.waitAll <- {}`
  | sentAll (viaKill : Bool)    -- reaping requested, reply sent; next `<-c.waitAllDone`
deriving DecidableEq, Repr

inductive Rp
  | atSelect
  | waiting                     -- in wait4(pid) for the program handed over last
  | haveResult (own : Bool)     -- next `c.waitPidResult <- r` (own = the program's own wait status; false = ECHILD)
  | reapingAll                  -- in the wait4(-1) loop
  | haveDone                    -- next `c.waitAllDone <- {}`
deriving DecidableEq, Repr

structure St where
  srv : Srv := .idle
  rp : Rp := .atSelect
  resBuf : Option Bool := none   -- c.waitPidResult (capacity 1)
  doneBuf : Bool := false        -- c.waitAllDone (capacity 1)
  prog : PSt := .gone            -- the program of the latest run
  living : Bool := false         -- processes left behind by programs: some are alive
  zombies : Bool := false        -- ... some are zombies
  runs : Nat := 0                -- programs started so far
  reported : List Bool := []     -- per result the server took: was it the program's own wait status?
deriving DecidableEq, Repr

structure Cfg where
  v : Variant
  maxRuns : Nat

def init : St := {}

/-- kill(-1, SIGKILL) by init: everything else in the namespace dies (becomes a zombie of init) -/
def killAll (s : St) : St :=
  { s with prog := if s.prog = .running then .zombie else s.prog, living := false, zombies := s.zombies || s.living }

def steps (g : Cfg) (s : St) : List St :=
  -- the host sends an Execve and the program is started (r.Start()): possible whenever the server is in serve()
  (if s.srv = .idle ∧ s.runs < g.maxRuns ∧ s.prog = .gone then [{ s with srv := .started, prog := .running, runs := s.runs + 1 }] else []) ++
  -- the program creates processes that it will leave behind / ends on its own
  (if s.prog = .running then [{ s with living := true }, { s with prog := .zombie }] else []) ++
  -- a process left behind dies on its own (possibly the last living one)
  (if s.living then [{ s with zombies := true }, { s with living := false, zombies := true }] else []) ++
  -- c.waitPid <- pid (unbuffered: needs the reaper in its select)
  (if s.srv = .started ∧ s.rp = .atSelect then [{ s with srv := .select_, rp := .waiting }] else []) ++
  -- reaper: wait4(pid)
  (match s.rp, s.prog with
   | .waiting, .zombie => [{ s with prog := .gone, rp := .haveResult true }]
   | .waiting, .gone => [{ s with rp := .haveResult false }]           -- ECHILD: somebody else collected it
   | _, _ => []) ++
  -- reaper: c.waitPidResult <- r
  (match s.rp, s.resBuf with
   | .haveResult b, none => [{ s with resBuf := some b, rp := .atSelect }]
   | _, _ => []) ++
  -- server select: the kill command arrives (cancellation / time limit on the host side), at any moment
  (if s.srv = .select_ then [{ killAll s with srv := .killed }] else []) ++
  -- server select: the result arrives first
  (match s.srv, s.resBuf with
   | .select_, some b => [{ killAll { s with resBuf := none } with srv := .gotResult false, reported := s.reported ++ [b] }]
   | .killed, some b => [{ s with resBuf := none, srv := .gotResult true, reported := s.reported ++ [b] }]
   | _, _ => []) ++
  -- c.waitAll <- {} (unbuffered)
  (match s.srv, s.rp with
   | .gotResult k, .atSelect => [{ s with srv := .sentAll k, rp := .reapingAll }]
   | _, _ => []) ++
  -- reaper: one turn of the wait4(-1) loop
  (if s.rp = .reapingAll then
     (if s.zombies then [{ s with zombies := true }, { s with zombies := false }] else []) ++   -- a zombie left behind (maybe the last)
     (if s.prog = .zombie then [{ s with prog := .gone }] else []) ++                          -- ANY zombie child: a program too
     (if s.prog = .gone ∧ ¬ s.living ∧ ¬ s.zombies then [{ s with rp := .haveDone }] else [])  -- ECHILD: no child left
   else []) ++
  -- reaper: c.waitAllDone <- {}
  (if s.rp = .haveDone ∧ ¬ s.doneBuf then [{ s with doneBuf := true, rp := .atSelect }] else []) ++
  -- server: the end of handleExecveStarted
  (match s.srv with
   | .sentAll k =>
     let waits := match g.v with
       | .real => true
       | .noWaitDone => false
       | .killBranchReturnsEarly => !k
     if waits then (if s.doneBuf then [{ s with doneBuf := false, srv := .idle }] else [])
     else [{ s with srv := .idle }]
   | _ => [])

def insertNew (seen : List St) (xs : List St) : List St × List St :=
  xs.foldl (fun (acc : List St × List St) x => if acc.1.contains x then acc else (x :: acc.1, x :: acc.2)) (seen, [])

def explore (g : Cfg) : Nat → List St → List St → List St
  | 0, seen, _ => seen
  | fuel + 1, seen, frontier =>
    if frontier.isEmpty then seen else
    let nxt := frontier.flatMap (fun s => (steps g s).filter (fun t => t != s))
    let (seen', new) := insertNew seen nxt
    explore g fuel seen' new

def reachableFrom (g : Cfg) (s : St) : List St := explore g 200 [s] [s]

/-- the set is closed under `steps`: it contains every state reachable from its members -/
def closed (g : Cfg) (l : List St) : Bool := l.all (fun s => (steps g s).all (fun t => l.contains t))

/-- nothing is going on: server in serve(), reaper in its select, both buffers empty, init has no child -/
def quiet (s : St) : Bool :=
  s.srv == .idle && s.rp == .atSelect && s.resBuf == none && !s.doneBuf && s.prog == .gone && !s.living && !s.zombies

/-- no step possible other than staying put -/
def stuck (g : Cfg) (s : St) : Bool := ((steps g s).filter (fun t => t != s)).isEmpty

end GoSandbox.Model.Reaper
