/-
Batch file operations of the container protocol (C14): container side `handleOpen` /
`checkOpenTargetFile` (hand model + Go-lite run of the regenerated functions) and host side
`Open` (hand model; the Go function uses a deferred closure).  Core-only.
-/
import GoSandbox.GoLite.Exec
import GoSandbox.Gen.C14
namespace GoSandbox.Model.Batch
open GoSandbox.GoLite

/-- what is at a requested path inside the container -/
inductive Kind | absent | regular | symlink | fifo | dir | socket | device | lstatFails
deriving DecidableEq, Repr

structure OpenCmd where
  path : String
  kind : Kind            -- what lstat finds there (possibly planted by an earlier program)
  mkdirAll : Bool := false
  mkdirFails : Bool := false
  openFails : Bool := false   -- OpenFile itself fails (permissions, flags, …)
deriving DecidableEq, Repr

/-- Go: checkOpenTargetFile — only an absent path or a regular file may be opened -/
def checkTarget (k : Kind) : Bool := k == .absent || k == .regular

/-- container side: per item an error string ("" = success) at the item's index, and the opened
files compacted in order (file k of the result is the k-th success) -/
def containerOpen : List OpenCmd → Nat → List String × List (Nat × String)
  | [], _ => ([], [])
  | c :: rest, nextFd =>
    if c.mkdirAll && c.mkdirFails then
      let r := containerOpen rest nextFd; ("mkdir" :: r.1, r.2)
    else if !checkTarget c.kind then
      let r := containerOpen rest nextFd; ("not-regular" :: r.1, r.2)
    else if c.openFails then
      let r := containerOpen rest nextFd; ("open-failed" :: r.1, r.2)
    else
      let r := containerOpen rest (nextFd + 1); ("" :: r.1, (nextFd, c.path) :: r.2)

inductive Res
  | file (fd : Nat) (path : String)
  | err (msg : String)
deriving DecidableEq, Repr

/-- host side loop of `Open`: walk the error list, take the next descriptor for every success.
`none` = the reply is inconsistent (fewer descriptors than successes). -/
def assign : List String → List (Nat × String) → List String → Option (List Res)
  | [], _, _ => some []
  | e :: es, fds, p :: ps =>
    if e ≠ "" then (assign es fds ps).map (Res.err e :: ·)
    else match fds with
      | [] => none
      | (fd, _) :: fr => (assign es fr ps).map (Res.file fd p :: ·)
  | _ :: _, _, [] => none

/-- Go: `(*container).Open` after a reply arrived: result, and the descriptors it closed -/
def hostOpen (paths : List String) (errs : List String) (fds : List (Nat × String)) : Option (List Res) × List Nat :=
  if errs.length ≠ paths.length then (none, fds.map (·.1))
  else match assign errs fds paths with
    | some rs => (some rs, [])           -- surplus descriptors are kept open by nobody: see C14 note
    | none => (none, fds.map (·.1))      -- everything received is closed (files already wrapped + the rest)

/-! ### Go-lite run of the regenerated container side -/

structure FW where
  kinds : List (String × Kind)
  mkdirFails : List String := []
  openFails : List String := []
  nextFd : Nat := 10
  opened : List (Nat × String) := []
  reply : Option (List String × List Nat) := none
  errReply : Bool := false

def kindOf (w : FW) (p : String) : Kind := ((w.kinds.find? (fun x => x.1 == p)).map (·.2)).getD .absent

def kindName : Kind → String
  | .absent => "absent" | .regular => "regular" | .symlink => "symlink" | .fifo => "fifo" | .dir => "dir"
  | .socket => "socket" | .device => "device" | .lstatFails => "lstatFails"

def lstatVal (w : FW) (p : String) : Val :=
  match kindOf w p with
  | .absent => .tup [.nil, .str "ENOENT"]
  | .lstatFails => .tup [.nil, .str "EACCES"]
  | k => .tup [.strct [("kind", .str (kindName k))], .nil]

/-- externals of the regenerated checkOpenTargetFile (it only reads the file system) -/
def checkExt (name : String) (args : List Val) (env : Env) (w : FW) : Except String (Val × FW) :=
  match name, args with
  | "os.Lstat", [.str p] => .ok (lstatVal w p, w)
  | "errors.Is", [e, t] => .ok (.bool (Val.beq e t), w)
  | "fi.Mode", [] => .ok (match env.get? "fi" with | some (.strct fs) => (recGet fs "kind").getD .nil | _ => .nil, w)
  | "#.IsRegular", [.str k] => .ok (.bool (k == "regular"), w)
  | "fmt.Errorf", _ => .ok (.str "not-regular", w)
  | _, _ => .error s!"unknown call {name}"

def globF (n : String) : Option Val := if n == "os.ErrNotExist" then some (.str "ENOENT") else none

def checkCfg : Cfg FW := { ext := checkExt, glob := globF }

def fext (name : String) (args : List Val) (env : Env) (w : FW) : Except String (Val × FW) :=
  match name, args with
  | "filepath.Dir", [.str p] => .ok (.str (p ++ "/.."), w)
  | "os.MkdirAll", [.str d, _] => .ok (if w.mkdirFails.contains d then .str "mkdir failed" else .nil, w)
  | "err.Error", [] => .ok ((env.get? "err").getD .nil, w)
  | "os.OpenFile", [.str p, _, _] =>
    if w.openFails.contains p then .ok (.tup [.nil, .str "open-failed"], w)
    else .ok (.tup [.strct [("fd", .int w.nextFd)], .nil], { w with nextFd := w.nextFd + 1, opened := w.opened ++ [(w.nextFd, p)] })
  | "outFile.Fd", [] => .ok (match env.get? "outFile" with | some (.strct fs) => (recGet fs "fd").getD .nil | _ => .nil, w)
  | "c.sendErrorReply", _ => .ok (.nil, { w with errReply := true })
  | "c.sendReplyFiles", [.strct r, .strct m, _] =>
    let errs := match recGet r "BatchErrors" with | some (.list l) => l.map (fun v => match v with | .str s => s | _ => "?") | _ => []
    let fds := match recGet m "Fds" with | some (.list l) => l.map (fun v => match v with | .int i => i.toNat | _ => 0) | _ => []
    .ok (.nil, { w with reply := some (errs, fds) })
  | "checkOpenTargetFile", [.str p] =>
    (match runBody checkCfg [] Gen.C14.checkOpenTargetFile.body [("path", .str p)] w 200 with
     | .ok (some [v], _, w) => .ok (v, w)
     | .ok _ => .error "checkOpenTargetFile did not return"
     | .error e => .error e)
  | _, _ => .error s!"unknown call {name}"

def fcfg : Cfg FW := { ext := fext, glob := globF }

def genContainerOpen (cmds : List OpenCmd) : Except String (List String × List Nat × List (Nat × String)) :=
  let w : FW := { kinds := cmds.map (fun c => (c.path, c.kind)),
                  mkdirFails := (cmds.filter (fun c => c.mkdirAll && c.mkdirFails)).map (fun c => c.path ++ "/.."),
                  openFails := (cmds.filter (·.openFails)).map (·.path) }
  let open_ : Val := .list (cmds.map (fun c => Val.strct [("Path", .str c.path), ("Flag", .int 0), ("Perm", .int 0), ("MkdirAll", .bool c.mkdirAll)]))
  match runBody fcfg [] Gen.C14.handleOpen.body [("open", open_), ("c", .nil)] w 4000 with
  | .ok (_, _, w) => match w.reply with
    | some (errs, fds) => .ok (errs, fds, w.opened)
    | none => if w.errReply then .ok ([], [], []) else .error "no reply"
  | .error e => .error e

end GoSandbox.Model.Batch
